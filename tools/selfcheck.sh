#!/bin/bash
# Runs every registered quick check on /repo's current tree and the self-tests; exits non-zero if any check fails,
# a seed is stale / does not fire, a seeded change is not detected or a benign patch raises an alarm.
cd "$(dirname "$0")/.."
rc=0
for id in $(python3 -c "import json;print(' '.join(c['property_id'] for c in json.load(open('MANIFEST.json'))['checks']))"); do
  ./check $id quick > /tmp/selfcheck-$id.out 2>&1; e=$?
  s=$(grep '^summary' /tmp/selfcheck-$id.out | head -1)
  seeds=$(echo "$s" | sed -n 's/.*seeds=\([0-9]*\)\/\([0-9]*\).*/\1 \2/p')
  set -- $seeds
  [ "$e" = 0 ] && [ "$1" = "$2" ] || { echo "FAIL $id exit=$e $s"; rc=1; }
done
python3 - <<'PY' || rc=1
import json,glob,sys
bad=0
for f in sorted(glob.glob('evidence/C*.json')):
    c=json.load(open(f))['coverage']
    for b in c.get('benign_changes') or []:
        if b['status']!='silent': print('FALSE ALARM',f,b); bad=1
    for s in c.get('seeded_changes') or []:
        if 'detected' not in json.dumps(s): print('NOT DETECTED',f,s); bad=1
sys.exit(bad)
PY
[ $rc = 0 ] && echo "selfcheck ok"
exit $rc
