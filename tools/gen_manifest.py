#!/usr/bin/env python3
"""Regenerates /verif/MANIFEST.json from the table below (kept next to the checker so the
claims and the rules evolve together)."""
import json, os

NA = []

# property -> (technique, level text, level note, design ref)
CLAIMED = {
 "C08": ("type-resolved value-flow query over the bootstrap wiring + the C07 lock typestate rules",
         "One structural clause outside the generated code that the Raft invariants need: each of the 12 per-server state variables is bound, in all five archetype contexts of a server, to MakeLocalShared() of one LocalSharedManager created once per server (optionally wrapped by MakePersistent), no two variables alias one manager, and the shared cell is accessed under strict two-phase locking with a capacity-1 lock (RAFT-WIRING + LS-2PL + LS-CAP1). The invariants themselves (ElectionSafety, LogMatching, LeaderCompleteness, StateMachineSafety, LeaderAppendOnly) are NOT decided: they are spec-level facts; divergence of raftkvs.go from the model-checked spec is reported under C02.",
         "trusts go/types and go/cfg; the list of shared variables is read off the archetype parameters of raftkvs.tla and frozen in the checker",
         "DESIGN.md section 4, C08"),
 "C02": ("purely syntactic translation validation: MPCal front end + re-implemented normalisation on the spec side, inverted code-generator templates on the Go side, fully grouped parse trees compared",
         "For every checked-in spec/Go pair (23, discovered by the MakeMPCalJumpTable literal) each critical section, archetype/procedure table entry and operator definition of the generated Go is compared token by token with the canonical rendering of the MPCal source after the compiler's own normalisations (macro expansion, label flattening with synthetic gotos, while->if, multiple-assignment desugaring); every resource read must be used exactly once; every Goto/Call target must exist in the tables. An edit of generated Go (or of a spec) that changes an operator, operand, constant, index, target, statement or drops/adds a read is reported with the first differing token. It does not cover the PlusCal back end or the Scala compiler itself.",
         "trusts that checker/specmatch mirrors MPCalNormalizePass / MPCalGoCodegenPass (validated: all 533 obligations of the 23 pairs agree on the pinned tree) and the Scala symbol tables read by checker/scalatab",
         "DESIGN.md section 4, C02"),
 "C10": ("CFG rules on fairness.go and Run + a query over every generated critical-section literal (252) for choice ids, either-switch cases and with-selection bounds",
         "Decides the structural clauses of 'choices in range, every combination tried': returned counts are range-checked and digits initialised modulo their ceiling (FC-RANGE); the oracle is advanced exactly once per attempt between the .pc read and Body, keyed by the label (FC-BEGIN); the odometer increment starts at the deepest digit, visits every digit, stores modulo the digit's ceiling and propagates the carry, label change resets and id/bound change truncates (FC-CARRY); in all generated code choice ids are distinct literals per critical section, either-switches have exactly the cases 0..n-1 and with-selections use Len of the same set after the empty-set abort (FC-IDS). The combinatorial exactly-once claim over run-time attempt sequences is not decided.",
         "trusts go/types and go/cfg", "DESIGN.md section 4, C10"),
 "C13": ("CFG guard rules and composite-literal/value-flow queries on crdt.go + field-effect sets",
         "Decides that every state sent to a peer is getStableValue() (snapshot exactly while a section writes, under the lock); that the merger updates the snapshot too so Abort cannot discard merged peer state; that the broadcast budget is armed in Commit; that every received state is queued and only the merger drains the queue; and that Abort restores every field the section operations write. Eventual delivery/convergence (liveness) is not decided.",
         "trusts go/types and go/cfg; two defects found by these rules were repaired in /repo (fix: 9b0fc854, 07041e5d)", "DESIGN.md section 4, C13"),
 "C18": ("CFG dominance/guard rules on Run/commit/abort/Read/Write + per-carrier value-flow query for the commit-time clock",
         "Decides that each attempt is begun once and logged exactly once (commit events only past the pre-commit test and after all resource commits; abort events after all rollbacks); accesses are recorded only by Read/Write, only on success, with that operation's name/indices/value; the own clock component is incremented exactly once per attempt between BeginEvent and Body and the logged clock is read from the sink at logging time; Read witnesses the value's clock before stripping and Write wraps with the writer's clock; the old-value hint receiver is armed/disarmed around WriteValue; value carriers attach the writer's clock at commit (two mailbox carriers are recorded known findings, demonstrated). Replayability of reads and multi-hop dominance are not decided.",
         "trusts go/types and go/cfg; one defect repaired in /repo (fix: e3e63bc1), two recorded in known_findings.json", "DESIGN.md section 4, C18"),
 "C19": ("CFG guard/path rules on Monitor.RunArchetype, SingleFailureDetector.mainLoop and ReadValue + field-effect purity",
         "Decides that RunArchetype stores alive before Run, finished/failed on every normal exit according to Run's error and failed on every path after a recovered panic; that every poll iteration stores a state, the dial-error/RPC-error/timeout successors store the constant failed, a reply is stored only without error and timeout, ErrShutdown forces a re-dial and reply/completion channel are per-poll; that ReadValue writes nothing, cannot wait longer than one Sleep(pullInterval) and maps uninitialized->abort, alive->FALSE, every other state->TRUE. The k-polling-interval bound (timing) is not decided.",
         "trusts go/types and go/cfg", "DESIGN.md section 4, C19"),
 "C06": ("CFG guard/dominance rules on every reader/writer mailbox and channel type + field-effect and async-join rules",
         "Decides, on all paths of the TCP receiver, the TCP sender and the five reader resources, the structural clauses of transactional FIFO delivery: publish only on the commit tag after a successful ack, whole buffer as one record, buffer reset on begin and after publishing (MB-PUBLISH); Abort re-queues in-progress reads in front, Abort and Commit clear them (MB-REDELIVER); the backlog is served before the channel and every returned message is recorded (MB-BACKLOGFIRST); tag protocol exhaustive and conditioned on the section flag, section finished only after the decoded ack (MB-TAGS); resend buffer mirrors what was sent (MB-RESEND); OutputChan buffers until Commit, sends in order, and an asynchronous Commit/Abort/PreCommit is joined through its returned channel (CH-DEFER, ASYNC-JOIN); length counts pending messages only (MB-LEN); plus the RES-RESTORE/RES-PUBLISH instances. The history property (no loss/duplication/reordering over all interleavings) itself is not decided.",
         "trusts go/types, go/cfg and the reader-type table (backlog / in-progress / channel field names per type) in checker/rules/mailbox.go",
         "DESIGN.md section 4, C06"),
 "C07": ("typestate (lock held / not held) decided by guard and dominance queries on the CFGs of localShared and LocalSharedManager",
         "Decides strict two-phase locking structurally: the shared cell is reachable only on the success successor of tryEnsureLock; hasLock is set only after acquireWithTimeout returned true; release only in Commit/Abort (under hasLock, after the inner commit/abort, once, clearing hasLock) and paired in GetState; acquisition is a select with a time.After arm returning false and true only from the send arm; the untimed acquire only in GetState; lock channel capacity is the constant 1; cell and lock referenced only by the owning types. Serial equivalence of histories is implied by 2PL but not itself decided.",
         "trusts go/types and go/cfg",
         "DESIGN.md section 4, C07"),
 "C17": ("CFG guard/dominance rules on Run, Stop, cleanupResources and the nested-context adapter; lock-region recognition (Lock + deferred Unlock)",
         "Decides the lifecycle protocol on all paths: the exit request is sent at most once (under runStateLock, flag tested and set on the same path, capacity-1 channel) so no Stop can block while holding the lock Run's epilogue needs; awaitExit is closed only under the lock and only once (non-blocking-receive guard, or Run's epilogue which is registered only for a context that never ran and was not stopped); every path of Stop waits for awaitExit, outside the lock; every loop iteration polls requestExit before BeginEvent/Body/commit; cleanupResources closes every resource, is called exactly from the epilogue and its error is merged; map resources close all realised elements; nested contexts report exactly once and are collected. Timing bounds are not decided.",
         "trusts go/types and go/cfg; one defect found by STOP-ONCE was repaired in /repo (fix: b0814347)",
         "DESIGN.md section 4, C17"),
 "C01": ("who-may-call, field-effect-set and CFG ordering rules over every ArchetypeResource implementation (types.Implements) and the critical-section driver",
         "Decides the structural transaction protocol behind atomicity for all 36 resource implementations and for Run/commit/abort/Read/Write on all paths: lifecycle methods are called only by the driver or a same-named forwarding method (RES-OWNER); every field a section operation may write is written by Abort, snapshot fields are maintained (RES-RESTORE); wrappers/maps forward to and dirty-track their children (RES-FORWARD); value-carrying channel sends and file/database writes are reachable only from Commit (RES-PUBLISH); no Commit before the pre-commit error test, errors accumulate, dirty sets are cleared, Run aborts on the aborted arm and feeds commit errors back (CS-ORDER); handles are marked dirty before the resource is touched (CS-DIRTY); sentinels are never wrapped (ERR-SENTINEL); live cells are never re-bound (RES-NOREBIND). It decides that the protocol is followed, not that each Abort restores the right value.",
         "trusts go/types, go/cfg and the reasoned exception tables (restoreExceptions, publishExceptions, RES-OWNER exceptions) in checker/rules/resources.go",
         "DESIGN.md section 4, C01"),
 "C04": ("CFG dominance/ordering rules on ArchetypeInterface.Call/Return/TailCall + call-graph reachability of the ctx.resources store",
         "Decides that section-time code can reach the store ctx.resources[h]=.. only under an absence test (RES-NOREBIND; otherwise recursion saves zero values), that the .stack cell is written only with sequence constructors and its value is never used as a function (KIND-STACK), and that Call saves before binding, records the return label, pushes at the head after the loop, then runs the preamble and jumps; Return pops with Tail and writes every pair of Head back; TailCall takes the label before Return() (CALL-ORDER). Value-correctness over all call graphs is not decided.",
         "trusts go/types and go/cfg; two defects found by these rules were repaired in /repo (fix: commits 59f41d35, 73701ef6)",
         "DESIGN.md section 4, C04"),
 "C03": ("AST/CFG + type-resolved value-flow rules over package tla; lexical cross-check of the Scala operator tables",
         "Necessary structural conditions of 'evaluates as TLA+ defines or fails loudly, never hangs' decided for every function of package tla on all paths: iterator loops advance (ITER-ADVANCE, workspace-wide); no truncating / or % and no unchecked int32 arithmetic reaches MakeNumber (DIVMOD-FLOOR, ARITH-CHECKED); comparison and non-commutative arithmetic operators apply the Go operator their symbol names to the operands in source order, a..b counts lhs..rhs inclusive (OP-RELATION); f @@ g lets the left operand win (OVERRIDE-DIR); explicit panics wrap ErrTLAType (PANIC-TYPED); sequence accesses are bounds-checked and 1-based (SEQ-BOUNDS, INDEX-BASE); map lookups never discard their ok result (GET-OK-USED); all operands are used (PARAM-USED); SUBSET is not provably linear (CARD-BOUND); every operator the compiler can emit exists with the declared arity (OPTABLE). Value-level correctness of every operator on every input is not decided.",
         "trusts go/types+go/cfg, the exception tables (one symbol + reason each) and that the accepted idioms listed in DESIGN.md section 4/C03 are the only sound ones",
         "DESIGN.md section 4, C03"),
 "C05": ("type-level query over all 42 packages (go/types) + AST shape rules on Hash/Equal/Gob methods",
         "Decides for every comparison, switch and map type of the workspace that Go identity is never applied to a type containing tla.Value (VAL-IDENTITY); that no persistent update result is discarded (PURE-UNUSED); that Value.data is never dereferenced without a nil check and value kinds see other values only through the Value API, which forwards through the causal wrapper (EQ-NILSAFE, DATA-ENCAPSULATED); that unordered kinds hash commutatively (HASH-COMMUT); that the hash map confirms every bucket hit with Equal (HASHMAP-EQ); that GobEncode/GobDecode pairs agree in type sequence and loop structure and every value kind / CRDT type is gob-registered (GOB-PAIR, GOB-REG). These are necessary conditions of coherent equality/hash/encoding; the algebraic laws themselves are not decided.",
         "trusts go/types and the rule code; 4 map-key sites are recorded as known findings (known_findings.json)",
         "DESIGN.md section 4, C05"),
 "C11": ("type-level identity query on the 2PC source file + CFG rules on twopc.go",
         "Decides the transport-independence clause (no ==, !=, switch or map key on tla.Value in the 2PC source: gob-decoded ids are fresh pointers) and the acceptor/proposer rules on the control-flow graphs of twopc.go: versions only grow (TPC-VERSION); a failed pre-commit and an aborted pre-committed section roll back (TPC-RELEASE); every request type is handled and answered (TPC-EXHAUST); an Abort releases only its owner's pre-commit, pre-commits respect the local section state, installing a value releases a decided pre-commit and poisons the section in flight (TPC-ACCEPTOR). Agreement / progress over all message schedules are not decided.",
         "trusts go/types; the senderTimes map is a recorded known finding (cannot be repaired without editing the unedited test's struct literal)",
         "DESIGN.md section 4, C11"),
 "C12": ("type-resolved discarded-result query + gob shape rules over the CRDT value types",
         "Decides shape-level necessary conditions of the CRDT semilattice laws: no update of a persistent collection / clock / CRDT value computed in Merge or Write is discarded (PURE-UNUSED); max-map merges store a peer's entry only when absent or strictly greater (MERGE-MONO) and decide each component from that component alone (MERGE-COMPONENT); AWORSet.Write starts a fresh clock only when neither map knows the element (WRITE-INFLATES); Merge/Read are pure functions of their arguments (MERGE-PURE); the three CRDT types encode and decode the same gob sequence and are registered (GOB-PAIR, GOB-REG). The laws on all reachable states are not decided.",
         "trusts go/types and the callee table of persistent operations (immutable.Map/List/SortedMap, tla.VClock, CRDTValue)",
         "DESIGN.md section 4, C12"),
}

# rules added in the second round (mutation-sweep and second wave of independent changes); appended to the level text
ADD = {
 "C01": " Round 2: the error of every section-time operation stops the operation (ERR-PROPAGATE) and a failed I/O step never falls through to the success path inside a resource (IO-ERR); every channel a resource or child returns is returned, awaited, asserted nil or collected and drained, a refused pre-commit is never overwritten (RES-JOIN, CS-ORDER join clauses, ASYNC-JOIN returned-channel-signalled); first-touch snapshots are taken once per section (SNAPSHOT-ONCE); Index hands out the stable, recorded child (RES-FORWARD).",
 "C03": " Round 2: decision table of the operator library (OP-DECISION: which elements set operators keep, quantifier / CHOOSE / refinement polarity, floor-division and modulo adjustments, range and emptiness preconditions) compared with the CFG path conditions on every assignment of the guard atoms; iterators are created for the loop that consumes them (ITER-FRESH); unordered kinds hash commutatively (HASH-COMMUT).",
 "C04": " Round 2: every state variable is saved into the frame in every iteration, the i-th argument is bound only while i < len(args), errors of the runtime operations used by Call/Return/TailCall stop them (CALL-ORDER clauses, ERR-PROPAGATE).",
 "C05": " Round 2: decision table of value equality and vector clocks (VAL-DECISION), strings print through strconv.Quote (STR-QUOTE), gob decode loops use a fresh destination (GOB-FRESH), iterators are fresh (ITER-FRESH).",
 "C06": " Round 2: a failed send/ack step never falls through (IO-ERR); every message of a received batch is kept (batch-conserved); the begin arm resets the buffer on every path; gob decode loops use a fresh destination.",
 "C07": " Round 2: acquire sends / release receives the lock token on every path; GetState locks exactly when the sharer does not hold the lock.",
 "C08": " Round 2 (RAFT-FIDELITY): the server archetypes of raftkvs.go, their table entries and operator definitions are, section by section, the image of raftkvs.tla (the SPEC-MATCH comparison restricted to the server side). The invariants are known for the model-checked specification and carry over only to an implementation that takes exactly its steps; this is the basis of the argument rather than a logical necessary condition, and client-side sections are deliberately ignored.",
 "C11": " Round 2: decision table of the 2PC resource (TPC-DECISION, 42 rows: accept / reject / record / release / adopt / poison conditions of the acceptor, quorum arithmetic, version of outgoing requests, section entry/exit) compared with exact CFG path conditions; forward section states are never stored for a poisoned section and never across a mutex release (TPC-POISON); a failed Abort/Commit send always returns to the retry condition (TPC-RETRY).",
 "C12": " Round 2: every component of every operand of Merge / compare is traversed (OPERAND-TRAVERSED); set writes are recorded unconditionally (WRITE-UNCOND); decode loops use a fresh destination (GOB-FRESH).",
 "C13": " Round 2 (CRDT-SECTION, SNAPSHOT-ONCE): snapshot / restore / arm polarity, the write is applied, a tick is skipped only when the budget is spent, budget and reply handled only for successful calls, constructor starts broadcaster and merger, blocking hand-off to the merger.",
 "C17": " Round 2: Stop's case analysis (request only while running; close only when not running, first time, flag set), the exit poll only after the previous outcome was dispatched, nested Close stops and collects unconditionally, a nested context signals 'stopped' on every exit.",
 "C18": " Round 2: oldValueHint deposits through the armed receiver and disarms it; the recorder gets &oldValue exactly when the receiver was consumed; VClock.Merge folds one operand into the other (VCLOCK-MERGE); VAL-DECISION rows for VClock.",
 "C19": " Round 2 (FD-WIRING): both setState functions store their argument, IsAlive answers with the recorded state exactly when one is recorded, the constructor starts the polling loop, a completed call's error is examined, ensureClient dials when needed.",
}
# rules added in the third round
ADD3 = {
 "C01": " Round 3: local variables store, witness and merge unconditionally (LOCAL-RES); first-touch snapshots are taken once per section (SNAPSHOT-ONCE); decision table of the Raft persistent-log resource (PLOG-DECISION); 2PC replies carry the committed value only (TPC-COMMITTED-ONLY); the hashmap's key list stays in step with its buckets, so map resources commit/abort every element (HASHMAP-KEYS); the Run loop's outcome dispatch is decided as decision rows. An obligation that cannot be decided fails the check.",
 "C02": " Round 3: the comparison is on parse trees - spec expressions are parsed with the front end's own precedence-climbing scheme and the precedence table read from TLAMeta.scala, junction lists by bullet column, and both sides are rendered with every operator application explicitly grouped, so a regrouping that keeps token order ((r+1)*N vs r+1*N, Len(s)+1 vs Len(s+1)) is a mismatch while redundant parentheses and bullet/infix spellings are not; a lifted read must sit directly before the statement that uses it (MISPLACED-READ).",
 "C04": " Round 3: a tail call never skips the callee's preamble (TailCall:no-shortcut); a ref parameter is resolved on every use (reads-pointer-every-time); LOCAL-RES.",
 "C06": " Round 3: MB-DECISION (decoded message delivered exactly on success, backlog served exactly when non-empty, relaxed sender's sent flag, timed connection wrappers); every message returned by the relaxed mailbox is recorded as in progress.",
 "C07": " Round 3: wrappers forward Abort/PreCommit/Commit/Close to the wrapped shared variable on every path (RES-FORWARD on-every-path, with a frozen table of legitimately conditional forwards); the bootstrap binds each shared variable to one manager per server in all archetypes (RAFT-WIRING).",
 "C08": " Round 3: PLOG-DECISION for the persistent log resource the server archetypes write their log through.",
 "C10": " Round 3: FC-DECISION, the decision table of the odometer (reset only on label change, truncate only on id/bound change, push only at the top, carry exactly when a digit reaches its bound).",
 "C11": " Round 3: TPC-COMMITTED-ONLY - reject and GetState replies carry oldValue (the committed value), never the working copy.",
 "C12": " Round 3: CRDT-DECISION - decision table of the CRDT value types (component-wise max / later timestamp, the clock-comparison verdict machine, add-wins and last-writer-wins visibility).",
 "C13": " Round 3: field assignments to a reply are covered by CRDT-STABLE; SNAPSHOT-ONCE.",
 "C17": " Round 3: HASHMAP-KEYS - every element a map resource created is enumerated by Keys() and therefore closed; the requestExit channel has capacity for the one request Stop makes while holding the state lock.",
 "C18": " Round 3: TRACE-DECISION (recorder and clock plumbing on/off), LOCAL-RES, LEN-CLOCK (the mailbox-length view merges the clocks of exactly the backlog it counts and returns that clock).",
 "C19": " Round 3: FD-LOCK-SHORT - the detector's and the monitor's state locks are held across field accesses only (no dial, RPC, sleep, wait, channel operation or unknown call before the release), so a read never waits for a dial timeout; a final state computed by a helper is read through the helper.",
}
# rules added in the fourth round
ADD4 = {
 "C01": " Round 4: decision table of the file element and the persistent wrapper (STORE-DECISION); OutputChan.Commit forgets what it sent; a failed wire operation ends the sender's connection before anything else happens on it (MB-CONN-DROP); what the CRDT merger folds into the rollback snapshot is the received state alone (CRDT-SNAPSHOT).",
 "C02": " Round 4: a guard that leaves the section other than by the await abort / assertion failure is a mismatch; the runtime's goto/call/return semantics (CALL-ORDER, KIND-STACK) are decided under this property as well; specifications can be mutated in memory, so spec-side edits are part of the self-tests.",
 "C05": " Round 4: GOB-WHOLE - a hand-written GobEncode ships the whole value (components of the receiver itself, announced lengths, every element on every path, every collection-typed field).",
 "C06": " Round 4: MB-CONN-DROP (a failed exchange ends the connection, so a stale reply is never read as the reply to a retried section), ONESHOT-FRESH (a time.After channel bounds one wait), DEADLINE-SCOPED (a deadline armed on a connection is cleared before the function returns), OutputChan.Commit forgets what it sent.",
 "C07": " Round 4: ONESHOT-FRESH for the timed acquire; CELL-RESTORE (the cell behind a shared variable and its wrappers are rolled back by Abort) and CS-ORDER (the driver aborts / commits every dirty handle) are decided under this property as well: releasing the lock at Abort is serializable only if the cell was rolled back first.",
 "C08": " Round 4: the five contexts of a server get the ids of the specification's five process sets (RAFT-WIRING self-id clauses).",
 "C12": " Round 4: GOB-WHOLE (see C05) - an entry filtered out before encoding is an update lost in transport.",
 "C13": " Round 4: the merge rules of the CRDT value types (MERGE-COMPONENT, MERGE-MONO, OPERAND-TRAVERSED, CRDT-DECISION, GOB-WHOLE) are decided under this property too, since 'received state is never lost' depends on them; every broadcast call has its own deadline (ONESHOT-FRESH); the snapshot is merged with the received state only.",
 "C17": " Round 4: NESTED-DECISION (protocol table of the nested-archetype resource); RUN-OUTCOME (the runtime's wrappers hand on what Run returned, not a shadowing variable), CLOSE-BOUNDED (Close waits on no counter that only protocol messages reset), no call runs between Run's gate and the registration of its epilogue.",
 "C18": " Round 4: VClock.Merge returns the accumulator, or an operand only where the other is empty.",
 "C19": " Round 4: DEADLINE-SCOPED (no absolute deadline is left on a served connection), the rpc.ErrShutdown test is made for every RPC error, ONESHOT-FRESH.",
}

# properties claimed in round 5 through spec fidelity + protocol tables over the specification
CLAIMED.update({
 "C09": ("translation validation restricted to the Raft store (parse-tree comparison) + decision table over the specification's parse trees (truth-table comparison of path conditions) + bootstrap value-flow query",
         "Linearizability itself (a predicate over all concurrent histories, schedules and crashes) is NOT decided. Decided are the two static halves of the argument that it holds for the implementation whenever it holds for the model-checked specification: KV-FIDELITY - every critical section of raftkvs.go (servers and client), every table entry and operator definition is the image of raftkvs.tla; RAFT-DECISION - a protocol table over raftkvs.tla itself (about 90 rows incl. the label graph of the six archetypes: quorum = strict majority, vote granting, term adoption, AppendEntries consistency check / truncate / append, match-index bookkeeping, commit of current-term entries agreed by a quorum, answers exactly for applied entries with the request's own index, the client's numbering / stale-response filter / retry conditions), compared as boolean functions of the guards' atoms, so an edit made consistently in the specification and the Go (fidelity intact) is still reported; RAFT-WIRING + LS-2PL + LS-CAP1 - the per-server state including the applied store is one copy shared by the five archetypes under 2PL; NETLEN-WIRING - the client's length view observes its own mailboxes.",
         "trusts go/types, the checker's MPCal front end and the protocol table in checker/rules/spectables.go (a deliberate protocol change has to change the table); the safety of the tabled protocol is the specification's (model-checking) business",
         "DESIGN.md section 4, C09"),
 "C14": ("translation validation restricted to pbkvs + decision table over the specification's parse trees + a channel-capacity rule on the client front end",
         "ConsistencyOK / linearizability over all schedules and crash sequences are NOT decided. Decided: PB-FIDELITY - pbkvs.go is section by section the image of pbkvs.tla; PB-DECISION - protocol table over pbkvs.tla (about 50 rows incl. the label graph: answer only after every live backup acknowledged, replicate to every other replica, next version per Put, a new primary synchronises before serving and adopts strictly newer versions, backups apply only newer synchronisation values, clients filter by request id and retry only on detected failure), compared by truth table; RESP-RENDEZVOUS - the client front end's response channel has capacity 0, so the late answer of a timed-out request is never handed to the next call; NETLEN-WIRING - the length view bound to netLen observes the mailboxes bound to net.",
         "trusts go/types, the checker's MPCal front end and the protocol table in checker/rules/spectables.go",
         "DESIGN.md section 4, C14"),
 "C15": ("translation validation restricted to locksvc + decision table over the specification's parse trees",
         "Mutual exclusion / FIFO service over all interleavings are NOT decided. Decided: LOCK-FIDELITY - locksvc.go is section by section the image of locksvc.tla; LOCK-DECISION - protocol table over locksvc.tla (16 rows incl. the label graph: grant at once exactly on an empty queue, append every requester, unlock pops the head and grants the new head, nothing else is sent, the client enters only on a grant), compared by truth table.",
         "trusts go/types, the checker's MPCal front end and the protocol table in checker/rules/spectables.go",
         "DESIGN.md section 4, C15"),
 "C16": ("translation validation restricted to the eight systems + decision tables over their specifications + the 2PC and CRDT value-type rules of C11/C12",
         "The invariants over all schedules are NOT decided. Decided: SYS-FIDELITY - each of the eight generated systems is section by section the image of its specification (every assertion included); SYS-DECISION - protocol tables over the specifications (about 120 rows incl. the label graphs; proxy: accepts only the awaited reply, gives up only on detected failure, reports failure after the last backend; queue / load balancer pairing; nested CRDT: first-touch snapshot, merge on commit, committed state only is broadcast; replicated KV: minimum clock over all live clients, stability below every clock, stable requests popped and answered in order; counters), compared by truth table; the 2PC rules (TPC-*) because the shared counter rests on the 2PC resource, and the CRDT value-type rules (CRDT-DECISION, MERGE-*, OPERAND-TRAVERSED, WRITE-*) because the CRDT systems' 'equal knowledge reads equal values, counters never decrease' rests on them.",
         "trusts go/types, go/cfg, the checker's MPCal front end and the tables in checker/rules/spectables.go",
         "DESIGN.md section 4, C16"),
})
_RT = " Round 5: the runtime rules of C01 (atomic critical sections: driver ordering, rollback, forwarding, joins, error propagation) and C06 (mailboxes / channels as reliable FIFO exactly-once links) are decided under this property as well - the specification's invariants are argued for atomic labelled steps over such links, and a change that breaks either (a dirty-set that forgets read-last variables, a receiver that publishes before acknowledging) breaks them in the generated system."
ADD5 = {
 "C09": _RT, "C14": _RT, "C15": _RT, "C16": _RT,
 "C08": _RT + " RAFT-DECISION - a protocol table over raftkvs.tla itself (quorum, vote granting, term adoption, log-consistency check, truncate / append, commit rule, apply loop), compared by truth table, so that an edit made consistently in the specification and the Go is still reported.",
 "C13": " Round 5: value and snapshot absorb the same received state (CRDT-SNAPSHOT snapshot-merges-what-the-value-merges).",
}
# rules added in the seventh round
_CTX = " CTX-ROLLBACK: every field of MPCalContext written by the section-time API (ArchetypeInterface methods and their callees in the driver) is reset by abort()/commit(), scoped to the call by a deferred clear, or a named insert-only registry."
ADD7 = {
 "C01": " Round 7:" + _CTX,
 "C02": " Round 7:" + _CTX + " HASHMAP-KEYS (map resources commit / abort the elements their key list names).",
 "C03": " Round 7: the equality rules of the value kinds (VAL-DECISION, DATA-ENCAPSULATED, EQ-NILSAFE) are decided under this property too; MakeFunctionSet is always built from the domain.",
 "C04": " Round 7:" + _CTX + " SNAPSHOT-ONCE and LOCAL-RES (the frame, .pc and the procedure variables are local cells that TailCall writes several times in one section: the rollback target is taken once).",
 "C05": " Round 7: GOB-FIELDS (a hand-written GobEncode names every field, or the field is a memo one function fills lazily), GOB-LOSSLESS (what is written per element is the element or a lossless image of it), RPC-REPLY-FRESH (a fresh reply object per RPC: gob leaves absent fields alone).",
 "C06": " Round 7: HASHMAP-KEYS / HASHMAP-EQ (the mailboxes of a node are elements of an IncMap, committed through the key list); ADDR-PURE (see C19).",
 "C10": " Round 7: FC-DELEGATE - every path of ArchetypeInterface.NextFairnessCounter returns what the configured counter answers for the same (id, ceiling).",
 "C11": " Round 7: RPC-REPLY-FRESH; TPC-RETRY no-replica-skipped (abort / commit are broadcast to every replica, not to the ones that acknowledged).",
 "C12": " Round 7: GOB-FIELDS, GOB-LOSSLESS (see C05).",
 "C13": " Round 7: GOB-FIELDS, GOB-LOSSLESS (see C05): a timestamp that loses precision on the wire changes who wins.",
 "C17": " Round 7: FD-HANDSHAKE (Close hands the failure detector's loop its stop token exactly when the loop announced itself; test and action within one hold of the write lock); MB-CONN-DROP (a connection closed after a failed exchange is forgotten, else Close closes it again and Run's clean-up reports an error); CS-ORDER.",
 "C18": " Round 7: EV-NAMES (a handle is labelled with the name it was asked for on every path that hands it out); CLK-COMMITSTAMP on every path of Commit; CS-ORDER, ATTEMPT-ONCE.",
 "C19": " Round 7: ADDR-PURE - no function that computes an address handed to a resources constructor in the systems' bootstrap code touches a package-level variable the program changes at run time.",
}
# round 8
_CTX8 = " Round 8: the protocol tables freeze the context of every row (rules/spec_context.txt): an atom of the specification's path condition that is neither in the row's condition nor in that context is new, and the tabled effect must not depend on it - a guard added around a tabled decision, consistently in specification and Go, is reported."
ADD8 = {
 "C01": " Round 8: LS-2PL (the end of a section touches a shared cell only while this handle holds the lock).",
 "C02": " Round 8: the operator rules of C03 (OVERRIDE-DIR, OP-DECISION, OP-RELATION, DIVMOD-FLOOR, SEQ-BOUNDS, INDEX-BASE, FUNC-DECISION, SELECT-DECISION, ARITH-CHECKED) are decided under this property too: the values a step assigns are computed by the operator library.",
 "C06": " Round 8: MB-LEN asks-the-mailbox (the length view returns what mailbox.length() computed for this very read).",
 "C07": " Round 8: LS-2PL cell-use-only-while-holding for Abort / Commit.",
 "C08": _CTX8, "C09": _CTX8 + " FRONTEND-ANSWER (see C14).", "C15": _CTX8, "C16": _CTX8,
 "C14": _CTX8 + " FRONTEND-ANSWER: an API call of the client front end reports success only from the select arm that received this call's answer; the abandoning (timeout) arm reports an error.",
}
ADD9 = {
 "C18": " Round 9: CLK-MONOTONE - every assignment to a tla.VClock field of the runtime extends the field (Merge / Inc on itself); a clock rolled back on Abort can fall behind a section already logged with it.",
 "C02": " Round 9: one more normal form for the comparison, used when the plain ones disagree: operands of =, #, +, *, \\cup, \\cap and members of set literals in lexical order, `IF (a # b)` read as the negation of `IF (a = b)`.",
 "C07": " Round 9: HASHMAP-KEYS (the shared variables of one IncMap are committed / released through the key list).",
 "C11": " Round 9: TPC-STALE - the receiver skips only a message strictly older than the last one it processed from that sender.",
 "C13": " Round 9: CRDT-ARM arm-exactly-when-the-section-wrote and ack-counts-only-for-the-state-it-acknowledges (the latter reported a defect of the pinned tree, repaired by fix 4e69691a); CRDT-DIAL (every unconnected peer is dialled on every round).",
 "C17": " Round 9: FD-HANDSHAKE leaves-only-with-the-stop-token; NESTED-COLLECT (exit reports of nested contexts are received by Close alone).",
 "C19": " Round 9: FD-DIAL (the dial happens exactly when there is no client or a re-dial was requested), FD-MONITOR (a server goroutine per accepted connection; the state table is written by setState alone).",
}
for d in (ADD, ADD3, ADD4, ADD5, ADD7, ADD8, ADD9):
    for k, v in d.items():
        t = CLAIMED[k]
        CLAIMED[k] = (t[0], t[1] + v, t[2], t[3])

def main():
    here = os.path.dirname(os.path.dirname(os.path.abspath(__file__)))
    checks = []
    for pid in sorted(CLAIMED):
        tech, text, note, ref = CLAIMED[pid]
        cat = "translation_validation" if pid == "C02" else "other"
        checks.append({
            "property_id": pid,
            "quick_cmd": f"./check {pid} quick",
            "thorough_cmd": f"./check {pid} thorough",
            "evidence_file": f"/verif/evidence/{pid}.json",
            "replay_cmd_template": "cat {path}",
            "engine": "pgocheck",
            "level_claimed": {"category": cat, "text": text, "design_ref": ref},
            "level_note": note,
            "technique": "static analysis: " + tech,
        })
    na = [{"property_id": p, "reason": r} for p, r in NA]
    claimed = set(CLAIMED)
    allp = [json.loads(l)["id"] for l in open(os.path.join(here, "properties.jsonl"))]
    for p in allp:
        if p not in claimed and p not in [x for x, _ in NA]:
            na.append({"property_id": p, "reason": "not yet claimed: the rules for this property are still being built (see DESIGN.md section 8, build order); no check is registered until its rules are armed and pass on the unchanged tree"})
    man = {
        "version": 1,
        "setup_cmd": "cd /verif/checker && GOFLAGS=-mod=vendor GOPROXY=off GOTOOLCHAIN=local go1.26.8 build -o /verif/bin/pgocheck ./cmd/pgocheck",
        "hooks": {
            "guard": "verif",
            "enable": "none: static analysis needs no instrumentation; /repo is analysed as it is (no hook commits)",
            "baseline_off_cmd": "for m in $(cat /w/out/gomods.txt); do MF=$(cd /repo/$m && . /w/out/goenv.sh && gomodflag); (cd /repo/$m && go test $MF -json -vet=off -count=1 -timeout 25m ./...); done",
            "source_commits": [],
            "add_only": True,
        },
        "engines": [{"name": "pgocheck", "path": "/verif/checker", "serves_properties": sorted(CLAIMED),
                     "kind_free_text": "repository-specific static analyser (go/packages + go/types + go/cfg, x/tools v0.50.0 vendored); one binary, one rule file per rule family"}],
        "checks": checks,
        "not_applicable": sorted(na, key=lambda x: x["property_id"]),
        "notes": "Technique family: static analysis only. Every check loads /repo's go.work workspace, type-checks it and decides (rule, construct) obligations; nothing from /repo is executed. fix: commits in /repo and recorded findings are listed in /verif/known_findings.json.",
    }
    json.dump(man, open(os.path.join(here, "MANIFEST.json"), "w"), indent=1)
    print("wrote MANIFEST.json with", len(checks), "checks,", len(na), "not_applicable")

main()
