#!/bin/bash
# usage: verify_queue.sh "<name> <src> <mods...>" ...   (sequential)
for item in "$@"; do
  set -- $item
  name=$1; src=$2; shift 2
  "$(dirname "$0")"/verify_seeded.sh $name $src "$@" > /tmp/vs-$name.log 2>&1
  grep -h "^RESULT\|KEPT" /tmp/vs-$name.log
done
