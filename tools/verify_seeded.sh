#!/bin/bash
# usage: verify_seeded.sh <name> <out-dir-of-agent>/mutK [module dirs to test ...]
# Confirms in a scratch worktree that: demo passes on clean HEAD; patch applies, builds; the listed modules'
# existing tests pass with the patch; demo fails with the patch. Copies the change to /verif/seeded/<name>/.
set -u
NAME="$1"; SRC="$2"; shift 2
MODS="${@:-distsys}"
WT=/tmp/vw-$NAME
LOG=/tmp/vw-$NAME.log
exec > >(tee "$LOG") 2>&1
git -C /repo worktree remove --force "$WT" 2>/dev/null
git -C /repo worktree add -q --detach "$WT" HEAD || exit 2
cleanup() { git -C /repo worktree remove --force "$WT" 2>/dev/null; rm -rf "$WT"; }
trap cleanup EXIT
run() { unshare -rn bash -c "ip link set lo up 2>/dev/null; $*"; }
echo "== demo on clean HEAD"
run "bash '$SRC/demo/run.sh' '$WT'"; CLEAN=$?
echo "clean demo exit=$CLEAN"
echo "== apply patch"
git -C "$WT" apply "$SRC/patch.diff" || { echo "PATCH DOES NOT APPLY"; exit 3; }
BUILD=0; TESTS=0
for m in $MODS; do
  echo "== build+test $m with patch"
  (cd "$WT/$m" && go build ./... ) || BUILD=1
  OUT=/tmp/vw-$NAME-test.out
  run "cd '$WT/$m' && go test -vet=off -count=1 -timeout 20m ./... > $OUT 2>&1"; T=$?
  grep -E "^(FAIL|ok|--- FAIL|panic)" $OUT | head -20; rm -f $OUT
  echo "tests $m exit=$T"
  [ $T = 0 ] || TESTS=1
done
echo "== demo with patch"
run "bash '$SRC/demo/run.sh' '$WT'"; MUT=$?
echo "mutated demo exit=$MUT"
echo "RESULT name=$NAME clean_demo=$CLEAN build=$BUILD existing_tests=$TESTS mutated_demo=$MUT"
if [ -n "${NOKEEP:-}" ]; then
  echo "NOKEEP: result only"
elif [ "$CLEAN" = 0 ] && [ "$BUILD" = 0 ] && [ "$TESTS" = 0 ] && [ "$MUT" != 0 ]; then
  mkdir -p /verif/seeded/$NAME && cp "$SRC/patch.diff" /verif/seeded/$NAME/ && rm -rf /verif/seeded/$NAME/demo && cp -r "$SRC/demo" /verif/seeded/$NAME/demo && cp "$SRC/meta.json" /verif/seeded/$NAME/agent_meta.json
  python3 - "$NAME" "$MODS" <<'PY'
import json,sys,os
name,mods=sys.argv[1],sys.argv[2]
d='/verif/seeded/'+name
a=json.load(open(d+'/agent_meta.json'))
meta={"property": name.split('-')[0],
      "summary": a.get("summary"),
      "needs_to_manifest": a.get("needs_to_manifest"),
      "files_touched": a.get("files_touched"),
      "origin": "written by a sub-agent that saw only the property text and a scratch worktree; nothing from /verif",
      "confirmed_by_me": {"how": "tools/verify_seeded.sh in a scratch worktree of /repo HEAD inside a private network namespace",
                           "demo_on_clean_head": "passes (exit 0)", "patch_applies_and_builds": True,
                           "existing_tests_with_patch": {m: "pass" for m in mods.split()},
                           "demo_with_patch": "fails (exit != 0)"},
      "agent_tests_run": a.get("tests_run")}
json.dump(meta,open(d+'/meta.json','w'),indent=1)
os.remove(d+'/agent_meta.json')
PY
  echo "KEPT /verif/seeded/$NAME"
else
  echo "NOT KEPT"
fi
