#!/bin/bash
# usage: bp.sh <pending-name>  : alarms of every property on one pending benign patch
cd "$(dirname "$0")/.."
d=benign_pending/$1
[ -d "$d" ] || d=benign_more/$1; [ -d "$d" ] || d=benign/$1
for id in C01 C02 C03 C04 C05 C06 C07 C08 C09 C10 C11 C12 C13 C14 C15 C16 C17 C18 C19; do
  out=$(./bin/pgocheck -prop $id -noseeds -patch $d/patch.diff 2>&1); e=$?
  if [ $e != 0 ]; then echo "== $1 $id"; echo "$out" | grep -A2 "^VIOLATED\|^UNDECIDED\|^ANCHOR-LOST\|mutate:\|left alone" | cut -c1-330 | head -${2:-30}; fi
done
