#!/bin/bash
# Runs every property on every patch under benign_pending/ (4 at a time) and lists the alarms.
cd "$(dirname "$0")/.."
run() {
  d=$1; n=$(basename $d)
  for id in C01 C02 C03 C04 C05 C06 C07 C08 C09 C10 C11 C12 C13 C14 C15 C16 C17 C18 C19; do
    out=$(./bin/pgocheck -prop $id -noseeds -patch $d/patch.diff 2>&1); e=$?
    if [ $e != 0 ]; then echo "== $n $id"; echo "$out" | grep "^VIOLATED\|^UNDECIDED\|^ANCHOR-LOST\|mutate:" | cut -c1-200 | head -12; fi
  done
}
export -f run
ls -d benign_pending/${1:-}*/ benign_more/${1:-}*/ 2>/dev/null | xargs -P 6 -I{} bash -c 'run {}' 
