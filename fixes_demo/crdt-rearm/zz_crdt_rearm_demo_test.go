package resources

import (
	"net"
	"net/rpc"
	"sync"
	"testing"
	"time"

	"github.com/DistCompiler/pgo/distsys"
	"github.com/DistCompiler/pgo/distsys/tla"
)

// A peer that answers slowly: it records the totals it is sent.
type slowPeer struct {
	delay time.Duration
	mu    sync.Mutex
	got   []int32
	first chan struct{}
	once  sync.Once
}

func (p *slowPeer) ReceiveValue(args ReceiveValueArgs, reply *ReceiveValueResp) error {
	p.mu.Lock()
	p.got = append(p.got, args.Value.Read().AsNumber())
	p.mu.Unlock()
	p.once.Do(func() { close(p.first) })
	time.Sleep(p.delay)
	*reply = ReceiveValueResp{Value: args.Value}
	return nil
}

// A section that commits while the broadcast of the previous state is still waiting for its acknowledgements re-arms the
// broadcast budget; the acknowledgements of the OLD state must not use that budget up, or the new state is never sent.
func TestCommittedUpdateDuringBroadcastIsStillSent(t *testing.T) {
	peer := &slowPeer{delay: 400 * time.Millisecond, first: make(chan struct{})}
	srv := rpc.NewServer()
	if err := srv.RegisterName("CRDTRPCReceiver", peer); err != nil {
		t.Fatal(err)
	}
	l, err := net.Listen("tcp", "127.0.0.1:23602")
	if err != nil {
		t.Fatal(err)
	}
	defer l.Close()
	go srv.Accept(l)

	self, other := tla.MakeNumber(1), tla.MakeNumber(2)
	addr := func(id tla.Value) string {
		if id.Equal(self) {
			return "127.0.0.1:23601"
		}
		return "127.0.0.1:23602"
	}
	// the peer list names the OTHER nodes only
	res := NewCRDT(self, []tla.Value{other}, addr, GCounter{}, WithCRDTBroadcastInterval(20*time.Millisecond), WithCRDTSendTimeout(3*time.Second))
	defer res.Close()
	iface := distsys.ArchetypeInterface{}

	if err := res.WriteValue(iface, tla.MakeNumber(1)); err != nil {
		t.Fatal(err)
	}
	res.Commit(iface)
	select {
	case <-peer.first:
	case <-time.After(3 * time.Second):
		t.Fatal("the first state was never broadcast")
	}
	// the peer is now holding its answer back: commit a second increment meanwhile
	if err := res.WriteValue(iface, tla.MakeNumber(1)); err != nil {
		t.Fatal(err)
	}
	res.Commit(iface)
	time.Sleep(2 * time.Second)
	peer.mu.Lock()
	defer peer.mu.Unlock()
	max := int32(0)
	for _, v := range peer.got {
		if v > max {
			max = v
		}
	}
	if max != 2 {
		t.Fatalf("the peer was sent totals %v: the second committed increment (total 2) was never broadcast", peer.got)
	}
}
