package specmatch

import (
	"fmt"
	"strings"
)

// ---------------------------------------------------------------- macro expansion

func substExpr(e Expr, sub map[string]Expr) Expr {
	if len(sub) == 0 {
		return e
	}
	var out Expr
	for i, t := range e {
		if t.Kind == 'i' {
			if rep, ok := sub[t.S]; ok {
				// not a record field name after '.', not a record key before |-> or ':' inside a record constructor
				prevDot := i > 0 && e[i-1].S == "."
				nextArrow := i+1 < len(e) && e[i+1].S == "|->"
				if !prevDot && !nextArrow {
					out = append(out, Tok{S: "(", Kind: 'o', Line: t.Line})
					out = append(out, rep...)
					out = append(out, Tok{S: ")", Kind: 'o', Line: t.Line})
					continue
				}
			}
		}
		out = append(out, t)
	}
	return out
}

func substStmts(ss []Stmt, sub map[string]Expr) []Stmt {
	var out []Stmt
	for _, s := range ss {
		out = append(out, substStmt(s, sub))
	}
	return out
}

func substStmt(s Stmt, sub map[string]Expr) Stmt {
	switch x := s.(type) {
	case *Labeled:
		return &Labeled{x.base, x.Label, substStmts(x.Body, sub)}
	case *Assign:
		n := &Assign{base: x.base}
		for _, p := range x.Pairs {
			l := LHS{Name: p.L.Name}
			if rep, ok := sub[p.L.Name]; ok {
				// the argument must be a plain identifier
				var ids []Tok
				for _, t := range rep {
					if t.S != "(" && t.S != ")" {
						ids = append(ids, t)
					}
				}
				if len(ids) == 1 && ids[0].Kind == 'i' {
					l.Name = ids[0].S
				} else {
					panic(parseError{fmt.Sprintf("line %d: macro argument for assigned parameter %s is not an identifier", x.Line, p.L.Name)})
				}
			}
			for _, pr := range p.L.Projs {
				l.Projs = append(l.Projs, substExpr(pr, sub))
			}
			n.Pairs = append(n.Pairs, AssignPair{l, substExpr(p.R, sub)})
		}
		return n
	case *If:
		return &If{x.base, substExpr(x.Cond, sub), substStmts(x.Then, sub), substStmts(x.Else, sub)}
	case *Either:
		n := &Either{base: x.base}
		for _, c := range x.Cases {
			n.Cases = append(n.Cases, substStmts(c, sub))
		}
		return n
	case *While:
		return &While{x.base, substExpr(x.Cond, sub), substStmts(x.Body, sub)}
	case *With:
		n := &With{base: x.base}
		for _, d := range x.Decls {
			n.Decls = append(n.Decls, WithDecl{d.Name, d.IsSet, substExpr(d.Val, sub)})
		}
		n.Body = substStmts(x.Body, sub)
		return n
	case *Await:
		return &Await{x.base, substExpr(x.Cond, sub)}
	case *Assert:
		return &Assert{x.base, substExpr(x.Cond, sub)}
	case *Print:
		return &Print{x.base, substExpr(x.Val, sub)}
	case *Call:
		n := &Call{base: x.base, Proc: x.Proc}
		for _, a := range x.Args {
			na := CallArg{Ref: a.Ref, Name: a.Name, E: substExpr(a.E, sub)}
			if a.Ref {
				if rep, ok := sub[a.Name]; ok && len(rep) == 1 {
					na.Name = rep[0].S
				}
			}
			n.Args = append(n.Args, na)
		}
		return n
	case *MacroCall:
		n := &MacroCall{base: x.base, Name: x.Name}
		for _, a := range x.Args {
			n.Args = append(n.Args, substExpr(a, sub))
		}
		return n
	}
	return s
}

func (sp *Spec) expandMacros(ss []Stmt, depth int) []Stmt {
	if depth > 20 {
		panic(parseError{"macro expansion too deep"})
	}
	var out []Stmt
	for _, s := range ss {
		switch x := s.(type) {
		case *MacroCall:
			m := sp.Macros[x.Name]
			if m == nil {
				panic(parseError{fmt.Sprintf("line %d: call of unknown macro %s", x.Line, x.Name)})
			}
			if len(m.Params) != len(x.Args) {
				panic(parseError{fmt.Sprintf("line %d: macro %s expects %d arguments", x.Line, x.Name, len(m.Params))})
			}
			sub := map[string]Expr{}
			for i, p := range m.Params {
				sub[p] = x.Args[i]
			}
			out = append(out, sp.expandMacros(substStmts(m.Body, sub), depth+1)...)
		case *Labeled:
			out = append(out, &Labeled{x.base, x.Label, sp.expandMacros(x.Body, depth)})
		case *If:
			out = append(out, &If{x.base, x.Cond, sp.expandMacros(x.Then, depth), sp.expandMacros(x.Else, depth)})
		case *Either:
			n := &Either{base: x.base}
			for _, c := range x.Cases {
				n.Cases = append(n.Cases, sp.expandMacros(c, depth))
			}
			out = append(out, n)
		case *While:
			out = append(out, &While{x.base, x.Cond, sp.expandMacros(x.Body, depth)})
		case *With:
			out = append(out, &With{x.base, x.Decls, sp.expandMacros(x.Body, depth)})
		default:
			out = append(out, s)
		}
	}
	return out
}

// ---------------------------------------------------------------- label flattening (MPCalNormalizePass)

func containsLabels(s Stmt) bool {
	any := func(ss []Stmt) bool {
		r := false
		for _, x := range ss {
			if containsLabels(x) {
				r = true
			}
		}
		return r
	}
	switch x := s.(type) {
	case *Labeled:
		return true
	case *Either:
		r := false
		for _, c := range x.Cases {
			if any(c) {
				r = true
			}
		}
		return r
	case *If:
		a, b := any(x.Then), any(x.Else)
		return a || b
	case *While:
		return any(x.Body)
	case *With:
		return any(x.Body)
	}
	return false
}

func findLabelAfter(rest []Stmt, labelAfter *string) *string {
	if len(rest) == 0 {
		return labelAfter
	}
	if l, ok := rest[0].(*Labeled); ok {
		return &l.Label
	}
	return nil
}

func allLabeled(ss []Stmt) []*Labeled {
	var out []*Labeled
	for _, s := range ss {
		l, ok := s.(*Labeled)
		if !ok {
			panic(parseError{fmt.Sprintf("line %d: unlabelled statement where only labelled blocks may follow", s.line())})
		}
		out = append(out, l)
	}
	return out
}

func transBlocks(blocks []*Labeled, labelAfter *string) []*Labeled {
	var out []*Labeled
	for i, ls := range blocks {
		var rest []Stmt
		for _, r := range blocks[i+1:] {
			rest = append(rest, r)
		}
		if len(ls.Body) > 0 {
			if w, ok := ls.Body[0].(*While); ok {
				lbl := ls.Label
				bodyT, bodyB := flatten(w.Body, &lbl)
				afterT, afterB := flatten(ls.Body[1:], findLabelAfter(rest, labelAfter))
				out = append(out, &Labeled{ls.base, ls.Label, []Stmt{&If{w.base, w.Cond, bodyT, afterT}}})
				out = append(out, bodyB...)
				out = append(out, afterB...)
				continue
			}
		}
		st, sb := flatten(ls.Body, findLabelAfter(rest, labelAfter))
		out = append(out, &Labeled{ls.base, ls.Label, st})
		out = append(out, sb...)
	}
	return out
}

func transStmt(s Stmt, labelAfter *string) (Stmt, []*Labeled) {
	switch x := s.(type) {
	case *Either:
		n := &Either{base: x.base}
		var blocks []*Labeled
		for _, c := range x.Cases {
			ct, cb := flatten(c, labelAfter)
			n.Cases = append(n.Cases, ct)
			blocks = append(blocks, cb...)
		}
		return n, blocks
	case *If:
		yt, yb := flatten(x.Then, labelAfter)
		nt, nb := flatten(x.Else, labelAfter)
		return &If{x.base, x.Cond, yt, nt}, append(yb, nb...)
	case *With:
		bt, bb := flatten(x.Body, labelAfter)
		if len(bb) != 0 {
			panic(parseError{fmt.Sprintf("line %d: label inside with", x.Line)})
		}
		return &With{x.base, x.Decls, bt}, nil
	case *Labeled, *While:
		panic(parseError{fmt.Sprintf("line %d: unexpected labelled/while statement in this position", s.line())})
	}
	return s, nil
}

// flatten is MPCalNormalizePass.impl.
func flatten(stmts []Stmt, labelAfter *string) ([]Stmt, []*Labeled) {
	var out []Stmt
	var blocks []*Labeled
	for {
		if len(stmts) == 0 {
			if labelAfter != nil {
				out = append(out, &Goto{Target: *labelAfter})
			}
			return out, blocks
		}
		if l, ok := stmts[0].(*Labeled); ok {
			out = append(out, &Goto{Target: l.Label})
			return out, append(blocks, transBlocks(allLabeled(stmts), labelAfter)...)
		}
		// ContainsJump
		var jump []Stmt
		needsGoto := false
		switch x := stmts[0].(type) {
		case *Goto, *Return:
			jump = stmts[:1]
		case *If:
			if containsLabels(x) {
				jump = stmts[:1]
			}
		case *Either:
			if containsLabels(x) {
				jump = stmts[:1]
			}
		case *Call:
			if len(stmts) > 1 {
				switch stmts[1].(type) {
				case *Return, *Goto:
					jump = stmts[:2]
				}
			}
			if jump == nil {
				jump = stmts[:1]
				needsGoto = true
			}
		}
		if jump != nil {
			rest := stmts[len(jump):]
			restL := allLabeled(rest)
			local := findLabelAfter(rest, labelAfter)
			for _, j := range jump {
				jt, jb := transStmt(j, local)
				out = append(out, jt)
				blocks = append(blocks, jb...)
			}
			if needsGoto {
				if local == nil {
					panic(parseError{fmt.Sprintf("line %d: call without a following label", stmts[0].line())})
				}
				out = append(out, &Goto{Target: *local})
			}
			return out, append(blocks, transBlocks(restL, labelAfter)...)
		}
		s := stmts[0]
		rest := stmts[1:]
		st, sb := transStmt(s, findLabelAfter(rest, labelAfter))
		switch st.(type) {
		case *Either, *If, *With:
			if len(rest) == 0 {
				out = append(out, st)
				return out, append(blocks, sb...)
			}
			if _, ok := rest[0].(*Labeled); ok {
				out = append(out, st)
				blocks = append(blocks, sb...)
				return out, append(blocks, transBlocks(allLabeled(rest), labelAfter)...)
			}
		}
		out = append(out, st)
		blocks = append(blocks, sb...)
		stmts = rest
	}
}

// Sections returns the flattened critical sections of a unit, keyed by label.
func (sp *Spec) Sections(u *Unit) (secs []*Labeled, err error) {
	defer func() {
		if r := recover(); r != nil {
			if pe, ok := r.(parseError); ok {
				err = fmt.Errorf("%s", pe.msg)
				return
			}
			panic(r)
		}
	}()
	body := sp.expandMacros(u.Body, 0)
	after := "Done"
	if u.Kind == "procedure" {
		after = "Error"
	}
	if len(body) == 0 {
		return nil, nil
	}
	if _, ok := body[0].(*Labeled); !ok {
		return nil, fmt.Errorf("%s %s: body does not start with a label", u.Kind, u.Name)
	}
	secs = transBlocks(allLabeled(body), &after)
	for _, s := range secs {
		s.Body = desugarMulti(s.Body)
	}
	return secs, nil
}

// ---------------------------------------------------------------- multiple assignment desugaring

func desugarMulti(ss []Stmt) []Stmt {
	var out []Stmt
	for _, s := range ss {
		switch x := s.(type) {
		case *Assign:
			if len(x.Pairs) <= 1 {
				out = append(out, x)
				continue
			}
			// MPCalNormalizePass: with (x' = rhs_x, y' = rhs_y) { x := rename(rhs_x); y := rename(rhs_y) } where rename
			// replaces references to an assigned variable by its with-variable. The with-variables are named after
			// the assigned variables plus a digit suffix; identifiers are compared modulo digit suffixes, so at
			// token level the renaming is the identity.
			w := &With{base: x.base}
			for _, p := range x.Pairs {
				w.Decls = append(w.Decls, WithDecl{Name: p.L.Name, Val: p.R})
			}
			for _, p := range x.Pairs {
				w.Body = append(w.Body, &Assign{base: x.base, Pairs: []AssignPair{p}})
			}
			out = append(out, w)
		case *If:
			out = append(out, &If{x.base, x.Cond, desugarMulti(x.Then), desugarMulti(x.Else)})
		case *Either:
			n := &Either{base: x.base}
			for _, c := range x.Cases {
				n.Cases = append(n.Cases, desugarMulti(c))
			}
			out = append(out, n)
		case *With:
			out = append(out, &With{x.base, x.Decls, desugarMulti(x.Body)})
		default:
			out = append(out, s)
		}
	}
	return out
}

// ---------------------------------------------------------------- canonical streams (spec side)

// Canon holds the alias table (operator representations -> canonical token).
type Canon struct {
	Alias map[string]string // e.g. "\\lnot" -> "~"
	// operator precedences of the front end (TLAMeta.scala), by source spelling
	infix   map[string][3]int
	prefix  map[string][2]int
	postfix map[string]int
	Defs    map[string]bool // operator definition names (compared with the first letter lower-cased)
}

var keywordish = map[string]bool{"IF": true, "THEN": true, "ELSE": true, "LET": true, "IN": true, "CASE": true, "OTHER": true, "CHOOSE": true,
	"EXCEPT": true, "DOMAIN": true, "SUBSET": true, "UNION": true, "ENABLED": true, "UNCHANGED": true}

func stripDigits(s string) string {
	i := len(s)
	for i > 1 && s[i-1] >= '0' && s[i-1] <= '9' {
		i--
	}
	return s[:i]
}

func lowerFirst(s string) string {
	if s == "" {
		return s
	}
	return strings.ToLower(s[:1]) + s[1:]
}

// Ident canonicalises an identifier the same way on both sides.
func (c *Canon) Ident(s string) string {
	if keywordish[s] || s == "TRUE" || s == "FALSE" || s == "self" {
		return s
	}
	if c.Defs[s] {
		return lowerFirst(stripDigits(s))
	}
	return stripDigits(s)
}

// Expr renders a raw TLA+ token list (a comma-separated list of expressions) as its fully grouped parse tree
// (see exprparse.go). A token list the expression parser cannot parse renders as a marker that matches nothing.
func (c *Canon) Expr(e Expr) []string {
	out, err := c.parseExpr(e)
	if err != nil {
		return []string{"UNPARSED(" + err.Error() + ")"}
	}
	return out
}

// Stream renders a flattened critical-section body canonically.
func (c *Canon) Stream(ss []Stmt) []string {
	var out []string
	for _, s := range ss {
		switch x := s.(type) {
		case *Assign:
			p := x.Pairs[0]
			out = append(out, "ASSIGN", c.Ident(p.L.Name))
			for _, pr := range p.L.Projs {
				if len(pr) >= 2 && pr[0].S == "<<" && pr[len(pr)-1].S == ">>" && soleGroup(pr) {
					pr = pr[1 : len(pr)-1]
				}
				out = append(out, "[")
				out = append(out, c.Expr(pr)...)
				out = append(out, "]")
			}
			out = append(out, ":=")
			out = append(out, c.Expr(p.R)...)
			out = append(out, ";")
		case *If:
			out = append(out, "IF")
			out = append(out, c.Expr(x.Cond)...)
			out = append(out, BlkOpen)
			out = append(out, c.Stream(x.Then)...)
			out = append(out, BlkClose, "ELSE", BlkOpen)
			out = append(out, c.Stream(x.Else)...)
			out = append(out, BlkClose)
		case *Either:
			for i, cs := range x.Cases {
				if i == 0 {
					out = append(out, "EITHER", BlkOpen)
				} else {
					out = append(out, "OR", BlkOpen)
				}
				out = append(out, c.Stream(cs)...)
				out = append(out, BlkClose)
			}
		case *With:
			for _, d := range x.Decls {
				if d.IsSet {
					out = append(out, "WITHSET", c.Ident(d.Name), "\\in")
				} else {
					out = append(out, "WITH", c.Ident(d.Name), "=")
				}
				out = append(out, c.Expr(d.Val)...)
				out = append(out, ";")
			}
			out = append(out, c.Stream(x.Body)...)
		case *Await:
			out = append(out, "AWAIT")
			out = append(out, c.Expr(x.Cond)...)
			out = append(out, ";")
		case *Assert:
			out = append(out, "ASSERT")
			out = append(out, c.Expr(x.Cond)...)
			out = append(out, ";")
		case *Print:
			out = append(out, "PRINT")
			out = append(out, c.Expr(x.Val)...)
			out = append(out, ";")
		case *Skip:
		case *Goto:
			out = append(out, "GOTO", x.Target, ";")
		case *Return:
			out = append(out, "RETURN", ";")
		case *Call:
			out = append(out, "CALL", x.Proc)
			for _, a := range x.Args {
				out = append(out, ",")
				if a.Ref {
					out = append(out, "REF", c.Ident(a.Name))
				} else {
					out = append(out, c.Expr(a.E)...)
				}
			}
			out = append(out, ";")
		default:
			out = append(out, fmt.Sprintf("?%T", s))
		}
	}
	return out
}

// stripTupleIndices rewrites f[<<a, b>>] to f[a, b]: the compiler translates both to the same
// ApplyFunction(MakeTuple(a, b)), so the two spellings are indistinguishable in the generated Go.
func stripTupleIndices(e Expr) Expr {
	drop := map[int]bool{}
	for i := 0; i+1 < len(e); i++ {
		if e[i].S != "[" || e[i+1].S != "<<" {
			continue
		}
		// an index bracket follows an operand (identifier, closer) or '!' (EXCEPT key); a constructor bracket does not
		if i == 0 {
			continue
		}
		prev := e[i-1]
		isIndex := prev.S == "!" || prev.S == "]" || prev.S == ")" || (prev.Kind == 'i' && !keywordish[prev.S])
		if !isIndex {
			continue
		}
		depth := 0
		for j := i + 1; j < len(e); j++ {
			if e[j].S == "<<" {
				depth++
			} else if e[j].S == ">>" {
				depth--
				if depth == 0 {
					if j+1 < len(e) && e[j+1].S == "]" {
						drop[i+1], drop[j] = true, true
					}
					break
				}
			}
		}
	}
	if len(drop) == 0 {
		return e
	}
	var out Expr
	for i, t := range e {
		if !drop[i] {
			out = append(out, t)
		}
	}
	return out
}

func unescapeTLAString(s string) string {
	if len(s) < 2 {
		return s
	}
	body := s[1 : len(s)-1]
	var b strings.Builder
	for i := 0; i < len(body); i++ {
		if body[i] == '\\' && i+1 < len(body) {
			i++
			switch body[i] {
			case 'n':
				b.WriteByte('\n')
			case 't':
				b.WriteByte('\t')
			case 'r':
				b.WriteByte('\r')
			case 'f':
				b.WriteByte('\f')
			default:
				b.WriteByte(body[i])
			}
			continue
		}
		b.WriteByte(body[i])
	}
	return `"` + b.String() + `"`
}

// soleGroup reports whether the << at e[0] is closed by the >> at the end of e.
func soleGroup(e Expr) bool {
	depth := 0
	for i, t := range e {
		if t.S == "<<" {
			depth++
		} else if t.S == ">>" {
			depth--
			if depth == 0 {
				return i == len(e)-1
			}
		}
	}
	return false
}
