package specmatch

import (
	"fmt"
	"strings"
)

// The spec side of the structural comparison: a TLA+ expression parser that follows the front end's own
// (pgo/src/parser/TLAParser.scala, tlaExpressionMinPrecedence) precedence-climbing scheme with the precedence
// ranges read from TLAMeta.scala, and renders the parse tree with every operator application explicitly
// grouped: `( L op R )`, `( op X )`, `name ( a , b )`. Source parentheses and junction-list bullets are
// consumed by the parser (bullets through their columns) and never rendered, so two expressions render equal
// iff they have the same tree. The Go side (gorec.go) renders the generated code's call tree with the same
// conventions.

type exprErr struct{ msg string }

type pres struct {
	toks  []string
	tuple [][]string // the elements, when the expression is exactly a tuple literal
}

type eparser struct {
	c      *Canon
	toks   Expr
	pos    int
	margin int // tokens at a column <= margin end the current junction-list item (0: none)
	nest   int // bracket nesting opened since the margin was set
}

var eofTok = Tok{S: "<eof>", Kind: 0}

func (p *eparser) fail(format string, args ...interface{}) {
	line := 0
	if p.pos < len(p.toks) {
		line = p.toks[p.pos].Line
	} else if len(p.toks) > 0 {
		line = p.toks[len(p.toks)-1].Line
	}
	panic(exprErr{fmt.Sprintf("line %d: ", line) + fmt.Sprintf(format, args...)})
}

func (p *eparser) peek() Tok {
	if p.pos >= len(p.toks) {
		return eofTok
	}
	t := p.toks[p.pos]
	if p.margin > 0 && p.nest == 0 && t.Col > 0 && t.Col <= p.margin {
		return eofTok
	}
	return t
}

func (p *eparser) peekN(k int) Tok {
	if p.peek().Kind == 0 || p.pos+k >= len(p.toks) {
		return eofTok
	}
	return p.toks[p.pos+k]
}

var exprOpeners = map[string]bool{"(": true, "[": true, "{": true, "<<": true}
var exprClosers = map[string]bool{")": true, "]": true, "}": true, ">>": true}

func (p *eparser) next() Tok {
	t := p.peek()
	if t.Kind == 0 {
		p.fail("unexpected end of expression")
	}
	p.pos++
	if t.Kind == 'o' {
		if exprOpeners[t.S] {
			p.nest++
		} else if exprClosers[t.S] {
			p.nest--
		}
	}
	return t
}

func (p *eparser) is(s string) bool {
	t := p.peek()
	return t.Kind != 0 && t.Kind != 's' && t.S == s
}

func (p *eparser) expect(s string) {
	if !p.is(s) {
		p.fail("expected %q, found %q", s, p.peek().S)
	}
	p.next()
}

// op returns the canonical spelling of an operator token.
func (p *eparser) canonOp(s string) string {
	if a, ok := p.c.Alias[s]; ok {
		return a
	}
	return s
}

func group(parts ...[]string) []string {
	out := []string{"("}
	for _, x := range parts {
		out = append(out, x...)
	}
	return append(out, ")")
}

// exprList parses e1, e2, ... and renders them comma-separated.
func (p *eparser) exprList(stop string) (out []string, items []pres) {
	for {
		e := p.expr(0)
		items = append(items, e)
		if len(items) > 1 {
			out = append(out, ",")
		}
		out = append(out, e.toks...)
		if p.is(",") {
			p.next()
			continue
		}
		return out, items
	}
}

// indexList renders the arguments of a function application / EXCEPT key: a single tuple argument of two or more
// elements is the same application as the multi-argument form (both compile to ApplyFunction(MakeTuple(...))).
func (p *eparser) indexList() []string {
	out, items := p.exprList("]")
	if len(items) == 1 && len(items[0].tuple) > 1 {
		return join(items[0].tuple, ",")
	}
	return out
}

func (p *eparser) expr(min int) pres {
	lhs := p.prefixOrPrimary(min)
	max := 18
	for {
		t := p.peek()
		if t.Kind == 0 || t.Kind == 's' || t.Kind == 'n' {
			break
		}
		switch {
		case t.S == "[" && t.Kind == 'o' && min <= 16:
			p.next()
			idx := p.indexList()
			p.expect("]")
			lhs = pres{toks: append(append(append(lhs.toks, "["), idx...), "]")}
			max = 15
			continue
		case t.S == "." && t.Kind == 'o' && min <= 17 && p.peekN(1).Kind == 'i':
			p.next()
			f := p.next()
			lhs = pres{toks: append(lhs.toks, "[", `"`+f.S+`"`, "]")}
			max = 16
			continue
		case (t.S == "\\X" || t.S == "\\times") && min <= 13 && max >= 10:
			parts := [][]string{lhs.toks}
			for p.is("\\X") || p.is("\\times") {
				p.next()
				parts = append(parts, p.expr(14).toks)
			}
			lhs = pres{toks: group(join(parts, "\\X"))}
			max = 9
			continue
		}
		if pr, ok := p.c.infix[t.S]; ok && t.Kind == 'o' {
			if pr[0] >= min && pr[1] <= max {
				p.next()
				op := p.canonOp(t.S)
				rhs := p.expr(pr[1] + 1)
				lhs = pres{toks: group(lhs.toks, []string{op}, rhs.toks)}
				if pr[2] == 1 {
					for p.is(t.S) {
						p.next()
						rhs = p.expr(pr[1] + 1)
						lhs = pres{toks: group(lhs.toks, []string{op}, rhs.toks)}
					}
				}
				max = pr[0] - 1
				continue
			}
			break
		}
		if pr, ok := p.c.postfix[t.S]; ok && t.Kind == 'o' && pr >= min {
			p.next()
			lhs = pres{toks: group(lhs.toks, []string{t.S})}
			continue
		}
		break
	}
	return lhs
}

func (p *eparser) prefixOrPrimary(min int) pres {
	t := p.peek()
	if t.Kind == 0 {
		p.fail("expected an expression")
	}
	if t.Kind == 'o' || t.Kind == 'i' {
		key := t.S
		if key == "-" {
			key = "-_"
		}
		if pr, ok := p.c.prefix[key]; ok {
			p.next()
			inner := p.expr(pr[1] + 1)
			return pres{toks: group([]string{p.canonOp(t.S)}, inner.toks)}
		}
	}
	return p.primary()
}

// binders renders `x \in S, <<a, b>> \in T, ...` up to (not including) the token stop.
func (p *eparser) binders() []string {
	var out []string
	for {
		// the bound names
		n := 0
		for !p.is("\\in") {
			t := p.next()
			if t.Kind == 'i' {
				out = append(out, p.c.Ident(t.S))
			} else if t.S == "<<" || t.S == ">>" || t.S == "," {
				out = append(out, t.S)
			} else {
				p.fail("unexpected %q in a quantifier bound", t.S)
			}
			n++
		}
		if n == 0 {
			p.fail("quantifier bound without a name")
		}
		p.next()
		out = append(out, "\\in")
		out = append(out, p.expr(0).toks...)
		if p.is(",") {
			p.next()
			out = append(out, ",")
			continue
		}
		return out
	}
}

// topLevel scans the bracket that has just been opened and reports which of the given tokens occur at its top level, in order.
func (p *eparser) topLevel(want map[string]bool) []string {
	var found []string
	depth := 0
	for i := p.pos; i < len(p.toks); i++ {
		t := p.toks[i]
		if t.Kind == 's' {
			continue
		}
		if t.Kind == 'o' && exprOpeners[t.S] {
			depth++
			continue
		}
		if t.Kind == 'o' && exprClosers[t.S] {
			if depth == 0 {
				return found
			}
			depth--
			continue
		}
		if depth == 0 && want[t.S] {
			found = append(found, t.S)
		}
	}
	p.fail("unbalanced bracket")
	return nil
}

func (p *eparser) primary() pres {
	t := p.next()
	switch t.Kind {
	case 'n':
		return pres{toks: []string{t.S}}
	case 's':
		return pres{toks: []string{unescapeTLAString(t.S)}}
	case 'i':
		switch t.S {
		case "IF":
			out := append([]string{"IF"}, p.expr(0).toks...)
			p.expect("THEN")
			out = append(append(out, "THEN"), p.expr(0).toks...)
			p.expect("ELSE")
			return pres{toks: append(append(out, "ELSE"), p.expr(0).toks...)}
		case "CASE":
			out := []string{"CASE"}
			for {
				if p.is("OTHER") {
					p.next()
					out = append(out, "OTHER")
				} else {
					out = append(out, p.expr(0).toks...)
				}
				p.expect("->")
				out = append(append(out, "->"), p.expr(0).toks...)
				if p.is("[]") {
					p.next()
					out = append(out, "[]")
					continue
				}
				return pres{toks: out}
			}
		case "LET":
			out := []string{"LET"}
			for !p.is("IN") {
				n := p.next()
				if n.Kind != 'i' {
					p.fail("LET definition does not start with a name: %q", n.S)
				}
				out = append(out, p.c.Ident(n.S))
				if p.is("(") {
					p.next()
					for i := 0; !p.is(")"); i++ {
						if i > 0 {
							p.expect(",")
							out = append(out, ",")
						}
						a := p.next()
						if a.Kind != 'i' {
							p.fail("LET operator parameter %q", a.S)
						}
						out = append(out, p.c.Ident(a.S))
					}
					p.next()
				}
				p.expect("==")
				out = append(append(out, "=="), p.expr(0).toks...)
			}
			p.next()
			return pres{toks: append(append(out, "IN"), p.expr(0).toks...)}
		case "CHOOSE":
			bs := p.binders()
			p.expect(":")
			body := p.expr(0).toks
			// a bound name the predicate never mentions is anonymous (`CHOOSE x \in S : TRUE`)
			if len(bs) >= 2 && bs[1] == "\\in" && !containsTok(body, bs[0]) {
				bs = append([]string{"$anon"}, bs[1:]...)
			}
			out := append([]string{"CHOOSE"}, bs...)
			return pres{toks: append(append(out, ":"), body...)}
		case "LAMBDA", "THEN", "ELSE", "IN", "OTHER", "EXCEPT":
			p.fail("unexpected %s", t.S)
		}
		name := p.c.Ident(t.S)
		if p.is("(") {
			p.next()
			args, _ := p.exprList(")")
			p.expect(")")
			return pres{toks: append(append([]string{name, "("}, args...), ")")}
		}
		return pres{toks: []string{name}}
	}
	// operators / punctuation
	switch t.S {
	case "(":
		e := p.expr(0)
		p.expect(")")
		return pres{toks: e.toks, tuple: e.tuple}
	case "@":
		return pres{toks: []string{"@"}}
	case "<<":
		if p.is(">>") {
			p.next()
			return pres{toks: []string{"<<", ">>"}, tuple: [][]string{}}
		}
		out, items := p.exprList(">>")
		p.expect(">>")
		var elems [][]string
		for _, it := range items {
			elems = append(elems, it.toks)
		}
		return pres{toks: append(append([]string{"<<"}, out...), ">>"), tuple: elems}
	case "\\A", "\\E":
		out := append([]string{t.S}, p.binders()...)
		p.expect(":")
		return pres{toks: append(append(out, ":"), p.expr(0).toks...)}
	case "/\\", "\\/", "\\land", "\\lor":
		// junction list: the bullet's column is the margin of every item
		op := p.canonOp(t.S)
		saveM, saveN := p.margin, p.nest
		var acc []string
		for {
			p.margin, p.nest = t.Col, 0
			item := p.expr(0).toks
			p.margin, p.nest = saveM, saveN
			if acc == nil {
				acc = item
			} else {
				acc = group(acc, []string{op}, item)
			}
			n := p.peek()
			if n.Kind == 'o' && n.S == t.S && t.Col > 0 && n.Col == t.Col {
				p.next()
				continue
			}
			return pres{toks: acc}
		}
	case "{":
		if p.is("}") {
			p.next()
			return pres{toks: []string{"{", "}"}}
		}
		if tl := p.topLevel(map[string]bool{":": true}); len(tl) > 0 {
			// { x \in S : P }  or  { e : x \in S, ... }
			refinement := false
			if p.peek().Kind == 'i' && p.peekN(1).S == "\\in" && p.peekN(1).Kind == 'o' {
				refinement = true
			} else if p.is("<<") {
				depth := 0
				for i := p.pos; i < len(p.toks); i++ {
					if p.toks[i].S == "<<" {
						depth++
					} else if p.toks[i].S == ">>" {
						depth--
						if depth == 0 {
							refinement = i+1 < len(p.toks) && p.toks[i+1].S == "\\in"
							break
						}
					}
				}
			}
			var out []string
			if refinement {
				out = append([]string{"{"}, p.binders()...)
				p.expect(":")
				out = append(append(out, ":"), p.expr(0).toks...)
			} else {
				out = append([]string{"{"}, p.expr(0).toks...)
				p.expect(":")
				out = append(append(out, ":"), p.binders()...)
			}
			p.expect("}")
			return pres{toks: append(out, "}")}
		}
		out, _ := p.exprList("}")
		p.expect("}")
		return pres{toks: append(append([]string{"{"}, out...), "}")}
	case "[":
		tl := p.topLevel(map[string]bool{"EXCEPT": true, "|->": true, ":": true, "->": true, "\\in": true})
		has := func(s string) bool {
			for _, x := range tl {
				if x == s {
					return true
				}
			}
			return false
		}
		switch {
		case has("EXCEPT"):
			out := append([]string{"["}, p.expr(0).toks...)
			p.expect("EXCEPT")
			out = append(out, "EXCEPT")
			for i := 0; ; i++ {
				if i > 0 {
					out = append(out, ",")
				}
				p.expect("!")
				out = append(out, "!")
				for !p.is("=") {
					if p.is(".") {
						p.next()
						f := p.next()
						out = append(out, "[", `"`+f.S+`"`, "]")
						continue
					}
					p.expect("[")
					out = append(append(append(out, "["), p.indexList()...), "]")
					p.expect("]")
				}
				p.next()
				out = append(append(out, "="), p.expr(0).toks...)
				if p.is(",") {
					p.next()
					continue
				}
				break
			}
			p.expect("]")
			return pres{toks: append(out, "]")}
		case has("|->"):
			// function literal iff a bound (\in) precedes the first |->
			isFn := false
			for _, x := range tl {
				if x == "\\in" {
					isFn = true
				}
				if x == "|->" {
					break
				}
			}
			out := []string{"["}
			if isFn {
				out = append(out, p.binders()...)
				p.expect("|->")
				out = append(append(out, "|->"), p.expr(0).toks...)
			} else {
				for i := 0; ; i++ {
					if i > 0 {
						out = append(out, ",")
					}
					k := p.next()
					if k.Kind != 'i' {
						p.fail("record key %q", k.S)
					}
					p.expect("|->")
					out = append(append(out, p.c.Ident(k.S), "|->"), p.expr(0).toks...)
					if p.is(",") {
						p.next()
						continue
					}
					break
				}
			}
			p.expect("]")
			return pres{toks: append(out, "]")}
		case has(":"):
			out := []string{"["}
			for i := 0; ; i++ {
				if i > 0 {
					out = append(out, ",")
				}
				k := p.next()
				if k.Kind != 'i' {
					p.fail("record-set key %q", k.S)
				}
				p.expect(":")
				out = append(append(out, p.c.Ident(k.S), ":"), p.expr(0).toks...)
				if p.is(",") {
					p.next()
					continue
				}
				break
			}
			p.expect("]")
			return pres{toks: append(out, "]")}
		case has("->"):
			out := append([]string{"["}, p.expr(0).toks...)
			p.expect("->")
			out = append(append(out, "->"), p.expr(0).toks...)
			p.expect("]")
			return pres{toks: append(out, "]")}
		}
		p.fail("unrecognised [ ... ] form")
	}
	p.fail("unexpected token %q", t.S)
	return pres{}
}

// parseExpr renders the comma-separated expression list e structurally.
func (c *Canon) parseExpr(e Expr) (out []string, err error) {
	defer func() {
		if r := recover(); r != nil {
			if pe, ok := r.(exprErr); ok {
				var raw []string
				for _, t := range e {
					raw = append(raw, t.S)
				}
				err = fmt.Errorf("%s in `%s`", pe.msg, strings.Join(raw, " "))
				return
			}
			panic(r)
		}
	}()
	p := &eparser{c: c, toks: e}
	out, _ = p.exprList("")
	if p.pos < len(p.toks) {
		p.fail("unexpected %q after the expression", p.toks[p.pos].S)
	}
	return out, nil
}

func containsTok(toks []string, t string) bool {
	for _, x := range toks {
		if x == t {
			return true
		}
	}
	return false
}
