package specmatch

// Stream normal form. Both sides of SPEC-MATCH render a critical section as a flat token stream whose blocks are delimited
// by BlkOpen / BlkClose. Where the continuation of an `if` / `either` is written - after the statement, or copied into the
// arms (the compiler's own flattening does the latter for a trailing statement; a maintainer's "early return" does the
// former on the Go side) - does not change what the section does, and neither does the polarity of an `if`. NormalizeStream
// removes both degrees of freedom: the statements that follow an IF / EITHER / UNLESS are pushed into every arm that does
// not end in a jump, dead statements after a jump are dropped, and `IF ( ~ c ) A ELSE B` becomes `IF c B ELSE A`.

import (
	"sort"
	"strings"
)

const (
	BlkOpen  = "{|"
	BlkClose = "|}"
)

type snode struct {
	kind string   // "IF", "EITHER", "UNLESS", or "" for a simple statement
	head []string // condition tokens (IF / UNLESS) or the whole simple statement
	arms [][]snode
}

func parseStream(toks []string, i int) ([]snode, int) {
	var out []snode
	for i < len(toks) {
		switch toks[i] {
		case BlkClose:
			return out, i
		case "IF", "UNLESS":
			kind := toks[i]
			j := i + 1
			for j < len(toks) && toks[j] != BlkOpen {
				j++
			}
			n := snode{kind: kind, head: append([]string(nil), toks[i+1:j]...)}
			body, k := parseStream(toks, j+1)
			n.arms = append(n.arms, body)
			k++ // BlkClose
			if kind == "IF" && k < len(toks) && toks[k] == "ELSE" {
				eb, k2 := parseStream(toks, k+2)
				n.arms = append(n.arms, eb)
				k = k2 + 1
			} else if kind == "IF" {
				n.arms = append(n.arms, nil)
			}
			out = append(out, n)
			i = k
		case "EITHER":
			n := snode{kind: "EITHER"}
			k := i
			for k < len(toks) && (toks[k] == "EITHER" || toks[k] == "OR") && k+1 < len(toks) && toks[k+1] == BlkOpen {
				body, k2 := parseStream(toks, k+2)
				n.arms = append(n.arms, body)
				k = k2 + 1
			}
			out = append(out, n)
			i = k
		case "DONE", "ERROR":
			out = append(out, snode{head: []string{toks[i]}})
			i++
		default:
			j := i
			for j < len(toks) && toks[j] != ";" && toks[j] != BlkClose {
				j++
			}
			if j < len(toks) && toks[j] == ";" {
				j++
			}
			out = append(out, snode{head: append([]string(nil), toks[i:j]...)})
			i = j
		}
	}
	return out, i
}

func isJumpStmt(n snode) bool {
	if n.kind != "" || len(n.head) == 0 {
		return false
	}
	switch n.head[0] {
	case "GOTO", "RETURN", "DONE", "ERROR":
		return true
	}
	return false
}

func endsInJump(list []snode) bool {
	if len(list) == 0 {
		return false
	}
	last := list[len(list)-1]
	if isJumpStmt(last) {
		return true
	}
	if last.kind == "IF" || last.kind == "EITHER" {
		for _, a := range last.arms {
			if !endsInJump(a) {
				return false
			}
		}
		return len(last.arms) > 0
	}
	return false
}

// stripNot: cond is `( ~ X )` (or `( \lnot X )`): returns X.
func stripNot(cond []string) ([]string, bool) {
	if len(cond) >= 4 && cond[0] == "(" && cond[len(cond)-1] == ")" && (cond[1] == "~" || cond[1] == "\\lnot" || cond[1] == "\\neg") {
		depth := 0
		for k := 0; k < len(cond); k++ {
			if isOpenTok(cond[k]) {
				depth++
			} else if isCloseTok(cond[k]) {
				depth--
				if depth == 0 && k != len(cond)-1 {
					return nil, false
				}
			}
		}
		return cond[2 : len(cond)-1], true
	}
	// `( L # R )` is `~ ( L = R )`: one top-level `#` (or `/=`) directly inside the outer parentheses
	if len(cond) >= 5 && cond[0] == "(" && cond[len(cond)-1] == ")" {
		depth, at, n := 0, -1, 0
		for k := 1; k < len(cond)-1; k++ {
			switch {
			case isOpenTok(cond[k]):
				depth++
			case isCloseTok(cond[k]):
				depth--
				if depth < 0 {
					return nil, false
				}
			case depth == 0:
				switch cond[k] {
				case "#", "/=":
					at = k
					n++
				case "/\\", "\\/", "=>", "=", "<", ">", "<=", ">=", "\\in", "\\notin":
					n += 2 // not a bare inequality
				}
			}
		}
		if n == 1 && at > 1 && at < len(cond)-2 {
			out := append([]string{}, cond[:at]...)
			out = append(out, "=")
			out = append(out, cond[at+1:]...)
			return out, true
		}
	}
	return nil, false
}

func normList(list []snode, budget *int) []snode {
	var out []snode
	for i, s := range list {
		if s.kind == "" {
			out = append(out, s)
			if isJumpStmt(s) {
				return out
			}
			continue
		}
		rest := list[i+1:]
		n := snode{kind: s.kind, head: s.head}
		for _, a := range s.arms {
			na := normList(a, budget)
			if !endsInJump(na) && len(rest) > 0 && *budget > 0 {
				*budget -= len(rest)
				// the arm falls through into the rest of the list: normalise the concatenation (the arm may itself
				// end in a conditional that has to receive the continuation)
				na = normList(append(append([]snode(nil), a...), rest...), budget)
			}
			n.arms = append(n.arms, na)
		}
		if n.kind == "IF" {
			for {
				inner, neg := stripNot(n.head)
				if !neg || len(n.arms) != 2 {
					break
				}
				n.head = inner
				n.arms[0], n.arms[1] = n.arms[1], n.arms[0]
			}
		}
		out = append(out, n)
		if n.kind == "UNLESS" {
			// the guard's continuation is the rest of the list
			continue
		}
		return out
	}
	return out
}

func flatten2(list []snode, out []string) []string {
	for _, s := range list {
		switch s.kind {
		case "":
			out = append(out, s.head...)
		case "IF":
			out = append(out, "IF")
			out = append(out, s.head...)
			out = append(out, BlkOpen)
			out = flatten2(s.arms[0], out)
			out = append(out, BlkClose, "ELSE", BlkOpen)
			if len(s.arms) > 1 {
				out = flatten2(s.arms[1], out)
			}
			out = append(out, BlkClose)
		case "UNLESS":
			out = append(out, "UNLESS")
			out = append(out, s.head...)
			out = append(out, BlkOpen)
			out = flatten2(s.arms[0], out)
			out = append(out, BlkClose)
		case "EITHER":
			for k, a := range s.arms {
				if k == 0 {
					out = append(out, "EITHER", BlkOpen)
				} else {
					out = append(out, "OR", BlkOpen)
				}
				out = flatten2(a, out)
				out = append(out, BlkClose)
			}
		}
	}
	return out
}

// NormalizeStream returns the normal form of a section stream (the stream itself if it does not parse).
func NormalizeStream(toks []string) []string {
	// findings of the recogniser (a read that is reused, never used, or performed too early) are appended to the stream
	// as markers: they are not statements and survive normalisation
	cut := len(toks)
	for i, t := range toks {
		if t == "REUSED-READ" || t == "EXTRA-READ" || t == "MISPLACED-READ" {
			cut = i
			break
		}
	}
	tree, end := parseStream(toks[:cut], 0)
	if end != cut {
		return toks
	}
	budget := 20000
	k := 0
	return append(flatten2(renameBinders(normList(tree, &budget), nil, &k), nil), toks[cut:]...)
}

// renameBinders names the variables bound by `with` positionally ($w1, $w2, ... in the order of the normal form), so that
// renaming such a variable on one side only - a local of the generated Go has no meaning outside its section - is not a
// difference. The scope of a binding is the rest of its statement list.
func renameBinders(list []snode, env map[string]string, k *int) []snode {
	sub := func(toks []string, env map[string]string) []string {
		if len(env) == 0 {
			return toks
		}
		out := make([]string, len(toks))
		for i, t := range toks {
			out[i] = t
			if r, ok := env[t]; ok && !(i+1 < len(toks) && (toks[i+1] == "|->" || toks[i+1] == ":" && i > 0 && (toks[i-1] == "[" || toks[i-1] == ","))) {
				out[i] = r
			}
		}
		return out
	}
	var out []snode
	for _, s := range list {
		n := snode{kind: s.kind}
		if s.kind == "" && len(s.head) >= 3 && (s.head[0] == "WITH" || s.head[0] == "WITHSET") {
			name := s.head[1]
			h := append([]string{s.head[0], ""}, sub(s.head[2:], env)...)
			*k++
			nv := "$w" + itoa(*k)
			h[1] = nv
			n.head = h
			ne := map[string]string{}
			for a, b := range env {
				ne[a] = b
			}
			ne[name] = nv
			env = ne
			out = append(out, n)
			continue
		}
		n.head = sub(s.head, env)
		for _, a := range s.arms {
			n.arms = append(n.arms, renameBinders(a, env, k))
		}
		out = append(out, n)
	}
	return out
}

func itoa(n int) string {
	if n == 0 {
		return "0"
	}
	var b []byte
	for n > 0 {
		b = append([]byte{byte('0' + n%10)}, b...)
		n /= 10
	}
	return string(b)
}

// CommutativeNorm orders the operands of `=`, `#`, `+`, `*`, `\cup`, `\cap` inside a token stream. The streams write every
// binary operation fully parenthesised, `( a op b )`, so the operands are found by matching parentheses: a group whose
// content has exactly one top-level operator token of that set, with non-empty operands, has its operands put in
// lexical order (inner groups first). Both operands are always evaluated, and their values do not depend on the order, so
// `NUM_NODES = cntr[self]` and `cntr[self] = NUM_NODES` denote the same step; `/\` and `\/` are NOT treated this way,
// because the left operand may be what makes the right one defined. Set literals `{ a , b }` are ordered likewise.
func CommutativeNorm(toks []string) []string {
	out, _ := commNorm(toks, 0, "")
	return out
}

var commutativeOps = map[string]bool{"=": true, "#": true, "+": true, "*": true, "\\cup": true, "\\cap": true, "\\union": true, "\\intersect": true}

// commNorm normalises toks[i:] up to the closer that matches open (or the end of the stream when open is "") and
// returns the normalised tokens (without the closer) and the index after the closer.
func commNorm(toks []string, i int, open string) ([]string, int) {
	closer := map[string]string{"(": ")", "{": "}", "[": "]", "<<": ">>", BlkOpen: BlkClose}
	var out []string
	// positions (in out) of top-level tokens, to find a single top-level operator / the commas of a set literal
	type span struct{ lo, hi int }
	var tops []span
	for i < len(toks) {
		t := toks[i]
		if open != "" && t == closer[open] {
			i++
			break
		}
		if c, isOpen := closer[t]; isOpen {
			inner, next := commNorm(toks, i+1, t)
			lo := len(out)
			out = append(out, t)
			out = append(out, inner...)
			out = append(out, c)
			tops = append(tops, span{lo, len(out)})
			i = next
			continue
		}
		tops = append(tops, span{len(out), len(out) + 1})
		out = append(out, t)
		i++
	}
	join := func(a []string) string { return strings.Join(a, " ") }
	switch open {
	case "(":
		// exactly one top-level commutative operator, operands non-empty, nothing else that could change the reading
		opAt := -1
		n := 0
		for k, sp := range tops {
			if sp.hi-sp.lo == 1 && commutativeOps[out[sp.lo]] {
				opAt = k
				n++
			}
		}
		if n == 1 && opAt > 0 && opAt < len(tops)-1 {
			plain := true
			for k, sp := range tops {
				if k == opAt || sp.hi-sp.lo != 1 {
					continue
				}
				// another top-level operator-like token (a comparison, a boolean connective, a keyword) means this is not `a op b`
				switch out[sp.lo] {
				case "/\\", "\\/", "<", ">", "<=", ">=", "\\in", "\\notin", "-", "\\div", "%", "\\o", "..", ":", ",", "IF", "THEN", "ELSE", "LET", "IN", "CHOOSE", "\\A", "\\E", "|->", "->", "@@", ":>", "\\", "\\X", "~", "=>", "EXCEPT", "!":
					plain = false
				}
			}
			if plain {
				l, r := out[:tops[opAt].lo], out[tops[opAt].hi:]
				if join(l) > join(r) {
					no := append([]string{}, r...)
					no = append(no, out[tops[opAt].lo])
					no = append(no, l...)
					out = no
				}
			}
		}
	case "{":
		// a set literal: top-level commas only, no `:` / `\in` (comprehension)
		var parts [][]string
		cur := 0
		ok := len(tops) > 0
		for _, sp := range tops {
			if sp.hi-sp.lo == 1 {
				switch out[sp.lo] {
				case ",":
					parts = append(parts, out[cur:sp.lo])
					cur = sp.hi
				case ":", "\\in", "|->":
					ok = false
				}
			}
		}
		if ok {
			parts = append(parts, out[cur:])
			if len(parts) > 1 {
				sort.SliceStable(parts, func(a, b int) bool { return join(parts[a]) < join(parts[b]) })
				var no []string
				for k, p := range parts {
					if k > 0 {
						no = append(no, ",")
					}
					no = append(no, p...)
				}
				out = no
			}
		}
	}
	return out, i
}
