// Package specmatch is a purely syntactic translation validator: it parses the
// MPCal block of a .tla file, re-implements the normalisations the Go back end
// sees (macro expansion, label flattening with synthetic gotos, multiple
// assignment desugaring), renders every critical section as a canonical token
// stream, and compares it with the stream recovered from the generated Go by
// inverting the code generator's templates. Nothing is executed.
package specmatch

import (
	"fmt"
	"strings"
)

// Tok is one TLA+/PlusCal token.
type Tok struct {
	S    string
	Kind byte // 'i' identifier, 'n' number, 's' string, 'o' operator/punctuation
	Line int
	Col  int // 1-based column of the first character (0 for synthetic tokens)
}

func (t Tok) String() string { return t.S }

var multiOps = []string{
	"-+->", "<=>", "|->", "(\\X)", "(+)", "(-)", "(.)", "(/)",
	"/\\", "\\/", "<<", ">>", "->", ":=", "||", "==", "=>", "<=", ">=", "=<", "/=", "..", "^^", "--", "++", "**", "%%", "##", "@@", ":>", "~>", "[]", "<>",
}

func isIdentStart(c byte) bool {
	return c == '_' || (c >= 'a' && c <= 'z') || (c >= 'A' && c <= 'Z')
}
func isIdentPart(c byte) bool { return isIdentStart(c) || (c >= '0' && c <= '9') }
func isDigit(c byte) bool     { return c >= '0' && c <= '9' }

// Lex tokenises src, dropping comments. startLine is the 1-based line of src[0].
func Lex(src string, startLine int) ([]Tok, error) {
	var out []Tok
	line := startLine
	i := 0
	n := len(src)
	lineStart := 0 // index of the first character of the current line
	for i < n {
		c := src[i]
		switch {
		case c == '\n':
			line++
			i++
			lineStart = i
		case c == ' ' || c == '\t' || c == '\r' || c == '\f':
			i++
		case c == '\\' && i+1 < n && src[i+1] == '*':
			for i < n && src[i] != '\n' {
				i++
			}
		case c == '(' && i+1 < n && src[i+1] == '*':
			depth := 0
			for i < n {
				if src[i] == '(' && i+1 < n && src[i+1] == '*' {
					depth++
					i += 2
					continue
				}
				if src[i] == '*' && i+1 < n && src[i+1] == ')' {
					depth--
					i += 2
					if depth == 0 {
						break
					}
					continue
				}
				if src[i] == '\n' {
					line++
					lineStart = i + 1
				}
				i++
			}
			if depth != 0 {
				return nil, fmt.Errorf("line %d: unterminated comment", line)
			}
		case c == '"':
			j := i + 1
			for j < n && src[j] != '"' {
				if src[j] == '\\' {
					j++
				}
				if j < n && src[j] == '\n' {
					line++
					lineStart = j + 1
				}
				j++
			}
			if j >= n {
				return nil, fmt.Errorf("line %d: unterminated string", line)
			}
			out = append(out, Tok{src[i : j+1], 's', line, i - lineStart + 1})
			i = j + 1
		case isDigit(c):
			j := i
			for j < n && isDigit(src[j]) {
				j++
			}
			// identifiers may start with digits in TLA+ only if they contain a letter; treat 1a as ident
			if j < n && isIdentStart(src[j]) {
				for j < n && isIdentPart(src[j]) {
					j++
				}
				out = append(out, Tok{src[i:j], 'i', line, i - lineStart + 1})
			} else {
				out = append(out, Tok{src[i:j], 'n', line, i - lineStart + 1})
			}
			i = j
		case isIdentStart(c):
			j := i
			for j < n && isIdentPart(src[j]) {
				j++
			}
			out = append(out, Tok{src[i:j], 'i', line, i - lineStart + 1})
			i = j
		case c == '$' && i+1 < n && isIdentStart(src[i+1]):
			j := i + 1
			for j < n && isIdentPart(src[j]) {
				j++
			}
			out = append(out, Tok{src[i:j], 'i', line, i - lineStart + 1})
			i = j
		case c == '\\' && i+1 < n && isIdentStart(src[i+1]):
			j := i + 1
			for j < n && isIdentStart(src[j]) {
				j++
			}
			out = append(out, Tok{src[i:j], 'o', line, i - lineStart + 1})
			i = j
		default:
			matched := false
			for _, op := range multiOps {
				if strings.HasPrefix(src[i:], op) {
					// "----" separators and "====" terminators
					if op == "--" || op == "==" {
						j := i
						for j < n && src[j] == op[0] {
							j++
						}
						if j-i >= 4 {
							out = append(out, Tok{src[i:j], 'o', line, i - lineStart + 1})
							i = j
							matched = true
							break
						}
					}
					out = append(out, Tok{op, 'o', line, i - lineStart + 1})
					i += len(op)
					matched = true
					break
				}
			}
			if !matched {
				out = append(out, Tok{string(c), 'o', line, i - lineStart + 1})
				i++
			}
		}
	}
	return out, nil
}

// FindMPCal locates the "--mpcal name {" block inside src and returns the text
// of the block from the name to the matching closing brace, its start line, and
// the text of the module before the comment that contains it.
func FindMPCal(src string) (block string, startLine int, before string, err error) {
	idx := strings.Index(src, "--mpcal")
	if idx < 0 {
		return "", 0, "", fmt.Errorf("no --mpcal block")
	}
	// the enclosing comment starts at the last "(*" before idx
	cstart := strings.LastIndex(src[:idx], "(*")
	if cstart < 0 {
		cstart = idx
	}
	before = src[:cstart]
	startLine = 1 + strings.Count(src[:idx], "\n")
	// match braces from the first '{' after idx, respecting strings and comments
	i := idx
	n := len(src)
	depth := 0
	started := false
	for i < n {
		c := src[i]
		switch {
		case c == '"':
			i++
			for i < n && src[i] != '"' {
				if src[i] == '\\' {
					i++
				}
				i++
			}
			i++
		case c == '\\' && i+1 < n && src[i+1] == '*':
			for i < n && src[i] != '\n' {
				i++
			}
		case c == '(' && i+1 < n && src[i+1] == '*':
			d := 0
			for i < n {
				if src[i] == '(' && i+1 < n && src[i+1] == '*' {
					d++
					i += 2
					continue
				}
				if src[i] == '*' && i+1 < n && src[i+1] == ')' {
					d--
					i += 2
					if d == 0 {
						break
					}
					continue
				}
				i++
			}
		case c == '{':
			depth++
			started = true
			i++
		case c == '}':
			depth--
			i++
			if started && depth == 0 {
				return src[idx:i], startLine, before, nil
			}
		case c == '*' && i+1 < n && src[i+1] == ')' && !started:
			return "", 0, "", fmt.Errorf("mpcal block has no body")
		default:
			i++
		}
	}
	return "", 0, "", fmt.Errorf("unterminated --mpcal block")
}
