package specmatch

import (
	"fmt"
	"go/ast"
	"go/token"
	"go/types"
	"sort"
	"strings"

	"pgoverif/checker/load"
	"pgoverif/checker/scalatab"
)

// Ob is one agreement obligation of a spec/Go pair.
type Ob struct {
	Key     string
	Verdict string // "ok" | "bad" | "undecided"
	Detail  string
	Pos     token.Pos
}

// NewCanon builds the canonicaliser from the Scala symbol table and the spec's definitions.
func NewCanon(tabs *scalatab.Tables, spec *Spec) *Canon {
	c := &Canon{Alias: map[string]string{}, Defs: map[string]bool{}, infix: tabs.InfixPrec, prefix: tabs.PrefixPrec, postfix: tabs.PostfixPrec}
	for name, reps := range tabs.SymRepr {
		first := reps[0]
		if name == "NegationSymbol" {
			first = "-"
		}
		for _, r := range reps[1:] {
			c.Alias[r] = first
		}
	}
	c.Alias["\\land"] = "/\\"
	c.Alias["\\lor"] = "\\/"
	if spec != nil {
		for _, d := range spec.Defs {
			c.Defs[d.Name] = true
			c.Defs[strings.ToUpper(d.Name[:1])+d.Name[1:]] = true
		}
	}
	return c
}

func calleeIdent(call *ast.CallExpr) *ast.Ident {
	switch f := unparen(call.Fun).(type) {
	case *ast.Ident:
		return f
	case *ast.SelectorExpr:
		return f.Sel
	}
	return nil
}

// recognise collects sections, archetypes, procedures and operator functions of a generated package.
func recognise(pk *load.Package, canon *Canon, tabs *scalatab.Tables, fset *token.FileSet) *GoSide {
	return recogniseWith(pk, canon, tabs, fset, nil)
}

func recogniseWith(pk *load.Package, canon *Canon, tabs *scalatab.Tables, fset *token.FileSet, specWith map[string]map[string]bool) *GoSide {
	gs := &GoSide{Sections: map[string]*GoSection{}, Archetypes: map[string]*GoArchetype{}, Procs: map[string]*GoProc{}, Ops: map[string]*GoOp{}}
	r := newRec(pk.Info, fset, canon, tabs)
	r.SpecWith = specWith
	typeIs := func(e ast.Expr, name string) bool {
		n, ok := pk.Info.TypeOf(e).(*types.Named)
		return ok && n.Obj().Pkg() != nil && n.Obj().Pkg().Path() == pkgDistsys && n.Obj().Name() == name
	}
	field := func(cl *ast.CompositeLit, name string) ast.Expr {
		for _, el := range cl.Elts {
			if kv, ok := el.(*ast.KeyValueExpr); ok {
				if id, ok := kv.Key.(*ast.Ident); ok && id.Name == name {
					return kv.Value
				}
			}
		}
		return nil
	}
	strList := func(e ast.Expr) []string {
		var out []string
		if cl, ok := unparen(e).(*ast.CompositeLit); ok {
			for _, el := range cl.Elts {
				if s, ok := r.str(el); ok {
					out = append(out, s)
				}
			}
		}
		return out
	}
	r.decls = map[*types.Func]*ast.FuncDecl{}
	for _, f := range pk.Files {
		for _, d := range f.Decls {
			if fd, ok := d.(*ast.FuncDecl); ok && fd.Recv == nil {
				if fn, _ := pk.Info.Defs[fd.Name].(*types.Func); fn != nil {
					r.decls[fn] = fd
				}
			}
		}
	}
	// package-level variables with an initialiser that nothing assigns: constants a maintainer hoisted out of the sections
	r.consts = map[types.Object]ast.Expr{}
	for _, f := range pk.Files {
		for _, d := range f.Decls {
			gd, ok := d.(*ast.GenDecl)
			if !ok || gd.Tok != token.VAR {
				continue
			}
			for _, sp := range gd.Specs {
				vs, ok := sp.(*ast.ValueSpec)
				if !ok || len(vs.Names) != len(vs.Values) {
					continue
				}
				for i, nm := range vs.Names {
					if o := pk.Info.Defs[nm]; o != nil {
						if call, isCall := unparen(vs.Values[i]).(*ast.CallExpr); isCall {
							if fn, _ := pk.Info.Uses[calleeIdent(call)].(*types.Func); fn != nil && fn.Pkg() != nil && fn.Pkg().Path() == pkgTLA && strings.HasPrefix(fn.Name(), "Make") {
								r.consts[o] = vs.Values[i]
							}
						}
					}
				}
			}
		}
	}
	for _, f := range pk.Files {
		ast.Inspect(f, func(n ast.Node) bool {
			switch x := n.(type) {
			case *ast.AssignStmt:
				for _, l := range x.Lhs {
					if id, ok := unparen(l).(*ast.Ident); ok {
						delete(r.consts, pk.Info.Uses[id])
					}
				}
			case *ast.UnaryExpr:
				if id, ok := unparen(x.X).(*ast.Ident); ok && x.Op == token.AND {
					delete(r.consts, pk.Info.Uses[id])
				}
			}
			return true
		})
	}
	for _, f := range pk.Files {
		// operator functions: func Name(iface distsys.ArchetypeInterface, args ...tla.Value) tla.Value { return e }
		for _, d := range f.Decls {
			fd, ok := d.(*ast.FuncDecl)
			if !ok || fd.Recv != nil || fd.Body == nil || fd.Type.Params == nil || len(fd.Type.Params.List) == 0 {
				continue
			}
			if !typeIs(fd.Type.Params.List[0].Type, "ArchetypeInterface") || fd.Type.Results == nil || len(fd.Type.Results.List) != 1 {
				continue
			}
			op := &GoOp{Name: fd.Name.Name, Pos: fd.Pos()}
			for _, fl := range fd.Type.Params.List[1:] {
				for _, nm := range fl.Names {
					op.Params = append(op.Params, nm.Name)
				}
			}
			func() {
				defer func() {
					if rc := recover(); rc != nil {
						if u, ok := rc.(unsupported); ok {
							op.Unsupported = u.msg
							return
						}
						panic(rc)
					}
				}()
				r.reset("")
				r.body = fd.Body
				if len(fd.Body.List) == 1 {
					if rs, ok := fd.Body.List[0].(*ast.ReturnStmt); ok && len(rs.Results) == 1 {
						op.Stream = r.expr(rs.Results[0])
						return
					}
				}
				// a body that is the unwrapped form of the generated closure (IF / CASE / LET written as statements)
				op.Stream = r.iifeList(fd.Body.List, fd)
			}()
			gs.Ops[op.Name] = op
		}
		ast.Inspect(f, func(n ast.Node) bool {
			cl, ok := n.(*ast.CompositeLit)
			if !ok {
				return true
			}
			switch {
			case typeIs(cl, "MPCalCriticalSection"):
				name, _ := r.str(field(cl, "Name"))
				lit, ok := unparen(field(cl, "Body")).(*ast.FuncLit)
				if !ok {
					gs.Sections[name] = &GoSection{Name: name, Unsupported: "Body is not a function literal", Pos: cl.Pos()}
					return false
				}
				gs.Sections[name] = r.section(name, lit)
				return false
			case typeIs(cl, "MPCalProc"):
				p := &GoProc{Pos: cl.Pos()}
				p.Name, _ = r.str(field(cl, "Name"))
				p.Label, _ = r.str(field(cl, "Label"))
				p.StateVars = strList(field(cl, "StateVars"))
				if lit, ok := unparen(field(cl, "PreAmble")).(*ast.FuncLit); ok {
					sec := r.section(p.Name+".", lit)
					p.PreAmble, p.Unsupported = sec.Stream, sec.Unsupported
				}
				gs.Procs[p.Name] = p
				return false
			case typeIs(cl, "MPCalArchetype"):
				a := &GoArchetype{Pos: cl.Pos()}
				a.Name, _ = r.str(field(cl, "Name"))
				a.Label, _ = r.str(field(cl, "Label"))
				a.RefParams = strList(field(cl, "RequiredRefParams"))
				a.ValParams = strList(field(cl, "RequiredValParams"))
				if lit, ok := unparen(field(cl, "PreAmble")).(*ast.FuncLit); ok {
					func() {
						defer func() {
							if rc := recover(); rc != nil {
								if u, ok := rc.(unsupported); ok {
									a.Unsupported = u.msg
									return
								}
								panic(rc)
							}
						}()
						r.reset(a.Name + ".")
						for _, st := range lit.Body.List {
							es, ok := st.(*ast.ExprStmt)
							if !ok {
								r.bad(st, "unexpected statement in archetype PreAmble")
							}
							call, ok := es.X.(*ast.CallExpr)
							if !ok || !r.isMethod(call, pkgDistsys, "ArchetypeInterface", "EnsureArchetypeResourceLocal") {
								r.bad(st, "unexpected call in archetype PreAmble")
							}
							nm, _ := r.str(call.Args[0])
							val := call.Args[1]
							var toks []string
							// `v \in S` is initialised with S.SelectElement(0)
							if sc, ok := unparen(val).(*ast.CallExpr); ok && r.isMethod(sc, pkgTLA, "Value", "SelectElement") {
								toks = append([]string{"\\in"}, r.expr(unparen(sc.Fun).(*ast.SelectorExpr).X)...)
							} else {
								toks = append([]string{"="}, r.expr(val)...)
							}
							a.Locals = append(a.Locals, GoLocal{r.local(nm, call), toks})
						}
					}()
				}
				gs.Archetypes[a.Name] = a
				return false
			}
			return true
		})
	}
	return gs
}

func diff(a, b []string) string {
	n := len(a)
	if len(b) < n {
		n = len(b)
	}
	i := 0
	for i < n && a[i] == b[i] {
		i++
	}
	ctx := func(s []string) string {
		lo := i - 8
		if lo < 0 {
			lo = 0
		}
		hi := i + 8
		if hi > len(s) {
			hi = len(s)
		}
		pre := strings.Join(s[lo:min(i, len(s))], " ")
		post := ""
		if i < len(s) {
			post = strings.Join(s[i:hi], " ")
		}
		return pre + " >>> " + post
	}
	return fmt.Sprintf("first difference at token %d\n        spec: %s\n        go:   %s", i, ctx(a), ctx(b))
}

func eq(a, b []string) bool {
	if len(a) != len(b) {
		return false
	}
	for i := range a {
		if a[i] != b[i] {
			return false
		}
	}
	return true
}

// MatchPair compares one generated package with its spec.
func MatchPair(pk *load.Package, tlaPath string, tabs *scalatab.Tables, fset *token.FileSet, pairName string, read func(string) ([]byte, error)) []Ob {
	var obs []Ob
	add := func(key, verdict string, pos token.Pos, format string, args ...any) {
		obs = append(obs, Ob{Key: pairName + "/" + key, Verdict: verdict, Detail: fmt.Sprintf(format, args...), Pos: pos})
	}
	src, err := read(tlaPath)
	if err != nil {
		add("spec", "bad", token.NoPos, "cannot read %s: %v", tlaPath, err)
		return obs
	}
	spec, err := ParseSpec(string(src))
	if err != nil {
		add("spec", "undecided", token.NoPos, "the MPCal front end cannot parse %s: %v", tlaPath, err)
		return obs
	}
	canon := NewCanon(tabs, spec)
	specWith := map[string]map[string]bool{}
	for _, u := range spec.Units {
		secs, err := spec.Sections(u)
		if err != nil {
			continue
		}
		for _, sc := range secs {
			names := map[string]bool{}
			var walk func(ss []Stmt)
			walk = func(ss []Stmt) {
				for _, st := range ss {
					switch x := st.(type) {
					case *With:
						for _, d := range x.Decls {
							if !d.IsSet {
								names[canon.Ident(d.Name)] = true
							}
						}
						walk(x.Body)
					case *If:
						walk(x.Then)
						walk(x.Else)
					case *Either:
						for _, cs := range x.Cases {
							walk(cs)
						}
					case *While:
						walk(x.Body)
					case *Labeled:
						walk(x.Body)
					}
				}
			}
			walk(sc.Body)
			specWith[u.Name+"."+sc.Label] = names
		}
	}
	gs := recogniseWith(pk, canon, tabs, fset, specWith)
	filePos := token.NoPos
	if len(pk.Files) > 0 {
		filePos = pk.Files[0].Pos()
	}
	usedSections := map[string]bool{}
	procNames := map[string]bool{}
	for _, u := range spec.Units {
		if u.Kind == "procedure" {
			procNames[u.Name] = true
		}
	}
	for _, u := range spec.Units {
		secs, err := spec.Sections(u)
		if err != nil {
			add(u.Name, "undecided", filePos, "normalisation of %s %s failed: %v", u.Kind, u.Name, err)
			continue
		}
		synthetic := "Done"
		if u.Kind == "procedure" {
			synthetic = "Error"
		}
		// labels
		for _, s := range secs {
			full := u.Name + "." + s.Label
			usedSections[full] = true
			g := gs.Sections[full]
			key := u.Name + "." + s.Label
			if g == nil {
				add(key, "bad", filePos, "the spec has label %s in %s %s but the generated Go has no critical section %q", s.Label, u.Kind, u.Name, full)
				continue
			}
			if g.Unsupported != "" {
				add(key, "undecided", g.Pos, "the Go recogniser does not understand this critical section: %s", g.Unsupported)
				continue
			}
			want := canon.Stream(s.Body)
			if eq(want, g.Stream) {
				add(key, "ok", g.Pos, "%d tokens agree", len(want))
			} else if nw, ng := NormalizeStream(want), NormalizeStream(g.Stream); eq(nw, ng) {
				// same section up to where the continuation of a conditional is written and the polarity of its test
				add(key, "ok", g.Pos, "%d tokens agree (normal form: continuations pushed into the arms, tests un-negated)", len(nw))
			} else if cw, cg := CommutativeNorm(nw), CommutativeNorm(ng); eq(cw, cg) {
				add(key, "ok", g.Pos, "%d tokens agree (normal form; operands of =, #, +, *, \\cup, \\cap and set literals in lexical order)", len(cw))
			} else {
				add(key, "bad", g.Pos, "the generated critical section differs from the spec's label %s: %s", s.Label, diff(nw, ng))
			}
		}
		full := u.Name + "." + synthetic
		usedSections[full] = true
		if g := gs.Sections[full]; g == nil {
			add(full, "bad", filePos, "missing synthetic critical section %q", full)
		} else {
			want := []string{"DONE"}
			if synthetic == "Error" {
				want = []string{"ERROR"}
			}
			if eq(want, g.Stream) {
				add(full, "ok", g.Pos, "synthetic section")
			} else {
				add(full, "bad", g.Pos, "synthetic section %s does more than return its sentinel: %v", full, g.Stream)
			}
		}
		// metadata
		first := ""
		if len(secs) > 0 {
			first = u.Name + "." + secs[0].Label
		}
		var refs, vals, state []string
		for _, p := range u.Params {
			if p.Ref {
				refs = append(refs, u.Name+"."+p.Name)
			} else {
				vals = append(vals, u.Name+"."+p.Name)
			}
			state = append(state, u.Name+"."+p.Name)
		}
		for _, v := range u.Vars {
			state = append(state, u.Name+"."+v.Name)
		}
		if u.Kind == "archetype" {
			a := gs.Archetypes[u.Name]
			key := u.Name + ":archetype"
			if a == nil {
				add(key, "bad", filePos, "no MPCalArchetype value for archetype %s", u.Name)
				continue
			}
			if a.Unsupported != "" {
				add(key, "undecided", a.Pos, "archetype PreAmble not understood: %s", a.Unsupported)
				continue
			}
			var problems []string
			if a.Label != first {
				problems = append(problems, fmt.Sprintf("Label is %q, the first label of the spec is %q", a.Label, first))
			}
			if !eq(a.RefParams, refs) {
				problems = append(problems, fmt.Sprintf("RequiredRefParams %v, spec ref parameters %v", a.RefParams, refs))
			}
			if !eq(a.ValParams, vals) {
				problems = append(problems, fmt.Sprintf("RequiredValParams %v, spec value parameters %v", a.ValParams, vals))
			}
			if len(a.Locals) != len(u.Vars) {
				problems = append(problems, fmt.Sprintf("PreAmble initialises %d locals, the spec declares %d", len(a.Locals), len(u.Vars)))
			} else {
				for i, v := range u.Vars {
					var want []string
					switch v.Kind {
					case 0:
						want = []string{"=", "defaultInitValue"}
					case '=':
						want = append([]string{"="}, canon.Expr(v.Val)...)
					default:
						want = append([]string{"\\in"}, canon.Expr(v.Val)...)
					}
					if a.Locals[i].Name != v.Name || !eq(a.Locals[i].Stream, want) {
						problems = append(problems, fmt.Sprintf("local %s: spec initialiser %v, Go %s %v", v.Name, want, a.Locals[i].Name, a.Locals[i].Stream))
					}
				}
			}
			if len(problems) == 0 {
				add(key, "ok", a.Pos, "label, parameters and %d local initialisers agree", len(u.Vars))
			} else {
				add(key, "bad", a.Pos, "%s", strings.Join(problems, "; "))
			}
		} else {
			p := gs.Procs[u.Name]
			key := u.Name + ":procedure"
			if p == nil {
				add(key, "bad", filePos, "no MPCalProc value for procedure %s", u.Name)
				continue
			}
			if p.Unsupported != "" {
				add(key, "undecided", p.Pos, "procedure PreAmble not understood: %s", p.Unsupported)
				continue
			}
			var problems []string
			if p.Label != first {
				problems = append(problems, fmt.Sprintf("Label is %q, first label is %q", p.Label, first))
			}
			if !eq(p.StateVars, state) {
				problems = append(problems, fmt.Sprintf("StateVars %v, spec parameters then locals %v (the frame/argument convention of Call)", p.StateVars, state))
			}
			var want []string
			for _, v := range u.Vars {
				want = append(want, "ASSIGN", canon.Ident(v.Name), ":=")
				if v.Kind == 0 {
					want = append(want, "defaultInitValue")
				} else {
					want = append(want, canon.Expr(v.Val)...)
				}
				want = append(want, ";")
			}
			if !eq(p.PreAmble, want) {
				problems = append(problems, "PreAmble differs: "+diff(want, p.PreAmble))
			}
			if len(problems) == 0 {
				add(key, "ok", p.Pos, "label, state variables and preamble agree")
			} else {
				add(key, "bad", p.Pos, "%s", strings.Join(problems, "; "))
			}
		}
	}
	// sections in Go that the spec does not have
	var extra []string
	for name := range gs.Sections {
		if !usedSections[name] {
			extra = append(extra, name)
		}
	}
	sort.Strings(extra)
	for _, name := range extra {
		add(name, "bad", gs.Sections[name].Pos, "the generated Go has critical section %q which the spec does not define", name)
	}
	// operator definitions
	for _, d := range spec.Defs {
		goName := strings.ToUpper(d.Name[:1]) + d.Name[1:]
		key := "operator " + d.Name
		var op *GoOp
		for n, o := range gs.Ops {
			if stripDigits(n) == goName || n == goName {
				op = o
			}
		}
		if op == nil {
			add(key, "bad", filePos, "operator %s of the spec has no Go function %s", d.Name, goName)
			continue
		}
		if op.Unsupported != "" {
			add(key, "undecided", op.Pos, "operator body not understood: %s", op.Unsupported)
			continue
		}
		if len(op.Params) != len(d.Params) {
			add(key, "bad", op.Pos, "operator %s has %d parameters in the spec and %d in Go", d.Name, len(d.Params), len(op.Params))
			continue
		}
		want := canon.Expr(d.Body)
		if eq(want, op.Stream) {
			add(key, "ok", op.Pos, "%d tokens agree", len(want))
		} else if cw, cg := CommutativeNorm(want), CommutativeNorm(op.Stream); eq(cw, cg) {
			add(key, "ok", op.Pos, "%d tokens agree (operands of =, #, +, *, \\cup, \\cap and set literals in lexical order)", len(cw))
		} else {
			add(key, "bad", op.Pos, "operator %s differs from its definition: %s", d.Name, diff(want, op.Stream))
		}
	}
	// JT-CLOSED
	for _, name := range sortedKeys(gs.Sections) {
		g := gs.Sections[name]
		for _, t := range g.Targets {
			switch t.Kind {
			case "goto", "call-return":
				if gs.Sections[t.Name] == nil {
					add(name+":target("+t.Name+")", "bad", t.Pos, "%s names critical section %q, which is not in the jump table (panics when reached)", t.Kind, t.Name)
				}
			case "call-proc":
				if gs.Procs[t.Name] == nil {
					add(name+":proc("+t.Name+")", "bad", t.Pos, "call names procedure %q, which is not in the procedure table", t.Name)
				}
			}
		}
	}
	return obs
}

func sortedKeys(m map[string]*GoSection) []string {
	var out []string
	for k := range m {
		out = append(out, k)
	}
	sort.Strings(out)
	return out
}
