package specmatch

import (
	"fmt"
	"strings"
)

// ---------------------------------------------------------------- AST

type Expr []Tok

type Stmt interface{ line() int }

type base struct{ Line int }

func (b base) line() int { return b.Line }

type Labeled struct {
	base
	Label string
	Body  []Stmt
}
type LHS struct {
	Name  string
	Projs []Expr // each projection: the tokens between [ ] (".f" is stored as the string token "f")
}
type AssignPair struct {
	L LHS
	R Expr
}
type Assign struct {
	base
	Pairs []AssignPair
}
type If struct {
	base
	Cond       Expr
	Then, Else []Stmt
}
type Either struct {
	base
	Cases [][]Stmt
}
type While struct {
	base
	Cond Expr
	Body []Stmt
}
type WithDecl struct {
	Name  string
	IsSet bool
	Val   Expr
}
type With struct {
	base
	Decls []WithDecl
	Body  []Stmt
}
type Await struct {
	base
	Cond Expr
}
type Assert struct {
	base
	Cond Expr
}
type Print struct {
	base
	Val Expr
}
type Skip struct{ base }
type Goto struct {
	base
	Target string
}
type Return struct{ base }
type CallArg struct {
	Ref  bool
	Name string
	E    Expr
}
type Call struct {
	base
	Proc string
	Args []CallArg
}
type MacroCall struct {
	base
	Name string
	Args []Expr
}

type Param struct {
	Name string
	Ref  bool
	Maps int // number of [_]
}
type VarDecl struct {
	Name string
	Kind byte // 0 none, '=' value, 'i' \in
	Val  Expr
}
type Unit struct {
	Kind   string // "archetype" | "procedure"
	Name   string
	Params []Param
	Vars   []VarDecl
	Body   []Stmt
	Line   int
}
type Macro struct {
	Name   string
	Params []string
	Body   []Stmt
}
type OpDef struct {
	Name   string
	Params []string
	Body   Expr
	Line   int
}
type Spec struct {
	Name        string
	Defs        []OpDef // module-level definitions before the block, then the define block
	Macros      map[string]*Macro
	Units       []*Unit // archetypes and MPCal procedures in source order
	Unsupported []string
}

// ---------------------------------------------------------------- parser

type parser struct {
	toks []Tok
	pos  int
}

type parseError struct{ msg string }

func (p *parser) fail(format string, args ...any) {
	line := 0
	if p.pos < len(p.toks) {
		line = p.toks[p.pos].Line
	} else if len(p.toks) > 0 {
		line = p.toks[len(p.toks)-1].Line
	}
	panic(parseError{fmt.Sprintf("line %d: ", line) + fmt.Sprintf(format, args...)})
}

func (p *parser) peek() Tok {
	if p.pos < len(p.toks) {
		return p.toks[p.pos]
	}
	return Tok{S: "<eof>", Kind: 'o'}
}
func (p *parser) peekAt(k int) Tok {
	if p.pos+k < len(p.toks) {
		return p.toks[p.pos+k]
	}
	return Tok{S: "<eof>", Kind: 'o'}
}
func (p *parser) next() Tok {
	t := p.peek()
	p.pos++
	return t
}
func (p *parser) is(s string) bool { return p.peek().S == s }
func (p *parser) accept(s string) bool {
	if p.is(s) {
		p.pos++
		return true
	}
	return false
}
func (p *parser) expect(s string) Tok {
	if !p.is(s) {
		p.fail("expected %q, found %q", s, p.peek().S)
	}
	return p.next()
}
func (p *parser) ident() string {
	t := p.next()
	if t.Kind != 'i' {
		p.pos--
		p.fail("expected identifier, found %q", t.S)
	}
	return t.S
}

var openers = map[string]string{"(": ")", "[": "]", "{": "}", "<<": ">>"}
var closers = map[string]bool{")": true, "]": true, "}": true, ">>": true}

// scanExpr consumes tokens up to (not including) the first token at bracket
// depth 0 for which stop returns true, or an unmatched closer.
func (p *parser) scanExpr(stop func(t Tok) bool) Expr {
	var out Expr
	var stack []string
	for p.pos < len(p.toks) {
		t := p.toks[p.pos]
		if len(stack) == 0 {
			if closers[t.S] || stop(t) {
				break
			}
		}
		if c, ok := openers[t.S]; ok {
			stack = append(stack, c)
		} else if closers[t.S] {
			if len(stack) == 0 || stack[len(stack)-1] != t.S {
				p.fail("mismatched %q in expression", t.S)
			}
			stack = stack[:len(stack)-1]
		}
		out = append(out, t)
		p.pos++
	}
	if len(stack) != 0 {
		p.fail("unterminated bracket in expression")
	}
	return out
}

// balanced consumes a bracketed group starting at the current opener and returns its inside.
func (p *parser) balanced(open string) Expr {
	p.expect(open)
	inner := p.scanExpr(func(Tok) bool { return false })
	p.expect(openers[open])
	return inner
}

// splitTop splits e at top-level occurrences of sep tokens.
func splitTop(e Expr, seps ...string) []Expr {
	var out []Expr
	var cur Expr
	depth := 0
	isSep := func(s string) bool {
		for _, x := range seps {
			if x == s {
				return true
			}
		}
		return false
	}
	for _, t := range e {
		if _, ok := openers[t.S]; ok {
			depth++
		} else if closers[t.S] {
			depth--
		}
		if depth == 0 && isSep(t.S) {
			out = append(out, cur)
			cur = nil
			continue
		}
		cur = append(cur, t)
	}
	if len(cur) > 0 || len(out) > 0 {
		out = append(out, cur)
	}
	return out
}

func stmtEnd(t Tok) bool { return t.S == ";" }

func (p *parser) block() []Stmt {
	p.expect("{")
	var out []Stmt
	for !p.is("}") {
		if p.pos >= len(p.toks) {
			p.fail("unterminated block")
		}
		if p.accept(";") {
			continue
		}
		out = append(out, p.stmt())
	}
	p.expect("}")
	return out
}

func (p *parser) stmtOrBlock() []Stmt {
	if p.is("{") {
		return p.block()
	}
	return []Stmt{p.stmt()}
}

func (p *parser) stmt() Stmt {
	t := p.peek()
	b := base{t.Line}
	if t.Kind == 'i' && p.peekAt(1).S == ":" {
		// label (optionally followed by + or - fairness modifiers)
		p.pos += 2
		if p.is("+") || p.is("-") {
			p.pos++
		}
		ls := &Labeled{base: b, Label: t.S}
		// the labelled statement sequence extends to the next label at this nesting level / end of block:
		// we only parse the first statement here; the caller groups following statements (see groupLabels)
		if p.is("{") {
			ls.Body = p.block()
		} else if !p.is("}") {
			ls.Body = []Stmt{p.stmt()}
		}
		return ls
	}
	switch t.S {
	case "{":
		// anonymous compound statement: splice
		body := p.block()
		p.accept(";")
		return &With{base: b, Body: body} // a With without declarations is spliced by the caller
	case "if":
		p.next()
		cond := p.balanced("(")
		s := &If{base: b, Cond: cond, Then: p.stmtOrBlock()}
		p.accept(";")
		if p.accept("else") {
			s.Else = p.stmtOrBlock()
		}
		p.accept(";")
		return s
	case "either":
		p.next()
		s := &Either{base: b}
		s.Cases = append(s.Cases, p.stmtOrBlock())
		for p.accept("or") {
			s.Cases = append(s.Cases, p.stmtOrBlock())
		}
		p.accept(";")
		return s
	case "while":
		p.next()
		cond := p.balanced("(")
		s := &While{base: b, Cond: cond, Body: p.stmtOrBlock()}
		p.accept(";")
		return s
	case "with":
		p.next()
		inner := p.balanced("(")
		s := &With{base: b}
		for _, d := range splitTop(inner, ",", ";") {
			if len(d) == 0 {
				continue
			}
			if len(d) < 3 || d[0].Kind != 'i' || (d[1].S != "=" && d[1].S != "\\in") {
				p.fail("unsupported with declaration %q", joinToks(d))
			}
			s.Decls = append(s.Decls, WithDecl{Name: d[0].S, IsSet: d[1].S == "\\in", Val: d[2:]})
		}
		s.Body = p.stmtOrBlock()
		p.accept(";")
		return s
	case "await", "when":
		p.next()
		s := &Await{base: b, Cond: p.scanExpr(stmtEnd)}
		p.accept(";")
		return s
	case "assert":
		p.next()
		s := &Assert{base: b, Cond: p.scanExpr(stmtEnd)}
		p.accept(";")
		return s
	case "print":
		p.next()
		s := &Print{base: b, Val: p.scanExpr(stmtEnd)}
		p.accept(";")
		return s
	case "skip":
		p.next()
		p.accept(";")
		return &Skip{b}
	case "goto":
		p.next()
		s := &Goto{base: b, Target: p.ident()}
		p.accept(";")
		return s
	case "return":
		p.next()
		p.accept(";")
		return &Return{b}
	case "call":
		p.next()
		s := &Call{base: b, Proc: p.ident()}
		inner := p.balanced("(")
		for _, a := range splitTop(inner, ",") {
			if len(a) == 0 {
				continue
			}
			if a[0].S == "ref" {
				if len(a) < 2 {
					p.fail("bad ref argument")
				}
				s.Args = append(s.Args, CallArg{Ref: true, Name: a[1].S, E: a[1:]})
			} else {
				s.Args = append(s.Args, CallArg{E: a})
			}
		}
		p.accept(";")
		return s
	}
	if t.Kind != 'i' {
		p.fail("unexpected token %q at start of statement", t.S)
	}
	if p.peekAt(1).S == "(" {
		p.next()
		s := &MacroCall{base: b, Name: t.S}
		inner := p.balanced("(")
		for _, a := range splitTop(inner, ",") {
			s.Args = append(s.Args, a)
		}
		p.accept(";")
		return s
	}
	// assignment
	s := &Assign{base: b}
	for {
		var l LHS
		l.Name = p.ident()
		for {
			if p.is("[") {
				l.Projs = append(l.Projs, p.balanced("["))
			} else if p.is(".") {
				p.next()
				f := p.next()
				l.Projs = append(l.Projs, Expr{Tok{S: `"` + f.S + `"`, Kind: 's', Line: f.Line}})
			} else {
				break
			}
		}
		p.expect(":=")
		r := p.scanExpr(func(t Tok) bool { return t.S == ";" || t.S == "||" })
		s.Pairs = append(s.Pairs, AssignPair{l, r})
		if !p.accept("||") {
			break
		}
	}
	p.accept(";")
	return s
}

func joinToks(e Expr) string {
	var parts []string
	for _, t := range e {
		parts = append(parts, t.S)
	}
	return strings.Join(parts, " ")
}

// groupLabels re-associates statements following a label with that label:
// in PlusCal `l: s1; s2; m: s3` the label l covers s1;s2. The parser attaches
// only the first statement to the label, so this pass moves the following
// unlabelled siblings into the preceding Labeled statement, recursively.
func groupLabels(stmts []Stmt) []Stmt {
	var out []Stmt
	for _, s := range stmts {
		s = regroup(s)
		if w, ok := s.(*With); ok && len(w.Decls) == 0 {
			// anonymous block: splice
			for _, x := range w.Body {
				out = appendGrouped(out, x)
			}
			continue
		}
		out = appendGrouped(out, s)
	}
	return out
}

func appendGrouped(out []Stmt, s Stmt) []Stmt {
	if _, isLabel := s.(*Labeled); !isLabel && len(out) > 0 {
		if prev, ok := out[len(out)-1].(*Labeled); ok {
			prev.Body = append(prev.Body, s)
			return out
		}
	}
	return append(out, s)
}

func regroup(s Stmt) Stmt {
	switch x := s.(type) {
	case *Labeled:
		x.Body = groupLabels(x.Body)
	case *If:
		x.Then = groupLabels(x.Then)
		x.Else = groupLabels(x.Else)
	case *Either:
		for i := range x.Cases {
			x.Cases[i] = groupLabels(x.Cases[i])
		}
	case *While:
		x.Body = groupLabels(x.Body)
	case *With:
		x.Body = groupLabels(x.Body)
	}
	return s
}

func (p *parser) params() []Param {
	inner := p.balanced("(")
	var out []Param
	for _, a := range splitTop(inner, ",") {
		if len(a) == 0 {
			continue
		}
		pr := Param{}
		i := 0
		if a[0].S == "ref" {
			pr.Ref = true
			i = 1
		}
		if i >= len(a) || a[i].Kind != 'i' {
			p.fail("bad parameter %q", joinToks(a))
		}
		pr.Name = a[i].S
		for _, t := range a[i+1:] {
			if t.S == "_" {
				pr.Maps++
			}
		}
		out = append(out, pr)
	}
	return out
}

func (p *parser) varDecls() []VarDecl {
	var out []VarDecl
	for {
		if p.is("{") || p.pos >= len(p.toks) {
			break
		}
		if p.accept(";") || p.accept(",") {
			continue
		}
		t := p.peek()
		if t.Kind != 'i' {
			break
		}
		// a declaration list ends where a new unit keyword starts
		switch t.S {
		case "archetype", "procedure", "process", "fair", "macro", "mapping", "define", "variables", "variable":
			return out
		}
		p.next()
		d := VarDecl{Name: t.S}
		if p.is("=") || p.is("\\in") {
			if p.next().S == "=" {
				d.Kind = '='
			} else {
				d.Kind = 'i'
			}
			d.Val = p.scanExpr(func(t Tok) bool { return t.S == ";" || t.S == "," })
		}
		out = append(out, d)
	}
	return out
}

// parseDefs extracts operator definitions `Name == e` / `Name(a, b) == e` from a token list.
func parseDefs(toks []Tok) []OpDef {
	var out []OpDef
	type start struct {
		at, bodyAt int
		name       string
		params     []string
	}
	var starts []start
	depth, let := 0, 0
	stopWords := map[string]bool{"CONSTANT": true, "CONSTANTS": true, "VARIABLE": true, "VARIABLES": true, "ASSUME": true, "ASSUMPTION": true,
		"AXIOM": true, "THEOREM": true, "RECURSIVE": true, "LOCAL": true, "INSTANCE": true, "EXTENDS": true, "MODULE": true}
	var ends []int
	for i := 0; i < len(toks); i++ {
		t := toks[i]
		if _, ok := openers[t.S]; ok {
			depth++
			continue
		}
		if closers[t.S] {
			depth--
			continue
		}
		if t.S == "LET" {
			let++
			continue
		}
		if t.S == "IN" && let > 0 {
			let--
			continue
		}
		if depth != 0 || let != 0 {
			continue
		}
		if stopWords[t.S] || (t.Kind == 'o' && (strings.HasPrefix(t.S, "----") || strings.HasPrefix(t.S, "===="))) {
			ends = append(ends, i)
			continue
		}
		if t.Kind != 'i' {
			continue
		}
		if i+1 < len(toks) && toks[i+1].S == "==" {
			starts = append(starts, start{i, i + 2, t.S, nil})
			i++
			continue
		}
		if i+1 < len(toks) && toks[i+1].S == "(" {
			// Name ( params ) ==
			j := i + 2
			var ps []string
			ok := true
			for j < len(toks) && toks[j].S != ")" {
				if toks[j].Kind == 'i' {
					ps = append(ps, toks[j].S)
				} else if toks[j].S != "," && toks[j].S != "(" && toks[j].S != "_" {
					ok = false
				}
				if toks[j].S == "(" { // higher-order parameter Op(_, _): skip to its ')'
					for j < len(toks) && toks[j].S != ")" {
						j++
					}
				}
				j++
			}
			if ok && j+1 < len(toks) && toks[j+1].S == "==" {
				starts = append(starts, start{i, j + 2, t.S, ps})
				// move past "==" ; do not count the parameter parens for depth (they were skipped)
				i = j + 1
				continue
			}
		}
	}
	for k, s := range starts {
		end := len(toks)
		if k+1 < len(starts) {
			end = starts[k+1].at
		}
		for _, e := range ends {
			if e > s.bodyAt && e < end {
				end = e
				break
			}
		}
		out = append(out, OpDef{Name: s.name, Params: s.params, Body: Expr(toks[s.bodyAt:end]), Line: toks[s.at].Line})
	}
	return out
}

// ParseSpec parses the MPCal block and the module-level definitions of a .tla source.
func ParseSpec(src string) (spec *Spec, err error) {
	defer func() {
		if r := recover(); r != nil {
			if pe, ok := r.(parseError); ok {
				err = fmt.Errorf("%s", pe.msg)
				return
			}
			panic(r)
		}
	}()
	block, startLine, before, ferr := FindMPCal(src)
	if ferr != nil {
		return nil, ferr
	}
	spec = &Spec{Macros: map[string]*Macro{}}
	btoks, lerr := Lex(before, 1)
	if lerr != nil {
		return nil, lerr
	}
	spec.Defs = parseDefs(btoks)
	toks, lerr := Lex(block, startLine)
	if lerr != nil {
		return nil, lerr
	}
	p := &parser{toks: toks}
	p.expect("--")
	p.expect("mpcal")
	spec.Name = p.ident()
	p.expect("{")
	for !p.is("}") {
		if p.pos >= len(p.toks) {
			p.fail("unterminated mpcal block")
		}
		t := p.next()
		switch t.S {
		case ";":
		case "define":
			inner := p.balanced("{")
			spec.Defs = append(spec.Defs, parseDefs(inner)...)
			p.accept(";")
		case "macro":
			m := &Macro{Name: p.ident()}
			for _, a := range splitTop(p.balanced("("), ",") {
				if len(a) == 1 {
					m.Params = append(m.Params, a[0].S)
				}
			}
			m.Body = groupLabels(p.block())
			p.accept(";")
			spec.Macros[m.Name] = m
		case "mapping":
			p.expect("macro")
			p.ident()
			p.balanced("{")
			p.accept(";")
		case "archetype", "procedure":
			u := &Unit{Kind: t.S, Name: p.ident(), Line: t.Line}
			u.Params = p.params()
			if p.accept("variables") || p.accept("variable") {
				u.Vars = p.varDecls()
			}
			u.Body = groupLabels(p.block())
			p.accept(";")
			spec.Units = append(spec.Units, u)
		case "variables", "variable":
			p.varDecls()
		case "fair", "process":
			// `fair process (x \in S) == instance A(...) mapping ...;`  or a plain PlusCal process with a body
			if t.S == "fair" {
				p.accept("+")
				p.expect("process")
			}
			p.balanced("(")
			if p.accept("==") {
				// instance: skip to ';' at depth 0
				p.scanExpr(stmtEnd)
				p.accept(";")
			} else {
				if p.accept("variables") || p.accept("variable") {
					p.varDecls()
				}
				p.balanced("{")
				p.accept(";")
			}
		default:
			p.pos--
			p.fail("unexpected token %q in mpcal block", t.S)
		}
	}
	return spec, nil
}
