package specmatch

import (
	"fmt"
	"go/ast"
	"go/constant"
	"go/token"
	"go/types"
	"sort"
	"strings"

	"golang.org/x/tools/go/types/typeutil"

	"pgoverif/checker/scalatab"
)

const (
	pkgDistsys = "github.com/DistCompiler/pgo/distsys"
	pkgTLA     = "github.com/DistCompiler/pgo/distsys/tla"
)

// GoSide is what the recogniser recovers from one generated package.
type GoSide struct {
	Sections   map[string]*GoSection // by full name "Arch.label"
	Archetypes map[string]*GoArchetype
	Procs      map[string]*GoProc
	Ops        map[string]*GoOp // operator functions by Go name
}

type GoSection struct {
	Name        string
	Stream      []string
	Unsupported string // non-empty: the body contains a construct the recogniser does not know
	Pos         token.Pos
	Targets     []GoTarget // Goto/Call targets for JT-CLOSED
}
type GoTarget struct {
	Kind string // "goto" | "call-proc" | "call-return"
	Name string
	Pos  token.Pos
}
type GoArchetype struct {
	Name, Label          string
	RefParams, ValParams []string
	Locals               []GoLocal
	Pos                  token.Pos
	Unsupported          string
}
type GoLocal struct {
	Name   string
	Stream []string
}
type GoProc struct {
	Name, Label string
	StateVars   []string
	PreAmble    []string
	Pos         token.Pos
	Unsupported string
}
type GoOp struct {
	Name        string
	Params      []string
	Stream      []string
	Pos         token.Pos
	Unsupported string
}

type unsupported struct{ msg string }

type rec struct {
	info  *types.Info
	canon *Canon
	tabs  *scalatab.Tables
	fset  *token.FileSet
	// per section state
	prefix  string                  // "Arch."
	handles map[types.Object]string // Go handle variable -> TLA name
	temps   map[types.Object][]string
	uses    map[types.Object]int
	refArgs map[types.Object]string // x := iface.ReadArchetypeResourceLocal("A.x") -> name
	anchors map[types.Object]bool   // EXCEPT anchor parameters
	targets []GoTarget
	symRepr map[string]string // Go Module<Name> -> canonical token
	symFix  map[string]int    // 1 prefix, 2 infix
	// placement of lifted reads: a read belongs to the statement that follows it in the same list
	depth     int
	cur       map[int]ast.Stmt
	tempDepth map[types.Object]int
	tempOwner map[types.Object]ast.Stmt
	labelIfs  map[ast.Stmt]ast.Stmt // `next := L; if c { next = M }; return Goto(next)` tails, by their first statement
	hoisted   []string
	// aliases: locals introduced by a refactoring as names for a pure sub-expression (`k := tla.MakeString("from")`)
	aliases map[types.Object][]string
	// sliceAliases: locals naming a slice literal of values (index lists, record fields)
	sliceAliases map[types.Object]ast.Expr
	// strArgs: string parameters of a helper being read in place, bound to the literal the caller passed
	strArgs map[types.Object]string
	// consts: package-level variables with an initialiser that nothing assigns (hoisted constants)
	consts map[types.Object]ast.Expr
	// body of the section being recognised (to count the uses of a read temporary)
	body *ast.BlockStmt
	// decls: function declarations of the generated package (helpers a maintainer extracted are read in place)
	decls    map[*types.Func]*ast.FuncDecl
	inlining int
	markers  []string
	// withNames: the names the specification binds with `with` in the section being recognised (canonical spelling)
	withNames map[string]bool
	// SpecWith: section name -> with-bound names of the specification
	SpecWith map[string]map[string]bool
}

func (r *rec) bad(n ast.Node, format string, args ...any) {
	pos := ""
	if n != nil && r.fset != nil {
		p := r.fset.Position(n.Pos())
		pos = fmt.Sprintf("line %d: ", p.Line)
	}
	panic(unsupported{pos + fmt.Sprintf(format, args...)})
}

func newRec(info *types.Info, fset *token.FileSet, canon *Canon, tabs *scalatab.Tables) *rec {
	r := &rec{info: info, fset: fset, canon: canon, tabs: tabs, symRepr: map[string]string{}, symFix: map[string]int{}}
	for _, op := range tabs.Ops {
		if !op.IsSym {
			continue
		}
		rep := op.Repr
		if op.Name == "NegationSymbol" {
			rep = "-"
		}
		r.symRepr[op.Name] = rep
		r.symFix[op.Name] = op.Arity
	}
	return r
}

func (r *rec) reset(prefix string) {
	r.prefix = prefix
	r.handles = map[types.Object]string{}
	r.temps = map[types.Object][]string{}
	r.uses = map[types.Object]int{}
	r.refArgs = map[types.Object]string{}
	r.anchors = map[types.Object]bool{}
	r.targets = nil
	r.depth = 0
	r.cur = map[int]ast.Stmt{}
	r.tempDepth = map[types.Object]int{}
	r.tempOwner = map[types.Object]ast.Stmt{}
	r.hoisted = nil
	r.aliases = map[types.Object][]string{}
	r.sliceAliases = map[types.Object]ast.Expr{}
	r.strArgs = map[types.Object]string{}
	r.markers = nil
}

func (r *rec) callee(call *ast.CallExpr) *types.Func {
	f, _ := typeutil.Callee(r.info, call).(*types.Func)
	return f
}

func recvTypeName(f *types.Func) string {
	sig := f.Type().(*types.Signature)
	if sig.Recv() == nil {
		return ""
	}
	t := sig.Recv().Type()
	if p, ok := t.(*types.Pointer); ok {
		t = p.Elem()
	}
	if n, ok := t.(*types.Named); ok {
		return n.Obj().Name()
	}
	return ""
}

func (r *rec) isMethod(call *ast.CallExpr, pkg, typ, name string) bool {
	f := r.callee(call)
	return f != nil && f.Pkg() != nil && f.Pkg().Path() == pkg && f.Name() == name && recvTypeName(f) == typ
}

func (r *rec) isFunc(call *ast.CallExpr, pkg, name string) bool {
	f := r.callee(call)
	return f != nil && f.Pkg() != nil && f.Pkg().Path() == pkg && f.Name() == name && recvTypeName(f) == ""
}

func (r *rec) str(e ast.Expr) (string, bool) {
	if id, isId := unparen(e).(*ast.Ident); isId {
		if sv, has := r.strArgs[r.info.ObjectOf(id)]; has {
			return sv, true
		}
	}
	tv, ok := r.info.Types[e]
	if !ok || tv.Value == nil || tv.Value.Kind() != constant.String {
		return "", false
	}
	return constant.StringVal(tv.Value), true
}

func unparen(e ast.Expr) ast.Expr {
	for {
		p, ok := e.(*ast.ParenExpr)
		if !ok {
			return e
		}
		e = p.X
	}
}

func (r *rec) obj(e ast.Expr) types.Object {
	if id, ok := unparen(e).(*ast.Ident); ok {
		return r.info.ObjectOf(id)
	}
	return nil
}

// stripPrefix turns "Arch.name" into "name" (checking the prefix).
func (r *rec) local(full string, n ast.Node) string {
	if !strings.HasPrefix(full, r.prefix) {
		r.bad(n, "resource name %q does not belong to %q", full, r.prefix)
	}
	return strings.TrimPrefix(full, r.prefix)
}

// ---------------------------------------------------------------- expressions

func (r *rec) asBoolRecv(e ast.Expr) (ast.Expr, bool) {
	call, ok := unparen(e).(*ast.CallExpr)
	if !ok || !r.isMethod(call, pkgTLA, "Value", "AsBool") {
		return nil, false
	}
	return unparen(call.Fun).(*ast.SelectorExpr).X, true
}

// enterHelper binds the parameters of a package-local helper that the specification does not define (a function a
// maintainer extracted from the generated sections) to the call's arguments - handles to handles, values to their
// rendering - and returns its body; restore undoes the bindings.
func (r *rec) enterHelper(call *ast.CallExpr) (body []ast.Stmt, restore func(), ok bool) {
	f := r.callee(call)
	if f == nil || r.inlining >= 4 {
		return nil, nil, false
	}
	d := r.decls[f]
	if d == nil || d.Body == nil || d.Recv != nil || r.canon.Defs[f.Name()] || d.Type.TypeParams != nil {
		return nil, nil, false
	}
	var params []types.Object
	for _, fl := range d.Type.Params.List {
		if _, variadic := fl.Type.(*ast.Ellipsis); variadic {
			return nil, nil, false
		}
		if len(fl.Names) == 0 {
			params = append(params, nil)
		}
		for _, nm := range fl.Names {
			params = append(params, r.info.Defs[nm])
		}
	}
	if len(params) != len(call.Args) {
		return nil, nil, false
	}
	type saved struct {
		o      types.Object
		alias  []string
		hasA   bool
		handle string
		hasH   bool
		ref    string
		hasR   bool
	}
	var undo []saved
	for k, p := range params {
		if p == nil {
			continue
		}
		a := call.Args[k]
		sv := saved{o: p}
		sv.alias, sv.hasA = r.aliases[p]
		sv.handle, sv.hasH = r.handles[p]
		sv.ref, sv.hasR = r.refArgs[p]
		undo = append(undo, sv)
		tn := ""
		if n, isNamed := p.Type().(*types.Named); isNamed {
			tn = n.Obj().Name()
		}
		switch {
		case tn == "ArchetypeInterface":
			// the interface itself
		case tn == "ArchetypeResourceHandle":
			if h, has := r.handles[r.obj(a)]; has {
				r.handles[p] = h
			} else if h, has := r.refArgs[r.obj(a)]; has {
				r.refArgs[p] = h
			} else {
				return nil, nil, false
			}
		default:
			if b, isBasic := p.Type().Underlying().(*types.Basic); isBasic && b.Kind() == types.String {
				if sv, isStr := r.str(a); isStr {
					r.strArgs[p] = sv
					continue
				}
				return nil, nil, false
			}
			if b, isBasic := p.Type().Underlying().(*types.Basic); isBasic && b.Kind() == types.Bool {
				r.aliases[p] = r.condToks(unparen(a))
			} else {
				r.aliases[p] = r.expr(a)
			}
		}
	}
	oldBody := r.body
	r.body = d.Body
	r.inlining++
	return d.Body.List, func() {
		r.inlining--
		r.body = oldBody
		// the helper's own read temporaries are judged per call: the next call reads again
		for o := range r.temps {
			if o.Pos() < d.Body.Pos() || o.Pos() >= d.Body.End() {
				continue
			}
			switch n := r.uses[o]; {
			case n > 1:
				r.markers = append(r.markers, "REUSED-READ", strings.Join(r.temps[o], " "))
			case n == 0:
				r.markers = append(r.markers, "EXTRA-READ", strings.Join(r.temps[o], " "))
			}
			delete(r.temps, o)
			delete(r.uses, o)
			delete(r.tempDepth, o)
			delete(r.tempOwner, o)
		}
		for _, sv := range undo {
			delete(r.aliases, sv.o)
			delete(r.handles, sv.o)
			delete(r.refArgs, sv.o)
			delete(r.strArgs, sv.o)
			if sv.hasA {
				r.aliases[sv.o] = sv.alias
			}
			if sv.hasH {
				r.handles[sv.o] = sv.handle
			}
			if sv.hasR {
				r.refArgs[sv.o] = sv.ref
			}
		}
	}, true
}

// condToks renders the condition of an if / guard: `<expr>.AsBool()`, or a Go combination (&&, ||, !) of such tests.
func (r *rec) condToks(e ast.Expr) []string {
	if x, ok := r.asBoolRecv(e); ok {
		return r.expr(x)
	}
	return r.boolExpr(e)
}

// isShortRead: `v, err := iface.Read(h, idx)` / `v, err = iface.Read(h, idx)`.
func (r *rec) isShortRead(st ast.Stmt) bool {
	as, ok := st.(*ast.AssignStmt)
	if !ok || len(as.Lhs) != 2 || len(as.Rhs) != 1 {
		return false
	}
	call, isCall := unparen(as.Rhs[0]).(*ast.CallExpr)
	return isCall && r.isMethod(call, pkgDistsys, "ArchetypeInterface", "Read")
}

// isAliasDef: `name := <expression that is not an ArchetypeInterface call>`.
func (r *rec) isAliasDef(st ast.Stmt) bool {
	as, ok := st.(*ast.AssignStmt)
	if !ok || as.Tok != token.DEFINE || len(as.Lhs) != 1 || len(as.Rhs) != 1 {
		return false
	}
	if _, isId := as.Lhs[0].(*ast.Ident); !isId {
		return false
	}
	call, isCall := unparen(as.Rhs[0]).(*ast.CallExpr)
	return !isCall || !r.isIfaceCall(call)
}

// isIfaceCall: a call of an ArchetypeInterface method (Read, Write, Require..., Goto, ...).
func (r *rec) isIfaceCall(call *ast.CallExpr) bool {
	f := r.callee(call)
	return f != nil && f.Pkg() != nil && f.Pkg().Path() == pkgDistsys && recvTypeName(f) == "ArchetypeInterface" && f.Name() != "Self" && f.Name() != "GetConstant"
}

// countUses: how often the section mentions obj apart from its declaration and the statement that assigns it from Read.
func (r *rec) countUses(obj types.Object) int {
	if r.body == nil || obj == nil {
		return 0
	}
	n := 0
	ast.Inspect(r.body, func(m ast.Node) bool {
		switch x := m.(type) {
		case *ast.AssignStmt:
			// the left-hand sides are not uses
			for _, rhs := range x.Rhs {
				ast.Inspect(rhs, func(k ast.Node) bool {
					if id, ok := k.(*ast.Ident); ok && r.info.Uses[id] == obj {
						n++
					}
					return true
				})
			}
			// `_ = x` keeps a variable alive, it does not use the value
			if isBlankAssign(x) {
				for _, rhs := range x.Rhs {
					if id, ok := unparen(rhs).(*ast.Ident); ok && r.info.Uses[id] == obj {
						n--
					}
				}
			}
			return false
		case *ast.Ident:
			if r.info.Uses[x] == obj {
				n++
			}
		}
		return true
	})
	return n
}

// countAssignments: assignments to obj other than its defining `:=`.
func (r *rec) countAssignments(obj types.Object) int {
	if r.body == nil || obj == nil {
		return 1
	}
	n := 0
	ast.Inspect(r.body, func(m ast.Node) bool {
		switch x := m.(type) {
		case *ast.AssignStmt:
			for _, l := range x.Lhs {
				if id, ok := unparen(l).(*ast.Ident); ok && r.info.Uses[id] == obj {
					n++
				}
			}
		case *ast.IncDecStmt:
			if id, ok := unparen(x.X).(*ast.Ident); ok && r.info.Uses[id] == obj {
				n++
			}
		case *ast.UnaryExpr:
			if id, ok := unparen(x.X).(*ast.Ident); ok && x.Op == token.AND && r.info.Uses[id] == obj {
				n++
			}
		}
		return true
	})
	return n
}

func (r *rec) boolExpr(e ast.Expr) []string {
	e = unparen(e)
	if x, ok := r.asBoolRecv(e); ok {
		return r.expr(x)
	}
	if id, ok := e.(*ast.Ident); ok {
		if t, has := r.aliases[r.info.ObjectOf(id)]; has {
			return t
		}
	}
	if u, ok := e.(*ast.UnaryExpr); ok && u.Op == token.NOT {
		if rep, has := r.symRepr["LogicalNotSymbol"]; has {
			return group([]string{rep}, r.boolExpr(u.X))
		}
	}
	if be, ok := e.(*ast.BinaryExpr); ok {
		switch be.Op {
		case token.LAND:
			return group(r.boolExpr(be.X), []string{"/\\"}, r.boolExpr(be.Y))
		case token.LOR:
			// a => b is emitted as !a || b
			if u, ok := unparen(be.X).(*ast.UnaryExpr); ok && u.Op == token.NOT {
				return group(r.boolExpr(u.X), []string{"=>"}, r.boolExpr(be.Y))
			}
			return group(r.boolExpr(be.X), []string{"\\/"}, r.boolExpr(be.Y))
		}
	}
	r.bad(e, "unrecognised boolean expression %s", types.ExprString(e))
	return nil
}

func (r *rec) binders(list []ast.Stmt, args types.Object) (names [][]string, rest []ast.Stmt) {
	// var x tla.Value = args[i]; _ = x      |  var a tla.Value = args[i].ApplyFunction(tla.MakeNumber(k)); _ = a
	idx := -1
	i := 0
	for i < len(list) {
		var bname *ast.Ident
		var bval ast.Expr
		switch st := list[i].(type) {
		case *ast.DeclStmt:
			gd := st.Decl.(*ast.GenDecl)
			if gd.Tok != token.VAR || len(gd.Specs) != 1 {
				break
			}
			vs := gd.Specs[0].(*ast.ValueSpec)
			if len(vs.Names) != 1 || len(vs.Values) != 1 {
				break
			}
			bname, bval = vs.Names[0], vs.Values[0]
		case *ast.AssignStmt:
			// `x := args[i]`: the binder without the `var x tla.Value = ...; _ = x` ceremony
			if st.Tok == token.DEFINE && len(st.Lhs) == 1 && len(st.Rhs) == 1 {
				if id, isId := st.Lhs[0].(*ast.Ident); isId && id.Name != "_" {
					bname, bval = id, st.Rhs[0]
				}
			}
		}
		if bname == nil {
			break
		}
		val := unparen(bval)
		tupleElem := false
		if call, ok := val.(*ast.CallExpr); ok && r.isMethod(call, pkgTLA, "Value", "ApplyFunction") {
			val = unparen(unparen(call.Fun).(*ast.SelectorExpr).X)
			tupleElem = true
		}
		which := -2
		if ix, ok := val.(*ast.IndexExpr); ok && r.obj(ix.X) == args {
			if tv := r.info.Types[ix.Index]; tv.Value != nil {
				v, _ := constant.Int64Val(tv.Value)
				which = int(v)
			}
		} else if r.obj(val) == args {
			which = 0
		}
		if which == -2 {
			break
		}
		name := r.canon.Ident(bname.Name)
		if which != idx {
			names = append(names, nil)
			idx = which
			if tupleElem {
				names[len(names)-1] = append(names[len(names)-1], "<<")
			}
		} else if tupleElem {
			names[len(names)-1] = append(names[len(names)-1], ",")
		}
		names[len(names)-1] = append(names[len(names)-1], name)
		i++
		// `_ = x`
		if i < len(list) {
			if as, ok := list[i].(*ast.AssignStmt); ok && len(as.Lhs) == 1 {
				if id, ok := as.Lhs[0].(*ast.Ident); ok && id.Name == "_" {
					i++
				}
			}
		}
	}
	for k := range names {
		if len(names[k]) > 0 && names[k][0] == "<<" {
			names[k] = append(names[k], ">>")
		}
	}
	return names, list[i:]
}

func (r *rec) closureBody(lit *ast.FuncLit, wantBool bool) (bind [][]string, body []string) {
	if len(lit.Type.Params.List) != 1 || len(lit.Type.Params.List[0].Names) != 1 {
		r.bad(lit, "closure with unexpected parameters")
	}
	args := r.info.Defs[lit.Type.Params.List[0].Names[0]]
	bind, rest := r.binders(lit.Body.List, args)
	if len(rest) != 1 {
		r.bad(lit, "closure body is not binders + return")
	}
	ret, ok := rest[0].(*ast.ReturnStmt)
	if !ok || len(ret.Results) != 1 {
		r.bad(lit, "closure body does not end in a single return")
	}
	if wantBool {
		x, ok := r.asBoolRecv(ret.Results[0])
		if !ok {
			r.bad(ret, "predicate closure does not return <expr>.AsBool()")
		}
		return bind, r.expr(x)
	}
	return bind, r.expr(ret.Results[0])
}

func (r *rec) sliceElems(e ast.Expr) []ast.Expr {
	// a slice built once and named (`atI := []tla.Value{i}`)
	if id, isId := unparen(e).(*ast.Ident); isId {
		if lit, has := r.sliceAliases[r.info.ObjectOf(id)]; has {
			e = lit
		}
	}
	cl, ok := unparen(e).(*ast.CompositeLit)
	if !ok {
		if id, ok := unparen(e).(*ast.Ident); ok && id.Name == "nil" {
			return nil
		}
		r.bad(e, "expected a slice literal, found %s", types.ExprString(e))
	}
	return cl.Elts
}

// callForm renders an operator call: name ( a , b ); a nullary operator is just its name.
func callForm(name string, args [][]string) []string {
	if len(args) == 0 {
		return []string{name}
	}
	return append(append([]string{name, "("}, join(args, ",")...), ")")
}

func join(parts [][]string, sep string) []string {
	var out []string
	for i, p := range parts {
		if i > 0 {
			out = append(out, sep)
		}
		out = append(out, p...)
	}
	return out
}

func (r *rec) exprs(es []ast.Expr) [][]string {
	var out [][]string
	for _, e := range es {
		out = append(out, r.expr(e))
	}
	return out
}

func (r *rec) quantifier(sym string, call *ast.CallExpr, boolBody bool) []string {
	sets := r.exprs(r.sliceElems(call.Args[0]))
	lit, ok := unparen(call.Args[1]).(*ast.FuncLit)
	if !ok {
		r.bad(call, "quantifier without a closure")
	}
	bind, body := r.closureBody(lit, boolBody)
	if len(bind) != len(sets) {
		r.bad(call, "quantifier binds %d names over %d sets", len(bind), len(sets))
	}
	out := []string{sym}
	for i := range sets {
		if i > 0 {
			out = append(out, ",")
		}
		out = append(out, bind[i]...)
		out = append(out, "\\in")
		out = append(out, sets[i]...)
	}
	out = append(out, ":")
	return append(out, body...)
}

// index renders the argument of ApplyFunction / an index key: a tuple argument is a multi-argument application.
func (r *rec) index(e ast.Expr) []string {
	if call, ok := unparen(e).(*ast.CallExpr); ok && r.isFunc(call, pkgTLA, "MakeTuple") && len(call.Args) > 1 {
		return join(r.exprs(call.Args), ",")
	}
	return r.expr(e)
}

func (r *rec) expr(e ast.Expr) []string {
	e = unparen(e)
	switch x := e.(type) {
	case *ast.Ident:
		o := r.info.ObjectOf(x)
		if t, ok := r.temps[o]; ok {
			r.uses[o]++
			if d, known := r.tempDepth[o]; known && (r.depth != d || (r.cur[d] != r.tempOwner[o] && !isReadTempDecl(r.cur[d]) && !r.isAliasDef(r.cur[d]) && !r.isShortRead(r.cur[d]))) {
				r.hoisted = append(r.hoisted, strings.Join(t, " "))
			}
			return t
		}
		if t, ok := r.aliases[o]; ok {
			return t
		}
		if init, ok := r.consts[o]; ok {
			return r.expr(init)
		}
		if r.anchors[o] {
			return []string{"@"}
		}
		if _, isVar := o.(*types.Var); isVar {
			return []string{r.canon.Ident(x.Name)}
		}
		r.bad(x, "unexpected identifier %s", x.Name)
	case *ast.SelectorExpr:
		// tla.ModuleTRUE etc. (arity-0 built-ins)
		if v, ok := r.info.ObjectOf(x.Sel).(*types.Var); ok && v.Pkg() != nil && v.Pkg().Path() == pkgTLA && strings.HasPrefix(v.Name(), "Module") {
			return []string{strings.TrimPrefix(v.Name(), "Module")}
		}
		r.bad(x, "unexpected selector %s", types.ExprString(x))
	case *ast.CompositeLit:
		// tla.Value{} : defaultInitValue
		if n, ok := r.info.TypeOf(x).(*types.Named); ok && n.Obj().Name() == "Value" && n.Obj().Pkg().Path() == pkgTLA && len(x.Elts) == 0 {
			return []string{"defaultInitValue"}
		}
		r.bad(x, "unexpected composite literal")
	case *ast.CallExpr:
		return r.call(x)
	}
	r.bad(e, "unsupported expression %s", types.ExprString(e))
	return nil
}

func (r *rec) call(x *ast.CallExpr) []string {
	// immediately-invoked closures: IF / CASE / LET
	if lit, ok := unparen(x.Fun).(*ast.FuncLit); ok && len(x.Args) == 0 {
		return r.iife(lit)
	}
	// iface.GetConstant("C")(args...)
	if inner, ok := unparen(x.Fun).(*ast.CallExpr); ok && r.isMethod(inner, pkgDistsys, "ArchetypeInterface", "GetConstant") {
		name, ok := r.str(inner.Args[0])
		if !ok {
			r.bad(x, "GetConstant with non-literal name")
		}
		return callForm(r.canon.Ident(name), r.exprs(x.Args))
	}
	f := r.callee(x)
	if f == nil {
		// call through a local function value (LET-defined operator or operator parameter)
		if id, ok := unparen(x.Fun).(*ast.Ident); ok {
			return callForm(r.canon.Ident(id.Name), r.exprs(x.Args))
		}
		r.bad(x, "unresolved call %s", types.ExprString(x.Fun))
	}
	pkg := ""
	if f.Pkg() != nil {
		pkg = f.Pkg().Path()
	}
	recv := recvTypeName(f)
	switch {
	case pkg == pkgDistsys && recv == "ArchetypeInterface":
		switch f.Name() {
		case "Self":
			return []string{"self"}
		case "ReadArchetypeResourceLocal":
			name, ok := r.str(x.Args[0])
			if !ok {
				r.bad(x, "ReadArchetypeResourceLocal with non-literal name")
			}
			return []string{r.canon.Ident(r.local(name, x))}
		}
	case pkg == pkgTLA && recv == "Value":
		sel := unparen(x.Fun).(*ast.SelectorExpr)
		switch f.Name() {
		case "ApplyFunction":
			out := append(r.expr(sel.X), "[")
			out = append(out, r.index(x.Args[0])...)
			return append(out, "]")
		}
	case pkg == pkgTLA && recv == "":
		name := f.Name()
		switch name {
		case "MakeString":
			s, ok := r.str(x.Args[0])
			if !ok {
				r.bad(x, "MakeString of a non-literal")
			}
			return []string{`"` + s + `"`}
		case "MakeNumber":
			tv := r.info.Types[x.Args[0]]
			if tv.Value == nil {
				r.bad(x, "MakeNumber of a non-literal")
			}
			return []string{tv.Value.ExactString()}
		case "MakeBool":
			return r.boolExpr(x.Args[0])
		case "MakeSet":
			return append(append([]string{"{"}, join(r.exprs(x.Args), ",")...), "}")
		case "MakeTuple":
			return append(append([]string{"<<"}, join(r.exprs(x.Args), ",")...), ">>")
		case "MakeRecord", "MakeRecordSet":
			sep := "|->"
			if name == "MakeRecordSet" {
				sep = ":"
			}
			var fields [][]string
			for _, el := range r.sliceElems(x.Args[0]) {
				cl, ok := el.(*ast.CompositeLit)
				if !ok || len(cl.Elts) != 2 {
					r.bad(el, "record field is not {key, value}")
				}
				keyExpr := unparen(cl.Elts[0])
				for depth := 0; depth < 4; depth++ {
					id, isId := keyExpr.(*ast.Ident)
					if !isId {
						break
					}
					if init, has := r.consts[r.info.ObjectOf(id)]; has {
						keyExpr = unparen(init)
						continue
					}
					break
				}
				kc, ok := keyExpr.(*ast.CallExpr)
				if !ok || !r.isFunc(kc, pkgTLA, "MakeString") {
					r.bad(el, "record key is not MakeString")
				}
				k, _ := r.str(kc.Args[0])
				fields = append(fields, append([]string{r.canon.Ident(k), sep}, r.expr(cl.Elts[1])...))
			}
			return append(append([]string{"["}, join(fields, ",")...), "]")
		case "MakeFunctionSet":
			out := append([]string{"["}, r.expr(x.Args[0])...)
			out = append(out, "->")
			return append(append(out, r.expr(x.Args[1])...), "]")
		case "CrossProduct":
			return group(join(r.exprs(x.Args), "\\X"))
		case "QuantifiedUniversal":
			return r.quantifier("\\A", x, true)
		case "QuantifiedExistential":
			return r.quantifier("\\E", x, true)
		case "SetComprehension":
			return r.setComprehension(x)
		case "SetRefinement":
			lit, ok := unparen(x.Args[1]).(*ast.FuncLit)
			if !ok {
				r.bad(x, "SetRefinement without closure")
			}
			bind, body := r.closureBody(lit, true)
			if len(bind) != 1 {
				r.bad(x, "SetRefinement binds %d names", len(bind))
			}
			out := append([]string{"{"}, bind[0]...)
			out = append(out, "\\in")
			out = append(out, r.expr(x.Args[0])...)
			out = append(out, ":")
			return append(append(out, body...), "}")
		case "MakeFunction":
			sets := r.exprs(r.sliceElems(x.Args[0]))
			lit, ok := unparen(x.Args[1]).(*ast.FuncLit)
			if !ok {
				r.bad(x, "MakeFunction without closure")
			}
			bind, body := r.closureBody(lit, false)
			if len(bind) != len(sets) {
				r.bad(x, "function literal binds %d names over %d sets", len(bind), len(sets))
			}
			out := []string{"["}
			for i := range sets {
				if i > 0 {
					out = append(out, ",")
				}
				out = append(out, bind[i]...)
				out = append(out, "\\in")
				out = append(out, sets[i]...)
			}
			out = append(out, "|->")
			return append(append(out, body...), "]")
		case "Choose":
			lit, ok := unparen(x.Args[1]).(*ast.FuncLit)
			if !ok {
				r.bad(x, "Choose without closure")
			}
			bind, body := r.closureBody(lit, true)
			if len(bind) == 0 {
				// the binder was dropped because the predicate never mentions the element
				bind = [][]string{{"$anon"}}
			}
			if len(bind) != 1 {
				r.bad(x, "CHOOSE binds %d names", len(bind))
			}
			if len(bind[0]) == 1 && !containsTok(body, bind[0][0]) {
				bind[0] = []string{"$anon"}
			}
			out := append([]string{"CHOOSE"}, bind[0]...)
			out = append(out, "\\in")
			out = append(out, r.expr(x.Args[0])...)
			out = append(out, ":")
			return append(out, body...)
		case "FunctionSubstitution":
			out := append([]string{"["}, r.expr(x.Args[0])...)
			out = append(out, "EXCEPT")
			for i, el := range r.sliceElems(x.Args[1]) {
				cl, ok := el.(*ast.CompositeLit)
				if !ok || len(cl.Elts) != 2 {
					r.bad(el, "substitution record is not {keys, fn}")
				}
				if i > 0 {
					out = append(out, ",")
				}
				out = append(out, "!")
				for _, k := range r.sliceElems(cl.Elts[0]) {
					out = append(out, "[")
					out = append(out, r.index(k)...)
					out = append(out, "]")
				}
				lit, ok := unparen(cl.Elts[1]).(*ast.FuncLit)
				if !ok || len(lit.Body.List) != 1 {
					r.bad(el, "substitution value is not a closure with a single return")
				}
				anchor := r.info.Defs[lit.Type.Params.List[0].Names[0]]
				r.anchors[anchor] = true
				ret, ok := lit.Body.List[0].(*ast.ReturnStmt)
				if !ok {
					r.bad(el, "substitution closure does not return")
				}
				out = append(out, "=")
				out = append(out, r.expr(ret.Results[0])...)
			}
			return append(out, "]")
		}
		if strings.HasPrefix(name, "Module") {
			op := strings.TrimPrefix(name, "Module")
			if rep, ok := r.symRepr[op]; ok {
				switch {
				case len(x.Args) == 2:
					return group(r.expr(x.Args[0]), []string{rep}, r.expr(x.Args[1]))
				case len(x.Args) == 1:
					return group([]string{rep}, r.expr(x.Args[0]))
				}
				r.bad(x, "symbol operator %s with %d arguments", name, len(x.Args))
			}
			// alphanumeric built-in: Name args
			return callForm(op, r.exprs(x.Args))
		}
	default:
		// a helper of the generated package that is not an operator of the specification and only returns an expression:
		// read in place
		if d := r.decls[f]; d != nil && !r.canon.Defs[f.Name()] && d.Body != nil && len(d.Body.List) == 1 && r.inlining < 4 {
			if rs, isRet := d.Body.List[0].(*ast.ReturnStmt); isRet && len(rs.Results) == 1 {
				if _, restore, ok := r.enterHelper(x); ok {
					t := r.expr(rs.Results[0])
					restore()
					return t
				}
			}
		}
		// operator defined in the generated package: Op(iface, args...)
		if f.Pkg() != nil && recv == "" && len(x.Args) >= 1 {
			if n, ok := r.info.TypeOf(x.Args[0]).(*types.Named); ok && n.Obj().Name() == "ArchetypeInterface" {
				return callForm(lowerFirst(stripDigits(f.Name())), r.exprs(x.Args[1:]))
			}
		}
	}
	r.bad(x, "unsupported call %s", types.ExprString(x.Fun))
	return nil
}

func (r *rec) setComprehension(x *ast.CallExpr) []string {
	sets := r.exprs(r.sliceElems(x.Args[0]))
	lit, ok := unparen(x.Args[1]).(*ast.FuncLit)
	if !ok {
		r.bad(x, "SetComprehension without closure")
	}
	bind, body := r.closureBody(lit, false)
	if len(bind) != len(sets) {
		r.bad(x, "set comprehension binds %d names over %d sets", len(bind), len(sets))
	}
	out := append([]string{"{"}, body...)
	out = append(out, ":")
	for i := range sets {
		if i > 0 {
			out = append(out, ",")
		}
		out = append(out, bind[i]...)
		out = append(out, "\\in")
		out = append(out, sets[i]...)
	}
	return append(out, "}")
}

// iife handles func() tla.Value { ... }() : IF, CASE and LET.
func (r *rec) iife(lit *ast.FuncLit) []string { return r.iifeList(lit.Body.List, lit) }

// iifeList renders the statement list of a generated closure (IF / CASE / LET), also in the forms a maintainer gives it when
// unwrapping the closure: `if c { return a }; return b` for IF, `x := e` for a LET definition.
func (r *rec) iifeList(list []ast.Stmt, lit ast.Node) []string {
	// drop `_ = x` lines
	var kept []ast.Stmt
	for _, s := range list {
		if !isBlankAssign(s) {
			kept = append(kept, s)
		}
	}
	if len(kept) >= 2 {
		// `if c { <returns a> }` followed by more statements: IF c THEN a ELSE <the rest as an expression>
		if is, ok := kept[0].(*ast.IfStmt); ok && is.Else == nil && is.Init == nil && len(is.Body.List) > 0 {
			if _, returns := is.Body.List[len(is.Body.List)-1].(*ast.ReturnStmt); returns {
				cond := unparen(is.Cond)
				neg := false
				for {
					u, isU := cond.(*ast.UnaryExpr)
					if !isU || u.Op != token.NOT {
						break
					}
					cond, neg = unparen(u.X), !neg
				}
				c := r.condToks(cond)
				a, b := r.iifeList(is.Body.List, is), r.iifeList(kept[1:], lit)
				if neg {
					a, b = b, a
				}
				out := append([]string{"IF"}, c...)
				out = append(out, "THEN")
				out = append(out, a...)
				out = append(out, "ELSE")
				return append(out, b...)
			}
		}
	}
	if len(kept) == 1 {
		if rs, ok := kept[0].(*ast.ReturnStmt); ok && len(rs.Results) == 1 {
			return r.expr(rs.Results[0])
		}
	}
	if len(list) == 1 {
		switch s := list[0].(type) {
		case *ast.IfStmt:
			cond, ok := r.asBoolRecv(s.Cond)
			if !ok || s.Else == nil {
				r.bad(s, "IF expression of unexpected shape")
			}
			ret := func(b *ast.BlockStmt) []string {
				if len(b.List) != 1 {
					r.bad(b, "IF branch is not a single return")
				}
				rs, ok := b.List[0].(*ast.ReturnStmt)
				if !ok || len(rs.Results) != 1 {
					r.bad(b, "IF branch is not a single return")
				}
				return r.expr(rs.Results[0])
			}
			eb, ok := s.Else.(*ast.BlockStmt)
			if !ok {
				r.bad(s, "IF expression else is not a block")
			}
			out := append([]string{"IF"}, r.expr(cond)...)
			out = append(out, "THEN")
			out = append(out, ret(s.Body)...)
			out = append(out, "ELSE")
			return append(out, ret(eb)...)
		case *ast.SwitchStmt:
			if s.Tag != nil {
				r.bad(s, "CASE expression with a tag")
			}
			out := []string{"CASE"}
			first := true
			for _, cs := range s.Body.List {
				cc := cs.(*ast.CaseClause)
				if len(cc.Body) != 1 {
					r.bad(cc, "CASE arm is not a single statement")
				}
				if cc.List == nil {
					if rs, ok := cc.Body[0].(*ast.ReturnStmt); ok {
						out = append(out, "[]", "OTHER", "->")
						out = append(out, r.expr(rs.Results[0])...)
					}
					continue // default: panic(...) when there is no OTHER arm
				}
				cond, ok := r.asBoolRecv(cc.List[0])
				if !ok {
					r.bad(cc, "CASE arm condition is not <expr>.AsBool()")
				}
				rs, ok := cc.Body[0].(*ast.ReturnStmt)
				if !ok {
					r.bad(cc, "CASE arm does not return")
				}
				if !first {
					out = append(out, "[]")
				}
				first = false
				out = append(out, r.expr(cond)...)
				out = append(out, "->")
				out = append(out, r.expr(rs.Results[0])...)
			}
			return out
		}
	}
	// LET: (var d tla.Value = e; _ = d | d := func(params) tla.Value { return e }; _ = d)* return body
	out := []string{"LET"}
	i := 0
	for i < len(list)-1 {
		switch s := list[i].(type) {
		case *ast.DeclStmt:
			gd := s.Decl.(*ast.GenDecl)
			vs, ok := gd.Specs[0].(*ast.ValueSpec)
			if !ok || len(vs.Names) != 1 || len(vs.Values) != 1 {
				r.bad(s, "LET definition of unexpected shape")
			}
			out = append(out, r.canon.Ident(vs.Names[0].Name), "==")
			out = append(out, r.expr(vs.Values[0])...)
		case *ast.AssignStmt:
			if id, ok := s.Lhs[0].(*ast.Ident); ok && id.Name == "_" {
				i++
				continue
			}
			fl, ok := unparen(s.Rhs[0]).(*ast.FuncLit)
			if !ok && s.Tok == token.DEFINE && len(s.Lhs) == 1 && len(s.Rhs) == 1 {
				// `d := e`: a LET definition without the `var d tla.Value = e; _ = d` ceremony
				if id, isId := s.Lhs[0].(*ast.Ident); isId {
					out = append(out, r.canon.Ident(id.Name), "==")
					out = append(out, r.expr(s.Rhs[0])...)
					i++
					continue
				}
			}
			if !ok || s.Tok != token.DEFINE || len(fl.Body.List) != 1 {
				r.bad(s, "LET operator definition of unexpected shape")
			}
			out = append(out, r.canon.Ident(s.Lhs[0].(*ast.Ident).Name))
			var ps [][]string
			for _, fld := range fl.Type.Params.List {
				for _, nm := range fld.Names {
					ps = append(ps, []string{r.canon.Ident(nm.Name)})
				}
			}
			out = append(out, join(ps, ",")...)
			out = append(out, "==")
			rs, ok := fl.Body.List[0].(*ast.ReturnStmt)
			if !ok {
				r.bad(s, "LET operator body does not return")
			}
			out = append(out, r.expr(rs.Results[0])...)
		default:
			r.bad(s, "unexpected statement in LET closure")
		}
		i++
	}
	if len(list) == 0 {
		r.bad(lit, "empty closure")
	}
	rs, ok := list[len(list)-1].(*ast.ReturnStmt)
	if !ok || len(rs.Results) != 1 {
		r.bad(lit, "LET closure does not end in a return")
	}
	out = append(out, "IN")
	return append(out, r.expr(rs.Results[0])...)
}

// ---------------------------------------------------------------- statements

func isErrCheck(s ast.Stmt) bool {
	is, ok := s.(*ast.IfStmt)
	if !ok || is.Init != nil || is.Else != nil || len(is.Body.List) != 1 {
		return false
	}
	be, ok := is.Cond.(*ast.BinaryExpr)
	if !ok || be.Op != token.NEQ {
		return false
	}
	if id, ok := be.Y.(*ast.Ident); !ok || id.Name != "nil" {
		return false
	}
	rs, ok := is.Body.List[0].(*ast.ReturnStmt)
	return ok && len(rs.Results) == 1
}

func isBlankAssign(s ast.Stmt) bool {
	as, ok := s.(*ast.AssignStmt)
	if !ok || len(as.Lhs) != 1 {
		return false
	}
	id, ok := as.Lhs[0].(*ast.Ident)
	return ok && id.Name == "_"
}

func (r *rec) indices(e ast.Expr) []string {
	var out []string
	for _, ix := range r.sliceElems(e) {
		out = append(out, "[")
		out = append(out, r.index(ix)...)
		out = append(out, "]")
	}
	return out
}

func (r *rec) handleName(e ast.Expr, n ast.Node) string {
	o := r.obj(e)
	if name, ok := r.handles[o]; ok {
		return r.canon.Ident(name)
	}
	r.bad(n, "resource handle %s is not bound by RequireArchetypeResource[Ref]", types.ExprString(e))
	return ""
}

func (r *rec) selObj(e ast.Expr) types.Object {
	switch x := unparen(e).(type) {
	case *ast.SelectorExpr:
		return r.info.ObjectOf(x.Sel)
	case *ast.Ident:
		return r.info.ObjectOf(x)
	}
	return nil
}

// isReadTempDecl: `var T tla.Value` (no initialiser, not err) starting a lifted read triple.
func isReadTempDecl(s ast.Stmt) bool {
	ds, ok := s.(*ast.DeclStmt)
	if !ok {
		return false
	}
	gd, ok := ds.Decl.(*ast.GenDecl)
	if !ok || gd.Tok != token.VAR || len(gd.Specs) != 1 {
		return false
	}
	vs, ok := gd.Specs[0].(*ast.ValueSpec)
	return ok && len(vs.Names) == 1 && len(vs.Values) == 0 && vs.Names[0].Name != "err"
}

// labelVarIf recognises the tail
//
//	next := "A.Done"; if c { next = "A.body" }; return iface.Goto(next)
//
// (the target chosen into a variable, one jump) and returns the statement it abbreviates,
// `if c { return iface.Goto("A.body") } else { return iface.Goto("A.Done") }`, built from the original nodes.
func (r *rec) labelVarIf(list []ast.Stmt, i int) ast.Stmt {
	if i+2 != len(list)-1 {
		return nil
	}
	if r.labelIfs == nil {
		r.labelIfs = map[ast.Stmt]ast.Stmt{}
	}
	if syn, ok := r.labelIfs[list[i]]; ok {
		return syn
	}
	syn := r.labelVarIf1(list, i)
	r.labelIfs[list[i]] = syn
	return syn
}

func (r *rec) labelVarIf1(list []ast.Stmt, i int) ast.Stmt {
	def, ok := list[i].(*ast.AssignStmt)
	if !ok || def.Tok != token.DEFINE || len(def.Lhs) != 1 || len(def.Rhs) != 1 {
		return nil
	}
	id, ok := def.Lhs[0].(*ast.Ident)
	if !ok {
		return nil
	}
	obj := r.info.Defs[id]
	if _, isStr := r.str(def.Rhs[0]); !isStr || obj == nil {
		return nil
	}
	ifs, ok := list[i+1].(*ast.IfStmt)
	if !ok || ifs.Init != nil || ifs.Else != nil || len(ifs.Body.List) != 1 {
		return nil
	}
	set, ok := ifs.Body.List[0].(*ast.AssignStmt)
	if !ok || set.Tok != token.ASSIGN || len(set.Lhs) != 1 || len(set.Rhs) != 1 || r.obj(set.Lhs[0]) != obj {
		return nil
	}
	if _, isStr := r.str(set.Rhs[0]); !isStr {
		return nil
	}
	ret, ok := list[i+2].(*ast.ReturnStmt)
	if !ok || len(ret.Results) != 1 {
		return nil
	}
	call, ok := unparen(ret.Results[0]).(*ast.CallExpr)
	if !ok || !r.isMethod(call, pkgDistsys, "ArchetypeInterface", "Goto") || len(call.Args) != 1 || r.obj(call.Args[0]) != obj {
		return nil
	}
	// the variable is not mentioned by the condition
	used := false
	ast.Inspect(ifs.Cond, func(n ast.Node) bool {
		if x, isId := n.(*ast.Ident); isId && r.info.ObjectOf(x) == obj {
			used = true
		}
		return true
	})
	if used {
		return nil
	}
	jump := func(target ast.Expr) *ast.BlockStmt {
		return &ast.BlockStmt{List: []ast.Stmt{&ast.ReturnStmt{Return: ret.Return, Results: []ast.Expr{&ast.CallExpr{Fun: call.Fun, Lparen: call.Lparen, Args: []ast.Expr{target}, Rparen: call.Rparen}}}}}
	}
	return &ast.IfStmt{If: ifs.If, Cond: ifs.Cond, Body: jump(set.Rhs[0]), Else: jump(def.Rhs[0])}
}

func (r *rec) stmts(list []ast.Stmt) []string {
	var out []string
	r.depth++
	defer func() { r.depth-- }()
	for i := 0; i < len(list); i++ {
		if synth := r.labelVarIf(list, i); synth != nil {
			// the three statements are read as the if / else they abbreviate, in place
			list = append(append([]ast.Stmt{}, list[:i]...), synth)
		}
		s := list[i]
		r.cur[r.depth] = s
		switch x := s.(type) {
		case *ast.DeclStmt:
			gd := x.Decl.(*ast.GenDecl)
			if gd.Tok != token.VAR || len(gd.Specs) != 1 {
				r.bad(x, "unexpected declaration")
			}
			vs := gd.Specs[0].(*ast.ValueSpec)
			if len(vs.Names) != 1 {
				r.bad(x, "unexpected declaration")
			}
			name := vs.Names[0]
			obj := r.info.Defs[name]
			switch {
			case len(vs.Values) == 0 && name.Name == "err":
				// var err error
			case len(vs.Values) == 0:
				// read temp: var T tla.Value ; T, err = iface.Read(h, idx) ; if err != nil { return err }
				if i+2 >= len(list) {
					r.bad(x, "dangling temporary declaration")
				}
				as, ok := list[i+1].(*ast.AssignStmt)
				if !ok || len(as.Lhs) != 2 || len(as.Rhs) != 1 || r.obj(as.Lhs[0]) != obj {
					r.bad(x, "temporary %s is not assigned from iface.Read", name.Name)
				}
				call, ok := unparen(as.Rhs[0]).(*ast.CallExpr)
				if !ok || !r.isMethod(call, pkgDistsys, "ArchetypeInterface", "Read") || !isErrCheck(list[i+2]) {
					r.bad(x, "temporary %s is not assigned from iface.Read followed by the error check", name.Name)
				}
				toks := []string{r.handleName(call.Args[0], call)}
				toks = append(toks, r.indices(call.Args[1])...)
				if r.countUses(obj) > 1 {
					// a value that is read once and used several times is a `with` binding whose temporary was inlined
					out = append(out, "WITH", r.canon.Ident(name.Name), "=")
					out = append(out, toks...)
					out = append(out, ";")
					i += 2
					continue
				}
				r.temps[obj] = toks
				// the statement this read was lifted out of: the next statement of this list that is not itself a lifted read
				j := i + 3
				for j < len(list) {
					if j+2 < len(list) && isReadTempDecl(list[j]) {
						j += 3
						continue
					}
					if j+1 < len(list) && r.isShortRead(list[j]) && isErrCheck(list[j+1]) {
						j += 2
						continue
					}
					if r.labelVarIf(list, j) == nil && (r.isAliasDef(list[j]) || isBlankAssign(list[j])) {
						j++
						continue
					}
					break
				}
				r.tempDepth[obj] = r.depth
				if j < len(list) {
					r.tempOwner[obj] = list[j]
					if syn := r.labelVarIf(list, j); syn != nil {
						r.tempOwner[obj] = syn
					}
				}
				i += 2
			case vs.Type != nil:
				// with x = e :  var x tla.Value = e ; _ = x
				out = append(out, "WITH", r.canon.Ident(name.Name), "=")
				out = append(out, r.expr(vs.Values[0])...)
				out = append(out, ";")
			default:
				// with x \in S : var T = S ; if T.AsSet().Len() == 0 { abort } ; var x tla.Value = T.SelectElement(counter) ; _ = x
				if i+2 >= len(list) {
					r.bad(x, "dangling set temporary")
				}
				set := r.expr(vs.Values[0])
				is, ok := list[i+1].(*ast.IfStmt)
				if !ok || !r.returnsAbort(is.Body) {
					r.bad(x, "set temporary %s is not followed by the empty-set abort", name.Name)
				}
				// the abort is taken exactly when the set is empty: <temp>.AsSet().Len() == 0
				okCond := false
				if be, isBin := unparen(is.Cond).(*ast.BinaryExpr); isBin && be.Op == token.EQL {
					if lit, isLit := unparen(be.Y).(*ast.BasicLit); isLit && lit.Value == "0" {
						if lenCall, isCall := unparen(be.X).(*ast.CallExpr); isCall {
							if ls, isSel := unparen(lenCall.Fun).(*ast.SelectorExpr); isSel && ls.Sel.Name == "Len" {
								if asSet, isCall2 := unparen(ls.X).(*ast.CallExpr); isCall2 && r.isMethod(asSet, pkgTLA, "Value", "AsSet") {
									if r.obj(unparen(asSet.Fun).(*ast.SelectorExpr).X) == obj {
										okCond = true
									}
								}
							}
						}
					}
				}
				if !okCond || is.Else != nil {
					r.bad(is, "the empty-set abort of %s is not guarded by %s.AsSet().Len() == 0", name.Name, name.Name)
				}
				var selName *ast.Ident
				var selVal ast.Expr
				switch st := list[i+2].(type) {
				case *ast.DeclStmt:
					if vs2, isVS := st.Decl.(*ast.GenDecl).Specs[0].(*ast.ValueSpec); isVS && len(vs2.Names) == 1 && len(vs2.Values) == 1 {
						selName, selVal = vs2.Names[0], vs2.Values[0]
					}
				case *ast.AssignStmt:
					if st.Tok == token.DEFINE && len(st.Lhs) == 1 && len(st.Rhs) == 1 {
						if id, isId := st.Lhs[0].(*ast.Ident); isId {
							selName, selVal = id, st.Rhs[0]
						}
					}
				}
				if selName == nil {
					r.bad(x, "set temporary %s is not followed by the element selection", name.Name)
				}
				sel, ok := unparen(selVal).(*ast.CallExpr)
				if !ok || !r.isMethod(sel, pkgTLA, "Value", "SelectElement") || r.obj(unparen(sel.Fun).(*ast.SelectorExpr).X) != obj {
					r.bad(x, "element selection does not select from %s", name.Name)
				}
				out = append(out, "WITHSET", r.canon.Ident(selName.Name), "\\in")
				out = append(out, set...)
				out = append(out, ";")
				i += 2
			}
		case *ast.AssignStmt:
			if isBlankAssign(x) {
				continue
			}
			if len(x.Rhs) != 1 {
				r.bad(x, "unexpected assignment")
			}
			call, ok := unparen(x.Rhs[0]).(*ast.CallExpr)
			if x.Tok == token.DEFINE && len(x.Lhs) == 1 && (!ok || !r.isIfaceCall(call)) {
				// `name := <pure expression>`: a local name for a sub-expression
				if id, isId := x.Lhs[0].(*ast.Ident); isId && r.countAssignments(r.info.Defs[id]) == 0 && r.withNames[r.canon.Ident(id.Name)] {
					// the specification binds this name with `with`: the binding written with `:=`
					out = append(out, "WITH", r.canon.Ident(id.Name), "=")
					out = append(out, r.expr(x.Rhs[0])...)
					out = append(out, ";")
					continue
				}
				if id, isId := x.Lhs[0].(*ast.Ident); isId && r.countAssignments(r.info.Defs[id]) == 0 {
					if cl, isLit := unparen(x.Rhs[0]).(*ast.CompositeLit); isLit {
						if _, isSlice := r.info.TypeOf(cl).Underlying().(*types.Slice); isSlice {
							r.sliceAliases[r.info.Defs[id]] = cl
							continue
						}
					}
					if b, isBasic := r.info.TypeOf(x.Rhs[0]).Underlying().(*types.Basic); isBasic && b.Kind() == types.Bool {
						r.aliases[r.info.Defs[id]] = r.condToks(unparen(x.Rhs[0]))
					} else {
						r.aliases[r.info.Defs[id]] = r.expr(x.Rhs[0])
					}
					continue
				}
			}
			if !ok {
				r.bad(x, "unexpected assignment")
			}
			switch {
			case r.isMethod(call, pkgDistsys, "ArchetypeInterface", "RequireArchetypeResource"):
				name, _ := r.str(call.Args[0])
				r.handles[r.obj(x.Lhs[0])] = r.local(name, x)
			case r.isMethod(call, pkgDistsys, "ArchetypeInterface", "RequireArchetypeResourceRef"):
				name, _ := r.str(call.Args[0])
				r.handles[r.obj(x.Lhs[0])] = r.local(name, x)
				if i+1 < len(list) && isErrCheck(list[i+1]) {
					i++
				}
			case r.isMethod(call, pkgDistsys, "ArchetypeInterface", "ReadArchetypeResourceLocal"):
				name, _ := r.str(call.Args[0])
				r.refArgs[r.obj(x.Lhs[0])] = r.local(name, x)
			case r.isMethod(call, pkgDistsys, "ArchetypeInterface", "Read") && len(x.Lhs) == 2:
				// `v, err := iface.Read(h, idx)` + error check: the lifted read without its separate declaration
				if i+1 >= len(list) || !isErrCheck(list[i+1]) {
					r.bad(x, "Read without the error check")
				}
				obj := r.obj(x.Lhs[0])
				if obj == nil {
					r.bad(x, "Read into something that is not a variable")
				}
				toks := []string{r.handleName(call.Args[0], call)}
				toks = append(toks, r.indices(call.Args[1])...)
				if r.countUses(obj) > 1 {
					out = append(out, "WITH", r.canon.Ident(obj.Name()), "=")
					out = append(out, toks...)
					out = append(out, ";")
				} else {
					r.temps[obj] = toks
					j := i + 2
					for j < len(list) {
						if j+2 < len(list) && isReadTempDecl(list[j]) {
							j += 3
							continue
						}
						if j+1 < len(list) && r.isShortRead(list[j]) && isErrCheck(list[j+1]) {
							j += 2
							continue
						}
						if r.labelVarIf(list, j) == nil && (r.isAliasDef(list[j]) || isBlankAssign(list[j])) {
							j++
							continue
						}
						break
					}
					r.tempDepth[obj] = r.depth
					if j < len(list) {
						r.tempOwner[obj] = list[j]
						if syn := r.labelVarIf(list, j); syn != nil {
							r.tempOwner[obj] = syn
						}
					}
				}
				i++
			case r.isMethod(call, pkgDistsys, "ArchetypeInterface", "Write"):
				if i+1 >= len(list) || !isErrCheck(list[i+1]) {
					r.bad(x, "Write without the error check")
				}
				out = append(out, "ASSIGN", r.handleName(call.Args[0], call))
				out = append(out, r.indices(call.Args[1])...)
				out = append(out, ":=")
				out = append(out, r.expr(call.Args[2])...)
				out = append(out, ";")
				i++
			default:
				if body, restore, ok := r.enterHelper(call); ok {
					out = append(out, r.stmts(body)...)
					restore()
					if i+1 < len(list) && isErrCheck(list[i+1]) {
						i++
					}
					continue
				}
				r.bad(x, "unexpected assignment from %s", types.ExprString(call.Fun))
			}
		case *ast.IfStmt:
			if x.Init != nil {
				r.bad(x, "if with an init clause")
			}
			cond := unparen(x.Cond)
			neg := false
			for {
				u, ok := cond.(*ast.UnaryExpr)
				if !ok || u.Op != token.NOT {
					break
				}
				cond = unparen(u.X)
				neg = !neg
			}
			c := r.condToks(cond)
			if x.Else == nil && (r.returnsAbort(x.Body) || r.returnsAssertion(x.Body)) {
				kw := "AWAIT"
				if r.returnsAssertion(x.Body) {
					kw = "ASSERT"
				}
				if !neg {
					// `if c { abort }`: the guard is the negation of c
					if rep, has := r.symRepr["LogicalNotSymbol"]; has {
						c = group([]string{rep}, c)
					}
				}
				out = append(out, kw)
				out = append(out, c...)
				out = append(out, ";")
				continue
			}
			thenToks := r.stmts(x.Body.List)
			var elseToks []string
			switch eb := x.Else.(type) {
			case nil:
			case *ast.BlockStmt:
				elseToks = r.stmts(eb.List)
			case *ast.IfStmt:
				elseToks = r.stmts([]ast.Stmt{eb})
			default:
				r.bad(x, "unexpected else")
			}
			if neg {
				thenToks, elseToks = elseToks, thenToks
			}
			out = append(out, "IF")
			out = append(out, c...)
			out = append(out, BlkOpen)
			out = append(out, thenToks...)
			out = append(out, BlkClose, "ELSE", BlkOpen)
			out = append(out, elseToks...)
			out = append(out, BlkClose)
		case *ast.SwitchStmt:
			if x.Tag == nil && x.Init == nil {
				// a condition switch: the if / else-if chain in another spelling
				var build func(k int) []string
				build = func(k int) []string {
					if k >= len(x.Body.List) {
						return nil
					}
					cc := x.Body.List[k].(*ast.CaseClause)
					if cc.List == nil {
						if k != len(x.Body.List)-1 {
							r.bad(cc, "default clause is not last")
						}
						return r.stmts(cc.Body)
					}
					if len(cc.List) != 1 {
						r.bad(cc, "case with several conditions")
					}
					cond := unparen(cc.List[0])
					neg := false
					for {
						u, isU := cond.(*ast.UnaryExpr)
						if !isU || u.Op != token.NOT {
							break
						}
						cond, neg = unparen(u.X), !neg
					}
					c := r.condToks(cond)
					a, b := r.stmts(cc.Body), build(k+1)
					if neg {
						a, b = b, a
					}
					o := append([]string{"IF"}, c...)
					o = append(o, BlkOpen)
					o = append(o, a...)
					o = append(o, BlkClose, "ELSE", BlkOpen)
					o = append(o, b...)
					return append(o, BlkClose)
				}
				out = append(out, build(0)...)
				continue
			}
			call, ok := unparen(x.Tag).(*ast.CallExpr)
			if !ok || !r.isMethod(call, pkgDistsys, "ArchetypeInterface", "NextFairnessCounter") {
				r.bad(x, "switch that is not an either")
			}
			n := 0
			for _, cs := range x.Body.List {
				cc := cs.(*ast.CaseClause)
				if cc.List == nil {
					continue // default: panic
				}
				if n == 0 {
					out = append(out, "EITHER", BlkOpen)
				} else {
					out = append(out, "OR", BlkOpen)
				}
				n++
				out = append(out, r.stmts(cc.Body)...)
				out = append(out, BlkClose)
			}
		case *ast.ExprStmt:
			call, ok := unparen(x.X).(*ast.CallExpr)
			if !ok || !r.isMethod(call, pkgTLA, "Value", "PCalPrint") {
				r.bad(x, "unexpected expression statement")
			}
			out = append(out, "PRINT")
			out = append(out, r.expr(unparen(call.Fun).(*ast.SelectorExpr).X)...)
			out = append(out, ";")
		case *ast.ReturnStmt:
			if len(x.Results) != 1 {
				r.bad(x, "unexpected return")
			}
			res := unparen(x.Results[0])
			if id, ok := res.(*ast.Ident); ok && id.Name == "nil" {
				continue
			}
			if o := r.selObj(res); o != nil && o.Pkg() != nil && o.Pkg().Path() == pkgDistsys {
				switch o.Name() {
				case "ErrDone":
					out = append(out, "DONE")
					continue
				case "ErrProcedureFallthrough":
					out = append(out, "ERROR")
					continue
				}
			}
			call, ok := res.(*ast.CallExpr)
			if !ok {
				r.bad(x, "unexpected return value")
			}
			switch {
			case r.isMethod(call, pkgDistsys, "ArchetypeInterface", "Goto"):
				t, _ := r.str(call.Args[0])
				r.targets = append(r.targets, GoTarget{"goto", t, call.Pos()})
				out = append(out, "GOTO", r.local(t, call), ";")
			case r.isMethod(call, pkgDistsys, "ArchetypeInterface", "Write") && r.inlining > 0:
				// the last statement of a helper read in place: write, and hand the error to the caller's check
				out = append(out, "ASSIGN", r.handleName(call.Args[0], call))
				out = append(out, r.indices(call.Args[1])...)
				out = append(out, ":=")
				out = append(out, r.expr(call.Args[2])...)
				out = append(out, ";")
			case r.isMethod(call, pkgDistsys, "ArchetypeInterface", "Return"):
				out = append(out, "RETURN", ";")
			case r.isMethod(call, pkgDistsys, "ArchetypeInterface", "Call"), r.isMethod(call, pkgDistsys, "ArchetypeInterface", "TailCall"):
				tail := r.callee(call).Name() == "TailCall"
				p, _ := r.str(call.Args[0])
				r.targets = append(r.targets, GoTarget{"call-proc", p, call.Pos()})
				args := call.Args[1:]
				ret := ""
				if !tail {
					ret, _ = r.str(call.Args[1])
					r.targets = append(r.targets, GoTarget{"call-return", ret, call.Pos()})
					args = call.Args[2:]
				}
				out = append(out, "CALL", p)
				for _, a := range args {
					out = append(out, ",")
					if name, ok := r.refArgs[r.obj(a)]; ok {
						out = append(out, "REF", r.canon.Ident(name))
						continue
					}
					if mc, ok := unparen(a).(*ast.CallExpr); ok && r.isFunc(mc, pkgTLA, "MakeString") {
						if sname, ok := r.str(mc.Args[0]); ok && strings.HasPrefix(sname, r.prefix) {
							out = append(out, "REF", r.canon.Ident(strings.TrimPrefix(sname, r.prefix)))
							continue
						}
					}
					out = append(out, r.expr(a)...)
				}
				out = append(out, ";")
				if tail {
					out = append(out, "RETURN", ";")
				} else {
					out = append(out, "GOTO", r.local(ret, call), ";")
				}
			default:
				if body, restore, ok := r.enterHelper(call); ok {
					out = append(out, r.stmts(body)...)
					restore()
					continue
				}
				r.bad(x, "unexpected return of %s", types.ExprString(call.Fun))
			}
		case *ast.EmptyStmt:
		case *ast.BlockStmt:
			// a bare block (left by the inlining of a helper): its statements, in place
			r.depth--
			out = append(out, r.stmts(x.List)...)
			r.depth++
			r.cur[r.depth] = s
		default:
			r.bad(s, "unsupported statement %T", s)
		}
	}
	return out
}

func (r *rec) returnsAbort(b *ast.BlockStmt) bool {
	if len(b.List) != 1 {
		return false
	}
	rs, ok := b.List[0].(*ast.ReturnStmt)
	if !ok || len(rs.Results) != 1 {
		return false
	}
	o := r.selObj(rs.Results[0])
	return o != nil && o.Pkg() != nil && o.Pkg().Path() == pkgDistsys && o.Name() == "ErrCriticalSectionAborted"
}

func (r *rec) returnsAssertion(b *ast.BlockStmt) bool {
	if len(b.List) != 1 {
		return false
	}
	rs, ok := b.List[0].(*ast.ReturnStmt)
	if !ok || len(rs.Results) != 1 {
		return false
	}
	call, ok := unparen(rs.Results[0]).(*ast.CallExpr)
	if !ok || !r.isFunc(call, "fmt", "Errorf") || len(call.Args) != 2 {
		return false
	}
	o := r.selObj(call.Args[1])
	return o != nil && o.Pkg() != nil && o.Pkg().Path() == pkgDistsys && o.Name() == "ErrAssertionFailed"
}

// section runs the recogniser on one critical-section body, converting unsupported constructs into a marker.
func (r *rec) section(name string, lit *ast.FuncLit) (sec *GoSection) {
	sec = &GoSection{Name: name, Pos: lit.Pos()}
	i := strings.Index(name, ".")
	if i < 0 {
		sec.Unsupported = "section name without archetype prefix"
		return
	}
	r.reset(name[:i+1])
	defer func() {
		if rc := recover(); rc != nil {
			if u, ok := rc.(unsupported); ok {
				sec.Unsupported = u.msg
				return
			}
			panic(rc)
		}
	}()
	r.body = lit.Body
	r.withNames = r.SpecWith[name]
	sec.Stream = r.stmts(lit.Body.List)
	sec.Targets = r.targets
	for o, n := range r.uses {
		if n > 1 {
			sec.Stream = append(sec.Stream, "REUSED-READ", strings.Join(r.temps[o], " "))
		}
	}
	for o := range r.temps {
		if r.uses[o] == 0 {
			sec.Stream = append(sec.Stream, "EXTRA-READ", strings.Join(r.temps[o], " "))
		}
	}
	sec.Stream = append(sec.Stream, r.markers...)
	sort.Strings(r.hoisted)
	for _, h := range r.hoisted {
		// a resource read performed earlier than the statement that needs it (e.g. above the branch that uses it)
		sec.Stream = append(sec.Stream, "MISPLACED-READ", h)
	}
	return
}
