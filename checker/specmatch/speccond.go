package specmatch

import (
	"fmt"
	"sort"
	"strconv"
	"strings"

	"pgoverif/checker/scalatab"
)

// This file supports protocol tables over a specification (rule family SPEC-DECISION): a row names an effect inside a
// critical section of the MPCal source (an assignment, a goto, an assertion) and states, as a TLA+ expression, the
// condition under which the protocol prescribes it. The effect's path condition inside the section - the conjunction of
// the enclosing if-conditions with their polarity and of the awaits in front of it - is compared with that expression as
// a boolean function of their atoms (truth table over a small domain), so the comparison does not depend on how a guard
// is spelled. Nothing is executed; only condition syntax is evaluated.

// SpecView is a parsed specification with its normalised critical sections.
type SpecView struct {
	Spec  *Spec
	Canon *Canon
	secs  map[string][]*Labeled
	errs  map[string]error
}

// LoadSpecView parses the MPCal block of a .tla file.
func LoadSpecView(tlaPath string, tabs *scalatab.Tables, read func(string) ([]byte, error)) (*SpecView, error) {
	src, err := read(tlaPath)
	if err != nil {
		return nil, err
	}
	spec, err := ParseSpec(string(src))
	if err != nil {
		return nil, err
	}
	return &SpecView{Spec: spec, Canon: NewCanon(tabs, spec), secs: map[string][]*Labeled{}, errs: map[string]error{}}, nil
}

// Unit returns the archetype / procedure of that name.
func (v *SpecView) Unit(name string) *Unit {
	for _, u := range v.Spec.Units {
		if u.Name == name {
			return u
		}
	}
	return nil
}

// Section returns the flattened critical section unit.label.
func (v *SpecView) Section(unit, label string) (*Labeled, error) {
	u := v.Unit(unit)
	if u == nil {
		return nil, fmt.Errorf("no archetype or procedure %s", unit)
	}
	if _, done := v.secs[unit]; !done {
		v.secs[unit], v.errs[unit] = v.Spec.Sections(u)
	}
	if v.errs[unit] != nil {
		return nil, v.errs[unit]
	}
	for _, s := range v.secs[unit] {
		if s.Label == label {
			return s, nil
		}
	}
	return nil, fmt.Errorf("no label %s in %s", label, unit)
}

// Labels lists the labels (critical sections) of a unit after normalisation.
func (v *SpecView) Labels(unit string) ([]string, error) {
	if _, err := v.Section(unit, "\x00"); err != nil && v.errs[unit] != nil {
		return nil, v.errs[unit]
	}
	if v.Unit(unit) == nil {
		return nil, fmt.Errorf("no archetype or procedure %s", unit)
	}
	var out []string
	for _, s := range v.secs[unit] {
		out = append(out, s.Label)
	}
	return out, nil
}

// LabelGraph maps every label of a unit to the labels its section can hand over to (its goto targets).
func (v *SpecView) LabelGraph(unit string) (map[string][]string, error) {
	if _, err := v.Labels(unit); err != nil {
		return nil, err
	}
	out := map[string][]string{}
	for _, s := range v.secs[unit] {
		set := map[string]bool{}
		var walk func(ss []Stmt)
		walk = func(ss []Stmt) {
			for _, st := range ss {
				switch x := st.(type) {
				case *Goto:
					set[x.Target] = true
				case *If:
					walk(x.Then)
					walk(x.Else)
				case *Either:
					for _, cs := range x.Cases {
						walk(cs)
					}
				case *While:
					walk(x.Body)
				case *With:
					walk(x.Body)
				case *Labeled:
					walk(x.Body)
				}
			}
		}
		walk(s.Body)
		ts := []string{}
		for t := range set {
			ts = append(ts, t)
		}
		sort.Strings(ts)
		out[s.Label] = ts
	}
	return out, nil
}

// OpDef returns the operator definition of that name.
func (v *SpecView) OpDef(name string) *OpDef {
	for i := range v.Spec.Defs {
		if v.Spec.Defs[i].Name == name {
			return &v.Spec.Defs[i]
		}
	}
	return nil
}

// ParseText lexes and renders a TLA+ expression given as text.
func (v *SpecView) ParseText(src string) ([]string, error) {
	toks, err := Lex(src, 1)
	if err != nil {
		return nil, err
	}
	return v.Canon.parseExpr(Expr(toks))
}

// Render renders an expression of the specification; identifiers in renamed are suffixed with __new (they were assigned
// earlier on the path: the expression reads the new value).
func (v *SpecView) Render(e Expr, renamed map[string]bool) []string {
	if len(renamed) > 0 {
		cp := make(Expr, len(e))
		copy(cp, e)
		for i, t := range cp {
			if t.Kind == 'i' && renamed[t.S] {
				// not a record field name after '.', not a record constructor key before |->
				if i > 0 && cp[i-1].S == "." {
					continue
				}
				if i+1 < len(cp) && cp[i+1].S == "|->" {
					continue
				}
				cp[i].S = t.S + "__new"
			}
		}
		e = cp
	}
	return v.Canon.Expr(e)
}

// Lit is one conjunct of a path condition.
type Lit struct {
	Toks []string
	Neg  bool
}

// Occ is one occurrence of an effect with its path condition.
type Occ struct {
	Stmt     Stmt
	Path     []Lit
	Assigned map[string]bool // variables assigned on the path before the effect
	Either   bool            // inside an either arm / under a with-set choice: possible, not certain
	Prior    []Stmt          // the statements executed before it on this path (in order)
}

// Effects lists the occurrences of statements accepted by match inside the section, each with the condition of the path
// leading to it.
func (v *SpecView) Effects(sec *Labeled, match func(s Stmt, assigned map[string]bool) bool) []Occ {
	var out []Occ
	var walk func(ss []Stmt, path []Lit, assigned map[string]bool, either bool, prior []Stmt)
	cloneSet := func(m map[string]bool) map[string]bool {
		n := map[string]bool{}
		for k := range m {
			n[k] = true
		}
		return n
	}
	walk = func(ss []Stmt, path []Lit, assigned map[string]bool, either bool, prior []Stmt) {
		path = append([]Lit(nil), path...)
		assigned = cloneSet(assigned)
		prior = append([]Stmt(nil), prior...)
		for _, s := range ss {
			if match(s, assigned) {
				out = append(out, Occ{Stmt: s, Path: append([]Lit(nil), path...), Assigned: cloneSet(assigned), Either: either, Prior: append([]Stmt(nil), prior...)})
			}
			switch x := s.(type) {
			case *If:
				c := v.Render(x.Cond, assigned)
				walk(x.Then, append(path, Lit{c, false}), assigned, either, append(prior, s))
				walk(x.Else, append(path, Lit{c, true}), assigned, either, append(prior, s))
				// statements after an if inside the same list: both arms end in gotos after normalisation when they are
				// last; otherwise the continuation is reached from both arms: variables either arm assigns count as assigned
				for _, arm := range [][]Stmt{x.Then, x.Else} {
					collectAssigned(arm, assigned)
				}
			case *Either:
				for _, cs := range x.Cases {
					walk(cs, path, assigned, true, append(prior, s))
				}
				for _, cs := range x.Cases {
					collectAssigned(cs, assigned)
				}
			case *With:
				isSet := false
				for _, d := range x.Decls {
					if d.IsSet {
						isSet = true
					}
				}
				walk(x.Body, path, assigned, either || isSet, append(prior, s))
				collectAssigned(x.Body, assigned)
			case *While:
				c := v.Render(x.Cond, assigned)
				walk(x.Body, append(path, Lit{c, false}), assigned, either, append(prior, s))
				collectAssigned(x.Body, assigned)
			case *Await:
				path = append(path, Lit{v.Render(x.Cond, assigned), false})
			case *Assign:
				for _, p := range x.Pairs {
					assigned[p.L.Name] = true
				}
			case *Labeled:
				walk(x.Body, path, assigned, either, append(prior, s))
			}
			prior = append(prior, s)
		}
	}
	walk(sec.Body, nil, map[string]bool{}, false, nil)
	return out
}

func collectAssigned(ss []Stmt, into map[string]bool) {
	for _, s := range ss {
		switch x := s.(type) {
		case *Assign:
			for _, p := range x.Pairs {
				into[p.L.Name] = true
			}
		case *If:
			collectAssigned(x.Then, into)
			collectAssigned(x.Else, into)
		case *Either:
			for _, cs := range x.Cases {
				collectAssigned(cs, into)
			}
		case *With:
			collectAssigned(x.Body, into)
		case *While:
			collectAssigned(x.Body, into)
		case *Labeled:
			collectAssigned(x.Body, into)
		}
	}
}

// ---------------------------------------------------------------- canonical trees

// CNode is a node of a canonical expression tree: Op == "" is an atom (Text).
type CNode struct {
	Op   string
	Kids []*CNode
	Text string
}

var boolOps = map[string]bool{"/\\": true, "\\/": true, "~": true, "=>": true, "<=>": true, "\\equiv": true}
var cmpOps = map[string]bool{"=": true, "#": true, "/=": true, "<": true, ">": true, "<=": true, "=<": true, ">=": true, "\\leq": true, "\\geq": true}
var arithOps = map[string]bool{"+": true, "-": true, "*": true, "\\div": true, "%": true}
var memberOps = map[string]bool{"\\in": true, "\\notin": true}

func isOpenTok(s string) bool  { return s == "(" || s == "[" || s == "{" || s == "<<" }
func isCloseTok(s string) bool { return s == ")" || s == "]" || s == "}" || s == ">>" }

// ParseCanon turns a canonical token list (one expression) into a tree. Only boolean connectives, comparisons, membership
// and arithmetic are opened up; everything else is an atom.
func ParseCanon(toks []string) *CNode {
	toks = stripOuter(toks)
	if len(toks) == 0 {
		return &CNode{Text: ""}
	}
	if toks[0] == "(" && matching(toks, 0) == len(toks)-1 {
		inner := toks[1 : len(toks)-1]
		// a group: [op X] | [X op Y] | [X op]
		if len(inner) > 0 && isKnownOp(inner[0]) && !startsTerm(inner[0]) {
			op := inner[0]
			if op == "-" {
				return &CNode{Op: "u-", Kids: []*CNode{ParseCanon(inner[1:])}}
			}
		}
		if len(inner) > 0 && (inner[0] == "~" || inner[0] == "\\lnot" || inner[0] == "\\neg") {
			return &CNode{Op: "u~", Kids: []*CNode{ParseCanon(inner[1:])}}
		}
		if false {
		}
		switch inner[0] {
		case "\\A", "\\E", "IF", "LET", "CHOOSE", "CASE":
			return &CNode{Text: strings.Join(toks, " ")}
		}
		depth := 0
		for i, t := range inner {
			if isOpenTok(t) {
				depth++
				continue
			}
			if isCloseTok(t) {
				depth--
				continue
			}
			if depth == 0 && i > 0 && i < len(inner)-1 && isKnownOp(t) {
				return &CNode{Op: t, Kids: []*CNode{ParseCanon(inner[:i]), ParseCanon(inner[i+1:])}}
			}
		}
	}
	return &CNode{Text: strings.Join(toks, " ")}
}

func isKnownOp(t string) bool {
	return boolOps[t] || cmpOps[t] || arithOps[t] || memberOps[t]
}

func startsTerm(t string) bool { return false }

func matching(toks []string, i int) int {
	depth := 0
	for k := i; k < len(toks); k++ {
		if isOpenTok(toks[k]) {
			depth++
		} else if isCloseTok(toks[k]) {
			depth--
			if depth == 0 {
				return k
			}
		}
	}
	return -1
}

// stripOuter removes redundant outer parentheses ( ( x ) ).
func stripOuter(toks []string) []string {
	for len(toks) >= 2 && toks[0] == "(" && matching(toks, 0) == len(toks)-1 {
		inner := toks[1 : len(toks)-1]
		if len(inner) >= 2 && inner[0] == "(" && matching(inner, 0) == len(inner)-1 {
			toks = inner
			continue
		}
		break
	}
	return toks
}

func (n *CNode) String() string {
	if n.Op == "" {
		return n.Text
	}
	if len(n.Kids) == 1 {
		return "(" + n.Op + " " + n.Kids[0].String() + ")"
	}
	return "(" + n.Kids[0].String() + " " + n.Op + " " + n.Kids[1].String() + ")"
}

// ---------------------------------------------------------------- evaluation over atoms

type cenv struct {
	bools map[string]bool
	ints  map[string]int64
}

func isNumber(s string) bool {
	_, err := strconv.ParseInt(s, 10, 64)
	return err == nil
}

func (n *CNode) numeric() bool {
	if n.Op == "" {
		return isNumber(n.Text)
	}
	return arithOps[n.Op] || n.Op == "u-"
}

// collect gathers the atoms of a boolean expression: ints are the atoms used as numbers, bools the rest.
func (n *CNode) collect(asInt bool, bools, ints map[string]bool) {
	switch {
	case n.Op == "":
		if n.Text == "TRUE" || n.Text == "FALSE" || isNumber(n.Text) {
			return
		}
		if asInt {
			ints[n.Text] = true
		} else {
			bools[n.Text] = true
		}
	case boolOps[n.Op] || n.Op == "u~":
		for _, k := range n.Kids {
			k.collect(false, bools, ints)
		}
	case arithOps[n.Op] || n.Op == "u-":
		for _, k := range n.Kids {
			k.collect(true, bools, ints)
		}
	case cmpOps[n.Op]:
		ordered := n.Op != "=" && n.Op != "#" && n.Op != "/="
		if ordered || n.Kids[0].numeric() || n.Kids[1].numeric() {
			n.Kids[0].collect(true, bools, ints)
			n.Kids[1].collect(true, bools, ints)
			return
		}
		bools[eqAtom(n.Kids[0], n.Kids[1])] = true
	case memberOps[n.Op]:
		bools["("+n.Kids[0].String()+" \\in "+n.Kids[1].String()+")"] = true
	}
}

func eqAtom(a, b *CNode) string {
	x, y := a.String(), b.String()
	if x > y {
		x, y = y, x
	}
	return "(" + x + " = " + y + ")"
}

func (n *CNode) evalInt(env *cenv) int64 {
	switch {
	case n.Op == "":
		if v, err := strconv.ParseInt(n.Text, 10, 64); err == nil {
			return v
		}
		return env.ints[n.Text]
	case n.Op == "u-":
		return -n.Kids[0].evalInt(env)
	}
	a, b := n.Kids[0].evalInt(env), n.Kids[1].evalInt(env)
	switch n.Op {
	case "+":
		return a + b
	case "-":
		return a - b
	case "*":
		return a * b
	case "\\div":
		if b == 0 {
			return 0
		}
		q := a / b
		if (a%b != 0) && ((a < 0) != (b < 0)) {
			q--
		}
		return q
	case "%":
		if b == 0 {
			return 0
		}
		r := a % b
		if r < 0 {
			r += b
		}
		return r
	}
	return 0
}

func (n *CNode) evalBool(env *cenv) bool {
	switch {
	case n.Op == "":
		switch n.Text {
		case "TRUE":
			return true
		case "FALSE":
			return false
		}
		return env.bools[n.Text]
	case n.Op == "u~":
		return !n.Kids[0].evalBool(env)
	case n.Op == "/\\":
		return n.Kids[0].evalBool(env) && n.Kids[1].evalBool(env)
	case n.Op == "\\/":
		return n.Kids[0].evalBool(env) || n.Kids[1].evalBool(env)
	case n.Op == "=>":
		return !n.Kids[0].evalBool(env) || n.Kids[1].evalBool(env)
	case n.Op == "<=>" || n.Op == "\\equiv":
		return n.Kids[0].evalBool(env) == n.Kids[1].evalBool(env)
	case cmpOps[n.Op]:
		ordered := n.Op != "=" && n.Op != "#" && n.Op != "/="
		if ordered || n.Kids[0].numeric() || n.Kids[1].numeric() {
			a, b := n.Kids[0].evalInt(env), n.Kids[1].evalInt(env)
			switch n.Op {
			case "=":
				return a == b
			case "#", "/=":
				return a != b
			case "<":
				return a < b
			case ">":
				return a > b
			case "<=", "=<", "\\leq":
				return a <= b
			case ">=", "\\geq":
				return a >= b
			}
		}
		v := env.bools[eqAtom(n.Kids[0], n.Kids[1])]
		if n.Op == "=" {
			return v
		}
		return !v
	case memberOps[n.Op]:
		v := env.bools["("+n.Kids[0].String()+" \\in "+n.Kids[1].String()+")"]
		if n.Op == "\\in" {
			return v
		}
		return !v
	}
	return false
}

// PathCond is the disjunction over occurrences of the conjunction of their literals.
func PathCond(occs []Occ) func(env *cenv) bool {
	type lit struct {
		n   *CNode
		neg bool
	}
	var dnf [][]lit
	for _, o := range occs {
		var conj []lit
		for _, l := range o.Path {
			conj = append(conj, lit{ParseCanon(l.Toks), l.Neg})
		}
		dnf = append(dnf, conj)
	}
	return func(env *cenv) bool {
		for _, conj := range dnf {
			ok := true
			for _, l := range conj {
				if l.n.evalBool(env) == l.neg {
					ok = false
					break
				}
			}
			if ok {
				return true
			}
		}
		return false
	}
}

func pathNodes(occs []Occ) []*CNode {
	var out []*CNode
	for _, o := range occs {
		for _, l := range o.Path {
			out = append(out, ParseCanon(l.Toks))
		}
	}
	return out
}

// Equivalent compares the path condition of the occurrences with the expected condition (TLA+ text). Atoms that only the
// code mentions are context: the effect "happens" for an assignment of the expected condition's atoms if it happens for
// some assignment of the others. It returns a counterexample description when the two differ.
func (v *SpecView) Equivalent(occs []Occ, expected string) (bool, string, error) {
	return v.EquivalentCtx(occs, expected, nil, nil)
}

// EquivalentCtx is Equivalent with a frozen context: ctx names the atoms that were context when the row was written (the
// message-kind dispatch, the enclosing loop test). An atom of the specification that is neither in the table's condition
// nor in ctx is new: a guard put around the effect, or an extra way to reach it. For those the effect must not depend on
// the atom at all - it happens for the assignments the table says whatever the new atom's value is. ctx == nil: every
// other atom is context. record, when not nil, receives the other atoms (to regenerate the frozen lists).
func (v *SpecView) EquivalentCtx(occs []Occ, expected string, ctx map[string]bool, record *[]string) (bool, string, error) {
	toks, err := v.ParseText(expected)
	if err != nil {
		return false, "", fmt.Errorf("table condition %q: %v", expected, err)
	}
	want := ParseCanon(toks)
	return equivalentNodesCtx(PathCond(occs), pathNodes(occs), want, ctx, record)
}

// EquivalentExpr compares two expressions (an operator body with the table's).
func (v *SpecView) EquivalentExpr(got []string, expected string) (bool, string, error) {
	toks, err := v.ParseText(expected)
	if err != nil {
		return false, "", fmt.Errorf("table expression %q: %v", expected, err)
	}
	want := ParseCanon(toks)
	g := ParseCanon(got)
	if !looksBoolean(want) {
		if g.String() == want.String() {
			return true, "", nil
		}
		// operands of commutative operators in lexical order (`(n - 1) + r` is `r + (n - 1)`)
		wrap := func(ts []string) string {
			return strings.Join(CommutativeNorm(append(append([]string{"("}, ts...), ")")), " ")
		}
		if wrap(got) == wrap(toks) {
			return true, "", nil
		}
		return false, fmt.Sprintf("the specification has %s, the table %s", g.String(), want.String()), nil
	}
	// two expressions: every atom of either side is part of the comparison (nothing is context)
	both := &CNode{Op: "\\/", Kids: []*CNode{want, {Op: "/\\", Kids: []*CNode{g, {Op: "u~", Kids: []*CNode{g}}}}}}
	ok, detail, err := equivalentNodes(func(env *cenv) bool { return g.evalBool(env) }, []*CNode{g}, both)
	_ = detail
	if err != nil {
		return false, "", err
	}
	if !ok {
		_, d, _ := equivalentNodes(func(env *cenv) bool { return g.evalBool(env) }, []*CNode{g}, want)
		return false, d, nil
	}
	return true, "", nil
}

func looksBoolean(n *CNode) bool {
	return boolOps[n.Op] || cmpOps[n.Op] || memberOps[n.Op] || n.Op == "u~"
}

var intDomain = []int64{0, 1, 2, 3}

func equivalentNodes(code func(env *cenv) bool, codeNodes []*CNode, want *CNode) (bool, string, error) {
	return equivalentNodesCtx(code, codeNodes, want, nil, nil)
}

func equivalentNodesCtx(code func(env *cenv) bool, codeNodes []*CNode, want *CNode, ctx map[string]bool, record *[]string) (bool, string, error) {
	wb, wi := map[string]bool{}, map[string]bool{}
	want.collect(false, wb, wi)
	cb, ci := map[string]bool{}, map[string]bool{}
	for _, n := range codeNodes {
		n.collect(false, cb, ci)
	}
	// an atom used as a number on one side is a number on both
	for k := range wi {
		delete(cb, k)
		ci[k] = true
	}
	for k := range ci {
		if wb[k] {
			delete(wb, k)
			wi[k] = true
		}
	}
	var declB, declI, otherB, otherI []string
	for k := range wb {
		declB = append(declB, k)
	}
	for k := range wi {
		declI = append(declI, k)
	}
	for k := range cb {
		if !wb[k] {
			otherB = append(otherB, k)
		}
	}
	for k := range ci {
		if !wi[k] {
			otherI = append(otherI, k)
		}
	}
	sort.Strings(declB)
	sort.Strings(declI)
	sort.Strings(otherB)
	sort.Strings(otherI)
	if record != nil {
		*record = append(append(*record, otherB...), otherI...)
	}
	// atoms that are neither the table's nor frozen context
	var newB, newI []string
	if ctx != nil {
		keepB, keepI := otherB[:0:0], otherI[:0:0]
		for _, k := range otherB {
			if ctx[k] {
				keepB = append(keepB, k)
			} else {
				newB = append(newB, k)
			}
		}
		for _, k := range otherI {
			if ctx[k] {
				keepI = append(keepI, k)
			} else {
				newI = append(newI, k)
			}
		}
		otherB, otherI = keepB, keepI
	}
	if len(declB)+len(otherB)+len(newB)+2*(len(declI)+len(otherI)+len(newI)) > 22 {
		return false, "", fmt.Errorf("too many atoms (%d boolean, %d integer)", len(declB)+len(otherB), len(declI)+len(otherI))
	}
	env := &cenv{bools: map[string]bool{}, ints: map[string]int64{}}
	var enum func(bs, is []string, k int, f func() bool) bool
	enum = func(bs, is []string, k int, f func() bool) bool {
		if k < len(bs) {
			for _, val := range []bool{false, true} {
				env.bools[bs[k]] = val
				if !enum(bs, is, k+1, f) {
					return false
				}
			}
			return true
		}
		if j := k - len(bs); j < len(is) {
			for _, val := range intDomain {
				env.ints[is[j]] = val
				if !enum(bs, is, k+1, f) {
					return false
				}
			}
			return true
		}
		return f()
	}
	detail := ""
	ok := enum(declB, declI, 0, func() bool {
		w := want.evalBool(env)
		// exists an assignment of the other atoms under which the code does it
		does := false
		if len(newB)+len(newI) == 0 {
			enum(otherB, otherI, 0, func() bool {
				if code(env) {
					does = true
					return false
				}
				return true
			})
		} else {
			// ... whatever the new atoms' values are: the answer for every assignment of the new atoms must be the same
			first := true
			same := true
			enum(newB, newI, 0, func() bool {
				d := false
				enum(otherB, otherI, 0, func() bool {
					if code(env) {
						d = true
						return false
					}
					return true
				})
				if first {
					does, first = d, false
				} else if d != does {
					same = false
					return false
				}
				return true
			})
			if !same {
				var parts []string
				for _, k := range declB {
					parts = append(parts, fmt.Sprintf("%s=%v", k, env.bools[k]))
				}
				for _, k := range declI {
					parts = append(parts, fmt.Sprintf("%s=%d", k, env.ints[k]))
				}
				detail = fmt.Sprintf("for %s whether the specification does it depends on %s, which the protocol table does not know (a condition added around, or beside, the tabled decision)", strings.Join(parts, " "), strings.Join(append(append([]string{}, newB...), newI...), ", "))
				return false
			}
		}
		if does != w {
			var parts []string
			for _, k := range declB {
				parts = append(parts, fmt.Sprintf("%s=%v", k, env.bools[k]))
			}
			for _, k := range declI {
				parts = append(parts, fmt.Sprintf("%s=%d", k, env.ints[k]))
			}
			detail = fmt.Sprintf("for %s the specification does it: %v, the table: %v", strings.Join(parts, " "), does, w)
			return false
		}
		return true
	})
	return ok, detail, nil
}

// LineNo is the source line of a statement.
func (b base) LineNo() int { return b.Line }

// StripTuple renders an index projection the way Stream does: f[<<a, b>>] is f[a, b].
func StripTuple(pr Expr) Expr {
	if len(pr) >= 2 && pr[0].S == "<<" && pr[len(pr)-1].S == ">>" && soleGroup(pr) {
		return pr[1 : len(pr)-1]
	}
	return pr
}
