// cfgdump prints the atom-level CFG of a function (debugging aid).
package main

import (
	"fmt"
	"go/ast"
	"os"

	"pgoverif/checker/an"
	"pgoverif/checker/load"
)

func main() {
	prog, err := load.Load("/repo")
	if err != nil {
		fmt.Println(err)
		os.Exit(1)
	}
	ix := an.NewIndex(prog)
	want := os.Args[1]
	for _, f := range ix.Funcs() {
		if f.Name() != want {
			continue
		}
		dump := func(body *ast.BlockStmt) {
			g := an.NewGraph(body, f.Pkg.Info)
			for _, b := range g.CFG.Blocks {
				fmt.Printf("block %d kind=%s live=%v succs=", b.Index, b.Kind, b.Live)
				for _, s := range b.Succs {
					fmt.Printf("%d ", s.Index)
				}
				fmt.Printf("exit=%d\n", g.Exit(b))
				for _, a := range g.Atoms[b.Index] {
					fmt.Printf("    %T %s  @%s\n", a, trunc(an.ExprStringNode(a)), prog.Rel(a.Pos()))
				}
			}
		}
		fmt.Println("== decl")
		dump(f.Body())
		ast.Inspect(f.Body(), func(n ast.Node) bool {
			if lit, ok := n.(*ast.FuncLit); ok {
				fmt.Println("== literal at", prog.Rel(lit.Pos()))
				dump(lit.Body)
			}
			return true
		})
	}
}

func trunc(s string) string {
	if len(s) > 90 {
		return s[:90] + "..."
	}
	return s
}
