package main

import (
	"fmt"
	"path/filepath"
	"sort"
	"strings"

	"pgoverif/checker/core"
	"pgoverif/checker/load"
	"pgoverif/checker/specmatch"
)

// Specification sweep (thorough tier, informational): single-token mutants of the guards and assignments of the MPCal block
// of each specification the property's protocol-table rules read - comparison and connective swaps, an off-by-one on a
// literal, a dropped negation - are applied in memory to the .tla file alone and only the *-DECISION rules are run. The
// generated Go is not regenerated, so fidelity fails on every such mutant by construction; the question asked here is the
// other one: how many of the specification's decisions does the table pin, i.e. would an edit made consistently in the
// specification and the Go still be noticed? Survivors are reported: each is a guard no row speaks about.
type specSweepResult struct {
	Files      []string `json:"spec_files"`
	Candidates int      `json:"candidate_mutants"`
	Sampled    int      `json:"sampled"`
	Unparsable int      `json:"unparsable"`
	Killed     int      `json:"killed"`
	Survived   int      `json:"survived"`
	KillRate   float64  `json:"kill_rate"`
	Survivors  []string `json:"survivor_samples"`
	Note       string   `json:"note"`
}

var specSwaps = map[string][]string{
	"=": {"#"}, "#": {"="}, "/=": {"="}, "<": {"<="}, "<=": {"<"}, ">": {">="}, ">=": {">"}, "=<": {"<"},
	"/\\": {"\\/"}, "\\/": {"/\\"}, "\\in": {"\\notin"}, "\\notin": {"\\in"}, "+": {"-"}, "-": {"+"},
	"\\cup": {"\\cap"}, "TRUE": {"FALSE"}, "FALSE": {"TRUE"},
}

func runSpecSweep(prog *load.Program, propID string, selected []*core.Rule, verif string, limit int) *specSweepResult {
	var rules []*core.Rule
	for _, r := range selected {
		if strings.HasSuffix(r.ID, "-DECISION") && strings.Contains(r.Doc, "protocol table") && strings.Contains(r.Doc, "specification") {
			rules = append(rules, r)
		}
	}
	if len(rules) == 0 {
		return nil
	}
	// the specifications: .tla anchors of the property
	var files []string
	for _, f := range propertyAnchorFilesAll(verif, propID) {
		if strings.HasSuffix(f, ".tla") {
			files = append(files, f)
		}
	}
	sort.Strings(files)
	res := &specSweepResult{Files: files, Note: "single-token mutants of the MPCal block, judged by the protocol-table rules only (fidelity fails on all of them by construction)"}
	type mut struct {
		file string
		src  []byte
		desc string
	}
	var muts []mut
	for _, rel := range files {
		abs := filepath.Join(prog.Root, rel)
		src, err := prog.ReadFile(abs)
		if err != nil {
			continue
		}
		block, startLine, before, err := specmatch.FindMPCal(string(src))
		if err != nil {
			continue
		}
		off := strings.Index(string(src), block)
		if off < 0 {
			continue
		}
		_ = before
		toks, err := specmatch.Lex(block, startLine)
		if err != nil {
			continue
		}
		// token offsets inside the block: recover by line/column
		lineStart := map[int]int{}
		ln := startLine
		lineStart[ln] = 0
		for i := 0; i < len(block); i++ {
			if block[i] == '\n' {
				ln++
				lineStart[ln] = i + 1
			}
		}
		// only what is compiled into the Go is mutated: archetype / procedure bodies, macros, the define block (mapping
		// macros, global variables and process instantiations are the model's environment)
		inRegion := make([]bool, len(toks))
		for i := 0; i < len(toks); i++ {
			kw := toks[i].S
			if kw != "archetype" && kw != "procedure" && kw != "define" && kw != "macro" {
				continue
			}
			if kw == "macro" && i > 0 && toks[i-1].S == "mapping" {
				continue
			}
			j := i + 1
			// parameter list
			for j < len(toks) && toks[j].S != "(" && toks[j].S != "{" {
				j++
			}
			if j < len(toks) && toks[j].S == "(" {
				d := 0
				for ; j < len(toks); j++ {
					if toks[j].S == "(" {
						d++
					} else if toks[j].S == ")" {
						d--
						if d == 0 {
							j++
							break
						}
					}
				}
			}
			// local variable declarations end with a ';' at depth 0
			if j < len(toks) && (toks[j].S == "variables" || toks[j].S == "variable") {
				d := 0
				for ; j < len(toks); j++ {
					switch toks[j].S {
					case "(", "[", "{", "<<":
						d++
					case ")", "]", "}", ">>":
						d--
					}
					if toks[j].S == ";" && d == 0 {
						j++
						break
					}
				}
			}
			if j >= len(toks) || toks[j].S != "{" {
				continue
			}
			d := 0
			for k := j; k < len(toks); k++ {
				if toks[k].S == "{" {
					d++
				} else if toks[k].S == "}" {
					d--
					if d == 0 {
						break
					}
				}
				inRegion[k] = true
			}
		}
		for i, t := range toks {
			if !inRegion[i] {
				continue
			}
			alts, ok := specSwaps[t.S]
			if !ok || t.Col == 0 {
				continue
			}
			// the bullet of a junction list (first token of its line) is layout: changing one bullet of a list is not TLA+
			if (t.S == "/\\" || t.S == "\\/") && (i == 0 || toks[i-1].Line != t.Line) {
				continue
			}
			ls, has := lineStart[t.Line]
			if !has {
				continue
			}
			p := off + ls + t.Col - 1
			if p < 0 || p+len(t.S) > len(src) || string(src[p:p+len(t.S)]) != t.S {
				continue
			}
			for _, a := range alts {
				ms := append(append(append([]byte(nil), src[:p]...), []byte(a)...), src[p+len(t.S):]...)
				muts = append(muts, mut{abs, ms, fmt.Sprintf("%s:%d `%s` -> `%s`", rel, t.Line, t.S, a)})
			}
		}
	}
	res.Candidates = len(muts)
	if limit <= 0 {
		limit = 400
	}
	step := 1
	if len(muts) > limit {
		step = len(muts) / limit
	}
	baseBad := map[string]bool{}
	for _, r := range rules {
		for _, o := range core.RunRule(prog, r).Obs {
			if o.Verdict != core.OK {
				baseBad[o.Key()] = true
			}
		}
	}
	for i := 0; i < len(muts); i += step {
		m := muts[i]
		res.Sampled++
		mp, err := prog.MutateMany(map[string][]byte{m.file: m.src}, "spec-sweep")
		if err != nil {
			res.Unparsable++
			continue
		}
		killed, unparsed := false, false
		for _, r := range rules {
			for _, o := range core.RunRule(mp, r).Obs {
				if o.Verdict != core.OK && !baseBad[o.Key()] {
					killed = true
					if strings.Contains(o.Detail, "cannot parse") {
						unparsed = true
					}
				}
			}
		}
		switch {
		case unparsed:
			res.Unparsable++
		case killed:
			res.Killed++
		default:
			res.Survived++
			if len(res.Survivors) < 40 {
				res.Survivors = append(res.Survivors, m.desc)
			}
		}
	}
	if d := res.Killed + res.Survived; d > 0 {
		res.KillRate = float64(res.Killed) / float64(d)
	}
	return res
}
