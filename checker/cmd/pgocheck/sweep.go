package main

// Mutation sweep (thorough tier). Systematic single-point source mutants of the functions the
// property's obligations are anchored in are applied in memory, type-checked, and the property's
// rules are run on each. The result (kill rate per operator, surviving mutants) is reported in
// the evidence file. It measures how much of the anchored code the rules constrain; it never
// changes the exit code: a surviving mutant is not a violation (most are behaviour-preserving or
// irrelevant to the property), and nothing here executes code of /repo.

import (
	"encoding/json"
	"fmt"
	"go/ast"
	"go/token"
	"os"
	"path/filepath"
	"sort"
	"strconv"
	"strings"
	"sync"

	"pgoverif/checker/core"
	"pgoverif/checker/load"
	"pgoverif/checker/rules"
)

type mutant struct {
	File    string // relative to root
	Off     int
	End     int
	Repl    string
	Op      string
	Line    int
	Func    string
	Snippet string
}

type sweepResult struct {
	AnchoredFunctions int            `json:"anchored_functions"`
	Candidates        int            `json:"candidate_mutants"`
	Sampled           int            `json:"sampled"`
	NotCompiling      int            `json:"not_compiling"`
	Killed            int            `json:"killed"`
	Survived          int            `json:"survived"`
	KillRate          float64        `json:"kill_rate_of_compiling"`
	ByOperator        map[string]any `json:"by_operator"`
	KilledByRule      map[string]int `json:"killed_by_rule"`
	Survivors         []string       `json:"survivors_sample"`
	Note              string         `json:"note"`
}

func posFileLine(p string) (string, int) {
	i := strings.LastIndex(p, ":")
	if i < 0 {
		return p, 0
	}
	n, _ := strconv.Atoi(p[i+1:])
	return p[:i], n
}

// anchoredFuncs returns the function declarations containing at least one obligation position.
func anchoredFuncs(prog *load.Program, obs []core.Obligation) map[*ast.FuncDecl]string {
	lines := map[string]map[int]bool{}
	for _, o := range obs {
		f, l := posFileLine(o.Pos)
		if l == 0 {
			continue
		}
		if lines[f] == nil {
			lines[f] = map[int]bool{}
		}
		lines[f][l] = true
	}
	out := map[*ast.FuncDecl]string{}
	for _, pk := range prog.Sorted() {
		for i, f := range pk.Files {
			rel, err := filepath.Rel(prog.Root, pk.FileNames[i])
			if err != nil || lines[rel] == nil {
				continue
			}
			for _, d := range f.Decls {
				// function literals in package-level variable initialisers (the generated jump tables)
				if gd, isGen := d.(*ast.GenDecl); isGen {
					ast.Inspect(gd, func(m ast.Node) bool {
						lit, ok := m.(*ast.FuncLit)
						if !ok {
							return true
						}
						lo := prog.Fset.Position(lit.Pos()).Line
						hi := prog.Fset.Position(lit.End()).Line
						for l := range lines[rel] {
							if l >= lo && l <= hi {
								out[&ast.FuncDecl{Name: ast.NewIdent(fmt.Sprintf("literal@%d", lo)), Type: lit.Type, Body: lit.Body}] = rel
								break
							}
						}
						return false
					})
					continue
				}
				fd, ok := d.(*ast.FuncDecl)
				if !ok || fd.Body == nil {
					continue
				}
				lo := prog.Fset.Position(fd.Pos()).Line
				hi := prog.Fset.Position(fd.End()).Line
				for l := range lines[rel] {
					if l >= lo && l <= hi {
						out[fd] = rel
						break
					}
				}
			}
		}
	}
	return out
}

var cmpSwap = map[token.Token]token.Token{
	token.EQL: token.NEQ, token.NEQ: token.EQL,
	token.LSS: token.LEQ, token.LEQ: token.LSS,
	token.GTR: token.GEQ, token.GEQ: token.GTR,
	token.LAND: token.LOR, token.LOR: token.LAND,
	token.ADD: token.SUB, token.SUB: token.ADD,
}

func genMutants(prog *load.Program, funcs map[*ast.FuncDecl]string) []mutant {
	var out []mutant
	srcs := map[string][]byte{}
	for fd, rel := range funcs {
		src, ok := srcs[rel]
		if !ok {
			b, err := prog.ReadFile(rel)
			if err != nil {
				continue
			}
			src = b
			srcs[rel] = b
		}
		off := func(p token.Pos) int { return prog.Fset.Position(p).Offset }
		name := fd.Name.Name
		if fd.Recv != nil && len(fd.Recv.List) == 1 {
			t := fd.Recv.List[0].Type
			if st, ok := t.(*ast.StarExpr); ok {
				t = st.X
			}
			if ix, ok := t.(*ast.IndexExpr); ok {
				t = ix.X
			}
			if id, ok := t.(*ast.Ident); ok {
				name = id.Name + "." + name
			}
		}
		add := func(n ast.Node, from, to token.Pos, repl, op string) {
			a, b := off(from), off(to)
			if a < 0 || b > len(src) || a > b {
				return
			}
			sn := strings.Join(strings.Fields(string(src[off(n.Pos()):min(off(n.End()), off(n.Pos())+70)])), " ")
			out = append(out, mutant{File: rel, Off: a, End: b, Repl: repl, Op: op, Line: prog.Fset.Position(from).Line, Func: name, Snippet: sn})
		}
		delStmts := func(list []ast.Stmt) {
			for _, st := range list {
				switch x := st.(type) {
				case *ast.ExprStmt, *ast.IncDecStmt, *ast.SendStmt, *ast.GoStmt, *ast.DeferStmt:
					add(st, st.Pos(), st.End(), "", "delete-stmt")
				case *ast.AssignStmt:
					if x.Tok != token.DEFINE {
						add(st, st.Pos(), st.End(), "", "delete-stmt")
					}
				case *ast.BranchStmt:
					if x.Tok == token.CONTINUE || x.Tok == token.BREAK {
						add(st, st.Pos(), st.End(), "", "delete-branch")
					}
				}
			}
		}
		ast.Inspect(fd.Body, func(n ast.Node) bool {
			switch x := n.(type) {
			case *ast.BlockStmt:
				delStmts(x.List)
			case *ast.CaseClause:
				delStmts(x.Body)
			case *ast.CommClause:
				delStmts(x.Body)
			case *ast.IfStmt:
				c := string(src[off(x.Cond.Pos()):off(x.Cond.End())])
				add(x.Cond, x.Cond.Pos(), x.Cond.End(), "!("+c+")", "negate-cond")
			case *ast.BinaryExpr:
				if to, ok := cmpSwap[x.Op]; ok {
					op := "swap-compare"
					switch x.Op {
					case token.LAND, token.LOR:
						op = "swap-logical"
					case token.ADD, token.SUB:
						op = "swap-arith"
					}
					add(x, x.OpPos, x.OpPos+token.Pos(len(x.Op.String())), to.String(), op)
				}
			}
			return true
		})
	}
	sort.Slice(out, func(i, j int) bool {
		if out[i].File != out[j].File {
			return out[i].File < out[j].File
		}
		if out[i].Off != out[j].Off {
			return out[i].Off < out[j].Off
		}
		return out[i].Op < out[j].Op
	})
	return out
}

var maxSurvivors = 60

// propertyAnchorFiles reads the anchor files of a property from <verif>/properties.jsonl (Go files only; glob patterns allowed).
func propertyAnchorFiles(verifDir, propID string) []string {
	b, err := os.ReadFile(filepath.Join(verifDir, "properties.jsonl"))
	if err != nil {
		return nil
	}
	for _, line := range strings.Split(string(b), "\n") {
		var rec struct {
			ID      string `json:"id"`
			Anchors struct {
				Files []string `json:"files"`
			} `json:"anchors"`
		}
		if json.Unmarshal([]byte(line), &rec) != nil || rec.ID != propID {
			continue
		}
		var out []string
		for _, f := range rec.Anchors.Files {
			if strings.HasSuffix(f, ".go") {
				out = append(out, f)
			}
		}
		return out
	}
	return nil
}

// propertyAnchorFilesAll lists every anchor file of the property (not only Go files).
func propertyAnchorFilesAll(verifDir, propID string) []string {
	b, err := os.ReadFile(filepath.Join(verifDir, "properties.jsonl"))
	if err != nil {
		return nil
	}
	for _, line := range strings.Split(string(b), "\n") {
		var rec struct {
			ID      string `json:"id"`
			Anchors struct {
				Files []string `json:"files"`
			} `json:"anchors"`
		}
		if json.Unmarshal([]byte(line), &rec) != nil || rec.ID != propID {
			continue
		}
		return rec.Anchors.Files
	}
	return nil
}

var sweepVerifDir = "/verif"

func runSweep(prog *load.Program, propID string, selected []*core.Rule, base []core.Obligation, findings []core.Finding, limit, offset int, funcs map[*ast.FuncDecl]string) *sweepResult {
	if funcs == nil {
		funcs = anchoredFuncs(prog, base)
		// a function counts for this property only if it also lies in one of the property's own anchor files: rules shared
		// between properties put obligations into functions that have nothing to do with this one
		if pats := propertyAnchorFiles(sweepVerifDir, propID); len(pats) > 0 {
			kept := 0
			for _, rel := range funcs {
				for _, pat := range pats {
					if ok, _ := filepath.Match(pat, rel); ok || pat == rel {
						kept++
						break
					}
				}
			}
			if kept > 0 {
				for fd, rel := range funcs {
					keep := false
					for _, pat := range pats {
						if ok, _ := filepath.Match(pat, rel); ok || pat == rel {
							keep = true
						}
					}
					if !keep {
						delete(funcs, fd)
					}
				}
			}
		}
	}
	all := genMutants(prog, funcs)
	res := &sweepResult{AnchoredFunctions: len(funcs), Candidates: len(all), ByOperator: map[string]any{}, KilledByRule: map[string]int{},
		Note: "informational: single-point mutants of the functions this property's obligations are anchored in, applied in memory and re-type-checked; killed = the property's check would exit 1 on the mutant. Survivors are not violations."}
	if len(all) == 0 {
		return res
	}
	stride := 1
	if limit > 0 && len(all) > limit {
		stride = (len(all) + limit - 1) / limit
	}
	var sample []mutant
	for i := offset % stride; i < len(all); i += stride {
		sample = append(sample, all[i])
	}
	res.Sampled = len(sample)
	baseBad := map[string]bool{}
	for _, o := range base {
		if o.Verdict == core.Violation || o.Verdict == core.Lost {
			baseBad[o.Key()] = true
		}
	}
	type outcome struct {
		status string // "nocompile" | "killed" | "survived"
		rule   string
	}
	outs := make([]outcome, len(sample))
	workers := 8
	if s := os.Getenv("VERIF_SWEEP_WORKERS"); s != "" {
		if n, err := strconv.Atoi(s); err == nil && n > 0 {
			workers = n
		}
	}
	var wg sync.WaitGroup
	jobs := make(chan int)
	for w := 0; w < workers; w++ {
		wg.Add(1)
		go func() {
			defer wg.Done()
			for i := range jobs {
				m := sample[i]
				src, err := prog.ReadFile(m.File)
				if err != nil {
					outs[i] = outcome{status: "nocompile"}
					continue
				}
				ns := append(append(append([]byte{}, src[:m.Off]...), m.Repl...), src[m.End:]...)
				mut, err := prog.Mutate(m.File, ns, "sweep")
				if err != nil {
					outs[i] = outcome{status: "nocompile"}
					continue
				}
				o := outcome{status: "survived"}
				for _, r := range selected {
					ctx := core.RunRule(mut, r)
					n := 0
					for _, ob := range ctx.Obs {
						if ob.Verdict != core.Lost {
							n++
						}
						if (ob.Verdict == core.Violation || ob.Verdict == core.Lost || ob.Verdict == core.Undecided) && !baseBad[ob.Key()] {
							known := false
							for _, f := range findings {
								if f.Match(propID, ob) || (propID == "" && f.Status == "known" && f.Rule == ob.Rule && f.Construct == ob.Construct) {
									known = true
								}
							}
							if !known {
								o = outcome{status: "killed", rule: r.ID}
							}
						}
					}
					if n < r.Floor {
						o = outcome{status: "killed", rule: r.ID}
					}
					if o.status == "killed" {
						break
					}
				}
				rules.Forget(mut)
				outs[i] = o
			}
		}()
	}
	for i := range sample {
		jobs <- i
	}
	close(jobs)
	wg.Wait()
	type opStat struct{ Sampled, NotCompiling, Killed, Survived int }
	ops := map[string]*opStat{}
	for i, m := range sample {
		st := ops[m.Op]
		if st == nil {
			st = &opStat{}
			ops[m.Op] = st
		}
		st.Sampled++
		switch outs[i].status {
		case "nocompile":
			st.NotCompiling++
			res.NotCompiling++
		case "killed":
			st.Killed++
			res.Killed++
			res.KilledByRule[outs[i].rule]++
		default:
			st.Survived++
			res.Survived++
			if len(res.Survivors) < maxSurvivors {
				res.Survivors = append(res.Survivors, fmt.Sprintf("%s:%d %s [%s] %s", m.File, m.Line, m.Func, m.Op, m.Snippet))
			}
		}
	}
	for k, v := range ops {
		res.ByOperator[k] = map[string]int{"sampled": v.Sampled, "not_compiling": v.NotCompiling, "killed": v.Killed, "survived": v.Survived}
	}
	if c := res.Killed + res.Survived; c > 0 {
		res.KillRate = float64(res.Killed) / float64(c)
	}
	return res
}

// runSweepAll is a development aid (not registered in MANIFEST.json): mutate every function of the
// files matching the comma-separated globs (relative to root) and run every rule of every property
// on each mutant; survivors are the code the whole rule set does not constrain.
func runSweepAll(root, verif, globs string, limit int, skipSpec bool) int {
	prog, err := load.Load(root)
	if err != nil {
		fmt.Fprintln(os.Stderr, err)
		return 2
	}
	var selected []*core.Rule
	for _, r := range rules.All() {
		if skipSpec && r.ID == "SPEC-MATCH" {
			continue
		}
		selected = append(selected, r)
	}
	findings, _ := core.LoadFindings(filepath.Join(verif, "known_findings.json"))
	var base []core.Obligation
	for _, r := range selected {
		base = append(base, core.RunRule(prog, r).Obs...)
	}
	funcs := map[*ast.FuncDecl]string{}
	for _, pk := range prog.Sorted() {
		for i, f := range pk.Files {
			rel, err := filepath.Rel(prog.Root, pk.FileNames[i])
			if err != nil {
				continue
			}
			match := false
			for _, g := range strings.Split(globs, ",") {
				if ok, _ := filepath.Match(g, rel); ok {
					match = true
				}
			}
			if !match {
				continue
			}
			for _, d := range f.Decls {
				if fd, ok := d.(*ast.FuncDecl); ok && fd.Body != nil {
					funcs[fd] = rel
				}
			}
		}
	}
	maxSurvivors = 1 << 30
	res := runSweep(prog, "", selected, base, findings, limit, 0, funcs)
	fmt.Printf("sweep-all: %d functions, %d candidates, %d sampled: %d do not compile, %d killed, %d survived (%.0f%%)\n",
		res.AnchoredFunctions, res.Candidates, res.Sampled, res.NotCompiling, res.Killed, res.Survived, 100*res.KillRate)
	for k, v := range res.KilledByRule {
		fmt.Printf("  killed-by %s %d\n", k, v)
	}
	for _, s := range res.Survivors {
		fmt.Println("SURVIVOR", s)
	}
	return 0
}
