// pgocheck decides structural necessary conditions of the PGo properties by
// static analysis of /repo's current sources. See /verif/DESIGN.md.
package main

import (
	"encoding/json"
	"flag"
	"fmt"
	"os"
	"path/filepath"
	"pgoverif/checker/norm"
	"sort"
	"strconv"
	"strings"
	"time"

	"pgoverif/checker/core"
	"pgoverif/checker/load"
	"pgoverif/checker/patch"
	"pgoverif/checker/rules"
)

type seedResult struct {
	Name   string `json:"name"`
	Rule   string `json:"rule"`
	Status string `json:"status"` // fired | missed | stale
	Detail string `json:"detail,omitempty"`
}

var rawProg *load.Program

// runBest judges a rule on every view of the program (the tree as written and its normalisations, see checker/norm) and
// keeps the verdict of the view with the fewest failing obligations: an "extract method" refactoring is the same code at
// another address, and a real defect is a defect in every view.
func runBest(views []*load.Program, r *core.Rule) *core.Ctx {
	var best *core.Ctx
	bestBad := -1
	var all []*core.Ctx
	defer func() {
		// an obligation that fails in the chosen view but is decided OK under another view of the same program holds
		if best == nil {
			return
		}
		for i, o := range best.Obs {
			if o.Verdict == core.OK {
				continue
			}
			for _, other := range all {
				if other == best {
					continue
				}
				for _, oo := range other.Obs {
					if oo.Construct == o.Construct && oo.Verdict == core.OK {
						best.Obs[i] = oo
					}
				}
			}
		}
	}()
	for vi, v := range views {
		if dbg := os.Getenv("PGOVIEW"); dbg != "" && dbg != fmt.Sprint(vi) {
			continue
		}
		ctx := core.RunRule(v, r)
		all = append(all, ctx)
		bad := 0
		for _, o := range ctx.Obs {
			if o.Verdict == core.Violation || o.Verdict == core.Lost || o.Verdict == core.Undecided {
				bad++
			}
		}
		if len(ctx.Obs) < r.Floor {
			bad++
		}
		if best == nil || bad < bestBad {
			best, bestBad = ctx, bad
		}
		if bad == 0 {
			break
		}
	}
	return best
}

func viewsOf(p *load.Program) []*load.Program {
	vs, _ := norm.Views(p)
	return vs
}

var sweepLimit int
var benignMore bool

func main() {
	propID := flag.String("prop", "", "property id (C01..C19)")
	tier := flag.String("tier", "quick", "quick|thorough")
	root := flag.String("root", "/repo", "repository root")
	verif := flag.String("verif", "/verif", "verif directory")
	patchFile := flag.String("patch", "", "apply this unified diff in memory before analysing (experiments)")
	onlyRule := flag.String("rule", "", "run only this rule (debugging)")
	listRules := flag.Bool("list", false, "list rules and exit")
	verbose := flag.Bool("v", false, "print every obligation")
	noSeeds := flag.Bool("noseeds", false, "skip self-test seeds")
	genBaseline := flag.String("genbaseline", "", "write the list of function declarations of the tree to this file (the normaliser's baseline) and exit")
	flag.IntVar(&sweepLimit, "sweep", -1, "mutation sweep: number of sampled mutants (default: 0 in quick, 400 in thorough)")
	sweepAll := flag.String("sweepall", "", "development aid: comma-separated file globs; mutate every function in them and run all rules")
	flag.Parse()
	sweepVerifDir = *verif
	if *sweepAll != "" {
		os.Exit(runSweepAll(*root, *verif, *sweepAll, sweepLimit, true))
	}

	if *genBaseline != "" {
		p, err := load.Load(*root)
		if err != nil {
			fmt.Fprintln(os.Stderr, err)
			os.Exit(2)
		}
		if err := os.WriteFile(*genBaseline, []byte(strings.Join(norm.Keys(p), "\n")+"\n"), 0o644); err != nil {
			fmt.Fprintln(os.Stderr, err)
			os.Exit(2)
		}
		if err := os.WriteFile(filepath.Join(filepath.Dir(*genBaseline), "baseline_funcsigs.txt"), []byte(strings.Join(norm.FuncSigLines(p), "\n")+"\n"), 0o644); err != nil {
			fmt.Fprintln(os.Stderr, err)
			os.Exit(2)
		}
		if err := os.WriteFile(filepath.Join(filepath.Dir(*genBaseline), "baseline_fields.txt"), []byte(strings.Join(norm.FieldLines(p), "\n")+"\n"), 0o644); err != nil {
			fmt.Fprintln(os.Stderr, err)
			os.Exit(2)
		}
		os.Exit(0)
	}
	if *listRules {
		for _, r := range rules.All() {
			fmt.Printf("%-18s %-14s floor=%-3d %s\n", r.ID, strings.Join(r.Props, ","), r.Floor, r.Doc)
		}
		return
	}
	if *propID == "" {
		fmt.Fprintln(os.Stderr, "usage: pgocheck -prop C07 [-tier quick|thorough]")
		os.Exit(2)
	}
	benignMore = *tier == "thorough"
	os.Exit(run(*propID, *tier, *root, *verif, *patchFile, *onlyRule, *verbose, *noSeeds))
}

func fail(prop, verif, tier, msg string) int {
	rep := filepath.Join(verif, "reports", fmt.Sprintf("%s-%s.txt", prop, tier))
	_ = os.MkdirAll(filepath.Dir(rep), 0o755)
	_ = os.WriteFile(rep, []byte(msg+"\n"), 0o644)
	fmt.Println(msg)
	fmt.Printf("VIOLATION property=%s replay=%s\n", prop, rep)
	return 1
}

func run(propID, tier, root, verif, patchFile, onlyRule string, verbose, noSeeds bool) int {
	start := time.Now()
	seedEnv := 0
	if s := os.Getenv("VERIF_SEED"); s != "" {
		seedEnv, _ = strconv.Atoi(s)
	}
	info := rules.Prop(propID)
	if info == nil {
		fmt.Fprintf(os.Stderr, "property %s is not claimed by this checker (see MANIFEST.json not_applicable)\n", propID)
		return 2
	}
	prog, err := load.Load(root)
	if err != nil {
		return fail(propID, verif, tier, "LOAD-FAILED: "+err.Error())
	}
	if len(prog.Pkgs) < 40 {
		return fail(propID, verif, tier, fmt.Sprintf("LOAD-FAILED: only %d packages loaded (expected >= 40)", len(prog.Pkgs)))
	}
	loadSecs := time.Since(start).Seconds()
	if patchFile != "" {
		files, err := patch.ApplyFile(patchFile, root)
		if err != nil {
			fmt.Fprintln(os.Stderr, "patch:", err)
			return 2
		}
		prog, err = prog.MutateMany(files, "patch "+patchFile)
		if err != nil {
			fmt.Fprintln(os.Stderr, "patch:", err)
			return 2
		}
	}
	// functions that the pinned tree did not have are inlined into their callers (checker/norm); every rule is judged on
	// the tree as written and on the inlined views, and its best verdict counts
	rawProg = prog
	progViews, normRes := norm.Views(prog)
	if normRes != nil && len(normRes.Renamed) > 0 {
		fmt.Printf("normalised: %d renamed struct field(s) / function(s) spelled by their pinned names: %v\n", len(normRes.Renamed), normRes.Renamed)
	}
	if normRes != nil && len(normRes.Helpers) > 0 {
		fmt.Printf("normalised: %d new function(s) %v; %d call site(s) inlined in memory (%d views)\n", len(normRes.Helpers), normRes.Helpers, normRes.Inlined, len(progViews))
		for _, l := range normRes.Left {
			fmt.Println("  " + l)
		}
		if dir := filepath.Join(verif, "reports", "normalised"); normRes.Inlined > 0 {
			_ = os.MkdirAll(dir, 0o755)
			for f, b := range normRes.Files {
				rel, _ := filepath.Rel(root, f)
				_ = os.WriteFile(filepath.Join(dir, strings.ReplaceAll(rel, "/", "__")), b, 0o644)
			}
			fmt.Printf("  positions reported for those files may refer to the inlined text kept under %s\n", dir)
		}
	}

	var selected []*core.Rule
	for _, r := range rules.All() {
		if r.HasProp(propID) && (onlyRule == "" || r.ID == onlyRule) {
			selected = append(selected, r)
		}
	}
	if len(selected) == 0 {
		return fail(propID, verif, tier, "no rules registered for "+propID)
	}

	findings, err := core.LoadFindings(filepath.Join(verif, "known_findings.json"))
	if err != nil {
		return fail(propID, verif, tier, "cannot read known_findings.json: "+err.Error())
	}

	var all []core.Obligation
	perRule := map[string]int{}
	stats := map[string]int{}
	floors := map[string]int{}
	var problems []string
	for _, r := range selected {
		ctx := runBest(progViews, r)
		perRule[r.ID] = len(ctx.Obs)
		floors[r.ID] = r.Floor
		for k, v := range ctx.Stats {
			stats[r.ID+": "+k] = v
		}
		all = append(all, ctx.Obs...)
		n := 0
		for _, o := range ctx.Obs {
			if o.Verdict != core.Lost {
				n++
			}
		}
		if n < r.Floor {
			problems = append(problems, fmt.Sprintf("ANCHOR-LOST %s: %d instances found, floor is %d (the rule no longer matches the code it was written for)", r.ID, n, r.Floor))
		}
	}
	core.SortObligations(all)

	var violations, known, undecided, lost []core.Obligation
	for _, o := range all {
		switch o.Verdict {
		case core.Violation:
			isKnown := false
			for _, f := range findings {
				if f.Match(propID, o) {
					isKnown = true
					fmt.Printf("KNOWN-FINDING: property=%s %s %s\n", propID, o.Key(), f.What)
				}
			}
			if isKnown {
				known = append(known, o)
			} else {
				violations = append(violations, o)
			}
		case core.Undecided:
			undecided = append(undecided, o)
		case core.Lost:
			lost = append(lost, o)
		}
	}

	// self-test seeds
	var seedResults []seedResult
	if !noSeeds && patchFile == "" {
		seedResults = runSeeds(prog, propID, tier, all)
	}

	// seeded changes written by independent sub-agents (/verif/seeded/<prop>-*/patch.diff), applied in memory
	var seededResults []seedResult
	if !noSeeds && patchFile == "" {
		seededResults = runSeeded(prog, propID, root, verif, selected, all)
	}

	// behaviour-preserving refactorings (/verif/benign/*/patch.diff): the rules must stay silent
	var benignResults []seedResult
	if !noSeeds && patchFile == "" {
		benignResults = runBenign(prog, root, verif, selected, all)
	}

	// thorough tier: mutation sweep over the anchored functions (informational)
	var sweep *sweepResult
	var specSweep *specSweepResult
	if n := sweepLimit; !noSeeds && patchFile == "" && (n > 0 || (n < 0 && tier == "thorough")) {
		if n < 0 {
			n = 400
		}
		sweep = runSweep(prog, propID, selected, all, findings, n, seedEnv, nil)
		specSweep = runSpecSweep(prog, propID, selected, verif, n)
	}

	// report
	var rep strings.Builder
	fmt.Fprintf(&rep, "pgocheck property=%s tier=%s root=%s packages=%d rules=%d obligations=%d\n",
		propID, tier, root, len(prog.Pkgs), len(selected), len(all))
	for _, p := range problems {
		fmt.Fprintln(&rep, p)
	}
	for _, o := range lost {
		fmt.Fprintf(&rep, "ANCHOR-LOST %s %s: %s\n", o.Rule, o.Construct, o.Detail)
	}
	for _, o := range violations {
		fmt.Fprintf(&rep, "VIOLATED %s  %s\n    at %s\n    %s\n", o.Rule, o.Construct, o.Pos, o.Detail)
	}
	for _, o := range known {
		fmt.Fprintf(&rep, "known-finding %s  %s at %s: %s\n", o.Rule, o.Construct, o.Pos, o.Detail)
	}
	for _, o := range undecided {
		fmt.Fprintf(&rep, "UNDECIDED %s  %s\n    at %s\n    %s\n", o.Rule, o.Construct, o.Pos, o.Detail)
	}
	for _, s := range seedResults {
		if s.Status != "fired" {
			fmt.Fprintf(&rep, "SELFTEST seed %s (%s): %s %s\n", s.Name, s.Rule, s.Status, s.Detail)
		}
	}
	for _, s := range seededResults {
		fmt.Fprintf(&rep, "seeded change %s: %s %s\n", s.Name, s.Status, s.Detail)
	}
	for _, s := range benignResults {
		if s.Status != "silent" {
			fmt.Fprintf(&rep, "SELFTEST benign change %s: %s %s\n", s.Name, s.Status, s.Detail)
		}
	}
	if sweep != nil {
		fmt.Fprintf(&rep, "mutation sweep: %d anchored functions, %d candidate mutants, %d sampled: %d do not compile, %d killed, %d survived (kill rate of compiling mutants %.0f%%)\n",
			sweep.AnchoredFunctions, sweep.Candidates, sweep.Sampled, sweep.NotCompiling, sweep.Killed, sweep.Survived, 100*sweep.KillRate)
	}
	if specSweep != nil {
		fmt.Fprintf(&rep, "specification sweep: %d candidate single-token mutants of %v, %d sampled: %d unparsable, %d killed by the protocol tables, %d survived (kill rate %.0f%%)\n",
			specSweep.Candidates, specSweep.Files, specSweep.Sampled, specSweep.Unparsable, specSweep.Killed, specSweep.Survived, 100*specSweep.KillRate)
		for _, sv := range specSweep.Survivors {
			fmt.Fprintf(&rep, "    survivor: %s\n", sv)
		}
	}
	if verbose {
		for _, o := range all {
			fmt.Fprintf(&rep, "  [%s] %s %s (%s) %s\n", o.Verdict, o.Rule, o.Construct, o.Pos, o.Detail)
		}
	}
	// an obligation the checker cannot decide is not a pass: the construct is not one of the shapes the rule knows to be sound
	failed := len(violations) > 0 || len(lost) > 0 || len(problems) > 0 || len(undecided) > 0
	repPath := filepath.Join(verif, "reports", fmt.Sprintf("%s-%s.txt", propID, tier))
	_ = os.MkdirAll(filepath.Dir(repPath), 0o755)
	_ = os.WriteFile(repPath, []byte(rep.String()), 0o644)
	fmt.Print(rep.String())

	// evidence
	distinct := map[string]bool{}
	for _, o := range all {
		if o.Verdict != core.Lost {
			distinct[o.Key()] = true
		}
	}
	var samples []any
	step := len(all)/12 + 1
	for i := 0; i < len(all); i += step {
		samples = append(samples, all[i])
	}
	for _, o := range violations {
		if len(samples) < 30 {
			samples = append(samples, o)
		}
	}
	fired, total, stale := 0, 0, 0
	for _, s := range seedResults {
		total++
		switch s.Status {
		case "fired":
			fired++
		case "stale":
			stale++
		}
	}
	ruleDocs := map[string]string{}
	for _, r := range selected {
		ruleDocs[r.ID] = r.Doc
	}
	ev := map[string]any{
		"property_id": propID,
		"tier":        tier,
		"seed":        seedEnv,
		"level":       info.Level,
		"coverage": map[string]any{
			"explanation":         info.Explanation,
			"not_decided":         info.NotDecided,
			"evaluations":         len(all),
			"distinct_nontrivial": len(distinct),
			"rule": "one obligation per (rule, construct) instance found in /repo's current type-checked source; " +
				"non-trivial = the rule's anchor resolved and a verdict (ok/violation/undecided) was computed for that construct; keys carry no line numbers",
			"samples":            samples,
			"packages":           len(prog.Pkgs),
			"rules":              ruleDocs,
			"instances_per_rule": perRule,
			"floors":             floors,
			"stats":              stats,
			"undecided":          len(undecided),
			"known_findings":     len(known),
			"anchor_lost":        len(lost) + len(problems),
			"seeds_total":        total,
			"seeds_fired":        fired,
			"seeds_stale":        stale,
			"seed_results":       seedResults,
			"seeded_changes":     seededResults,
			"benign_changes":     benignResults,
			"load_seconds":       loadSecs,
			"exhaustive":         true,
		},
		"assumptions": info.Assumptions,
		"wall_s":      time.Since(start).Seconds(),
		"violations":  len(violations),
	}
	if sweep != nil {
		ev["coverage"].(map[string]any)["mutation_sweep"] = sweep
	}
	if specSweep != nil {
		ev["coverage"].(map[string]any)["specification_sweep"] = specSweep
	}
	if info.Level == "translation_validation" {
		cov := ev["coverage"].(map[string]any)
		cov["programs"] = stats["SPEC-MATCH: spec/Go pairs"]
		cov["disagreements_checked"] = len(all)
	}
	evPath := filepath.Join(verif, "evidence", propID+".json")
	_ = os.MkdirAll(filepath.Dir(evPath), 0o755)
	b, _ := json.MarshalIndent(ev, "", " ")
	if err := os.WriteFile(evPath, append(b, '\n'), 0o644); err != nil {
		fmt.Fprintln(os.Stderr, "cannot write evidence:", err)
	}
	fmt.Printf("summary property=%s tier=%s obligations=%d distinct=%d violations=%d known=%d undecided=%d lost=%d seeds=%d/%d wall=%.1fs\n",
		propID, tier, len(all), len(distinct), len(violations), len(known), len(undecided), len(lost)+len(problems), fired, total, time.Since(start).Seconds())
	if failed {
		fmt.Printf("VIOLATION property=%s replay=%s\n", propID, repPath)
		return 1
	}
	return 0
}

func runSeeds(prog *load.Program, propID, tier string, base []core.Obligation) []seedResult {
	baseBad := map[string]bool{}
	for _, o := range base {
		if o.Verdict == core.Violation {
			baseBad[o.Key()] = true
		}
	}
	ruleByID := map[string]*core.Rule{}
	for _, r := range rules.All() {
		ruleByID[r.ID] = r
	}
	var out []seedResult
	var list []rules.Seed
	for _, s := range rules.Seeds() {
		if s.Prop == propID {
			list = append(list, s)
		}
	}
	sort.Slice(list, func(i, j int) bool { return list[i].Name < list[j].Name })
	for _, s := range list {
		res := seedResult{Name: s.Name, Rule: s.Rule}
		src, err := rawProg.ReadFile(s.File)
		if err != nil {
			res.Status, res.Detail = "stale", err.Error()
			out = append(out, res)
			continue
		}
		if n := strings.Count(string(src), s.Old); n != 1 {
			res.Status, res.Detail = "stale", fmt.Sprintf("anchor text occurs %d times in %s", n, s.File)
			out = append(out, res)
			continue
		}
		mut, err := rawProg.Mutate(s.File, []byte(strings.Replace(string(src), s.Old, s.New, 1)), s.Name)
		if err != nil {
			res.Status, res.Detail = "stale", err.Error()
			out = append(out, res)
			continue
		}
		r := ruleByID[s.Rule]
		if r == nil {
			res.Status, res.Detail = "stale", "unknown rule"
			out = append(out, res)
			continue
		}
		mviews := viewsOf(mut)
		ctx := runBest(mviews, r)
		for _, mv := range mviews {
			rules.Forget(mv)
		}
		res.Status = "missed"
		for _, o := range ctx.Obs {
			if (o.Verdict == core.Violation || o.Verdict == core.Lost || o.Verdict == core.Undecided) && !baseBad[o.Key()] && strings.Contains(o.Key(), s.Expect) {
				res.Status = "fired"
				res.Detail = o.Key()
				break
			}
		}
		out = append(out, res)
	}
	return out
}

// runSeeded applies every kept seeded change of this property in memory and reports
// whether some rule of the property flags it (informational; never affects the exit code).
func runSeeded(prog *load.Program, propID, root, verif string, selected []*core.Rule, base []core.Obligation) []seedResult {
	baseBad := map[string]bool{}
	for _, o := range base {
		if o.Verdict == core.Violation {
			baseBad[o.Key()] = true
		}
	}
	dirs, _ := filepath.Glob(filepath.Join(verif, "seeded", propID+"-*"))
	sort.Strings(dirs)
	var out []seedResult
	for _, d := range dirs {
		res := seedResult{Name: filepath.Base(d), Rule: "*"}
		files, err := patch.ApplyFile(filepath.Join(d, "patch.diff"), root)
		if err != nil {
			res.Status, res.Detail = "stale", err.Error()
			out = append(out, res)
			continue
		}
		mut, err := rawProg.MutateMany(files, res.Name)
		if err != nil {
			res.Status, res.Detail = "stale", err.Error()
			out = append(out, res)
			continue
		}
		mviews := viewsOf(mut)
		res.Status = "missed"
		var hits []string
		for _, r := range selected {
			ctx := runBest(mviews, r)
			for _, o := range ctx.Obs {
				if (o.Verdict == core.Violation || o.Verdict == core.Lost || o.Verdict == core.Undecided) && !baseBad[o.Key()] {
					hits = append(hits, o.Key())
				}
			}
		}
		for _, mv := range mviews {
			rules.Forget(mv)
		}
		if len(hits) > 0 {
			res.Status = "detected"
			if len(hits) > 4 {
				hits = hits[:4]
			}
			res.Detail = strings.Join(hits, " | ")
		}
		out = append(out, res)
	}
	return out
}

// runBenign applies every behaviour-preserving refactoring kept under /verif/benign in memory and reports whether the
// property's rules stay silent on it (informational; never affects the exit code). A "false-alarm" entry is a defect of
// the checker, not of the repository.
func runBenign(prog *load.Program, root, verif string, selected []*core.Rule, base []core.Obligation) []seedResult {
	baseBad := map[string]bool{}
	for _, o := range base {
		if o.Verdict == core.Violation || o.Verdict == core.Lost {
			baseBad[o.Key()] = true
		}
	}
	dirs, _ := filepath.Glob(filepath.Join(verif, "benign", "*"))
	if benignMore {
		// the larger corpus (thorough tier): refactorings that were silent from the start, kept as a regression set
		more, _ := filepath.Glob(filepath.Join(verif, "benign_more", "*"))
		dirs = append(dirs, more...)
	}
	sort.Strings(dirs)
	// a patch is relevant to this property if it touches a directory in which one of the property's obligations lives
	// (the others cannot change any verdict here and are judged by the properties they do concern)
	obDirs := map[string]bool{}
	for _, o := range base {
		f, _ := posFileLine(o.Pos)
		if f != "" && f != "?" {
			obDirs[filepath.Dir(f)] = true
		}
	}
	var out []seedResult
	for _, d := range dirs {
		res := seedResult{Name: filepath.Base(d), Rule: "*"}
		files, err := patch.ApplyFile(filepath.Join(d, "patch.diff"), root)
		if err != nil {
			res.Status, res.Detail = "stale", err.Error()
			out = append(out, res)
			continue
		}
		relevant := false
		for f := range files {
			rel, rerr := filepath.Rel(root, f)
			if rerr != nil {
				rel = f
			}
			if obDirs[filepath.Dir(rel)] {
				relevant = true
			}
		}
		if !relevant {
			res.Status, res.Detail = "silent", "touches no directory this property has obligations in"
			out = append(out, res)
			continue
		}
		mut, err := rawProg.MutateMany(files, res.Name)
		if err != nil {
			res.Status, res.Detail = "stale", err.Error()
			out = append(out, res)
			continue
		}
		mviews := viewsOf(mut)
		res.Status = "silent"
		var hits []string
		for _, r := range selected {
			ctx := runBest(mviews, r)
			n := 0
			for _, o := range ctx.Obs {
				if o.Verdict != core.Lost {
					n++
				}
				if (o.Verdict == core.Violation || o.Verdict == core.Lost || o.Verdict == core.Undecided) && !baseBad[o.Key()] {
					hits = append(hits, o.Key())
				}
			}
			if n < r.Floor {
				hits = append(hits, r.ID+":below-floor")
			}
		}
		for _, mv := range mviews {
			rules.Forget(mv)
		}
		if len(hits) > 0 {
			res.Status = "false-alarm"
			res.Detail = strings.Join(hits, " | ")
		}
		out = append(out, res)
	}
	return out
}
