package main

import (
	"fmt"
	"os"

	"pgoverif/checker/specmatch"
)

func labels(ss []specmatch.Stmt, out *[]string) {
	for _, s := range ss {
		switch x := s.(type) {
		case *specmatch.Labeled:
			*out = append(*out, x.Label)
			labels(x.Body, out)
		case *specmatch.If:
			labels(x.Then, out)
			labels(x.Else, out)
		case *specmatch.Either:
			for _, c := range x.Cases {
				labels(c, out)
			}
		case *specmatch.While:
			labels(x.Body, out)
		case *specmatch.With:
			labels(x.Body, out)
		}
	}
}

func main() {
	for _, f := range os.Args[1:] {
		b, err := os.ReadFile(f)
		if err != nil {
			fmt.Println(f, err)
			continue
		}
		sp, err := specmatch.ParseSpec(string(b))
		if err != nil {
			fmt.Println(f, "ERROR", err)
			continue
		}
		fmt.Printf("%s: mpcal %s defs=%d macros=%d units=%d\n", f, sp.Name, len(sp.Defs), len(sp.Macros), len(sp.Units))
		for _, u := range sp.Units {
			var ls []string
			labels(u.Body, &ls)
			fmt.Printf("   %s %s params=%d vars=%d labels=%v\n", u.Kind, u.Name, len(u.Params), len(u.Vars), ls)
		}
	}
}

func init() {
	if len(os.Args) > 1 && os.Args[1] == "-succ" {
		// development aid: print the label graph (label -> goto targets) of each unit after normalisation, as table rows
		for _, f := range os.Args[2:] {
			b, err := os.ReadFile(f)
			if err != nil {
				continue
			}
			sp, err := specmatch.ParseSpec(string(b))
			if err != nil {
				fmt.Println(f, "ERROR", err)
				continue
			}
			for _, u := range sp.Units {
				secs, err := sp.Sections(u)
				if err != nil {
					continue
				}
				for _, s := range secs {
					set := map[string]bool{}
					var walk func(ss []specmatch.Stmt)
					walk = func(ss []specmatch.Stmt) {
						for _, st := range ss {
							switch x := st.(type) {
							case *specmatch.Goto:
								set[x.Target] = true
							case *specmatch.If:
								walk(x.Then)
								walk(x.Else)
							case *specmatch.Either:
								for _, c := range x.Cases {
									walk(c)
								}
							case *specmatch.While:
								walk(x.Body)
							case *specmatch.With:
								walk(x.Body)
							case *specmatch.Labeled:
								walk(x.Body)
							}
						}
					}
					walk(s.Body)
					var ts []string
					for t := range set {
						ts = append(ts, t)
					}
					sortStrings(ts)
					fmt.Printf("%s\t%s\t%s\t%v\n", sp.Name, u.Name, s.Label, ts)
				}
			}
		}
		os.Exit(0)
	}
}

func sortStrings(a []string) {
	for i := range a {
		for j := i + 1; j < len(a); j++ {
			if a[j] < a[i] {
				a[i], a[j] = a[j], a[i]
			}
		}
	}
}
