package main

import (
	"fmt"
	"os"

	"pgoverif/checker/specmatch"
)

func labels(ss []specmatch.Stmt, out *[]string) {
	for _, s := range ss {
		switch x := s.(type) {
		case *specmatch.Labeled:
			*out = append(*out, x.Label)
			labels(x.Body, out)
		case *specmatch.If:
			labels(x.Then, out)
			labels(x.Else, out)
		case *specmatch.Either:
			for _, c := range x.Cases {
				labels(c, out)
			}
		case *specmatch.While:
			labels(x.Body, out)
		case *specmatch.With:
			labels(x.Body, out)
		}
	}
}

func main() {
	for _, f := range os.Args[1:] {
		b, err := os.ReadFile(f)
		if err != nil {
			fmt.Println(f, err)
			continue
		}
		sp, err := specmatch.ParseSpec(string(b))
		if err != nil {
			fmt.Println(f, "ERROR", err)
			continue
		}
		fmt.Printf("%s: mpcal %s defs=%d macros=%d units=%d\n", f, sp.Name, len(sp.Defs), len(sp.Macros), len(sp.Units))
		for _, u := range sp.Units {
			var ls []string
			labels(u.Body, &ls)
			fmt.Printf("   %s %s params=%d vars=%d labels=%v\n", u.Kind, u.Name, len(u.Params), len(u.Vars), ls)
		}
	}
}
