package an

import (
	"fmt"
	"go/ast"
	"go/constant"
	"go/token"
	"go/types"
	"sort"
	"strings"

	"golang.org/x/tools/go/cfg"
)

// Flag-sensitive reachability. A function that remembers the outcome of a test in a boolean local and branches on the
// local later (`ok := false; if c { ok = true }; ...; if ok {...}`, or the `v, ok := helper()` shape once the helper has
// been inlined) has paths in its control-flow graph that no execution takes. SearchFlags is Search over the product of
// the graph with the known values of such locals: boolean locals of the function that are never captured by a function
// literal nor have their address taken, and are only ever assigned constants or copies of each other. A branch on such a
// local (or its negation, or a conjunction / disjunction of them) whose value is known follows the one edge execution
// takes. Values are forgotten at anything else that writes the local.

type flagEnv map[types.Object]bool

func (e flagEnv) key() string {
	if len(e) == 0 {
		return ""
	}
	var parts []string
	for o, v := range e {
		parts = append(parts, fmt.Sprintf("%d=%v", o.Pos(), v))
	}
	sort.Strings(parts)
	return strings.Join(parts, ",")
}

func (e flagEnv) clone() flagEnv {
	c := make(flagEnv, len(e))
	for k, v := range e {
		c[k] = v
	}
	return c
}

// flagVars: the boolean locals whose values SearchFlags may track.
func (g *Graph) flagVars() map[types.Object]bool {
	if g.flags != nil {
		return g.flags
	}
	g.flags = map[types.Object]bool{}
	if g.Body == nil {
		return g.flags
	}
	bad := map[types.Object]bool{}
	isBool := func(o types.Object) bool {
		v, ok := o.(*types.Var)
		if !ok || v.IsField() {
			return false
		}
		switch u := v.Type().Underlying().(type) {
		case *types.Basic:
			return u.Info()&types.IsBoolean != 0
		case *types.Pointer, *types.Interface, *types.Slice, *types.Map, *types.Chan, *types.Signature:
			return true // tracked as nil (false) / non-nil (true)
		}
		return false
	}
	var walk func(n ast.Node, inLit bool)
	walk = func(n ast.Node, inLit bool) {
		ast.Inspect(n, func(m ast.Node) bool {
			switch x := m.(type) {
			case *ast.FuncLit:
				if m != n {
					walk(x.Body, true)
					return false
				}
			case *ast.Ident:
				if o := g.Info.ObjectOf(x); o != nil && isBool(o) {
					if inLit && !(x.Pos() >= o.Pos() && o.Pos() >= n.Pos() && o.Pos() < n.End()) {
						bad[o] = true // captured by a literal
					}
					if !inLit && o.Pos() >= g.Body.Pos() && o.Pos() < g.Body.End() {
						g.flags[o] = true
					}
				}
			case *ast.UnaryExpr:
				if x.Op == token.AND {
					if id, ok := Unparen(x.X).(*ast.Ident); ok {
						if o := g.Info.ObjectOf(id); o != nil {
							bad[o] = true
						}
					}
				}
			}
			return true
		})
	}
	walk(g.Body, false)
	for o := range bad {
		delete(g.flags, o)
	}
	return g.flags
}

func (g *Graph) flagValue(e ast.Expr, env flagEnv) (val, known bool) {
	e = Unparen(e)
	if tv, ok := g.Info.Types[e]; ok && tv.Value != nil && tv.Value.Kind() == constant.Bool {
		return constant.BoolVal(tv.Value), true
	}
	switch x := e.(type) {
	case *ast.Ident:
		if _, isNil := g.Info.Uses[x].(*types.Nil); isNil {
			return false, true
		}
		if IsNonNilSentinel(g.Info.Uses[x]) {
			return true, true
		}
		v, ok := env[g.Info.ObjectOf(x)]
		return v, ok
	case *ast.SelectorExpr:
		if IsNonNilSentinel(g.Info.Uses[x.Sel]) {
			return true, true
		}
	case *ast.UnaryExpr:
		if x.Op == token.NOT {
			v, ok := g.flagValue(x.X, env)
			return !v, ok
		}
		if x.Op == token.AND {
			return true, true // an address is never nil
		}
	case *ast.CompositeLit:
		if t := g.Info.TypeOf(x); t != nil {
			switch t.Underlying().(type) {
			case *types.Slice, *types.Map:
				return true, true
			}
		}
	case *ast.BinaryExpr:
		if x.Op == token.EQL || x.Op == token.NEQ {
			if o, nonNilWhenTrue, ok := g.nilTestOf(x); ok {
				if v, known := env[o]; known {
					return v == nonNilWhenTrue, true
				}
				return false, false
			}
		}
		if x.Op == token.LAND || x.Op == token.LOR {
			a, ka := g.flagValue(x.X, env)
			b, kb := g.flagValue(x.Y, env)
			if x.Op == token.LAND {
				if (ka && !a) || (kb && !b) {
					return false, true
				}
				return true, ka && kb
			}
			if (ka && a) || (kb && b) {
				return true, true
			}
			return false, ka && kb
		}
	}
	return false, false
}

// flagStep updates env for the effect of atom a.
func (g *Graph) flagStep(a ast.Node, env flagEnv, tracked map[types.Object]bool) flagEnv {
	set := func(env flagEnv, o types.Object, rhs ast.Expr, old flagEnv) flagEnv {
		if !tracked[o] {
			return env
		}
		env = env.clone()
		if rhs != nil {
			// a concrete value stored in an interface makes the interface non-nil whatever the value is
			_, lhsIface := o.Type().Underlying().(*types.Interface)
			rt := g.Info.TypeOf(rhs)
			rhsIface := false
			if rt != nil {
				_, rhsIface = rt.Underlying().(*types.Interface)
				if b, isBasic := rt.Underlying().(*types.Basic); isBasic && b.Kind() == types.UntypedNil {
					rhsIface = true
				}
			}
			if v, ok := g.flagValue(rhs, old); ok && (!lhsIface || rhsIface) {
				env[o] = v
				return env
			}
		}
		delete(env, o)
		return env
	}
	switch x := a.(type) {
	case *ast.AssignStmt:
		old := env
		for i, l := range x.Lhs {
			id, ok := Unparen(l).(*ast.Ident)
			if !ok {
				continue
			}
			o := g.Info.ObjectOf(id)
			if o == nil {
				continue
			}
			var rhs ast.Expr
			if len(x.Rhs) == len(x.Lhs) && (x.Tok == token.ASSIGN || x.Tok == token.DEFINE) {
				rhs = x.Rhs[i]
			}
			env = set(env, o, rhs, old)
		}
	case *ast.DeclStmt:
		if gd, ok := x.Decl.(*ast.GenDecl); ok {
			for _, sp := range gd.Specs {
				vs, ok := sp.(*ast.ValueSpec)
				if !ok {
					continue
				}
				for i, nm := range vs.Names {
					o := g.Info.Defs[nm]
					if o == nil || !tracked[o] {
						continue
					}
					env = env.clone()
					switch {
					case len(vs.Values) == 0:
						env[o] = false
					case len(vs.Values) == len(vs.Names):
						if v, ok := g.flagValue(vs.Values[i], env); ok {
							env[o] = v
						} else {
							delete(env, o)
						}
					default:
						delete(env, o)
					}
				}
			}
		}
	case *ast.RangeStmt:
		for _, l := range []ast.Expr{x.Key, x.Value} {
			if id, ok := l.(*ast.Ident); ok {
				if o := g.Info.ObjectOf(id); o != nil && tracked[o] {
					env = env.clone()
					delete(env, o)
				}
			}
		}
	}
	return env
}

// SearchFlags answers the same question as Search, following only the edges that the known values of boolean flag
// locals allow. It never reports a path Search would not report.
func (g *Graph) SearchFlags(q Query) bool {
	tracked := g.flagVars()
	if len(tracked) == 0 {
		return g.Search(q).Found
	}
	type state struct {
		block, idx int
		env        flagEnv
	}
	start := state{0, 0, flagEnv{}}
	if q.From != nil {
		p, ok := g.PointOf(q.From)
		if !ok {
			return false
		}
		start = state{p.Block, p.Idx + 1, flagEnv{}}
	}
	seen := map[string]bool{}
	queue := []state{start}
	first := true
	steps := 0
	for len(queue) > 0 {
		st := queue[0]
		queue = queue[1:]
		steps++
		if steps > 200000 {
			return true // give up: assume reachable
		}
		if !first {
			k := fmt.Sprintf("%d|%s", st.block, st.env.key())
			if seen[k] {
				continue
			}
			seen[k] = true
		}
		first = false
		b := g.CFG.Blocks[st.block]
		env := st.env
		blocked := false
		atoms := g.Atoms[st.block]
		for i := st.idx; i < len(atoms); i++ {
			a := atoms[i]
			if q.Target != nil && q.Target(a) {
				return true
			}
			if q.Avoid != nil && q.Avoid(a) {
				blocked = true
				break
			}
			env = g.flagStep(a, env, tracked)
		}
		if blocked {
			continue
		}
		switch g.Exit(b) {
		case ExitReturn, ExitFallOff:
			if q.ToExit {
				return true
			}
		case ExitPanic:
			if q.ToPanic {
				return true
			}
		}
		only := -1
		var learnt [2]flagEnv
		if cd, tag := g.Cond(b); cd != nil && tag == nil && len(b.Succs) == 2 {
			if v, known := g.flagValue(cd, env); known {
				if v {
					only = 0
				} else {
					only = 1
				}
			} else {
				learnt[0] = g.flagLearn(cd, true, env, tracked)
				learnt[1] = g.flagLearn(cd, false, env, tracked)
			}
		}
		if b.Kind == cfg.KindRangeLoop {
			// the loop header re-binds its variables
			if rs, ok := b.Stmt.(*ast.RangeStmt); ok {
				env = g.flagStep(rs, env, tracked)
			}
		}
		for i, s := range b.Succs {
			if only >= 0 && i != only {
				continue
			}
			if q.Edges != nil && !q.Edges(b, i) {
				continue
			}
			next := env
			if i < 2 && learnt[i] != nil {
				next = learnt[i]
			}
			queue = append(queue, state{int(s.Index), 0, next})
		}
	}
	return false
}

// flagLearn: the environment on the edge of cond taken when cond evaluates to outcome: sub-conditions whose value follows
// (`A && B` true, `A || B` false, negations) and that test a tracked local directly (`ok`, `!ok`, `x != nil`, `x == nil`)
// become known.
func (g *Graph) flagLearn(cond ast.Expr, outcome bool, env flagEnv, tracked map[types.Object]bool) flagEnv {
	out := env
	var visit func(e ast.Expr, val bool)
	visit = func(e ast.Expr, val bool) {
		e = Unparen(e)
		switch x := e.(type) {
		case *ast.Ident:
			if o := g.Info.ObjectOf(x); o != nil && tracked[o] {
				if b, ok := o.Type().Underlying().(*types.Basic); ok && b.Info()&types.IsBoolean != 0 {
					out = out.clone()
					out[o] = val
				}
			}
		case *ast.UnaryExpr:
			if x.Op == token.NOT {
				visit(x.X, !val)
			}
		case *ast.BinaryExpr:
			switch {
			case x.Op == token.LAND && val, x.Op == token.LOR && !val:
				visit(x.X, val)
				visit(x.Y, val)
			case x.Op == token.EQL || x.Op == token.NEQ:
				if o, nonNilWhenTrue, ok := g.nilTestOf(x); ok && tracked[o] {
					out = out.clone()
					out[o] = val == nonNilWhenTrue
				}
			}
		}
	}
	visit(cond, outcome)
	return out
}
