// Package an contains the small analysis toolkit the rules are built from:
// object resolution, go/cfg graphs with dominance and path queries, field
// effect sets and call enumeration. Everything is resolved through go/types —
// nothing matches source text or positions.
package an

import (
	"fmt"
	"go/ast"
	"go/token"
	"go/types"
	"sort"
	"strings"
	"sync"

	"golang.org/x/tools/go/types/typeutil"

	"pgoverif/checker/load"
)

const (
	ModPrefix    = "github.com/DistCompiler/pgo/"
	PkgDistsys   = ModPrefix + "distsys"
	PkgResources = ModPrefix + "distsys/resources"
	PkgTLA       = ModPrefix + "distsys/tla"
	PkgTrace     = ModPrefix + "distsys/trace"
	PkgHashmap   = ModPrefix + "distsys/hashmap"
	PkgImmutable = "github.com/benbjohnson/immutable"
)

// Func is a function or method with a body in the workspace (or a function literal).
type Func struct {
	Pkg  *load.Package
	Decl *ast.FuncDecl // nil for literals
	Lit  *ast.FuncLit  // nil for declarations
	Obj  *types.Func   // nil for literals
}

func (f *Func) Body() *ast.BlockStmt {
	if f.Decl != nil {
		return f.Decl.Body
	}
	return f.Lit.Body
}

func (f *Func) Type() *ast.FuncType {
	if f.Decl != nil {
		return f.Decl.Type
	}
	return f.Lit.Type
}

func (f *Func) Pos() token.Pos {
	if f.Decl != nil {
		return f.Decl.Pos()
	}
	return f.Lit.Pos()
}

// Name renders pkg.Func or pkg.(T).Method without the module prefix.
func (f *Func) Name() string {
	if f.Obj == nil {
		return shortPkg(f.Pkg.Path) + ".func-literal"
	}
	return FuncName(f.Obj)
}

func shortPkg(path string) string {
	path = strings.TrimPrefix(path, ModPrefix)
	for _, pre := range []string{"distsys/", "systems/", "pgo/test/files/"} {
		if strings.HasPrefix(path, pre) {
			return strings.TrimPrefix(path, pre)
		}
	}
	return path
}

// ShortPkg is the exported form of the package-path shortener used in keys.
func ShortPkg(path string) string { return shortPkg(path) }

// FuncName renders a types.Func as "pkg.Name" or "pkg.T.Name".
func FuncName(fn *types.Func) string {
	pk := ""
	if fn.Pkg() != nil {
		pk = shortPkg(fn.Pkg().Path())
	}
	sig, _ := fn.Type().(*types.Signature)
	if sig != nil && sig.Recv() != nil {
		if n := NamedOf(sig.Recv().Type()); n != nil {
			return pk + "." + n.Obj().Name() + "." + fn.Name()
		}
	}
	return pk + "." + fn.Name()
}

// NamedOf strips pointers and returns the *types.Named (or nil).
func NamedOf(t types.Type) *types.Named {
	for {
		switch tt := t.(type) {
		case *types.Pointer:
			t = tt.Elem()
			continue
		case *types.Named:
			return tt
		case *types.Alias:
			t = types.Unalias(tt)
			continue
		}
		return nil
	}
}

// TypeKey renders pkg.T for a named type.
func TypeKey(n *types.Named) string {
	if n == nil {
		return "?"
	}
	if n.Obj().Pkg() == nil {
		return n.Obj().Name()
	}
	return shortPkg(n.Obj().Pkg().Path()) + "." + n.Obj().Name()
}

// Index gives access to declarations of the whole program.
type Index struct {
	Prog    *load.Program
	byObj   map[*types.Func]*Func
	funcs   []*Func
	pkgOf   map[*types.Package]*load.Package
	methods map[*types.Named][]*Func

	foMu       sync.Mutex
	fieldOwner map[*types.Var]*types.Named
}

// nonNilSentinels: package-level variables declared `var ErrX = errors.New(...)` (or fmt.Errorf) that no function
// assigns or takes the address of: their value is never nil. Keyed by object, so every (mutated) program has its own.
var nonNilSentinels sync.Map

// IsNonNilSentinel reports whether o is a package-level error sentinel that is never nil.
func IsNonNilSentinel(o types.Object) bool {
	if o == nil {
		return false
	}
	_, ok := nonNilSentinels.Load(o)
	return ok
}

func recordSentinels(p *load.Program) {
	cand := map[types.Object]bool{}
	for _, pk := range p.Sorted() {
		for _, f := range pk.Files {
			for _, d := range f.Decls {
				gd, ok := d.(*ast.GenDecl)
				if !ok || gd.Tok != token.VAR {
					continue
				}
				for _, sp := range gd.Specs {
					vs, ok := sp.(*ast.ValueSpec)
					if !ok || len(vs.Values) != len(vs.Names) {
						continue
					}
					for i, nm := range vs.Names {
						call, ok := Unparen(vs.Values[i]).(*ast.CallExpr)
						if !ok {
							continue
						}
						fn := CalleeFunc(pk.Info, call)
						if fn == nil || fn.Pkg() == nil {
							continue
						}
						if (fn.Pkg().Path() == "errors" && fn.Name() == "New") || (fn.Pkg().Path() == "fmt" && fn.Name() == "Errorf") {
							if o := pk.Info.Defs[nm]; o != nil {
								cand[o] = true
							}
						}
					}
				}
			}
		}
	}
	if len(cand) == 0 {
		return
	}
	for _, pk := range p.Sorted() {
		for _, f := range pk.Files {
			ast.Inspect(f, func(n ast.Node) bool {
				drop := func(e ast.Expr) {
					switch x := Unparen(e).(type) {
					case *ast.Ident:
						delete(cand, pk.Info.ObjectOf(x))
					case *ast.SelectorExpr:
						delete(cand, pk.Info.Uses[x.Sel])
					}
				}
				switch x := n.(type) {
				case *ast.AssignStmt:
					for _, l := range x.Lhs {
						drop(l)
					}
				case *ast.UnaryExpr:
					if x.Op == token.AND {
						drop(x.X)
					}
				}
				return true
			})
		}
	}
	for o := range cand {
		nonNilSentinels.Store(o, true)
	}
}

func NewIndex(p *load.Program) *Index {
	recordSentinels(p)
	ix := &Index{Prog: p, byObj: map[*types.Func]*Func{}, pkgOf: map[*types.Package]*load.Package{}, methods: map[*types.Named][]*Func{}, fieldOwner: map[*types.Var]*types.Named{}}
	for _, pk := range p.Sorted() {
		ix.pkgOf[pk.Types] = pk
		for _, f := range pk.Files {
			for _, d := range f.Decls {
				fd, ok := d.(*ast.FuncDecl)
				if !ok || fd.Body == nil {
					continue
				}
				obj, _ := pk.Info.Defs[fd.Name].(*types.Func)
				if obj == nil {
					continue
				}
				fn := &Func{Pkg: pk, Decl: fd, Obj: obj}
				ix.byObj[obj] = fn
				ix.funcs = append(ix.funcs, fn)
				if sig := obj.Type().(*types.Signature); sig.Recv() != nil {
					if n := NamedOf(sig.Recv().Type()); n != nil {
						ix.methods[n.Origin()] = append(ix.methods[n.Origin()], fn)
					}
				}
			}
		}
	}
	return ix
}

// Funcs returns every declared function with a body (non-test), in stable order.
func (ix *Index) Funcs() []*Func { return ix.funcs }

// FuncOf returns the declaration for a function object (following generic origin).
func (ix *Index) FuncOf(obj *types.Func) *Func {
	if obj == nil {
		return nil
	}
	if f, ok := ix.byObj[obj]; ok {
		return f
	}
	if o := obj.Origin(); o != obj {
		return ix.byObj[o]
	}
	return nil
}

// PkgOf returns the loaded package for a types.Package.
func (ix *Index) PkgOf(tp *types.Package) *load.Package { return ix.pkgOf[tp] }

// LookupFunc finds a package-level function.
func (ix *Index) LookupFunc(pkgPath, name string) *Func {
	pk := ix.Prog.Pkg(pkgPath)
	if pk == nil {
		return nil
	}
	obj, _ := pk.Types.Scope().Lookup(name).(*types.Func)
	return ix.FuncOf(obj)
}

// LookupType finds a package-level named type.
func (ix *Index) LookupType(pkgPath, name string) *types.Named {
	pk := ix.Prog.Pkg(pkgPath)
	if pk == nil {
		return nil
	}
	tn, _ := pk.Types.Scope().Lookup(name).(*types.TypeName)
	if tn == nil {
		return nil
	}
	n, _ := tn.Type().(*types.Named)
	return n
}

// LookupVar finds a package-level variable.
func (ix *Index) LookupVar(pkgPath, name string) *types.Var {
	pk := ix.Prog.Pkg(pkgPath)
	if pk == nil {
		return nil
	}
	v, _ := pk.Types.Scope().Lookup(name).(*types.Var)
	return v
}

// LookupMethod finds the declaration of method name declared directly on type T (value or pointer receiver).
func (ix *Index) LookupMethod(pkgPath, typeName, method string) *Func {
	n := ix.LookupType(pkgPath, typeName)
	if n == nil {
		return nil
	}
	return ix.MethodDecl(n, method)
}

// MethodDecl returns the declaration of method `name` declared directly on named type n.
func (ix *Index) MethodDecl(n *types.Named, name string) *Func {
	for _, f := range ix.methods[n.Origin()] {
		if f.Obj.Name() == name {
			return f
		}
	}
	return nil
}

// MethodsOf returns methods declared directly on n.
func (ix *Index) MethodsOf(n *types.Named) []*Func { return ix.methods[n.Origin()] }

// ResolveMethod returns the function that runs when method `name` is called on
// a value of type n or *n, following embedding (promoted methods).
func (ix *Index) ResolveMethod(n *types.Named, name string) (*Func, *types.Func) {
	ms := types.NewMethodSet(types.NewPointer(n))
	for i := 0; i < ms.Len(); i++ {
		sel := ms.At(i)
		if sel.Obj().Name() == name {
			fo := sel.Obj().(*types.Func)
			return ix.FuncOf(fo), fo
		}
	}
	return nil, nil
}

// Field finds a struct field of named type n by name.
func Field(n *types.Named, name string) *types.Var {
	if n == nil {
		return nil
	}
	st, ok := n.Underlying().(*types.Struct)
	if !ok {
		return nil
	}
	for i := 0; i < st.NumFields(); i++ {
		if st.Field(i).Name() == name {
			return st.Field(i)
		}
	}
	return nil
}

// FieldKey renders Type.field for a field var, given its owning struct if known.
func (ix *Index) FieldKey(v *types.Var) string {
	if v == nil {
		return "?"
	}
	owner := ix.FieldOwner(v)
	if owner != nil {
		return TypeKey(owner) + "." + v.Name()
	}
	return v.Name()
}

// FieldOwner finds the named struct type declaring field v (workspace types only).
func (ix *Index) FieldOwner(v *types.Var) *types.Named {
	ix.foMu.Lock()
	if n, ok := ix.fieldOwner[v]; ok {
		ix.foMu.Unlock()
		return n
	}
	ix.foMu.Unlock()
	var found *types.Named
	if v.Pkg() != nil {
		sc := v.Pkg().Scope()
		for _, name := range sc.Names() {
			tn, ok := sc.Lookup(name).(*types.TypeName)
			if !ok {
				continue
			}
			n, ok := tn.Type().(*types.Named)
			if !ok {
				continue
			}
			st, ok := n.Underlying().(*types.Struct)
			if !ok {
				continue
			}
			for i := 0; i < st.NumFields(); i++ {
				if st.Field(i) == v || st.Field(i).Origin() == v.Origin() {
					found = n
				}
			}
		}
	}
	ix.foMu.Lock()
	ix.fieldOwner[v] = found
	ix.foMu.Unlock()
	return found
}

// Callee resolves the static callee of a call: *types.Func, *types.Builtin, or
// *types.Var (call through a function value). nil for conversions.
func Callee(info *types.Info, call *ast.CallExpr) types.Object {
	return typeutil.Callee(info, call)
}

// CalleeFunc returns the *types.Func statically called, or nil.
func CalleeFunc(info *types.Info, call *ast.CallExpr) *types.Func {
	f, _ := typeutil.Callee(info, call).(*types.Func)
	return f
}

// IsBuiltin reports whether call invokes the named builtin.
func IsBuiltin(info *types.Info, call *ast.CallExpr, name string) bool {
	b, ok := typeutil.Callee(info, call).(*types.Builtin)
	return ok && b.Name() == name
}

// IsFuncNamed reports whether fn is pkgPath.name (package-level function).
func IsFuncNamed(fn *types.Func, pkgPath, name string) bool {
	if fn == nil || fn.Pkg() == nil {
		return false
	}
	if fn.Pkg().Path() != pkgPath || fn.Name() != name {
		return false
	}
	return fn.Type().(*types.Signature).Recv() == nil
}

// IsMethodNamed reports whether fn is method `name` on named type pkgPath.typeName (or any type if typeName=="").
func IsMethodNamed(fn *types.Func, pkgPath, typeName, name string) bool {
	if fn == nil || fn.Name() != name {
		return false
	}
	sig := fn.Type().(*types.Signature)
	if sig.Recv() == nil {
		return false
	}
	n := NamedOf(sig.Recv().Type())
	if n == nil || n.Obj().Pkg() == nil {
		return false
	}
	if n.Obj().Pkg().Path() != pkgPath {
		return false
	}
	return typeName == "" || n.Obj().Name() == typeName
}

// RecvNamed returns the receiver's named type of a method, or nil.
func RecvNamed(fn *types.Func) *types.Named {
	if fn == nil {
		return nil
	}
	sig := fn.Type().(*types.Signature)
	if sig.Recv() == nil {
		return nil
	}
	return NamedOf(sig.Recv().Type())
}

// Implementations enumerates every package-level named type T in the workspace
// such that T or *T implements iface. Sorted by TypeKey.
func (ix *Index) Implementations(iface *types.Interface) []*types.Named {
	var out []*types.Named
	for _, pk := range ix.Prog.Sorted() {
		sc := pk.Types.Scope()
		for _, name := range sc.Names() {
			tn, ok := sc.Lookup(name).(*types.TypeName)
			if !ok || tn.IsAlias() {
				continue
			}
			n, ok := tn.Type().(*types.Named)
			if !ok || n.TypeParams().Len() > 0 {
				continue
			}
			if _, isIface := n.Underlying().(*types.Interface); isIface {
				continue
			}
			if types.Implements(n, iface) || types.Implements(types.NewPointer(n), iface) {
				out = append(out, n)
			}
		}
	}
	sort.Slice(out, func(i, j int) bool { return TypeKey(out[i]) < TypeKey(out[j]) })
	return out
}

// InterfaceOf returns the underlying interface of a named interface type.
func InterfaceOf(n *types.Named) *types.Interface {
	if n == nil {
		return nil
	}
	i, _ := n.Underlying().(*types.Interface)
	return i
}

// Inspect walks n but does not descend into function literals (unless n itself is one).
func Inspect(n ast.Node, f func(ast.Node) bool) {
	ast.Inspect(n, func(m ast.Node) bool {
		if m == nil {
			return true
		}
		if _, ok := m.(*ast.FuncLit); ok && m != n {
			return false
		}
		return f(m)
	})
}

// InspectAll walks n including nested function literals.
func InspectAll(n ast.Node, f func(ast.Node) bool) { ast.Inspect(n, f) }

// Unparen strips parentheses.
func Unparen(e ast.Expr) ast.Expr {
	for {
		p, ok := e.(*ast.ParenExpr)
		if !ok {
			return e
		}
		e = p.X
	}
}

// SelectedField returns the field object selected by expr if expr is X.f (possibly parenthesised).
func SelectedField(info *types.Info, e ast.Expr) *types.Var {
	sel, ok := Unparen(e).(*ast.SelectorExpr)
	if !ok {
		return nil
	}
	if s, ok := info.Selections[sel]; ok && s.Kind() == types.FieldVal {
		v, _ := s.Obj().(*types.Var)
		if v != nil {
			return v.Origin() // fields of generic types are copied per instantiation; identify them by their declaration
		}
		return v
	}
	return nil
}

// RootField walks down index/slice/star/selector chains of an lvalue and
// returns the outermost-first list of fields selected along the way.
func FieldsInLvalue(info *types.Info, e ast.Expr) []*types.Var {
	var out []*types.Var
	for {
		switch x := Unparen(e).(type) {
		case *ast.SelectorExpr:
			if v := SelectedField(info, x); v != nil {
				out = append(out, v)
			}
			e = x.X
		case *ast.IndexExpr:
			e = x.X
		case *ast.SliceExpr:
			e = x.X
		case *ast.StarExpr:
			e = x.X
		default:
			return out
		}
	}
}

// ObjOf returns the object an identifier expression denotes.
func ObjOf(info *types.Info, e ast.Expr) types.Object {
	if id, ok := Unparen(e).(*ast.Ident); ok {
		return info.ObjectOf(id)
	}
	return nil
}

// ExprString is types.ExprString.
func ExprString(e ast.Expr) string { return types.ExprString(e) }

// Errorf is fmt.Errorf (kept to avoid importing fmt in tiny rule files).
func Errorf(format string, args ...any) error { return fmt.Errorf(format, args...) }

// ExprStringNode renders an arbitrary node compactly (expressions via types.ExprString, statements by kind).
func ExprStringNode(n ast.Node) string {
	if e, ok := n.(ast.Expr); ok {
		return types.ExprString(e)
	}
	switch x := n.(type) {
	case *ast.AssignStmt:
		s := ""
		for i, l := range x.Lhs {
			if i > 0 {
				s += ", "
			}
			s += types.ExprString(l)
		}
		s += " " + x.Tok.String() + " "
		for i, r := range x.Rhs {
			if i > 0 {
				s += ", "
			}
			s += types.ExprString(r)
		}
		return s
	case *ast.ExprStmt:
		return types.ExprString(x.X)
	case *ast.SendStmt:
		return types.ExprString(x.Chan) + " <- " + types.ExprString(x.Value)
	case *ast.ReturnStmt:
		s := "return"
		for _, r := range x.Results {
			s += " " + types.ExprString(r)
		}
		return s
	case *ast.GoStmt:
		return "go " + types.ExprString(x.Call.Fun) + "(...)"
	case *ast.DeferStmt:
		return "defer " + types.ExprString(x.Call.Fun) + "(...)"
	case *ast.IncDecStmt:
		return types.ExprString(x.X) + x.Tok.String()
	}
	return fmt.Sprintf("%T", n)
}

// SingleDef returns the expression a local variable is defined from when it has exactly one defining assignment
// (`x := e`, `x, y := e1, e2`, `var x = e`) inside body and is never assigned again; nil otherwise (including
// multi-value calls, range variables and parameters).
func SingleDef(info *types.Info, body ast.Node, obj types.Object) ast.Expr {
	if obj == nil || body == nil {
		return nil
	}
	var def ast.Expr
	defs, assigns := 0, 0
	ast.Inspect(body, func(n ast.Node) bool {
		switch x := n.(type) {
		case *ast.AssignStmt:
			for i, l := range x.Lhs {
				id, ok := l.(*ast.Ident)
				if !ok {
					continue
				}
				if info.Defs[id] == obj {
					defs++
					if len(x.Rhs) == len(x.Lhs) {
						def = x.Rhs[i]
					}
				} else if info.Uses[id] == obj {
					assigns++
				}
			}
		case *ast.ValueSpec:
			for i, nm := range x.Names {
				if info.Defs[nm] == obj {
					defs++
					if i < len(x.Values) && len(x.Values) == len(x.Names) {
						def = x.Values[i]
					}
				}
			}
		case *ast.IncDecStmt:
			if id, ok := x.X.(*ast.Ident); ok && info.Uses[id] == obj {
				assigns++
			}
		case *ast.UnaryExpr:
			if x.Op == token.AND {
				if id, ok := Unparen(x.X).(*ast.Ident); ok && info.Uses[id] == obj {
					assigns++ // address taken: may be written through the pointer
				}
			}
		}
		return true
	})
	if defs != 1 || assigns != 0 {
		return nil
	}
	return def
}

// ResolveLocal follows single-definition locals: for an identifier of such a local it returns the defining expression
// (recursively); any other expression is returned unchanged.
func ResolveLocal(info *types.Info, body ast.Node, e ast.Expr) ast.Expr {
	for i := 0; i < 5; i++ {
		id, ok := Unparen(e).(*ast.Ident)
		if !ok {
			return e
		}
		d := SingleDef(info, body, info.ObjectOf(id))
		if d == nil {
			return e
		}
		e = d
	}
	return e
}
