package an

import (
	"go/ast"
	"go/token"
	"go/types"
	"sort"
)

// Effects computes flow-insensitive field effect sets of functions:
// which struct fields a function (with the closures lexically inside it, the
// workspace functions it statically calls and the method values it mentions)
// may write, and which interface-dispatched calls it makes.
type Effects struct {
	Ix       *Index
	MaxDepth int
	cache    map[*types.Func]*EffectSet
	stack    map[*types.Func]bool
}

// EffectSet is the result for one function.
type EffectSet struct {
	Writes   map[*types.Var]token.Pos // field -> one position where it is written
	Closes   map[*types.Var]token.Pos // field holding a channel that is closed
	Dynamic  []DynCall                // interface / function-value calls (not followed)
	Funcs    int                      // number of function bodies summarised
	Cut      bool                     // depth bound or recursion hit
	ChanSend map[*types.Var]token.Pos // send on channel held in field
	ChanRecv map[*types.Var]token.Pos // receive from channel held in field
	Ext      map[string]token.Pos     // statically resolved callees without a body in the workspace ("pkg.Func" / "pkg.Type.Method")
}

// DynCall is a call whose callee is not statically known.
type DynCall struct {
	Call   *ast.CallExpr
	Method *types.Func // interface method, if an interface call
	RecvF  *types.Var  // field the receiver expression selects, if any
	Pkg    *types.Package
	Info   *types.Info
}

func NewEffects(ix *Index) *Effects {
	return &Effects{Ix: ix, MaxDepth: 5, cache: map[*types.Func]*EffectSet{}, stack: map[*types.Func]bool{}}
}

func newEffectSet() *EffectSet {
	return &EffectSet{Writes: map[*types.Var]token.Pos{}, Closes: map[*types.Var]token.Pos{},
		ChanSend: map[*types.Var]token.Pos{}, ChanRecv: map[*types.Var]token.Pos{}, Ext: map[string]token.Pos{}}
}

func (s *EffectSet) merge(o *EffectSet) {
	for k, v := range o.Writes {
		if _, ok := s.Writes[k]; !ok {
			s.Writes[k] = v
		}
	}
	for k, v := range o.Closes {
		if _, ok := s.Closes[k]; !ok {
			s.Closes[k] = v
		}
	}
	for k, v := range o.ChanSend {
		if _, ok := s.ChanSend[k]; !ok {
			s.ChanSend[k] = v
		}
	}
	for k, v := range o.ChanRecv {
		if _, ok := s.ChanRecv[k]; !ok {
			s.ChanRecv[k] = v
		}
	}
	for k, v := range o.Ext {
		if _, ok := s.Ext[k]; !ok {
			s.Ext[k] = v
		}
	}
	s.Dynamic = append(s.Dynamic, o.Dynamic...)
	s.Funcs += o.Funcs
	s.Cut = s.Cut || o.Cut
}

// mutators: methods that modify their receiver in place.
func isMutatorMethod(fn *types.Func) bool {
	n := RecvNamed(fn)
	if n == nil || n.Obj().Pkg() == nil {
		return false
	}
	switch n.Obj().Pkg().Path() + "." + n.Obj().Name() + "." + fn.Name() {
	case PkgHashmap + ".HashMap.Set", PkgHashmap + ".HashMap.Clear":
		return true
	}
	return false
}

// Of returns the transitive effect set of fn.
func (e *Effects) Of(fn *Func) *EffectSet {
	return e.of(fn, 0)
}

func (e *Effects) of(fn *Func, depth int) *EffectSet {
	if fn == nil {
		return newEffectSet()
	}
	if fn.Obj != nil {
		if s, ok := e.cache[fn.Obj]; ok {
			return s
		}
		if e.stack[fn.Obj] {
			s := newEffectSet()
			s.Cut = true
			return s
		}
		e.stack[fn.Obj] = true
		defer delete(e.stack, fn.Obj)
	}
	s := e.Body(fn.Pkg.Info, fn.Body(), depth)
	if fn.Obj != nil && !s.Cut {
		e.cache[fn.Obj] = s
	}
	return s
}

// Body computes the effect set of an arbitrary body (including nested literals).
func (e *Effects) Body(info *types.Info, body ast.Node, depth int) *EffectSet {
	s := newEffectSet()
	s.Funcs = 1
	if body == nil {
		return s
	}
	noteWrite := func(lhs ast.Expr) {
		fs := FieldsInLvalue(info, lhs)
		if len(fs) > 0 {
			if _, ok := s.Writes[fs[0]]; !ok {
				s.Writes[fs[0]] = lhs.Pos()
			}
		}
	}
	callFun := map[ast.Expr]bool{}
	ast.Inspect(body, func(n ast.Node) bool {
		switch x := n.(type) {
		case *ast.AssignStmt:
			for _, l := range x.Lhs {
				noteWrite(l)
			}
		case *ast.IncDecStmt:
			noteWrite(x.X)
		case *ast.RangeStmt:
			if x.Tok == token.ASSIGN {
				if x.Key != nil {
					noteWrite(x.Key)
				}
				if x.Value != nil {
					noteWrite(x.Value)
				}
			}
		case *ast.SendStmt:
			if f := SelectedField(info, x.Chan); f != nil {
				if _, ok := s.ChanSend[f]; !ok {
					s.ChanSend[f] = x.Pos()
				}
			}
		case *ast.UnaryExpr:
			if x.Op == token.ARROW {
				if f := SelectedField(info, x.X); f != nil {
					if _, ok := s.ChanRecv[f]; !ok {
						s.ChanRecv[f] = x.Pos()
					}
				}
			}
		case *ast.CallExpr:
			callFun[Unparen(x.Fun)] = true
			switch callee := Callee(info, x).(type) {
			case *types.Builtin:
				switch callee.Name() {
				case "delete", "copy", "clear":
					if len(x.Args) > 0 {
						noteWrite(x.Args[0])
					}
				case "close":
					if len(x.Args) == 1 {
						if f := SelectedField(info, x.Args[0]); f != nil {
							if _, ok := s.Closes[f]; !ok {
								s.Closes[f] = x.Pos()
							}
						}
					}
				}
			case *types.Func:
				sig := callee.Type().(*types.Signature)
				if sig.Recv() != nil {
					if _, isIface := sig.Recv().Type().Underlying().(*types.Interface); isIface {
						d := DynCall{Call: x, Method: callee, Info: info}
						if sel, ok := Unparen(x.Fun).(*ast.SelectorExpr); ok {
							d.RecvF = SelectedField(info, sel.X)
						}
						s.Dynamic = append(s.Dynamic, d)
						return true
					}
				}
				if isMutatorMethod(callee) {
					if sel, ok := Unparen(x.Fun).(*ast.SelectorExpr); ok {
						noteWrite(sel.X)
					}
				}
				if target := e.Ix.FuncOf(callee); target != nil {
					if depth >= e.MaxDepth {
						s.Cut = true
					} else {
						s.merge(e.of(target, depth+1))
					}
				} else if callee.Pkg() != nil {
					name := callee.Pkg().Path() + "." + callee.Name()
					if rn := RecvNamed(callee); rn != nil {
						name = callee.Pkg().Path() + "." + rn.Obj().Name() + "." + callee.Name()
					}
					if _, ok := s.Ext[name]; !ok {
						s.Ext[name] = x.Pos()
					}
				}
			case *types.Var:
				s.Dynamic = append(s.Dynamic, DynCall{Call: x, Info: info})
			}
		case *ast.SelectorExpr:
			// method value mentioned outside call position: treat as possibly called
			if !callFun[x] {
				if sel, ok := info.Selections[x]; ok && sel.Kind() == types.MethodVal {
					if fo, ok := sel.Obj().(*types.Func); ok {
						if target := e.Ix.FuncOf(fo); target != nil && depth < e.MaxDepth {
							s.merge(e.of(target, depth+1))
						}
					}
				}
			}
		case *ast.Ident:
			if !callFun[x] {
				if fo, ok := info.Uses[x].(*types.Func); ok && fo.Type().(*types.Signature).Recv() == nil {
					if target := e.Ix.FuncOf(fo); target != nil && depth < e.MaxDepth {
						s.merge(e.of(target, depth+1))
					}
				}
			}
		}
		return true
	})
	return s
}

// SortedFields returns the keys of a field map sorted by the index's FieldKey.
func (e *Effects) SortedFields(m map[*types.Var]token.Pos) []*types.Var {
	var out []*types.Var
	for k := range m {
		out = append(out, k)
	}
	sort.Slice(out, func(i, j int) bool { return e.Ix.FieldKey(out[i]) < e.Ix.FieldKey(out[j]) })
	return out
}
