package an

import (
	"go/ast"
	"go/token"
	"go/types"

	"golang.org/x/tools/go/cfg"
)

// Graph is a go/cfg control-flow graph of one function body with atom-level
// (call / receive / statement) granularity, dominance and path queries.
//
// Atoms: every cfg node N is flattened into the calls and channel receives it
// contains (evaluation order: operands before the operation; function literal
// bodies are not entered; for `defer f(x)` and `go f(x)` only the argument
// evaluation is included, not the call itself), followed by N itself.
type Graph struct {
	Info   *types.Info
	Body   *ast.BlockStmt
	CFG    *cfg.CFG
	Atoms  [][]ast.Node // per block
	loc    map[ast.Node]Point
	idom   []int // immediate dominator per block (-1 for entry / unreachable)
	parent map[ast.Node]ast.Node
	flags  map[types.Object]bool // lazily: boolean locals SearchFlags tracks
}

// Point addresses one atom.
type Point struct{ Block, Idx int }

func noReturnCall(info *types.Info, call *ast.CallExpr) bool {
	switch o := Callee(info, call).(type) {
	case *types.Builtin:
		return o.Name() == "panic"
	case *types.Func:
		if o.Pkg() == nil {
			return false
		}
		switch o.Pkg().Path() + "." + o.Name() {
		case "log.Fatal", "log.Fatalf", "log.Fatalln", "os.Exit", "log.Panic", "log.Panicf", "log.Panicln":
			return true
		}
	}
	return false
}

// NewGraph builds the graph of body.
func NewGraph(body *ast.BlockStmt, info *types.Info) *Graph {
	g := &Graph{Info: info, Body: body, loc: map[ast.Node]Point{}, parent: map[ast.Node]ast.Node{}}
	g.CFG = cfg.New(body, func(call *ast.CallExpr) bool { return !noReturnCall(info, call) })
	// parent map (not crossing into function literals)
	var stack []ast.Node
	ast.Inspect(body, func(n ast.Node) bool {
		if n == nil {
			stack = stack[:len(stack)-1]
			return true
		}
		if len(stack) > 0 {
			g.parent[n] = stack[len(stack)-1]
		}
		stack = append(stack, n)
		return true
	})
	// relocate select comm statements into their clause body blocks
	commOf := map[ast.Node]*ast.CommClause{}
	ast.Inspect(body, func(n ast.Node) bool {
		if cc, ok := n.(*ast.CommClause); ok && cc.Comm != nil {
			commOf[cc.Comm] = cc
		}
		return true
	})
	if len(commOf) > 0 {
		bodyBlock := map[*ast.CommClause]*cfg.Block{}
		for _, b := range g.CFG.Blocks {
			if b.Kind == cfg.KindSelectCaseBody {
				if cc, ok := b.Stmt.(*ast.CommClause); ok {
					bodyBlock[cc] = b
				}
			}
		}
		for _, b := range g.CFG.Blocks {
			var kept []ast.Node
			for _, n := range b.Nodes {
				if cc, ok := commOf[n]; ok && bodyBlock[cc] != nil && bodyBlock[cc] != b {
					continue // dropped here, re-inserted below
				}
				kept = append(kept, n)
			}
			b.Nodes = kept
		}
		for comm, cc := range commOf {
			bb := bodyBlock[cc]
			if bb == nil {
				continue
			}
			nodes := []ast.Node{comm}
			for _, n := range bb.Nodes {
				// the builder adds comm.Lhs[0] for `x := <-ch`; drop it, the whole comm is there now
				if as, ok := comm.(*ast.AssignStmt); ok && len(as.Lhs) > 0 && n == as.Lhs[0] {
					continue
				}
				nodes = append(nodes, n)
			}
			bb.Nodes = nodes
		}
	}
	g.Atoms = make([][]ast.Node, len(g.CFG.Blocks))
	for _, b := range g.CFG.Blocks {
		for _, n := range b.Nodes {
			for _, a := range atomsOf(n) {
				g.loc[a] = Point{int(b.Index), len(g.Atoms[b.Index])}
				g.Atoms[b.Index] = append(g.Atoms[b.Index], a)
			}
			// map every sub-node to the point of its nearest atom for PointOf
		}
	}
	g.computeDominators()
	return g
}

func atomsOf(n ast.Node) []ast.Node {
	var out []ast.Node
	var visit func(m ast.Node)
	visit = func(m ast.Node) {
		if m == nil {
			return
		}
		switch x := m.(type) {
		case *ast.FuncLit:
			return
		case *ast.DeferStmt:
			visitCallOperands(x.Call, visit)
			return
		case *ast.GoStmt:
			visitCallOperands(x.Call, visit)
			return
		case *ast.CallExpr:
			visit(x.Fun)
			for _, a := range x.Args {
				visit(a)
			}
			out = append(out, x)
			return
		case *ast.UnaryExpr:
			visit(x.X)
			if x.Op == token.ARROW {
				out = append(out, x)
			}
			return
		}
		// generic children, in source order
		children(m, visit)
	}
	visit(n)
	if len(out) == 0 || out[len(out)-1] != n {
		out = append(out, n)
	}
	return out
}

func visitCallOperands(call *ast.CallExpr, visit func(ast.Node)) {
	if _, isLit := Unparen(call.Fun).(*ast.FuncLit); !isLit {
		// method value receiver expression may contain calls
		if sel, ok := Unparen(call.Fun).(*ast.SelectorExpr); ok {
			visit(sel.X)
		}
	}
	for _, a := range call.Args {
		visit(a)
	}
}

// children calls f on the direct children of n in source order.
func children(n ast.Node, f func(ast.Node)) {
	first := true
	ast.Inspect(n, func(m ast.Node) bool {
		if first {
			first = false
			return true
		}
		if m != nil {
			f(m)
		}
		return false
	})
}

// PointOf returns the point of the atom containing node n (n may be any node
// inside the function body, outside nested literals).
func (g *Graph) PointOf(n ast.Node) (Point, bool) {
	for m := n; m != nil; m = g.parent[m] {
		if p, ok := g.loc[m]; ok {
			return p, true
		}
	}
	return Point{}, false
}

func (g *Graph) computeDominators() {
	n := len(g.CFG.Blocks)
	g.idom = make([]int, n)
	for i := range g.idom {
		g.idom[i] = -1
	}
	if n == 0 {
		return
	}
	// reverse postorder
	var order []int
	seen := make([]bool, n)
	var dfs func(b *cfg.Block)
	dfs = func(b *cfg.Block) {
		seen[b.Index] = true
		for _, s := range b.Succs {
			if !seen[s.Index] {
				dfs(s)
			}
		}
		order = append(order, int(b.Index))
	}
	dfs(g.CFG.Blocks[0])
	rpo := make([]int, n)
	for i := range rpo {
		rpo[i] = -1
	}
	for i, j := 0, len(order)-1; i < j; i, j = i+1, j-1 {
		order[i], order[j] = order[j], order[i]
	}
	for i, b := range order {
		rpo[b] = i
	}
	preds := make([][]int, n)
	for _, b := range g.CFG.Blocks {
		if !seen[b.Index] {
			continue
		}
		for _, s := range b.Succs {
			preds[s.Index] = append(preds[s.Index], int(b.Index))
		}
	}
	g.idom[0] = 0
	intersect := func(a, b int) int {
		for a != b {
			for rpo[a] > rpo[b] {
				a = g.idom[a]
			}
			for rpo[b] > rpo[a] {
				b = g.idom[b]
			}
		}
		return a
	}
	for changed := true; changed; {
		changed = false
		for _, b := range order[1:] {
			newIdom := -1
			for _, p := range preds[b] {
				if g.idom[p] == -1 {
					continue
				}
				if newIdom == -1 {
					newIdom = p
				} else {
					newIdom = intersect(p, newIdom)
				}
			}
			if newIdom != -1 && g.idom[b] != newIdom {
				g.idom[b] = newIdom
				changed = true
			}
		}
	}
}

// BlockDominates reports whether block a dominates block b.
func (g *Graph) BlockDominates(a, b int) bool {
	if g.idom[b] == -1 {
		return false
	}
	for {
		if a == b {
			return true
		}
		if b == 0 {
			return false
		}
		b = g.idom[b]
	}
}

// Dominates reports whether every path from entry to b passes a first.
func (g *Graph) Dominates(a, b ast.Node) bool {
	pa, ok1 := g.PointOf(a)
	pb, ok2 := g.PointOf(b)
	if !ok1 || !ok2 {
		return false
	}
	if pa.Block == pb.Block {
		return pa.Idx < pb.Idx
	}
	return g.BlockDominates(pa.Block, pb.Block)
}

// Cond returns the branch condition that ends block b (nil if b does not end in
// a two-way branch on an expression). For switch case tests the returned
// expression is the case expression and tag is the switch tag (else tag==nil).
func (g *Graph) Cond(b *cfg.Block) (cond ast.Expr, tag ast.Expr) {
	if len(b.Succs) != 2 || len(b.Nodes) == 0 {
		return nil, nil
	}
	last, ok := b.Nodes[len(b.Nodes)-1].(ast.Expr)
	if !ok {
		return nil, nil
	}
	if cc, ok := g.parent[last].(*ast.CaseClause); ok {
		if body, ok := g.parent[cc].(*ast.BlockStmt); ok {
			if sw, ok := g.parent[body].(*ast.SwitchStmt); ok {
				for _, e := range cc.List {
					if e == last {
						return last, sw.Tag
					}
				}
			}
		}
	}
	return last, nil
}

// EdgeFilter may cut edges: return false to forbid following from -> from.Succs[i].
type EdgeFilter func(from *cfg.Block, i int) bool

// ExitKind classifies how a block without successors ends.
type ExitKind int

const (
	NotExit ExitKind = iota
	ExitReturn
	ExitFallOff
	ExitPanic
)

// Exit classifies block b.
func (g *Graph) Exit(b *cfg.Block) ExitKind {
	if len(b.Succs) != 0 || !b.Live {
		return NotExit
	}
	if b.Kind == cfg.KindSelectAfterCase {
		// the "no case ready" continuation of a select without a default arm: such a select blocks
		// until one arm is taken, so this block is never executed
		return NotExit
	}
	if len(b.Nodes) > 0 {
		switch last := b.Nodes[len(b.Nodes)-1].(type) {
		case *ast.ReturnStmt:
			return ExitReturn
		case *ast.ExprStmt:
			if call, ok := last.X.(*ast.CallExpr); ok && noReturnCall(g.Info, call) {
				return ExitPanic
			}
		}
	}
	return ExitFallOff
}

// Query describes a path search over atoms.
type Query struct {
	// From: start after this atom (nil = function entry).
	From ast.Node
	// Target: stop successfully when an atom satisfies it (nil = never).
	Target func(n ast.Node) bool
	// ToExit: also succeed on reaching a normal exit (return / fall off the end).
	ToExit bool
	// ToPanic: also succeed on reaching a panic exit.
	ToPanic bool
	// Avoid: atoms that block the path.
	Avoid func(n ast.Node) bool
	// Edges: optional edge filter.
	Edges EdgeFilter
	// Feasible: report only paths consistent with the values boolean and nil-able locals are known to have (SearchFlags).
	Feasible bool
}

// Path is a witness: the atoms at which the search entered each block, ending at the target.
type Path struct {
	Found  bool
	Target ast.Node // nil if an exit was reached
	Exit   ExitKind
	Blocks []int
}

// Search runs the query: is there a path from Q.From to a target/exit that
// never crosses an Avoid atom?
func (g *Graph) Search(q Query) Path {
	if q.Feasible {
		q.Feasible = false
		p := g.Search(q)
		if p.Found && !g.SearchFlags(q) {
			return Path{}
		}
		return p
	}
	type state struct{ block, idx int }
	start := state{0, 0}
	if q.From != nil {
		p, ok := g.PointOf(q.From)
		if !ok {
			return Path{}
		}
		start = state{p.Block, p.Idx + 1}
	}
	prev := map[int]int{}
	visitedFromStart := map[int]bool{}
	type item struct {
		st   state
		from int
	}
	queue := []item{{start, -1}}
	first := true
	for len(queue) > 0 {
		it := queue[0]
		queue = queue[1:]
		b := g.CFG.Blocks[it.st.block]
		if !first {
			if visitedFromStart[it.st.block] {
				continue
			}
			visitedFromStart[it.st.block] = true
			prev[it.st.block] = it.from
		}
		first = false
		blocked := false
		atoms := g.Atoms[it.st.block]
		for i := it.st.idx; i < len(atoms); i++ {
			a := atoms[i]
			if q.Target != nil && q.Target(a) {
				return Path{Found: true, Target: a, Blocks: g.trace(prev, start.block, it.st.block)}
			}
			if q.Avoid != nil && q.Avoid(a) {
				blocked = true
				break
			}
		}
		if blocked {
			continue
		}
		switch g.Exit(b) {
		case ExitReturn, ExitFallOff:
			if q.ToExit {
				return Path{Found: true, Exit: g.Exit(b), Blocks: g.trace(prev, start.block, it.st.block)}
			}
		case ExitPanic:
			if q.ToPanic {
				return Path{Found: true, Exit: ExitPanic, Blocks: g.trace(prev, start.block, it.st.block)}
			}
		}
		for i, s := range b.Succs {
			if q.Edges != nil && !q.Edges(b, i) {
				continue
			}
			queue = append(queue, item{state{int(s.Index), 0}, it.st.block})
		}
	}
	return Path{}
}

func (g *Graph) trace(prev map[int]int, start, end int) []int {
	var rev []int
	cur := end
	for steps := 0; steps < len(g.CFG.Blocks)+2; steps++ {
		rev = append(rev, cur)
		p, ok := prev[cur]
		if !ok || p == -1 {
			break
		}
		cur = p
	}
	if len(rev) == 0 || rev[len(rev)-1] != start {
		rev = append(rev, start)
	}
	for i, j := 0, len(rev)-1; i < j; i, j = i+1, j-1 {
		rev[i], rev[j] = rev[j], rev[i]
	}
	return rev
}

// AllAtoms calls f on every atom of live blocks.
func (g *Graph) AllAtoms(f func(n ast.Node)) {
	for _, b := range g.CFG.Blocks {
		if !b.Live {
			continue
		}
		for _, a := range g.Atoms[b.Index] {
			f(a)
		}
	}
}

// FindAtoms returns all atoms satisfying pred (live blocks only), in block order.
func (g *Graph) FindAtoms(pred func(n ast.Node) bool) []ast.Node {
	var out []ast.Node
	g.AllAtoms(func(n ast.Node) {
		if pred(n) {
			out = append(out, n)
		}
	})
	return out
}

// Parent returns the syntactic parent of n within the function body.
func (g *Graph) Parent(n ast.Node) ast.Node { return g.parent[n] }

// Enclosing returns the nearest ancestor of n satisfying pred.
func (g *Graph) Enclosing(n ast.Node, pred func(ast.Node) bool) ast.Node {
	for m := g.parent[n]; m != nil; m = g.parent[m] {
		if pred(m) {
			return m
		}
	}
	return nil
}

// MustPass reports whether every path (not crossing Avoid... none here) from
// `from` (nil=entry) to any normal exit crosses an atom satisfying pass.
// Returns (true, nil-path) if so, else a witness path that bypasses it.
func (g *Graph) MustPass(from ast.Node, pass func(ast.Node) bool, edges EdgeFilter) (bool, Path) {
	p := g.Search(Query{From: from, ToExit: true, Avoid: pass, Edges: edges})
	return !p.Found, p
}

// IsCondAtom reports whether atom a is the branch condition ending its block.
func (g *Graph) IsCondAtom(a ast.Node) bool {
	p, ok := g.loc[a]
	if !ok {
		return false
	}
	b := g.CFG.Blocks[p.Block]
	if len(b.Succs) != 2 || len(b.Nodes) == 0 {
		return false
	}
	return b.Nodes[len(b.Nodes)-1] == a
}

// GuardedBy reports whether node n executes only when branch condition cond
// (a block-ending condition atom) evaluated to wantTrue: cond dominates n and n
// is unreachable from cond through the other branch without re-evaluating cond.
func (g *Graph) GuardedBy(n, cond ast.Node, wantTrue bool) bool {
	if !g.IsCondAtom(cond) || !g.Dominates(cond, n) {
		return false
	}
	pc := g.loc[cond]
	other := 0
	if wantTrue {
		other = 1
	}
	pn, ok := g.PointOf(n)
	if !ok {
		return false
	}
	target := g.Atoms[pn.Block][pn.Idx]
	// when cond is a nil test of a variable, later nil tests of plain copies of that variable have a known outcome on the
	// branch being explored (`if err != nil { ret = err; goto out }; ...; out: err2 = ret; if err2 != nil {...}`)
	corr := g.nilCorrelation(cond, !wantTrue)
	q := Query{
		From:   cond,
		Target: func(a ast.Node) bool { return a == target },
		Avoid:  func(a ast.Node) bool { return a == cond },
		Edges: func(from *cfg.Block, i int) bool {
			if int(from.Index) == pc.Block {
				return i == other
			}
			if corr != nil {
				if want, known := corr(from); known {
					return (i == 0) == want
				}
			}
			return true
		},
	}
	if !g.Search(q).Found {
		return true
	}
	// the path found may branch against the known value of a boolean flag
	return !g.SearchFlags(q)
}

// nilTestOf: e is `x == nil` / `x != nil` (possibly negated) on an identifier; nonNilWhenTrue tells which outcome means x != nil.
func (g *Graph) nilTestOf(e ast.Expr) (obj types.Object, nonNilWhenTrue, ok bool) {
	neg := false
	for {
		e = Unparen(e)
		u, isU := e.(*ast.UnaryExpr)
		if !isU || u.Op != token.NOT {
			break
		}
		neg = !neg
		e = u.X
	}
	be, isB := e.(*ast.BinaryExpr)
	if !isB || (be.Op != token.EQL && be.Op != token.NEQ) {
		return nil, false, false
	}
	x, y := Unparen(be.X), Unparen(be.Y)
	isNil := func(z ast.Expr) bool {
		id, ok := z.(*ast.Ident)
		if !ok {
			return false
		}
		_, isNilObj := g.Info.Uses[id].(*types.Nil)
		return isNilObj
	}
	var id *ast.Ident
	switch {
	case isNil(y):
		id, _ = x.(*ast.Ident)
	case isNil(x):
		id, _ = y.(*ast.Ident)
	}
	if id == nil {
		return nil, false, false
	}
	o := g.Info.ObjectOf(id)
	if o == nil {
		return nil, false, false
	}
	return o, (be.Op == token.NEQ) != neg, true
}

// nilCorrelation returns, for the branch of cond on which its variable is non-nil (isNonNil) or nil, a function that
// tells the outcome of later nil tests of copies of that variable. Copies are found flow-insensitively in the body
// (`w = v`, `w := v`); a variable that is also assigned anything else is not a plain copy.
func (g *Graph) nilCorrelation(cond ast.Node, branchTaken bool) func(b *cfg.Block) (bool, bool) {
	ce, ok := cond.(ast.Expr)
	if !ok || g.Body == nil {
		return nil
	}
	v, nonNilWhenTrue, ok := g.nilTestOf(ce)
	if !ok {
		return nil
	}
	isNonNil := branchTaken == nonNilWhenTrue
	// copies of v: variables all of whose assignments are from members of the set or the nil / non-nil constant consistent with it
	copies := map[types.Object]bool{v: true}
	for changed := true; changed; {
		changed = false
		ast.Inspect(g.Body, func(m ast.Node) bool {
			as, ok := m.(*ast.AssignStmt)
			if !ok || len(as.Lhs) != len(as.Rhs) {
				return true
			}
			for i := range as.Lhs {
				l, lok := Unparen(as.Lhs[i]).(*ast.Ident)
				r, rok := Unparen(as.Rhs[i]).(*ast.Ident)
				if lok && rok {
					lo, ro := g.Info.ObjectOf(l), g.Info.ObjectOf(r)
					if lo != nil && ro != nil && copies[ro] && !copies[lo] {
						copies[lo] = true
						changed = true
					}
				}
			}
			return true
		})
	}
	if len(copies) == 1 {
		return nil
	}
	// a copy that is also assigned something that is not a member (a fresh call result, ...) is only a copy on the paths
	// where that assignment did not happen; be conservative: such variables are excluded, except v itself
	impure := map[types.Object]bool{}
	impureAt := map[types.Object][]ast.Node{}
	ast.Inspect(g.Body, func(m ast.Node) bool {
		as, ok := m.(*ast.AssignStmt)
		if !ok {
			return true
		}
		defer func() {
			for _, lx := range as.Lhs {
				if l, lok := Unparen(lx).(*ast.Ident); lok {
					if lo := g.Info.ObjectOf(l); lo != nil && impure[lo] {
						impureAt[lo] = append(impureAt[lo], as)
					}
				}
			}
		}()
		for i, lx := range as.Lhs {
			l, lok := Unparen(lx).(*ast.Ident)
			if !lok {
				continue
			}
			lo := g.Info.ObjectOf(l)
			if lo == nil || !copies[lo] || lo == v {
				continue
			}
			if len(as.Lhs) != len(as.Rhs) {
				impure[lo] = true
				continue
			}
			r, rok := Unparen(as.Rhs[i]).(*ast.Ident)
			if !rok {
				impure[lo] = true
				continue
			}
			ro := g.Info.ObjectOf(r)
			if _, isNilObj := ro.(*types.Nil); isNilObj && !isNonNil {
				continue // assigning nil on the nil branch is consistent
			}
			if ro == nil || !copies[ro] {
				impure[lo] = true
			}
		}
		return true
	})
	return func(b *cfg.Block) (bool, bool) {
		cd, _ := g.Cond(b)
		if cd == nil || cd == ce {
			return false, false
		}
		w, nn, ok := g.nilTestOf(cd)
		if !ok || !copies[w] || w == v {
			return false, false
		}
		if impure[w] {
			// w also receives other values: it is a copy at this test only if none of those assignments can happen between
			// cond (on the branch taken) and the test
			pc := g.loc[cond]
			first := 1
			if branchTaken {
				first = 0
			}
			for _, ia := range impureAt[w] {
				at := g.AtomOf(ia)
				if at == nil {
					return false, false
				}
				q := g.Search(Query{From: cond, Target: func(y ast.Node) bool { return y == at }, Avoid: func(y ast.Node) bool { return y == ast.Node(cd) },
					Edges: func(from *cfg.Block, i int) bool {
						if int(from.Index) == pc.Block {
							return i == first
						}
						return true
					}})
				if q.Found {
					return false, false
				}
			}
		}
		// outcome of the test given that w is non-nil / nil
		return isNonNil == nn, true
	}
}

// CondAtoms returns all block-ending condition atoms satisfying pred.
func (g *Graph) CondAtoms(pred func(e ast.Expr) bool) []ast.Node {
	var out []ast.Node
	for _, b := range g.CFG.Blocks {
		if !b.Live || len(b.Succs) != 2 || len(b.Nodes) == 0 {
			continue
		}
		if e, ok := b.Nodes[len(b.Nodes)-1].(ast.Expr); ok && pred(e) {
			out = append(out, e)
		}
	}
	return out
}

// AtomOf returns the atom that contains node n.
func (g *Graph) AtomOf(n ast.Node) ast.Node {
	p, ok := g.PointOf(n)
	if !ok {
		return nil
	}
	return g.Atoms[p.Block][p.Idx]
}

// Idom returns the immediate dominator block index of block b (-1 if none).
func (g *Graph) Idom(b int) int {
	if b <= 0 || b >= len(g.idom) {
		return -1
	}
	return g.idom[b]
}

// BlockOfStmt returns the block created for statement s with the given kind (nil if none).
func (g *Graph) BlockOfStmt(s ast.Stmt, kind cfg.BlockKind) *cfg.Block {
	for _, b := range g.CFG.Blocks {
		if b.Stmt == s && b.Kind == kind {
			return b
		}
	}
	return nil
}

// PassesWithin reports whether every path that enters the region [lo,hi) of the source at block
// start and leaves it (reaches a block whose originating statement lies outside the region, or an
// exit) crosses an atom satisfying pass. Blocks without atoms are attributed by Block.Stmt.
func (g *Graph) PassesWithin(start *cfg.Block, lo, hi token.Pos, pass func(ast.Node) bool) bool {
	return g.passesWithin(start, lo, hi, pass, false)
}

// PassesWithinUnlessExit is PassesWithin, except that paths which end the function inside the region (return, panic)
// are exempt: only paths that continue past the region must have crossed a passing atom.
func (g *Graph) PassesWithinUnlessExit(start *cfg.Block, lo, hi token.Pos, pass func(ast.Node) bool) bool {
	return g.passesWithin(start, lo, hi, pass, true)
}

func (g *Graph) passesWithin(start *cfg.Block, lo, hi token.Pos, pass func(ast.Node) bool, exitOK bool) bool {
	seen := map[int32]bool{}
	var walk func(b *cfg.Block) bool
	walk = func(b *cfg.Block) bool {
		if seen[b.Index] {
			// coming back to the start block is the next iteration of a condition-less loop: the region was left without passing
			return b != start
		}
		seen[b.Index] = true
		inside := b == start
		if !inside {
			if len(g.Atoms[b.Index]) > 0 {
				p := g.Atoms[b.Index][0].Pos()
				inside = p >= lo && p < hi
			} else if b.Stmt != nil {
				inside = b.Stmt.Pos() >= lo && b.Stmt.Pos() < hi
			}
		}
		if !inside {
			return false // left the region without passing
		}
		for _, a := range g.Atoms[b.Index] {
			if pass(a) {
				return true
			}
		}
		if len(b.Succs) == 0 {
			return exitOK
		}
		for _, s := range b.Succs {
			if !walk(s) {
				return false
			}
		}
		return true
	}
	return walk(start)
}

// Branch returns an edge filter that, at the block ending in condition atom cond, follows only the
// successor taken when the condition evaluates to val.
func (g *Graph) Branch(cond ast.Node, val bool) EdgeFilter {
	pc, ok := g.loc[cond]
	want := 1
	if val {
		want = 0
	}
	return func(from *cfg.Block, i int) bool {
		if ok && int(from.Index) == pc.Block {
			return i == want
		}
		return true
	}
}

// Implies reports whether "cond evaluates to outcome" implies that some leaf of cond (reached through
// parentheses, negations, conjunctions taken true and disjunctions taken false) satisfies leaf(e, val),
// where val is the truth value that leaf expression must then have.
func Implies(cond ast.Expr, outcome bool, leaf func(e ast.Expr, val bool) bool) bool {
	switch x := cond.(type) {
	case *ast.ParenExpr:
		return Implies(x.X, outcome, leaf)
	case *ast.UnaryExpr:
		if x.Op == token.NOT {
			return Implies(x.X, !outcome, leaf)
		}
	case *ast.BinaryExpr:
		if (x.Op == token.LAND && outcome) || (x.Op == token.LOR && !outcome) {
			return Implies(x.X, outcome, leaf) || Implies(x.Y, outcome, leaf)
		}
	}
	return leaf(cond, outcome)
}
