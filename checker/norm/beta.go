package norm

import (
	"go/ast"
	"go/token"
	"go/types"
	"sort"

	"pgoverif/checker/load"
)

// betaReduce rewrites, in the given files, calls of local single-expression closures into the expression itself:
//
//	op := func(r T) U { return r.Commit(iface) }   ...   op(x)      ==>      (x.Commit(iface))
//
// This is what a helper that takes the varying operation as a function argument looks like once the helper has been
// inlined. Conditions (all syntactic, checked per closure): the variable is defined once by `:=` with a function literal
// whose body is one `return E` (or one expression statement), is never assigned again, never has its address taken and
// is otherwise used only in call position (or in the inliner's `_ = x`); E contains no function literal; every call
// passes simple arguments (identifiers, selectors, literals); every free name of E denotes the same object at the call.
func betaReduce(prog *load.Program, files map[string]bool, files2 map[string][]byte) (*load.Program, int) {
	out := map[string][]byte{}
	total := 0
	for _, pk := range prog.Sorted() {
		for i, f := range pk.Files {
			fname := pk.FileNames[i]
			if !files[fname] {
				continue
			}
			tf := prog.Fset.File(f.Pos())
			src, err := prog.ReadFile(fname)
			if tf == nil || err != nil {
				continue
			}
			edits := betaFile(pk, f, tf, src)
			if len(edits) == 0 {
				continue
			}
			sort.Slice(edits, func(a, b int) bool { return edits[a].start > edits[b].start })
			buf := append([]byte(nil), src...)
			last := len(src) + 1
			n := 0
			for _, e := range edits {
				if e.end > last {
					continue
				}
				buf = append(buf[:e.start], append([]byte(e.text), buf[e.end:]...)...)
				last = e.start
				n++
			}
			out[fname] = buf
			total += n
		}
	}
	if len(out) == 0 {
		return nil, 0
	}
	next, err := prog.MutateMany(out, "normalised")
	if err != nil {
		return nil, 0
	}
	for f, b := range out {
		files2[f] = b
	}
	return next, total
}

func betaFile(pk *load.Package, f *ast.File, tf *token.File, src []byte) []edit {
	info := pk.Info
	type closure struct {
		def    *ast.AssignStmt
		obj    types.Object
		lit    *ast.FuncLit
		expr   ast.Expr
		params []types.Object
		calls  []*ast.CallExpr
		blanks []*ast.AssignStmt
		bad    bool
	}
	byObj := map[types.Object]*closure{}
	ast.Inspect(f, func(n ast.Node) bool {
		as, ok := n.(*ast.AssignStmt)
		if !ok || as.Tok != token.DEFINE || len(as.Lhs) != 1 || len(as.Rhs) != 1 {
			return true
		}
		id, ok := as.Lhs[0].(*ast.Ident)
		lit, ok2 := as.Rhs[0].(*ast.FuncLit)
		if !ok || !ok2 || id.Name == "_" || len(lit.Body.List) != 1 {
			return true
		}
		obj := info.Defs[id]
		if obj == nil {
			return true
		}
		var e ast.Expr
		switch s := lit.Body.List[0].(type) {
		case *ast.ReturnStmt:
			if len(s.Results) == 1 {
				e = s.Results[0]
			}
		case *ast.ExprStmt:
			if lit.Type.Results == nil || len(lit.Type.Results.List) == 0 {
				e = s.X
			}
		}
		if e == nil {
			return true
		}
		hasLit := false
		ast.Inspect(e, func(m ast.Node) bool {
			if _, isLit := m.(*ast.FuncLit); isLit {
				hasLit = true
			}
			return !hasLit
		})
		if hasLit {
			return true
		}
		c := &closure{def: as, obj: obj, lit: lit, expr: e}
		for _, fld := range lit.Type.Params.List {
			if _, variadic := fld.Type.(*ast.Ellipsis); variadic {
				return true
			}
			if len(fld.Names) == 0 {
				c.params = append(c.params, nil)
			}
			for _, nm := range fld.Names {
				c.params = append(c.params, info.Defs[nm])
			}
		}
		byObj[obj] = c
		return true
	})
	if len(byObj) == 0 {
		return nil
	}
	// classify every use
	var stack []ast.Node
	ast.Inspect(f, func(n ast.Node) bool {
		if n == nil {
			stack = stack[:len(stack)-1]
			return true
		}
		stack = append(stack, n)
		id, ok := n.(*ast.Ident)
		if !ok {
			return true
		}
		c := byObj[info.Uses[id]]
		if c == nil {
			return true
		}
		var parent ast.Node
		if len(stack) >= 2 {
			parent = stack[len(stack)-2]
		}
		switch p := parent.(type) {
		case *ast.CallExpr:
			if ast.Unparen(p.Fun) == ast.Expr(id) && len(p.Args) == len(c.params) && !p.Ellipsis.IsValid() {
				// not a go / defer call: those evaluate the arguments now and the expression later
				if len(stack) >= 3 {
					switch gp := stack[len(stack)-3].(type) {
					case *ast.GoStmt:
						if gp.Call == p {
							c.bad = true
						}
					case *ast.DeferStmt:
						if gp.Call == p {
							c.bad = true
						}
					}
				}
				for _, a := range p.Args {
					if !simpleArg(a) {
						c.bad = true
					}
				}
				c.calls = append(c.calls, p)
				return true
			}
		case *ast.AssignStmt:
			if p.Tok == token.ASSIGN && len(p.Lhs) == 1 && len(p.Rhs) == 1 && p.Rhs[0] == ast.Expr(id) {
				if l, isId := p.Lhs[0].(*ast.Ident); isId && l.Name == "_" {
					c.blanks = append(c.blanks, p)
					return true
				}
			}
		}
		c.bad = true
		return true
	})
	var edits []edit
	for _, c := range byObj {
		if c.bad || len(c.calls) == 0 {
			continue
		}
		// the closure must not be called inside its own body, and a call nested in another call's arguments cannot
		// happen (arguments are simple)
		ok := true
		for _, call := range c.calls {
			if call.Pos() >= c.lit.Pos() && call.End() <= c.lit.End() {
				ok = false
			}
			scope := pk.Types.Scope().Innermost(call.Pos())
			ast.Inspect(c.expr, func(m ast.Node) bool {
				id, isId := m.(*ast.Ident)
				if !isId {
					return true
				}
				o := info.Uses[id]
				if o == nil {
					return true
				}
				for _, p := range c.params {
					if p == o {
						return true
					}
				}
				if _, isField := o.(*types.Var); isField && o.(*types.Var).IsField() {
					return true
				}
				if _, isFn := o.(*types.Func); isFn && o.Parent() == nil {
					return true // method name
				}
				if scope != nil {
					if _, found := scope.LookupParent(id.Name, call.Pos()); found != o {
						ok = false
					}
				}
				return true
			})
		}
		if !ok {
			continue
		}
		for _, call := range c.calls {
			subst := map[types.Object]string{}
			for k, p := range c.params {
				if p == nil {
					continue
				}
				a := call.Args[k]
				t := string(src[tf.Offset(a.Pos()):tf.Offset(a.End())])
				if _, isId := ast.Unparen(a).(*ast.Ident); !isId {
					t = "(" + t + ")"
				}
				subst[p] = t
			}
			lo, hi := tf.Offset(c.expr.Pos()), tf.Offset(c.expr.End())
			type rep struct {
				s, e int
				t    string
			}
			var reps []rep
			ast.Inspect(c.expr, func(m ast.Node) bool {
				if id, isId := m.(*ast.Ident); isId {
					if t, has := subst[info.Uses[id]]; has && info.Uses[id] != nil {
						reps = append(reps, rep{tf.Offset(id.Pos()), tf.Offset(id.End()), t})
					}
				}
				return true
			})
			sort.Slice(reps, func(a, b int) bool { return reps[a].s > reps[b].s })
			txt := append([]byte(nil), src[lo:hi]...)
			for _, r := range reps {
				txt = append(txt[:r.s-lo], append([]byte(r.t), txt[r.e-lo:]...)...)
			}
			edits = append(edits, edit{start: tf.Offset(call.Pos()), end: tf.Offset(call.End()), text: "(" + string(txt) + ")"})
		}
		edits = append(edits, edit{start: tf.Offset(c.def.Pos()), end: tf.Offset(c.def.End()), text: ""})
		for _, b := range c.blanks {
			edits = append(edits, edit{start: tf.Offset(b.Pos()), end: tf.Offset(b.End()), text: ""})
		}
	}
	return edits
}
