package norm

import (
	_ "embed"
	"fmt"
	"go/ast"
	"go/types"
	"sort"
	"strings"

	"pgoverif/checker/load"
)

// Field renames. The rules name the struct fields they reason about (the dirty flag of a resource, the clock of a CRDT
// cell) by the name the field has on the pinned tree. Renaming a field is an everyday refactoring that changes no
// behaviour, so before the rules run a struct whose pinned field names are no longer all present has its new fields
// paired with the missing ones by declared type (and by declaration order among fields of one type), and every
// reference to a paired field — resolved through the type checker, not by text — is spelled with the pinned name again.
// The pairing is only attempted between a name that disappeared and a name that appeared in the same struct type with
// the identical type; a field that was removed, or whose type changed, stays missing and the rules that need it report
// their anchor lost. The rewritten tree must type-check, else the tree is analysed as written.

//go:embed baseline_fields.txt
var baselineFieldsText string

type bfield struct {
	name, typ string
}

var baselineFields = func() map[string][]bfield {
	m := map[string][]bfield{}
	for _, l := range strings.Split(baselineFieldsText, "\n") {
		parts := strings.Split(l, "\t")
		if len(parts) != 3 {
			continue
		}
		m[parts[0]] = append(m[parts[0]], bfield{parts[1], parts[2]})
	}
	return m
}()

func fieldTypeString(t types.Type) string {
	return types.TypeString(t, func(p *types.Package) string { return p.Path() })
}

func namedStructs(pk *load.Package) []*types.TypeName {
	var out []*types.TypeName
	if pk.Types == nil {
		return nil
	}
	sc := pk.Types.Scope()
	for _, n := range sc.Names() {
		tn, ok := sc.Lookup(n).(*types.TypeName)
		if !ok || tn.IsAlias() {
			continue
		}
		if _, ok := tn.Type().Underlying().(*types.Struct); ok {
			out = append(out, tn)
		}
	}
	return out
}

// FieldLines lists the fields of the named struct types of a program (used to regenerate the baseline).
func FieldLines(prog *load.Program) []string {
	var out []string
	for _, pk := range prog.Sorted() {
		for _, tn := range namedStructs(pk) {
			st := tn.Type().Underlying().(*types.Struct)
			for i := 0; i < st.NumFields(); i++ {
				f := st.Field(i)
				if f.Embedded() {
					continue
				}
				out = append(out, fmt.Sprintf("%s.%s\t%s\t%s", pk.Path, tn.Name(), f.Name(), fieldTypeString(f.Type())))
			}
		}
	}
	return out
}

// RenameFields returns prog with renamed struct fields spelled by their pinned names, and the list of renames undone
// ("pkg.Type.new -> old"). prog itself is returned when there is nothing to do.
func RenameFields(prog *load.Program) (*load.Program, []string) {
	ren := map[*types.Var]string{}
	var desc []string
	for _, pk := range prog.Sorted() {
		for _, tn := range namedStructs(pk) {
			base, ok := baselineFields[pk.Path+"."+tn.Name()]
			if !ok {
				continue
			}
			st := tn.Type().Underlying().(*types.Struct)
			cur := map[string]*types.Var{}
			taken := map[string]bool{}
			var order []*types.Var
			for i := 0; i < st.NumFields(); i++ {
				f := st.Field(i)
				taken[f.Name()] = true
				if f.Embedded() {
					continue
				}
				cur[f.Name()] = f
				order = append(order, f)
			}
			inBase := map[string]bool{}
			for _, b := range base {
				inBase[b.name] = true
			}
			// missing pinned names and new names, by type, in declaration order
			missing := map[string][]string{}
			var typesSeen []string
			for _, b := range base {
				if ast.IsExported(b.name) {
					continue // exported fields are named by gob, by other modules and by generated code: a rename is a change
				}
				if cur[b.name] == nil && !taken[b.name] {
					if len(missing[b.typ]) == 0 {
						typesSeen = append(typesSeen, b.typ)
					}
					missing[b.typ] = append(missing[b.typ], b.name)
				}
			}
			if len(typesSeen) == 0 {
				continue
			}
			added := map[string][]*types.Var{}
			for _, f := range order {
				if !inBase[f.Name()] && !f.Exported() {
					ts := fieldTypeString(f.Type())
					added[ts] = append(added[ts], f)
				}
			}
			for _, ts := range typesSeen {
				ms, as := missing[ts], added[ts]
				if len(as) == 0 || len(ms) != len(as) {
					// a field of this type was removed or split: no pairing that is certain
					continue
				}
				for i, m := range ms {
					ren[as[i]] = m
					desc = append(desc, fmt.Sprintf("%s.%s.%s -> %s", pk.Path, tn.Name(), as[i].Name(), m))
				}
			}
		}
	}
	if len(ren) == 0 {
		return prog, nil
	}
	sort.Strings(desc)
	edits := map[string][]edit{}
	for _, pk := range prog.Sorted() {
		for i, f := range pk.Files {
			name := pk.FileNames[i]
			tf := prog.Fset.File(f.Pos())
			ast.Inspect(f, func(n ast.Node) bool {
				id, ok := n.(*ast.Ident)
				if !ok {
					return true
				}
				var obj types.Object = pk.Info.Uses[id]
				if obj == nil {
					obj = pk.Info.Defs[id]
				}
				v, ok := obj.(*types.Var)
				if !ok || !v.IsField() {
					return true
				}
				if to, ok := ren[v.Origin()]; ok {
					s := tf.Offset(id.Pos())
					edits[name] = append(edits[name], edit{s, s + len(id.Name), to})
				}
				return true
			})
		}
	}
	files := map[string][]byte{}
	for file, es := range edits {
		src, err := prog.ReadFile(file)
		if err != nil {
			return prog, nil
		}
		sort.Slice(es, func(i, j int) bool { return es[i].start > es[j].start })
		out := append([]byte(nil), src...)
		for _, e := range es {
			out = append(out[:e.start], append([]byte(e.text), out[e.end:]...)...)
		}
		files[file] = out
	}
	next, err := prog.MutateMany(files, "fields renamed back")
	if err != nil {
		return prog, nil
	}
	next.Mutation = prog.Mutation
	return next, desc
}

// Function renames, by the same argument: a function or method of the pinned tree that is gone, and a new one declared on
// the same receiver type with the identical signature, one of each - the new one is spelled with the pinned name again
// (declaration and every resolved reference). Anything less certain is left to the helper inliner.

//go:embed baseline_funcsigs.txt
var baselineFuncSigsText string

var baselineFuncSigs = func() map[string]string {
	m := map[string]string{}
	for _, l := range strings.Split(baselineFuncSigsText, "\n") {
		parts := strings.SplitN(l, "\t", 2)
		if len(parts) == 2 {
			m[parts[0]] = parts[1]
		}
	}
	return m
}()

func funcSigString(f *types.Func) string {
	sig := f.Type().(*types.Signature)
	// without the receiver
	return fieldTypeString(types.NewSignatureType(nil, nil, nil, sig.Params(), sig.Results(), sig.Variadic()))
}

// FuncSigLines lists key and signature of every declared function (used to regenerate the baseline).
func FuncSigLines(prog *load.Program) []string {
	var out []string
	for _, pk := range prog.Sorted() {
		for _, f := range pk.Files {
			for _, d := range f.Decls {
				fd, ok := d.(*ast.FuncDecl)
				if !ok {
					continue
				}
				if obj, _ := pk.Info.Defs[fd.Name].(*types.Func); obj != nil {
					out = append(out, FuncKey(pk.Path, fd)+"\t"+funcSigString(obj))
				}
			}
		}
	}
	sort.Strings(out)
	return out
}

// RenameFuncs returns prog with renamed functions spelled by their pinned names, and the renames undone.
func RenameFuncs(prog *load.Program) (*load.Program, []string) {
	ren := map[*types.Func]string{}
	var desc []string
	for _, pk := range prog.Sorted() {
		type decl struct {
			key, prefix, sig string
			obj              *types.Func
			name             string
		}
		present := map[string]bool{}
		var added []decl
		for _, f := range pk.Files {
			for _, d := range f.Decls {
				fd, ok := d.(*ast.FuncDecl)
				if !ok {
					continue
				}
				key := FuncKey(pk.Path, fd)
				present[key] = true
				if baseline[key] {
					continue
				}
				obj, _ := pk.Info.Defs[fd.Name].(*types.Func)
				if obj == nil || fd.Name.Name == "init" || fd.Name.Name == "_" || ast.IsExported(fd.Name.Name) {
					continue // an exported name is a contract with code outside the tree (the compiler emits calls by name)
				}
				added = append(added, decl{key: key, prefix: strings.TrimSuffix(key, fd.Name.Name), sig: funcSigString(obj), obj: obj, name: fd.Name.Name})
			}
		}
		if len(added) == 0 {
			continue
		}
		// missing pinned functions of this package
		type miss struct{ key, prefix, sig, name string }
		var missing []miss
		for key, sig := range baselineFuncSigs {
			if !strings.HasPrefix(key, pk.Path+".") || present[key] {
				continue
			}
			rest := strings.TrimPrefix(key, pk.Path+".")
			if strings.Contains(rest, "/") {
				continue // a sub-package's function
			}
			name := rest
			if i := strings.LastIndex(rest, "."); i >= 0 {
				name = rest[i+1:]
			}
			if ast.IsExported(name) {
				continue
			}
			missing = append(missing, miss{key: key, prefix: strings.TrimSuffix(key, name), sig: sig, name: name})
		}
		sort.Slice(missing, func(i, j int) bool { return missing[i].key < missing[j].key })
		for _, m := range missing {
			var cands []decl
			for _, a := range added {
				if a.prefix == m.prefix && a.sig == m.sig {
					cands = append(cands, a)
				}
			}
			if len(cands) != 1 {
				continue
			}
			// ... and the candidate fits no other missing function
			fits := 0
			for _, m2 := range missing {
				if m2.prefix == cands[0].prefix && m2.sig == cands[0].sig {
					fits++
				}
			}
			if fits != 1 {
				continue
			}
			ren[cands[0].obj] = m.name
			desc = append(desc, fmt.Sprintf("%s -> %s", cands[0].key, m.name))
		}
	}
	if len(ren) == 0 {
		return prog, nil
	}
	sort.Strings(desc)
	edits := map[string][]edit{}
	for _, pk := range prog.Sorted() {
		for i, f := range pk.Files {
			name := pk.FileNames[i]
			tf := prog.Fset.File(f.Pos())
			ast.Inspect(f, func(n ast.Node) bool {
				id, ok := n.(*ast.Ident)
				if !ok {
					return true
				}
				var obj types.Object = pk.Info.Uses[id]
				if obj == nil {
					obj = pk.Info.Defs[id]
				}
				fn, ok := obj.(*types.Func)
				if !ok {
					return true
				}
				if to, ok := ren[fn.Origin()]; ok {
					s := tf.Offset(id.Pos())
					edits[name] = append(edits[name], edit{s, s + len(id.Name), to})
				}
				return true
			})
		}
	}
	files := map[string][]byte{}
	for file, es := range edits {
		src, err := prog.ReadFile(file)
		if err != nil {
			return prog, nil
		}
		sort.Slice(es, func(i, j int) bool { return es[i].start > es[j].start })
		out := append([]byte(nil), src...)
		for _, e := range es {
			out = append(out[:e.start], append([]byte(e.text), out[e.end:]...)...)
		}
		files[file] = out
	}
	next, err := prog.MutateMany(files, "functions renamed back")
	if err != nil {
		return prog, nil
	}
	next.Mutation = prog.Mutation
	return next, desc
}
