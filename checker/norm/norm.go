// Package norm normalises a program against "extract helper" refactorings: calls to functions that did not exist on
// the pinned tree (the frozen list baseline_funcs.txt) are inlined into their callers, in memory, before the rules
// run. The rules were written against the functions the runtime has; a helper split off one of them is the same code
// at another address. Inlining is syntactic and conservative (see inlineCall); whatever cannot be inlined soundly is
// left alone. On a tree without new functions this is the identity.
package norm

import (
	"bytes"
	_ "embed"
	"fmt"
	"go/ast"
	"go/printer"
	"go/token"
	"go/types"
	"sort"
	"strings"

	"pgoverif/checker/load"
)

//go:embed baseline_funcs.txt
var baselineText string

var baseline = func() map[string]bool {
	m := map[string]bool{}
	for _, l := range strings.Split(baselineText, "\n") {
		if l = strings.TrimSpace(l); l != "" {
			m[l] = true
		}
	}
	return m
}()

// FuncKey names a function declaration: pkgpath.Name or pkgpath.Recv.Name.
func FuncKey(pkgPath string, d *ast.FuncDecl) string {
	if d.Recv != nil && len(d.Recv.List) == 1 {
		t := d.Recv.List[0].Type
		for {
			switch x := t.(type) {
			case *ast.StarExpr:
				t = x.X
				continue
			case *ast.IndexExpr:
				t = x.X
				continue
			case *ast.IndexListExpr:
				t = x.X
				continue
			case *ast.ParenExpr:
				t = x.X
				continue
			}
			break
		}
		if id, ok := t.(*ast.Ident); ok {
			return pkgPath + "." + id.Name + "." + d.Name.Name
		}
	}
	return pkgPath + "." + d.Name.Name
}

// Keys lists the function keys of a program (used to regenerate the baseline).
func Keys(prog *load.Program) []string {
	var out []string
	for _, pk := range prog.Sorted() {
		for _, f := range pk.Files {
			for _, d := range f.Decls {
				if fd, ok := d.(*ast.FuncDecl); ok {
					out = append(out, FuncKey(pk.Path, fd))
				}
			}
		}
	}
	sort.Strings(out)
	return out
}

// Result describes what Normalize did.
type Result struct {
	Helpers []string // new functions found
	Inlined int      // call sites inlined
	Left    []string // call sites of new helpers that were left alone, with the reason
	Files   map[string][]byte
	Renamed []string // struct fields spelled by their pinned names again ("pkg.Type.new -> old")
}

// Normalize returns prog with the calls to new helpers inlined (prog itself when there is nothing to do).
func Normalize(prog *load.Program) (*load.Program, *Result, error) { return normalize(prog, false) }

// NormalizeFully also replaces calls that cannot be spliced by immediately invoked function literals holding the helper's
// body (with the receiver and simple arguments substituted): the shape the code had before an "extract method".
func NormalizeFully(prog *load.Program) (*load.Program, *Result, error) { return normalize(prog, true) }

// Views returns the distinct programs a rule may be judged on: the tree as written, the tree with new helpers spliced
// in, and the tree with every call of a new helper inlined (as a function literal where splicing is impossible).
func Views(prog *load.Program) ([]*load.Program, *Result) {
	prog, renamed := RenameFields(prog)
	{
		var fr []string
		prog, fr = RenameFuncs(prog)
		renamed = append(renamed, fr...)
	}
	views := []*load.Program{prog}
	p1, r1, _ := Normalize(prog)
	if r1 != nil {
		r1.Renamed = renamed
	}
	if r1 == nil || len(r1.Helpers) == 0 {
		return views, r1
	}
	if p1 != prog {
		views = append(views, p1)
	}
	p2, r2, _ := NormalizeFully(prog)
	if p2 != prog && r2 != nil && r2.Inlined > r1.Inlined {
		views = append(views, p2)
		r1.Files = r2.Files
		r1.Inlined = r2.Inlined
		r1.Left = r2.Left
	}
	return views, r1
}

func normalize(prog *load.Program, literals bool) (*load.Program, *Result, error) {
	res := &Result{Files: map[string][]byte{}}
	cur := prog
	for round := 0; round < 4; round++ {
		edits, helpers, left := plan(cur, literals)
		if round == 0 {
			res.Helpers = helpers
		}
		res.Left = left
		if len(edits) == 0 {
			break
		}
		files := map[string][]byte{}
		n := 0
		for file, es := range edits {
			src, err := cur.ReadFile(file)
			if err != nil {
				return prog, res, err
			}
			// apply from the end; skip overlapping edits (they are picked up by the next round)
			sort.Slice(es, func(i, j int) bool { return es[i].start > es[j].start })
			out := append([]byte(nil), src...)
			lastStart := len(src) + 1
			for _, e := range es {
				if e.end > lastStart {
					continue
				}
				out = append(out[:e.start], append([]byte(e.text), out[e.end:]...)...)
				lastStart = e.start
				n++
			}
			files[file] = out
		}
		next, err := cur.MutateMany(files, "normalised")
		if err != nil {
			// an inlining that does not type-check is abandoned as a whole: analyse the tree as it is
			res.Left = append(res.Left, "inlining abandoned: "+err.Error())
			return prog, res, nil
		}
		for f, b := range files {
			res.Files[f] = b
		}
		res.Inlined += n
		cur = next
	}
	if res.Inlined == 0 {
		return prog, res, nil
	}
	// local single-expression closures left behind by the inlining of a helper that takes the varying operation as a
	// function argument are reduced at their call sites
	{
		touched := map[string]bool{}
		for f := range res.Files {
			touched[f] = true
		}
		if next, n := betaReduce(cur, touched, res.Files); next != nil {
			cur = next
			res.Inlined += n
		}
		if literals {
			if next, n := inlineClosures(cur, touched, res.Files); next != nil {
				cur = next
				res.Inlined += n
			}
		}
	}
	// a new helper that is no longer referenced anywhere is dropped from the normalised view: its body now lives at its
	// call sites, and rules that scan every function would otherwise judge it a second time, out of context
	if next := dropUnreferenced(cur, res); next != nil {
		cur = next
	}
	cur.Mutation = prog.Mutation
	return cur, res, nil
}

type edit struct {
	start, end int
	text       string
}

type helper struct {
	pk   *load.Package
	file *ast.File
	name string // file name
	decl *ast.FuncDecl
	obj  *types.Func
	sig  *types.Signature // set instead of obj for a local closure
}

func plan(prog *load.Program, literals bool) (map[string][]edit, []string, []string) {
	helpers := map[*types.Func]*helper{}
	var names []string
	for _, pk := range prog.Sorted() {
		for i, f := range pk.Files {
			for _, d := range f.Decls {
				fd, ok := d.(*ast.FuncDecl)
				if !ok || fd.Body == nil {
					continue
				}
				key := FuncKey(pk.Path, fd)
				if baseline[key] || !inScope(pk.Path) {
					continue
				}
				obj, _ := pk.Info.Defs[fd.Name].(*types.Func)
				if obj == nil {
					continue
				}
				helpers[obj] = &helper{pk: pk, file: f, name: pk.FileNames[i], decl: fd, obj: obj}
				names = append(names, key)
			}
		}
	}
	sort.Strings(names)
	if len(helpers) == 0 {
		return nil, nil, nil
	}
	edits := map[string][]edit{}
	var left []string
	for _, pk := range prog.Sorted() {
		for i, f := range pk.Files {
			fname := pk.FileNames[i]
			tf := prog.Fset.File(f.Pos())
			if tf == nil {
				continue
			}
			src, err := prog.ReadFile(fname)
			if err != nil {
				continue
			}
			var stack []ast.Node
			ast.Inspect(f, func(n ast.Node) bool {
				if n == nil {
					stack = stack[:len(stack)-1]
					return true
				}
				stack = append(stack, n)
				call, ok := n.(*ast.CallExpr)
				if !ok {
					return true
				}
				callee := staticCallee(pk.Info, call)
				h := helpers[callee]
				if h == nil || h.pk != pk {
					return true
				}
				// `return h(a) && h(b)` / `return h(a) || h(b)`: first give each call a statement of its own
				// (`if !h(a) { return false }; return h(b)` has the same short-circuit meaning); the calls are inlined in
				// the next round
				if len(stack) >= 3 {
					if be, isBin := stack[len(stack)-2].(*ast.BinaryExpr); isBin && (be.Op == token.LAND || be.Op == token.LOR) {
						if rs, isRet := stack[len(stack)-3].(*ast.ReturnStmt); isRet && len(rs.Results) == 1 && rs.Results[0] == ast.Expr(be) {
							x := string(src[tf.Offset(be.X.Pos()):tf.Offset(be.X.End())])
							y := string(src[tf.Offset(be.Y.Pos()):tf.Offset(be.Y.End())])
							nx := "!(" + x + ")"
							if _, isCall := ast.Unparen(be.X).(*ast.CallExpr); isCall {
								nx = "!" + x
							}
							txt := "if " + nx + " {\nreturn false\n}\nreturn " + y
							if be.Op == token.LOR {
								txt = "if " + x + " {\nreturn true\n}\nreturn " + y
							}
							edits[fname] = append(edits[fname], edit{start: tf.Offset(rs.Pos()), end: tf.Offset(rs.End()), text: txt})
							return true
						}
					}
				}
				// `return h(a), nil`: the call gets a statement of its own first (`{ t := h(a); return t, nil }`) when every
				// other result is a constant or nil, so that nothing is reordered; the call is inlined in the next round
				if len(stack) >= 2 {
					if rs, isRet := stack[len(stack)-2].(*ast.ReturnStmt); isRet && len(rs.Results) >= 2 && callee.Type().(*types.Signature).Results().Len() == 1 {
						inert := true
						var parts []string
						tmp := fmt.Sprintf("ret__inl%d", tf.Offset(call.Pos()))
						for _, r := range rs.Results {
							if r == ast.Expr(call) {
								parts = append(parts, tmp)
								continue
							}
							tv := pk.Info.Types[r]
							if tv.Value == nil && !tv.IsNil() {
								inert = false
							}
							parts = append(parts, string(src[tf.Offset(r.Pos()):tf.Offset(r.End())]))
						}
						if inert {
							txt := "{\n" + tmp + " := " + string(src[tf.Offset(call.Pos()):tf.Offset(call.End())]) + "\nreturn " + strings.Join(parts, ", ") + "\n}"
							edits[fname] = append(edits[fname], edit{start: tf.Offset(rs.Pos()), end: tf.Offset(rs.End()), text: txt})
							return true
						}
					}
				}
				e, why := inlineCall(prog, pk, f, src, tf, stack, call, h, literals)
				if why != "" {
					left = append(left, fmt.Sprintf("%s: call of %s left alone: %s", prog.Rel(call.Pos()), h.obj.Name(), why))
					return true
				}
				edits[fname] = append(edits[fname], e)
				return true
			})
		}
	}
	return edits, names, left
}

func inScope(path string) bool {
	return strings.HasPrefix(path, "github.com/DistCompiler/pgo/")
}

func staticCallee(info *types.Info, call *ast.CallExpr) *types.Func {
	fun := ast.Unparen(call.Fun)
	var id *ast.Ident
	switch x := fun.(type) {
	case *ast.Ident:
		id = x
	case *ast.SelectorExpr:
		id = x.Sel
		if sel, ok := info.Selections[x]; ok {
			if sel.Kind() != types.MethodVal {
				return nil
			}
			if _, isIface := sel.Recv().Underlying().(*types.Interface); isIface {
				return nil
			}
		}
	default:
		return nil
	}
	f, _ := info.Uses[id].(*types.Func)
	if f != nil {
		return f.Origin()
	}
	return nil
}

// simpleArg: an expression that can be substituted for a parameter wherever it occurs: evaluating it has no effect and
// (for the shapes we accept) yields the same thing each time unless the body assigns the variable - which is checked.
func simpleArg(e ast.Expr) bool {
	switch x := ast.Unparen(e).(type) {
	case *ast.Ident:
		return true
	case *ast.BasicLit:
		return true
	case *ast.SelectorExpr:
		return simpleArg(x.X)
	case *ast.UnaryExpr:
		return x.Op == token.AND && simpleArg(x.X)
	}
	return false
}

func text(fset *token.FileSet, n ast.Node) string {
	var b bytes.Buffer
	_ = printer.Fprint(&b, fset, n)
	return b.String()
}

// inlineCall plans the replacement of one call. Shapes:
//
//	A  statement call of a helper without results whose body has no return / defer: the body, as a block
//	R  `return h(...)` of a helper without defer: the body, as a block (its returns are the caller's)
//	B  helper whose body is a single `return E`: the expression
//	D  anything else: an immediately invoked function literal with the body
//
// In every shape the receiver and the parameters are replaced by the argument expressions where those are simple and the
// body does not assign them, and are bound by a leading `p1, p2 := a1, a2` otherwise.
func inlineCall(prog *load.Program, pk *load.Package, f *ast.File, src []byte, tf *token.File, stack []ast.Node, call *ast.CallExpr, h *helper, literals bool) (edit, string) {
	d := h.decl
	if d.Type.TypeParams != nil {
		return edit{}, "generic"
	}
	// not inside the helper itself (recursion), not a go / defer call
	for _, n := range stack {
		if n == ast.Node(d) {
			return edit{}, "recursive"
		}
	}
	// `go h(a)` / `defer h(a)`: rewritten as `go func(p T) { body }(a)` - the arguments are still evaluated by the go /
	// defer statement; only an argument that is a variable nobody reassigns is written into the body directly
	asyncKind, asyncStart := "", 0
	if len(stack) >= 2 {
		switch p := stack[len(stack)-2].(type) {
		case *ast.GoStmt:
			if p.Call == call {
				asyncKind, asyncStart = "go", tf.Offset(p.Pos())
			}
		case *ast.DeferStmt:
			if p.Call == call {
				asyncKind, asyncStart = "defer", tf.Offset(p.Pos())
			}
		}
	}
	hsrc, err := prog.ReadFile(h.name)
	if err != nil {
		return edit{}, "helper source unavailable"
	}
	htf := prog.Fset.File(d.Pos())
	// parameters (receiver first) and their arguments
	type param struct {
		obj    types.Object
		name   string
		arg    ast.Expr
		typ    string
		ptrFix string // "&" or "*" adjustment for the receiver
	}
	var params []param
	var variadicBind *[2]string
	qual := func(p *types.Package) string {
		if p == pk.Types {
			return ""
		}
		return p.Name()
	}
	if d.Recv != nil {
		sel, ok := ast.Unparen(call.Fun).(*ast.SelectorExpr)
		if !ok {
			return edit{}, "method expression"
		}
		rf := d.Recv.List[0]
		if len(rf.Names) == 1 && rf.Names[0].Name != "_" {
			obj := h.pk.Info.Defs[rf.Names[0]]
			pr := param{obj: obj, name: rf.Names[0].Name, arg: sel.X, typ: types.TypeString(obj.Type(), qual)}
			_, recvIsPtr := obj.Type().(*types.Pointer)
			at := pk.Info.TypeOf(sel.X)
			_, argIsPtr := at.(*types.Pointer)
			if s, isSel := pk.Info.Selections[sel]; isSel && len(s.Index()) > 1 {
				return edit{}, "promoted method"
			}
			switch {
			case recvIsPtr && !argIsPtr:
				pr.ptrFix = "&"
			case !recvIsPtr && argIsPtr:
				pr.ptrFix = "*"
			}
			params = append(params, pr)
		}
	}
	if d.Type.Params != nil {
		ai := 0
		for _, fld := range d.Type.Params.List {
			if _, variadic := fld.Type.(*ast.Ellipsis); variadic {
				// the variadic parameter becomes a slice built from the remaining arguments (or the spread slice itself)
				if len(fld.Names) != 1 {
					return edit{}, "variadic without a name"
				}
				nm := fld.Names[0]
				obj := h.pk.Info.Defs[nm]
				st := types.TypeString(obj.Type(), qual)
				var txt string
				switch {
				case call.Ellipsis.IsValid():
					if ai != len(call.Args)-1 {
						return edit{}, "variadic spread"
					}
					txt = string(src[tf.Offset(call.Args[ai].Pos()):tf.Offset(call.Args[ai].End())])
				case ai >= len(call.Args):
					txt = st + "(nil)"
				default:
					var parts []string
					for _, a := range call.Args[ai:] {
						parts = append(parts, string(src[tf.Offset(a.Pos()):tf.Offset(a.End())]))
					}
					txt = st + "{" + strings.Join(parts, ", ") + "}"
				}
				if nm.Name != "_" {
					variadicBind = &[2]string{nm.Name, txt}
				}
				ai = len(call.Args)
				continue
			}
			if len(fld.Names) == 0 {
				ai++
				continue
			}
			for _, nm := range fld.Names {
				if ai >= len(call.Args) {
					return edit{}, "argument count"
				}
				if nm.Name != "_" {
					obj := h.pk.Info.Defs[nm]
					params = append(params, param{obj: obj, name: nm.Name, arg: call.Args[ai], typ: types.TypeString(obj.Type(), qual)})
				}
				ai++
			}
		}
		if ai != len(call.Args) {
			return edit{}, "argument count (tuple call?)"
		}
	}
	// facts about the body
	assigned := map[types.Object]bool{}
	addrTaken := map[types.Object]bool{} // address taken, or assigned inside a nested function literal
	declared := map[string]bool{}
	hasReturn, hasDefer, hasRecover := false, false, false
	var inspectBody func(n ast.Node, depth int)
	inspectBody = func(n ast.Node, depth int) {
		ast.Inspect(n, func(m ast.Node) bool {
			switch x := m.(type) {
			case *ast.FuncLit:
				if m != n {
					inspectBody(x.Body, depth+1)
					// parameters of nested literals are declarations too
					for _, fld := range x.Type.Params.List {
						for _, nm := range fld.Names {
							declared[nm.Name] = true
						}
					}
					return false
				}
			case *ast.ReturnStmt:
				if depth == 0 {
					hasReturn = true
				}
			case *ast.DeferStmt:
				if depth == 0 {
					hasDefer = true
				}
			case *ast.CallExpr:
				if id, ok := ast.Unparen(x.Fun).(*ast.Ident); ok && id.Name == "recover" {
					hasRecover = true
				}
			case *ast.AssignStmt:
				for _, l := range x.Lhs {
					if id, ok := ast.Unparen(l).(*ast.Ident); ok {
						if o := h.pk.Info.Uses[id]; o != nil {
							assigned[o] = true
							if depth > 0 {
								addrTaken[o] = true
							}
						}
						if h.pk.Info.Defs[id] != nil {
							declared[id.Name] = true
						}
					}
				}
			case *ast.IncDecStmt:
				if id, ok := ast.Unparen(x.X).(*ast.Ident); ok {
					if o := h.pk.Info.Uses[id]; o != nil {
						assigned[o] = true
					}
				}
			case *ast.UnaryExpr:
				if x.Op == token.AND {
					if id, ok := ast.Unparen(x.X).(*ast.Ident); ok {
						if o := h.pk.Info.Uses[id]; o != nil {
							assigned[o] = true // address taken: treat as assigned
							addrTaken[o] = true
						}
					}
				}
			case *ast.ValueSpec:
				for _, nm := range x.Names {
					declared[nm.Name] = true
				}
			case *ast.RangeStmt:
				for _, e := range []ast.Expr{x.Key, x.Value} {
					if id, ok := e.(*ast.Ident); ok && x.Tok == token.DEFINE {
						declared[id.Name] = true
					}
				}
			case *ast.LabeledStmt:
				declared[x.Label.Name] = true
			}
			return true
		})
	}
	inspectBody(d.Body, 0)
	if hasRecover {
		return edit{}, "calls recover"
	}
	// named results are variables of the helper
	var resultDecl string
	nres := 0
	if d.Type.Results != nil {
		for _, fld := range d.Type.Results.List {
			k := len(fld.Names)
			if k == 0 {
				k = 1
			}
			nres += k
		}
		resultDecl = string(hsrc[htf.Offset(d.Type.Results.Pos()):htf.Offset(d.Type.Results.End())])
		if !strings.HasPrefix(resultDecl, "(") && nres > 0 && len(d.Type.Results.List[0].Names) > 0 {
			resultDecl = "(" + resultDecl + ")"
		}
	}
	// free package-level names of the body must mean the same thing at the call site
	scope := pk.Types.Scope().Innermost(call.Pos())
	capture := ""
	ast.Inspect(d.Body, func(m ast.Node) bool {
		id, ok := m.(*ast.Ident)
		if !ok {
			return true
		}
		o := h.pk.Info.Uses[id]
		if o == nil || o.Parent() == nil {
			return true
		}
		if o.Parent() == h.pk.Types.Scope() || o.Parent() == types.Universe || isFileScope(h.pk, o) {
			if scope != nil {
				if _, found := scope.LookupParent(id.Name, call.Pos()); found != nil && found != o {
					if pn, isPkg := o.(*types.PkgName); isPkg {
						if fpn, ok2 := found.(*types.PkgName); ok2 && fpn.Imported() == pn.Imported() {
							return true
						}
					}
					capture = id.Name
				}
			}
		}
		return true
	})
	if capture != "" {
		return edit{}, "the name " + capture + " means something else at the call site"
	}
	// imports the helper's file uses must be available in the caller's file under the same name
	if h.file != f {
		missing := ""
		ast.Inspect(d.Body, func(m ast.Node) bool {
			if id, ok := m.(*ast.Ident); ok {
				if pn, isPkg := h.pk.Info.Uses[id].(*types.PkgName); isPkg {
					okImp := false
					for _, imp := range f.Imports {
						ipath := strings.Trim(imp.Path.Value, `"`)
						if ipath != pn.Imported().Path() {
							continue
						}
						nm := pn.Imported().Name()
						if imp.Name != nil {
							nm = imp.Name.Name
						}
						if nm == id.Name {
							okImp = true
						}
					}
					if !okImp {
						missing = id.Name
					}
				}
			}
			return true
		})
		if missing != "" {
			return edit{}, "package " + missing + " is not imported in the caller's file"
		}
	}
	// substitution plan
	subst := map[types.Object]string{}
	var bindNames, bindArgs, bindTypes []string
	argFree := map[string]bool{}
	for _, p := range params {
		ast.Inspect(p.arg, func(m ast.Node) bool {
			if id, ok := m.(*ast.Ident); ok {
				argFree[id.Name] = true
			}
			return true
		})
	}
	for _, p := range params {
		argText := string(src[tf.Offset(p.arg.Pos()):tf.Offset(p.arg.End())])
		switch p.ptrFix {
		case "&":
			argText = "&" + argText
		case "*":
			argText = "*" + argText
		}
		canSubst := simpleArg(p.arg) && !assigned[p.obj] && p.ptrFix != "*"
		if asyncKind != "" {
			canSubst = canSubst && p.ptrFix == "" && stableVariable(pk, stack, p.arg)
		}
		// copy-in / copy-out: `x.f = h(x.f, ...)` where the helper updates its parameter in place and nothing else handed to
		// it can reach x: the parameter is the location itself
		if !canSubst && assigned[p.obj] && p.ptrFix == "" && len(stack) >= 2 {
			if as, isAs := stack[len(stack)-2].(*ast.AssignStmt); isAs && as.Tok == token.ASSIGN && len(as.Lhs) == 1 && len(as.Rhs) == 1 && as.Rhs[0] == ast.Expr(call) {
				if _, isSel := ast.Unparen(p.arg).(*ast.SelectorExpr); isSel && simpleArg(p.arg) {
					lhsText := string(src[tf.Offset(as.Lhs[0].Pos()):tf.Offset(as.Lhs[0].End())])
					root := p.arg
					for {
						sel, ok := ast.Unparen(root).(*ast.SelectorExpr)
						if !ok {
							break
						}
						root = sel.X
					}
					rootID, _ := ast.Unparen(root).(*ast.Ident)
					alone := rootID != nil && lhsText == argText && !addrTaken[p.obj]
					for _, q := range params {
						if q.obj == p.obj {
							continue
						}
						ast.Inspect(q.arg, func(m ast.Node) bool {
							if id, ok := m.(*ast.Ident); ok && rootID != nil && id.Name == rootID.Name {
								alone = false
							}
							return true
						})
					}
					if alone {
						canSubst = true
					}
				}
			}
		}
		if canSubst {
			// no declaration of the body may capture a name the argument mentions
			ast.Inspect(p.arg, func(m ast.Node) bool {
				if id, ok := m.(*ast.Ident); ok && declared[id.Name] {
					canSubst = false
				}
				return true
			})
		}
		if canSubst {
			if _, isIdent := ast.Unparen(p.arg).(*ast.Ident); isIdent && p.ptrFix == "" {
				subst[p.obj] = argText
			} else {
				subst[p.obj] = "(" + argText + ")"
			}
			continue
		}
		if argFree[p.name] && false {
			return edit{}, "parameter name clashes with an argument"
		}
		bindNames = append(bindNames, p.name)
		bindArgs = append(bindArgs, argText)
		bindTypes = append(bindTypes, p.typ)
	}
	// a bound parameter name must not capture a name mentioned by a substituted argument
	for _, bn := range bindNames {
		for o, t := range subst {
			_ = o
			if containsIdent(t, bn) {
				return edit{}, "parameter " + bn + " would capture a name used by an argument"
			}
		}
	}
	// body text with substitutions
	bodyText := func() string {
		lo, hi := htf.Offset(d.Body.Lbrace)+1, htf.Offset(d.Body.Rbrace)
		type rep struct {
			s, e int
			t    string
		}
		var reps []rep
		ast.Inspect(d.Body, func(m ast.Node) bool {
			switch x := m.(type) {
			case *ast.SelectorExpr:
				// field / method names are not uses of variables
				ast.Inspect(x.X, func(k ast.Node) bool { return true })
			case *ast.Ident:
				if o := h.pk.Info.Uses[x]; o != nil {
					if t, ok := subst[o]; ok {
						reps = append(reps, rep{htf.Offset(x.Pos()), htf.Offset(x.End()), t})
					}
				}
			}
			return true
		})
		sort.Slice(reps, func(i, j int) bool { return reps[i].s > reps[j].s })
		out := append([]byte(nil), hsrc[lo:hi]...)
		for _, r := range reps {
			out = append(out[:r.s-lo], append([]byte(r.t), out[r.e-lo:]...)...)
		}
		return string(out)
	}()
	if asyncKind != "" {
		if variadicBind != nil {
			return edit{}, asyncKind + " statement with a variadic helper"
		}
		var ps []string
		for i := range bindNames {
			ps = append(ps, bindNames[i]+" "+bindTypes[i])
		}
		return edit{start: asyncStart, end: tf.Offset(call.End()), text: asyncKind + " func(" + strings.Join(ps, ", ") + ") " + resultDecl + " {\n" + bodyText + "\n}(" + strings.Join(bindArgs, ", ") + ")"}, ""
	}
	if variadicBind != nil {
		bindNames = append(bindNames, variadicBind[0])
		bindArgs = append(bindArgs, variadicBind[1])
	}
	prelude := ""
	if len(bindNames) > 0 {
		prelude = strings.Join(bindNames, ", ") + " := " + strings.Join(bindArgs, ", ") + "\n"
		for _, bn := range bindNames {
			prelude += "_ = " + bn + "\n"
		}
	}
	// ---- shapes
	parent := ast.Node(nil)
	if len(stack) >= 2 {
		parent = stack[len(stack)-2]
	}
	callStart, callEnd := tf.Offset(call.Pos()), tf.Offset(call.End())
	sig := h.sig
	if sig == nil {
		sig = h.obj.Type().(*types.Signature)
	}
	// B: helper whose body is a single `return E`, every parameter substituted: the expression, in place
	if len(d.Body.List) == 1 && nres == 1 && len(bindNames) == 0 {
		if rs, ok := d.Body.List[0].(*ast.ReturnStmt); ok && len(rs.Results) == 1 {
			return edit{start: callStart, end: callEnd, text: "(" + substExpr(h, hsrc, htf, rs.Results[0], subst) + ")"}, ""
		}
	}
	if !namedResults(d) {
		// tail position: `return h(...)` as a whole statement - the helper's deferred calls run when the helper returns,
		// which is when this statement completes, and before any deferred call the caller registered earlier: exactly
		// what happens when the body stands in place of the statement (its returns are the caller's)
		if rs, ok := parent.(*ast.ReturnStmt); ok && len(rs.Results) == 1 && rs.Results[0] == ast.Expr(call) && nres > 0 && tailResultsAgree(pk, stack, sig) {
			return edit{start: tf.Offset(rs.Pos()), end: tf.Offset(rs.End()), text: "{\n" + prelude + bodyText + "\n}"}, ""
		}
	}
	if hasDefer {
		if literals {
			return edit{start: callStart, end: callEnd, text: "func() " + resultDecl + " {\n" + prelude + bodyText + "\n}()"}, ""
		}
		return edit{}, "the helper defers"
	}
	// E: the body spliced in as a labelled `switch { default: ... }` block; `return e1, e2` becomes `t1, t2 = e1, e2; break L`.
	label := fmt.Sprintf("_inl%d", callStart)
	// named results are locals of the spliced block (renamed, so that they cannot clash with the targets)
	resNames := map[types.Object]string{}
	var resDecls []string
	var resOrder []string
	if d.Type.Results != nil {
		k := 0
		for _, fld := range d.Type.Results.List {
			for _, nm := range fld.Names {
				if nm.Name == "_" {
					resOrder = append(resOrder, "")
					k++
					continue
				}
				o := h.pk.Info.Defs[nm]
				nn := nm.Name + "_" + label
				resNames[o] = nn
				resOrder = append(resOrder, nn)
				resDecls = append(resDecls, "var "+nn+" "+types.TypeString(sig.Results().At(k).Type(), qual)+"\n_ = "+nn)
				k++
			}
		}
	}
	full := map[types.Object]string{}
	for o, t := range subst {
		full[o] = t
	}
	for o, t := range resNames {
		full[o] = t
	}
	splice := func(targets []string) string {
		lo, hi := htf.Offset(d.Body.Lbrace)+1, htf.Offset(d.Body.Rbrace)
		type rep struct {
			s, e int
			t    string
		}
		var reps []rep
		var visit func(n ast.Node, depth int)
		visit = func(n ast.Node, depth int) {
			ast.Inspect(n, func(m ast.Node) bool {
				switch x := m.(type) {
				case *ast.FuncLit:
					if m != n {
						visit(x.Body, depth+1)
						return false
					}
				case *ast.Ident:
					if o := h.pk.Info.Uses[x]; o != nil {
						if t, ok := full[o]; ok {
							reps = append(reps, rep{htf.Offset(x.Pos()), htf.Offset(x.End()), t})
						}
					}
				case *ast.ReturnStmt:
					if depth > 0 {
						return true
					}
					var txt string
					switch {
					case len(x.Results) == 0 && nres == 0:
						txt = "break " + label
					case len(x.Results) == 0:
						// bare return of named results
						var rhs []string
						for _, rn := range resOrder {
							if rn == "" {
								rn = "nil"
							}
							rhs = append(rhs, rn)
						}
						txt = assignText(targets, rhs, nres) + "\nbreak " + label
					case len(x.Results) == nres:
						var rhs []string
						for _, r := range x.Results {
							rhs = append(rhs, substExpr(h, hsrc, htf, r, full))
						}
						txt = assignText(targets, rhs, nres) + "\nbreak " + label
					default:
						// return f() spreading a tuple
						var rhs []string
						for _, r := range x.Results {
							rhs = append(rhs, substExpr(h, hsrc, htf, r, full))
						}
						txt = assignTuple(targets, rhs[0], nres) + "\nbreak " + label
					}
					reps = append(reps, rep{htf.Offset(x.Pos()), htf.Offset(x.End()), "{\n" + txt + "\n}"})
					return false
				}
				return true
			})
		}
		visit(d.Body, 0)
		sort.Slice(reps, func(i, j int) bool { return reps[i].s > reps[j].s })
		out := append([]byte(nil), hsrc[lo:hi]...)
		for _, r := range reps {
			if r.s < lo || r.e > hi {
				continue
			}
			out = append(out[:r.s-lo], append([]byte(r.t), out[r.e-lo:]...)...)
		}
		body := prelude + strings.Join(resDecls, "\n") + "\n" + string(out)
		if !hasReturn {
			return "{\n" + body + "\n}"
		}
		return label + ":\nswitch {\ndefault:\n" + body + "\n}"
	}
	resultType := func(i int) string { return types.TypeString(sig.Results().At(i).Type(), qual) }
	switch p := parent.(type) {
	case *ast.ExprStmt:
		if p.X == ast.Expr(call) {
			return edit{start: tf.Offset(p.Pos()), end: tf.Offset(p.End()), text: splice(nil)}, ""
		}
	case *ast.ReturnStmt:
		if len(p.Results) == 1 && p.Results[0] == ast.Expr(call) && nres > 0 {
			var decls, tmps []string
			for k := 0; k < nres; k++ {
				t := fmt.Sprintf("ret%d_%s", k, label)
				tmps = append(tmps, t)
				decls = append(decls, "var "+t+" "+resultType(k))
			}
			txt := "{\n" + strings.Join(decls, "\n") + "\n" + splice(tmps) + "\nreturn " + strings.Join(tmps, ", ") + "\n}"
			return edit{start: tf.Offset(p.Pos()), end: tf.Offset(p.End()), text: txt}, ""
		}
	case *ast.AssignStmt:
		if len(p.Rhs) == 1 && p.Rhs[0] == ast.Expr(call) && len(p.Lhs) == nres && (p.Tok == token.DEFINE || p.Tok == token.ASSIGN) {
			var decls, targets []string
			for k, l := range p.Lhs {
				lt := string(src[tf.Offset(l.Pos()):tf.Offset(l.End())])
				targets = append(targets, lt)
				if id, isId := l.(*ast.Ident); isId && p.Tok == token.DEFINE && id.Name != "_" && pk.Info.Defs[id] != nil {
					decls = append(decls, "var "+id.Name+" "+resultType(k)+"\n_ = "+id.Name)
				}
			}
			// results travel through fresh temporaries: a name declared inside the helper must not capture a target
			var tmps, tmpDecls []string
			for k := range targets {
				t := fmt.Sprintf("ret%d_%s", k, label)
				tmps = append(tmps, t)
				tmpDecls = append(tmpDecls, "var "+t+" "+resultType(k))
			}
			core := strings.Join(decls, "\n") + "\n" + strings.Join(tmpDecls, "\n") + "\n" + splice(tmps) + "\n" + strings.Join(targets, ", ") + " = " + strings.Join(tmps, ", ")
			// the init clause of an if / switch: keep the scope by wrapping the whole statement in a block
			if len(stack) >= 3 {
				switch gp := stack[len(stack)-3].(type) {
				case *ast.IfStmt:
					if gp.Init == ast.Stmt(p) {
						rest := string(src[tf.Offset(gp.Cond.Pos()):tf.Offset(gp.End())])
						return edit{start: tf.Offset(gp.Pos()), end: tf.Offset(gp.End()), text: "{\n" + core + "\nif " + rest + "\n}"}, ""
					}
				case *ast.SwitchStmt:
					if gp.Init == ast.Stmt(p) {
						tag := ""
						if gp.Tag != nil {
							tag = string(src[tf.Offset(gp.Tag.Pos()):tf.Offset(gp.Tag.End())]) + " "
						}
						rest := string(src[tf.Offset(gp.Body.Pos()):tf.Offset(gp.End())])
						return edit{start: tf.Offset(gp.Pos()), end: tf.Offset(gp.End()), text: "{\n" + core + "\nswitch " + tag + rest + "\n}"}, ""
					}
				case *ast.ForStmt, *ast.TypeSwitchStmt:
					if literals {
						return edit{start: callStart, end: callEnd, text: "func() " + resultDecl + " {\n" + prelude + bodyText + "\n}()"}, ""
					}
					return edit{}, "init clause of a loop"
				}
			}
			return edit{start: tf.Offset(p.Pos()), end: tf.Offset(p.End()), text: core}, ""
		}
	case *ast.SendStmt:
		// `ch <- h(...)` with ch a plain local: the helper cannot touch ch, so computing the value first is the same
		if id, isId := ast.Unparen(p.Chan).(*ast.Ident); isId && p.Value == ast.Expr(call) && nres == 1 {
			if v, isVar := pk.Info.Uses[id].(*types.Var); isVar && !v.IsField() && v.Parent() != pk.Types.Scope() {
				t := fmt.Sprintf("ret0_%s", label)
				txt := "{\nvar " + t + " " + resultType(0) + "\n" + splice([]string{t}) + "\n" + id.Name + " <- " + t + "\n}"
				return edit{start: tf.Offset(p.Pos()), end: tf.Offset(p.End()), text: txt}, ""
			}
		}
	case *ast.IfStmt:
		if p.Cond == ast.Expr(call) && nres == 1 && p.Init == nil {
			t := "cond_" + label
			rest := string(src[tf.Offset(p.Body.Pos()):tf.Offset(p.End())])
			txt := "{\nvar " + t + " " + resultType(0) + "\n" + splice([]string{t}) + "\nif " + t + " " + rest + "\n}"
			return edit{start: tf.Offset(p.Pos()), end: tf.Offset(p.End()), text: txt}, ""
		}
	case *ast.UnaryExpr:
		// if !h(...) { ... }
		if p.Op == token.NOT && p.X == ast.Expr(call) && nres == 1 && len(stack) >= 3 {
			if gp, ok := stack[len(stack)-3].(*ast.IfStmt); ok && gp.Cond == ast.Expr(p) && gp.Init == nil {
				t := "cond_" + label
				rest := string(src[tf.Offset(gp.Body.Pos()):tf.Offset(gp.End())])
				txt := "{\nvar " + t + " " + resultType(0) + "\n" + splice([]string{t}) + "\nif !" + t + " " + rest + "\n}"
				return edit{start: tf.Offset(gp.Pos()), end: tf.Offset(gp.End()), text: txt}, ""
			}
		}
	}
	if literals {
		return edit{start: callStart, end: callEnd, text: "func() " + resultDecl + " {\n" + prelude + bodyText + "\n}()"}, ""
	}
	return edit{}, "the call is used inside a larger expression"
}

func assignText(targets, rhs []string, nres int) string {
	if len(targets) == 0 {
		var out []string
		for _, r := range rhs {
			out = append(out, "_ = "+r)
		}
		return strings.Join(out, "\n")
	}
	return strings.Join(targets, ", ") + " = " + strings.Join(rhs, ", ")
}

func assignTuple(targets []string, call string, nres int) string {
	if len(targets) == 0 {
		blanks := make([]string, nres)
		for i := range blanks {
			blanks[i] = "_"
		}
		return strings.Join(blanks, ", ") + " = " + call
	}
	return strings.Join(targets, ", ") + " = " + call
}

func substExpr(h *helper, hsrc []byte, htf *token.File, e ast.Expr, subst map[types.Object]string) string {
	lo, hi := htf.Offset(e.Pos()), htf.Offset(e.End())
	type rep struct {
		s, e int
		t    string
	}
	var reps []rep
	ast.Inspect(e, func(m ast.Node) bool {
		if x, ok := m.(*ast.Ident); ok {
			if o := h.pk.Info.Uses[x]; o != nil {
				if t, ok := subst[o]; ok {
					reps = append(reps, rep{htf.Offset(x.Pos()), htf.Offset(x.End()), t})
				}
			}
		}
		return true
	})
	sort.Slice(reps, func(i, j int) bool { return reps[i].s > reps[j].s })
	out := append([]byte(nil), hsrc[lo:hi]...)
	for _, r := range reps {
		out = append(out[:r.s-lo], append([]byte(r.t), out[r.e-lo:]...)...)
	}
	return string(out)
}

// tailResultsAgree: the function enclosing the call has exactly the helper's result types.
func tailResultsAgree(pk *load.Package, stack []ast.Node, sig *types.Signature) bool {
	for i := len(stack) - 1; i >= 0; i-- {
		var ft *ast.FuncType
		switch x := stack[i].(type) {
		case *ast.FuncLit:
			ft = x.Type
		case *ast.FuncDecl:
			ft = x.Type
		default:
			continue
		}
		var ts []types.Type
		if ft.Results != nil {
			for _, fld := range ft.Results.List {
				k := len(fld.Names)
				if k == 0 {
					k = 1
				}
				for j := 0; j < k; j++ {
					ts = append(ts, pk.Info.TypeOf(fld.Type))
				}
			}
		}
		if len(ts) != sig.Results().Len() {
			return false
		}
		for j, t := range ts {
			if t == nil || !types.Identical(t, sig.Results().At(j).Type()) {
				return false
			}
		}
		return true
	}
	return false
}

func namedResults(d *ast.FuncDecl) bool {
	if d.Type.Results == nil {
		return false
	}
	for _, f := range d.Type.Results.List {
		if len(f.Names) > 0 {
			return true
		}
	}
	return false
}

func isFileScope(pk *load.Package, o types.Object) bool {
	_, ok := o.(*types.PkgName)
	return ok
}

func containsIdent(text, name string) bool {
	for i := 0; i+len(name) <= len(text); i++ {
		if text[i:i+len(name)] != name {
			continue
		}
		before := i == 0 || !isIdentChar(text[i-1])
		after := i+len(name) == len(text) || !isIdentChar(text[i+len(name)])
		if before && after {
			return true
		}
	}
	return false
}

func isIdentChar(c byte) bool {
	return c == '_' || (c >= 'a' && c <= 'z') || (c >= 'A' && c <= 'Z') || (c >= '0' && c <= '9')
}

func countReturns(body *ast.BlockStmt) int {
	n := 0
	ast.Inspect(body, func(m ast.Node) bool {
		switch m.(type) {
		case *ast.FuncLit:
			return false
		case *ast.ReturnStmt:
			n++
		}
		return true
	})
	return n
}

// substRange renders hsrc[lo:hi] with the identifier substitutions that fall inside it applied.
func substRange(h *helper, hsrc []byte, htf *token.File, lo, hi int, root ast.Node, subst map[types.Object]string) string {
	type rep struct {
		s, e int
		t    string
	}
	var reps []rep
	ast.Inspect(root, func(m ast.Node) bool {
		if x, ok := m.(*ast.Ident); ok {
			if o := h.pk.Info.Uses[x]; o != nil {
				if t, ok := subst[o]; ok {
					s, e := htf.Offset(x.Pos()), htf.Offset(x.End())
					if s >= lo && e <= hi {
						reps = append(reps, rep{s, e, t})
					}
				}
			}
		}
		return true
	})
	sort.Slice(reps, func(i, j int) bool { return reps[i].s > reps[j].s })
	out := append([]byte(nil), hsrc[lo:hi]...)
	for _, r := range reps {
		out = append(out[:r.s-lo], append([]byte(r.t), out[r.e-lo:]...)...)
	}
	return string(out)
}

func dropUnreferenced(prog *load.Program, res *Result) *load.Program {
	type decl struct {
		file string
		d    *ast.FuncDecl
		obj  *types.Func
	}
	var cands []decl
	for _, pk := range prog.Sorted() {
		for i, f := range pk.Files {
			for _, d := range f.Decls {
				fd, ok := d.(*ast.FuncDecl)
				if !ok || fd.Body == nil || baseline[FuncKey(pk.Path, fd)] || !inScope(pk.Path) {
					continue
				}
				if obj, _ := pk.Info.Defs[fd.Name].(*types.Func); obj != nil && !obj.Exported() {
					cands = append(cands, decl{pk.FileNames[i], fd, obj})
				}
			}
		}
	}
	if len(cands) == 0 {
		return nil
	}
	used := map[*types.Func]bool{}
	for _, pk := range prog.Sorted() {
		for _, o := range pk.Info.Uses {
			if f, ok := o.(*types.Func); ok {
				used[f.Origin()] = true
			}
		}
	}
	files := map[string][]byte{}
	byFile := map[string][]decl{}
	for _, c := range cands {
		if !used[c.obj] {
			byFile[c.file] = append(byFile[c.file], c)
		}
	}
	for file, ds := range byFile {
		src, err := prog.ReadFile(file)
		if err != nil {
			return nil
		}
		tf := prog.Fset.File(ds[0].d.Pos())
		sort.Slice(ds, func(i, j int) bool { return ds[i].d.Pos() > ds[j].d.Pos() })
		out := append([]byte(nil), src...)
		for _, c := range ds {
			lo := tf.Offset(c.d.Pos())
			if c.d.Doc != nil {
				lo = tf.Offset(c.d.Doc.Pos())
			}
			hi := tf.Offset(c.d.End())
			out = append(out[:lo], out[hi:]...)
		}
		files[file] = out
	}
	if len(files) == 0 {
		return nil
	}
	next, err := prog.MutateMany(files, "normalised")
	if err != nil {
		return nil // e.g. an import became unused: keep the declarations
	}
	for f, b := range files {
		res.Files[f] = b
	}
	return next
}

// stableVariable reports whether arg is a local variable, parameter or receiver of the enclosing function declaration
// that is never reassigned, never has its address taken and is not a loop variable: reading it later (inside a
// goroutine or a deferred call) yields what reading it now does.
func stableVariable(pk *load.Package, stack []ast.Node, arg ast.Expr) bool {
	id, ok := ast.Unparen(arg).(*ast.Ident)
	if !ok {
		return false
	}
	v, ok := pk.Info.Uses[id].(*types.Var)
	if !ok || v.IsField() || v.Parent() == nil || v.Parent() == pk.Types.Scope() {
		return false
	}
	var fd *ast.FuncDecl
	for _, n := range stack {
		if d, ok := n.(*ast.FuncDecl); ok {
			fd = d
			break
		}
	}
	if fd == nil || fd.Body == nil {
		return false
	}
	stable := true
	isV := func(e ast.Expr) bool {
		x, ok := ast.Unparen(e).(*ast.Ident)
		return ok && (pk.Info.Uses[x] == types.Object(v) || pk.Info.Defs[x] == types.Object(v))
	}
	ast.Inspect(fd.Body, func(n ast.Node) bool {
		switch x := n.(type) {
		case *ast.AssignStmt:
			if x.Tok != token.DEFINE {
				for _, l := range x.Lhs {
					if isV(l) {
						stable = false
					}
				}
			}
		case *ast.IncDecStmt:
			if isV(x.X) {
				stable = false
			}
		case *ast.UnaryExpr:
			if x.Op == token.AND && isV(x.X) {
				stable = false
			}
		case *ast.RangeStmt:
			if (x.Key != nil && isV(x.Key)) || (x.Value != nil && isV(x.Value)) {
				stable = false
			}
		case *ast.ForStmt:
			if as, ok := x.Init.(*ast.AssignStmt); ok {
				for _, l := range as.Lhs {
					if isV(l) {
						stable = false
					}
				}
			}
		}
		return true
	})
	return stable
}
