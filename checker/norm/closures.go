package norm

import (
	"fmt"
	"go/ast"
	"go/token"
	"go/types"
	"os"
	"sort"

	"pgoverif/checker/load"
)

// inlineClosures rewrites, in the given files, the calls of local multi-statement closures into their bodies:
//
//	send := func(msg any) error { if err := enc.Encode(msg); err != nil { return drop(err) }; buf = append(buf, msg); return nil }
//	... if err := send(begin); err != nil { return err } ... return send(&value)
//
// is what a function with a repeated step looks like after "extract local function"; the rules read the step where it
// happens. A closure qualifies when its variable is defined once by `:=`, never assigned again, used only in call
// position (not under go / defer), and not inside its own body; every free local name of the body must denote the same
// variable at each call. The calls are replaced with the machinery used for new helper functions (inlineCall); if one
// call cannot be replaced the closure is left as it is. One closure per file and round, so that edits never overlap.
func inlineClosures(prog *load.Program, files map[string]bool, files2 map[string][]byte) (*load.Program, int) {
	cur := prog
	total := 0
	for round := 0; round < 10; round++ {
		out := map[string][]byte{}
		for _, pk := range cur.Sorted() {
			for i, f := range pk.Files {
				fname := pk.FileNames[i]
				if !files[fname] {
					continue
				}
				tf := cur.Fset.File(f.Pos())
				src, err := cur.ReadFile(fname)
				if tf == nil || err != nil {
					continue
				}
				edits := closureEdits(cur, pk, f, fname, tf, src)
				if len(edits) == 0 {
					continue
				}
				sort.Slice(edits, func(a, b int) bool { return edits[a].start > edits[b].start })
				buf := append([]byte(nil), src...)
				for _, e := range edits {
					buf = append(buf[:e.start], append([]byte(e.text), buf[e.end:]...)...)
				}
				out[fname] = buf
				total += len(edits) - 1
			}
		}
		if len(out) == 0 {
			break
		}
		next, err := cur.MutateMany(out, "normalised")
		if err != nil {
			break
		}
		for f, b := range out {
			files2[f] = b
		}
		cur = next
	}
	if cur == prog {
		return nil, 0
	}
	return cur, total
}

// closureEdits returns the edits that inline the first qualifying closure of the file (nil when there is none).
func closureEdits(prog *load.Program, pk *load.Package, f *ast.File, fname string, tf *token.File, src []byte) []edit {
	info := pk.Info
	type closure struct {
		def    *ast.AssignStmt
		obj    types.Object
		lit    *ast.FuncLit
		calls  []*ast.CallExpr
		stacks [][]ast.Node
		bad    bool
	}
	byObj := map[types.Object]*closure{}
	var order []*closure
	ast.Inspect(f, func(n ast.Node) bool {
		as, ok := n.(*ast.AssignStmt)
		if !ok || as.Tok != token.DEFINE || len(as.Lhs) != 1 || len(as.Rhs) != 1 {
			return true
		}
		id, ok := as.Lhs[0].(*ast.Ident)
		lit, ok2 := as.Rhs[0].(*ast.FuncLit)
		if !ok || !ok2 || id.Name == "_" || len(lit.Body.List) < 2 {
			return true
		}
		obj := info.Defs[id]
		if obj == nil {
			return true
		}
		c := &closure{def: as, obj: obj, lit: lit}
		byObj[obj] = c
		order = append(order, c)
		return true
	})
	if len(order) == 0 {
		return nil
	}
	var stack []ast.Node
	ast.Inspect(f, func(n ast.Node) bool {
		if n == nil {
			stack = stack[:len(stack)-1]
			return true
		}
		stack = append(stack, n)
		id, ok := n.(*ast.Ident)
		if !ok {
			return true
		}
		c := byObj[info.Uses[id]]
		if c == nil {
			return true
		}
		if len(stack) >= 2 {
			if p, isCall := stack[len(stack)-2].(*ast.CallExpr); isCall && ast.Unparen(p.Fun) == ast.Expr(id) {
				if len(stack) >= 3 {
					switch gp := stack[len(stack)-3].(type) {
					case *ast.GoStmt:
						if gp.Call == p {
							c.bad = true
						}
					case *ast.DeferStmt:
						if gp.Call == p {
							c.bad = true
						}
					}
				}
				if p.Pos() >= c.lit.Pos() && p.End() <= c.lit.End() {
					c.bad = true // recursive
				}
				c.calls = append(c.calls, p)
				c.stacks = append(c.stacks, append([]ast.Node(nil), stack[:len(stack)-1]...))
				return true
			}
		}
		c.bad = true
		return true
	})
	for _, c := range order {
		if os.Getenv("NORM_DEBUG") != "" {
			fmt.Fprintf(os.Stderr, "closure %s at %s: bad=%v calls=%d\n", c.obj.Name(), prog.Rel(c.def.Pos()), c.bad, len(c.calls))
		}
		if c.bad || len(c.calls) == 0 {
			continue
		}
		sig, _ := info.TypeOf(c.lit).(*types.Signature)
		if sig == nil {
			continue
		}
		// free local names of the body mean the same variable at every call
		ok := true
		for _, call := range c.calls {
			scope := pk.Types.Scope().Innermost(call.Pos())
			ast.Inspect(c.lit.Body, func(m ast.Node) bool {
				id, isId := m.(*ast.Ident)
				if !isId {
					return true
				}
				o := info.Uses[id]
				if o == nil || o.Parent() == nil || o.Pos() >= c.lit.Pos() && o.Pos() < c.lit.End() {
					return true
				}
				if v, isVar := o.(*types.Var); isVar && v.IsField() {
					return true
				}
				if o.Pkg() != nil && o.Pkg() != pk.Types {
					return true // pkg.Name: the package name itself is checked as a name of its own
				}
				if scope != nil {
					if _, found := scope.LookupParent(id.Name, call.Pos()); found != o {
						ok = false
					}
				}
				return true
			})
			// a call nested inside another call of the same closure would overlap
			for _, other := range c.calls {
				if other != call && other.Pos() >= call.Pos() && other.End() <= call.End() {
					ok = false
				}
			}
		}
		if !ok {
			continue
		}
		decl := &ast.FuncDecl{Name: c.def.Lhs[0].(*ast.Ident), Type: c.lit.Type, Body: c.lit.Body}
		h := &helper{pk: pk, file: f, name: fname, decl: decl, sig: sig}
		var edits []edit
		for k, call := range c.calls {
			e, why := inlineCall(prog, pk, f, src, tf, c.stacks[k], call, h, true)
			if why != "" {
				if os.Getenv("NORM_DEBUG") != "" {
					fmt.Fprintf(os.Stderr, "closure %s: call at %s left alone: %s\n", decl.Name.Name, prog.Rel(call.Pos()), why)
				}
				edits = nil
				break
			}
			edits = append(edits, e)
		}
		if len(edits) == 0 {
			continue
		}
		// edits must not overlap each other nor the definition
		all := append(edits, edit{start: tf.Offset(c.def.Pos()), end: tf.Offset(c.def.End()), text: ""})
		sorted := append([]edit(nil), all...)
		sort.Slice(sorted, func(a, b int) bool { return sorted[a].start < sorted[b].start })
		overlap := false
		for i := 1; i < len(sorted); i++ {
			if sorted[i].start < sorted[i-1].end {
				overlap = true
			}
		}
		if overlap {
			continue
		}
		return all
	}
	return nil
}
