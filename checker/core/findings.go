package core

import (
	"encoding/json"
	"fmt"
	"os"
	"strings"
)

// Finding is one entry of /verif/known_findings.json.
// Status "known": a genuine defect recorded rather than repaired; the matching
// violation is reported as KNOWN-FINDING and does not fail the check.
// Status "fixed:<commit>": repaired in /repo; suppresses nothing.
type Finding struct {
	Property  string `json:"property"`
	Rule      string `json:"rule"`
	Construct string `json:"construct"`
	What      string `json:"what"`
	Status    string `json:"status"`
}

func LoadFindings(path string) ([]Finding, error) {
	b, err := os.ReadFile(path)
	if err != nil {
		if os.IsNotExist(err) {
			return nil, nil
		}
		return nil, err
	}
	var fs []Finding
	if err := json.Unmarshal(b, &fs); err != nil {
		return nil, fmt.Errorf("known_findings.json: %w", err)
	}
	return fs, nil
}

// Match reports whether finding f (status known) covers obligation o for property prop.
func (f Finding) Match(prop string, o Obligation) bool {
	if !strings.HasPrefix(f.Status, "known") {
		return false
	}
	if f.Property != prop && f.Property != "*" {
		return false
	}
	return f.Rule == o.Rule && f.Construct == o.Construct
}
