// Package core holds the obligation/evidence plumbing shared by all rules.
package core

import (
	"fmt"
	"go/token"
	"sort"
	"strings"

	"pgoverif/checker/load"
)

type Verdict string

const (
	OK        Verdict = "ok"
	Violation Verdict = "violation"
	Undecided Verdict = "undecided"
	Lost      Verdict = "anchor-lost"
)

// Obligation is one decided instance of a rule. Key = Rule + ":" + Construct is
// stable across unrelated edits (no line numbers).
type Obligation struct {
	Rule      string  `json:"rule"`
	Construct string  `json:"construct"`
	Pos       string  `json:"pos"`
	Verdict   Verdict `json:"verdict"`
	Detail    string  `json:"detail,omitempty"`
}

func (o Obligation) Key() string { return o.Rule + ":" + o.Construct }

// Rule is one static rule. Run must report every instance it decides.
type Rule struct {
	ID    string
	Props []string // properties this rule contributes to
	Floor int      // minimal number of instances (ok+violation+undecided) on any tree
	Doc   string
	Run   func(c *Ctx)
}

// Ctx is handed to Rule.Run.
type Ctx struct {
	Prog *load.Program
	rule *Rule
	Obs  []Obligation
	// Stats are free-form counters reported in evidence (functions analysed, call sites...)
	Stats map[string]int
}

func NewCtx(p *load.Program, r *Rule) *Ctx {
	return &Ctx{Prog: p, rule: r, Stats: map[string]int{}}
}

// Fork returns an empty context for the same program and rule (used to judge alternatives before committing to one).
func (c *Ctx) Fork() *Ctx { return NewCtx(c.Prog, c.rule) }

func (c *Ctx) add(v Verdict, construct string, pos token.Pos, format string, args ...any) {
	c.Obs = append(c.Obs, Obligation{
		Rule: c.rule.ID, Construct: construct, Pos: c.Prog.Rel(pos), Verdict: v,
		Detail: fmt.Sprintf(format, args...),
	})
}

func (c *Ctx) Ok(construct string, pos token.Pos, format string, args ...any) {
	c.add(OK, construct, pos, format, args...)
}
func (c *Ctx) Bad(construct string, pos token.Pos, format string, args ...any) {
	c.add(Violation, construct, pos, format, args...)
}
func (c *Ctx) Undecided(construct string, pos token.Pos, format string, args ...any) {
	c.add(Undecided, construct, pos, format, args...)
}

// Lost reports an anchor (function, type, field) the rule is about that no
// longer resolves; this fails the check (a rule that matches nothing must not pass).
func (c *Ctx) Lost(construct string, format string, args ...any) {
	c.Obs = append(c.Obs, Obligation{Rule: c.rule.ID, Construct: construct, Pos: "?", Verdict: Lost,
		Detail: fmt.Sprintf(format, args...)})
}

// Check is a convenience: ok if cond else violation.
func (c *Ctx) Check(cond bool, construct string, pos token.Pos, okMsg, badMsg string) {
	if cond {
		c.Ok(construct, pos, "%s", okMsg)
	} else {
		c.Bad(construct, pos, "%s", badMsg)
	}
}

func (c *Ctx) Count(name string, n int) { c.Stats[name] += n }

// RunRule executes r on p, converting panics into a LOST obligation (a checker
// crash must fail the check, never pass it).
func RunRule(p *load.Program, r *Rule) (ctx *Ctx) {
	ctx = NewCtx(p, r)
	defer func() {
		if rec := recover(); rec != nil {
			ctx.Lost("CHECKER-PANIC", "rule %s panicked: %v", r.ID, rec)
		}
	}()
	r.Run(ctx)
	// de-duplicate identical keys with identical verdicts; disambiguate the rest
	seen := map[string]int{}
	for i := range ctx.Obs {
		k := ctx.Obs[i].Key()
		seen[k]++
		if n := seen[k]; n > 1 {
			ctx.Obs[i].Construct = fmt.Sprintf("%s#%d", ctx.Obs[i].Construct, n)
		}
	}
	return ctx
}

// SortObligations orders obligations by rule then construct.
func SortObligations(obs []Obligation) {
	sort.SliceStable(obs, func(i, j int) bool {
		if obs[i].Rule != obs[j].Rule {
			return obs[i].Rule < obs[j].Rule
		}
		return obs[i].Construct < obs[j].Construct
	})
}

// HasProp reports whether rule r serves property id.
func (r *Rule) HasProp(id string) bool {
	for _, p := range r.Props {
		if p == id {
			return true
		}
	}
	return false
}

// ShortPath trims the module prefix and well-known directory prefixes for readable construct keys.
func ShortPath(path string) string {
	path = strings.TrimPrefix(path, "github.com/DistCompiler/pgo/")
	for _, pre := range []string{"distsys/", "systems/", "pgo/test/files/"} {
		if strings.HasPrefix(path, pre) {
			return strings.TrimPrefix(path, pre)
		}
	}
	return path
}
