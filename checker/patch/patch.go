// Package patch applies a unified diff in memory (used to analyse a seeded
// change without touching /repo).
package patch

import (
	"fmt"
	"os"
	"path/filepath"
	"strconv"
	"strings"
)

type hunk struct {
	oldStart int
	old, new []string
}

// ApplyFile parses the diff at diffPath and returns new contents keyed by
// root-relative path for every modified, existing file.
func ApplyFile(diffPath, root string) (map[string][]byte, error) {
	b, err := os.ReadFile(diffPath)
	if err != nil {
		return nil, err
	}
	return Apply(string(b), root)
}

func Apply(diff, root string) (map[string][]byte, error) {
	lines := strings.Split(diff, "\n")
	out := map[string][]byte{}
	i := 0
	for i < len(lines) {
		if !strings.HasPrefix(lines[i], "--- ") || i+1 >= len(lines) || !strings.HasPrefix(lines[i+1], "+++ ") {
			i++
			continue
		}
		oldName := fileName(lines[i][4:])
		newName := fileName(lines[i+1][4:])
		i += 2
		var hunks []hunk
		for i < len(lines) && strings.HasPrefix(lines[i], "@@") {
			h, next, err := parseHunk(lines, i)
			if err != nil {
				return nil, err
			}
			hunks = append(hunks, h)
			i = next
		}
		if oldName == "/dev/null" || newName == "/dev/null" {
			return nil, fmt.Errorf("patch adds or deletes file %s%s: not supported in memory", oldName, newName)
		}
		path := filepath.Join(root, newName)
		src, err := os.ReadFile(path)
		if err != nil {
			return nil, err
		}
		res, err := applyHunks(strings.Split(string(src), "\n"), hunks)
		if err != nil {
			return nil, fmt.Errorf("%s: %w", newName, err)
		}
		out[newName] = []byte(strings.Join(res, "\n"))
	}
	if len(out) == 0 {
		return nil, fmt.Errorf("no file hunks found in diff")
	}
	return out, nil
}

func fileName(s string) string {
	if i := strings.IndexByte(s, '\t'); i >= 0 {
		s = s[:i]
	}
	s = strings.TrimSpace(s)
	if s == "/dev/null" {
		return s
	}
	if strings.HasPrefix(s, "a/") || strings.HasPrefix(s, "b/") {
		s = s[2:]
	}
	return s
}

func parseHunk(lines []string, i int) (hunk, int, error) {
	// @@ -l,s +l,s @@
	hdr := lines[i]
	parts := strings.Fields(hdr)
	if len(parts) < 3 {
		return hunk{}, 0, fmt.Errorf("bad hunk header %q", hdr)
	}
	o := strings.TrimPrefix(parts[1], "-")
	if j := strings.IndexByte(o, ','); j >= 0 {
		o = o[:j]
	}
	start, err := strconv.Atoi(o)
	if err != nil {
		return hunk{}, 0, fmt.Errorf("bad hunk header %q", hdr)
	}
	h := hunk{oldStart: start}
	i++
	for i < len(lines) {
		l := lines[i]
		if strings.HasPrefix(l, "@@") || strings.HasPrefix(l, "--- ") || strings.HasPrefix(l, "diff ") {
			break
		}
		switch {
		case strings.HasPrefix(l, "+"):
			h.new = append(h.new, l[1:])
		case strings.HasPrefix(l, "-"):
			h.old = append(h.old, l[1:])
		case strings.HasPrefix(l, " "):
			h.old = append(h.old, l[1:])
			h.new = append(h.new, l[1:])
		case l == "":
			// blank context line with stripped trailing space, or end of diff
			if i == len(lines)-1 {
				i++
				continue
			}
			h.old = append(h.old, "")
			h.new = append(h.new, "")
		case strings.HasPrefix(l, "\\"):
			// "\ No newline at end of file"
		default:
			return h, i, nil
		}
		i++
	}
	return h, i, nil
}

func matchAt(src []string, at int, old []string) bool {
	if at < 0 || at+len(old) > len(src) {
		return false
	}
	for k, l := range old {
		if src[at+k] != l {
			return false
		}
	}
	return true
}

func applyHunks(src []string, hunks []hunk) ([]string, error) {
	offset := 0
	for _, h := range hunks {
		at := h.oldStart - 1 + offset
		if len(h.old) == 0 {
			at = h.oldStart + offset
		}
		found := -1
		for d := 0; d < len(src)+1; d++ {
			if matchAt(src, at+d, h.old) {
				found = at + d
				break
			}
			if matchAt(src, at-d, h.old) {
				found = at - d
				break
			}
		}
		if found < 0 {
			return nil, fmt.Errorf("hunk at line %d does not apply", h.oldStart)
		}
		res := append([]string{}, src[:found]...)
		res = append(res, h.new...)
		res = append(res, src[found+len(h.old):]...)
		offset += len(h.new) - len(h.old) + (found - at)
		src = res
	}
	return src, nil
}
