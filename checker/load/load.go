// Package load loads the /repo go.work workspace with go/packages and offers
// in-memory single-file mutation (re-typecheck of the mutated package and of
// every workspace package that imports it) for the checker's self-tests.
package load

import (
	"bufio"
	"fmt"
	"go/ast"
	"go/build"
	"go/importer"
	"go/parser"
	"go/token"
	"go/types"
	"os"
	"path/filepath"
	"sort"
	"strings"
	"sync"

	"golang.org/x/tools/go/packages"
)

// Package is one type-checked workspace package.
type Package struct {
	Path      string
	Name      string
	Dir       string
	Files     []*ast.File
	FileNames []string // parallel to Files, absolute paths
	Types     *types.Package
	Info      *types.Info
	Imports   []string // workspace+external import paths
}

// Program is the set of workspace packages (non-test), type-checked.
type Program struct {
	Fset     *token.FileSet
	Root     string
	Pkgs     map[string]*Package
	Order    []string                  // topological order (deps first) of workspace packages
	external map[string]*types.Package // non-workspace packages by path (from export data)
	Mutation string                    // description when this is a mutated program
	Texts    map[string][]byte         // in-memory content of non-Go files (specifications) replaced by a mutation; absolute path -> content
}

// Sorted returns packages sorted by path.
func (p *Program) Sorted() []*Package {
	var out []*Package
	for _, k := range p.Order {
		out = append(out, p.Pkgs[k])
	}
	sort.Slice(out, func(i, j int) bool { return out[i].Path < out[j].Path })
	return out
}

// Pkg returns the package with the given import path or nil.
func (p *Program) Pkg(path string) *Package { return p.Pkgs[path] }

// Rel returns a /repo-relative rendering of a position.
func (p *Program) Rel(pos token.Pos) string {
	if !pos.IsValid() {
		return "?"
	}
	ps := p.Fset.Position(pos)
	rel, err := filepath.Rel(p.Root, ps.Filename)
	if err != nil {
		rel = ps.Filename
	}
	return fmt.Sprintf("%s:%d", rel, ps.Line)
}

const goroot1268 = "/opt/veriftools/go1.26.8"

func workspacePatterns(root string) ([]string, error) {
	f, err := os.Open(filepath.Join(root, "go.work"))
	if err != nil {
		return nil, err
	}
	defer f.Close()
	var pats []string
	sc := bufio.NewScanner(f)
	inUse := false
	for sc.Scan() {
		line := strings.TrimSpace(sc.Text())
		if i := strings.Index(line, "//"); i >= 0 {
			line = strings.TrimSpace(line[:i])
		}
		switch {
		case line == "":
		case line == "use (":
			inUse = true
		case line == ")":
			inUse = false
		case strings.HasPrefix(line, "use "):
			pats = append(pats, strings.TrimSpace(strings.TrimPrefix(line, "use "))+"/...")
		case inUse:
			pats = append(pats, line+"/...")
		}
	}
	return pats, sc.Err()
}

func childEnv() []string {
	var env []string
	for _, kv := range os.Environ() {
		k := kv
		if i := strings.IndexByte(kv, '='); i >= 0 {
			k = kv[:i]
		}
		switch k {
		case "GOFLAGS", "GOWORK", "GOTOOLCHAIN", "GOPROXY", "PATH", "GOROOT", "GOSUMDB", "GONOSUMDB", "GONOSUMCHECK":
			continue
		}
		env = append(env, kv)
	}
	path := os.Getenv("PATH")
	if _, err := os.Stat(goroot1268 + "/bin/go"); err == nil {
		env = append(env, "PATH="+goroot1268+"/bin:"+path, "GOTOOLCHAIN=local", "GOROOT="+goroot1268)
	} else {
		// fallback: the default launcher switches to the cached 1.24.0 toolchain
		env = append(env, "PATH="+path)
	}
	env = append(env, "GOFLAGS=", "GOPROXY=off")
	return env
}

// Load loads every non-test package of the workspace rooted at root.
func Load(root string) (*Program, error) {
	pats, err := workspacePatterns(root)
	if err != nil {
		return nil, fmt.Errorf("LOAD-FAILED: go.work: %w", err)
	}
	if len(pats) == 0 {
		return nil, fmt.Errorf("LOAD-FAILED: no use lines in go.work")
	}
	// exec.LookPath resolves "go" against this process's PATH, not cfg.Env
	if _, err := os.Stat(goroot1268 + "/bin/go"); err == nil {
		os.Setenv("PATH", goroot1268+"/bin:"+os.Getenv("PATH"))
	}
	fset := token.NewFileSet()
	cfg := &packages.Config{
		Mode: packages.NeedName | packages.NeedFiles | packages.NeedCompiledGoFiles | packages.NeedImports |
			packages.NeedTypes | packages.NeedTypesSizes | packages.NeedSyntax | packages.NeedTypesInfo | packages.NeedModule,
		Dir:   root,
		Env:   childEnv(),
		Fset:  fset,
		Tests: false,
		ParseFile: func(fset *token.FileSet, filename string, src []byte) (*ast.File, error) {
			return parser.ParseFile(fset, filename, src, parser.ParseComments|parser.SkipObjectResolution)
		},
	}
	pkgs, err := packages.Load(cfg, pats...)
	if err != nil {
		return nil, fmt.Errorf("LOAD-FAILED: %w", err)
	}
	prog := &Program{Fset: fset, Root: root, Pkgs: map[string]*Package{}, external: map[string]*types.Package{}}
	var errs []string
	for _, p := range pkgs {
		for _, e := range p.Errors {
			errs = append(errs, p.PkgPath+": "+e.Error())
		}
		if p.Types == nil || p.TypesInfo == nil {
			errs = append(errs, p.PkgPath+": no type information")
			continue
		}
		if len(p.Syntax) == 0 {
			continue
		}
		lp := &Package{Path: p.PkgPath, Name: p.Name, Files: p.Syntax, Types: p.Types, Info: p.TypesInfo}
		for _, f := range p.Syntax {
			lp.FileNames = append(lp.FileNames, fset.Position(f.Pos()).Filename)
		}
		if len(lp.FileNames) > 0 {
			lp.Dir = filepath.Dir(lp.FileNames[0])
		}
		for ip := range p.Imports {
			lp.Imports = append(lp.Imports, ip)
		}
		sort.Strings(lp.Imports)
		prog.Pkgs[lp.Path] = lp
	}
	if len(errs) > 0 {
		sort.Strings(errs)
		if len(errs) > 20 {
			errs = errs[:20]
		}
		return nil, fmt.Errorf("LOAD-FAILED: type errors:\n  %s", strings.Join(errs, "\n  "))
	}
	if len(prog.Pkgs) == 0 {
		return nil, fmt.Errorf("LOAD-FAILED: zero packages loaded")
	}
	// external packages: walk types imports
	var walk func(tp *types.Package)
	walk = func(tp *types.Package) {
		if _, ws := prog.Pkgs[tp.Path()]; ws {
			return
		}
		if _, seen := prog.external[tp.Path()]; seen {
			return
		}
		prog.external[tp.Path()] = tp
		for _, ip := range tp.Imports() {
			walk(ip)
		}
	}
	for _, p := range prog.Pkgs {
		for _, ip := range p.Types.Imports() {
			walk(ip)
		}
	}
	prog.computeOrder()
	return prog, nil
}

func (p *Program) computeOrder() {
	p.Order = nil
	seen := map[string]bool{}
	var visit func(path string)
	visit = func(path string) {
		if seen[path] {
			return
		}
		seen[path] = true
		pk := p.Pkgs[path]
		for _, ip := range pk.Imports {
			if _, ok := p.Pkgs[ip]; ok {
				visit(ip)
			}
		}
		p.Order = append(p.Order, path)
	}
	var keys []string
	for k := range p.Pkgs {
		keys = append(keys, k)
	}
	sort.Strings(keys)
	for _, k := range keys {
		visit(k)
	}
}

type mapImporter struct {
	ws  map[string]*Package
	ext map[string]*types.Package
}

func (m mapImporter) Import(path string) (*types.Package, error) {
	if p, ok := m.ws[path]; ok && p.Types != nil {
		return p.Types, nil
	}
	if p, ok := m.ext[path]; ok && p != nil && p.Complete() {
		return p, nil
	}
	if path == "unsafe" {
		return types.Unsafe, nil
	}
	// a package the unmutated program did not import (a mutant that adds `import "sync/atomic"`): standard-library
	// packages are type-checked from source
	if !strings.Contains(strings.SplitN(path, "/", 2)[0], ".") {
		srcImporterOnce.Do(func() {
			if build.Default.GOROOT == "" || !dirExists(filepath.Join(build.Default.GOROOT, "src")) {
				build.Default.GOROOT = goroot1268
			}
			srcImporter = importer.ForCompiler(token.NewFileSet(), "source", nil)
		})
		srcImporterMu.Lock()
		defer srcImporterMu.Unlock()
		if p, err := srcImporter.Import(path); err == nil {
			return p, nil
		}
	}
	return nil, fmt.Errorf("package %q not available to the in-memory importer", path)
}

func dirExists(p string) bool {
	st, err := os.Stat(p)
	return err == nil && st.IsDir()
}

var (
	srcImporter     types.Importer
	srcImporterOnce sync.Once
	srcImporterMu   sync.Mutex
)

func newInfo() *types.Info {
	return &types.Info{
		Types:        map[ast.Expr]types.TypeAndValue{},
		Defs:         map[*ast.Ident]types.Object{},
		Uses:         map[*ast.Ident]types.Object{},
		Implicits:    map[ast.Node]types.Object{},
		Instances:    map[*ast.Ident]types.Instance{},
		Scopes:       map[ast.Node]*types.Scope{},
		Selections:   map[*ast.SelectorExpr]*types.Selection{},
		FileVersions: map[*ast.File]string{},
	}
}

// Mutate returns a new Program in which file (path relative to Root or
// absolute) has content src. The package owning it and every workspace package
// importing it (transitively) are re-parsed where needed and re-typechecked.
// Type errors are returned as an error (a seed must still compile).
func (p *Program) Mutate(file string, src []byte, desc string) (*Program, error) {
	return p.MutateMany(map[string][]byte{file: src}, desc)
}

// MutateMany is Mutate for several files at once.
func (p *Program) MutateMany(files map[string][]byte, desc string) (*Program, error) {
	abs := map[string][]byte{}
	for f, src := range files {
		if !filepath.IsAbs(f) {
			f = filepath.Join(p.Root, f)
		}
		abs[f] = src
	}
	texts := map[string][]byte{}
	for k, v := range p.Texts {
		texts[k] = v
	}
	for f, src := range abs {
		texts[f] = src // ReadFile serves the mutated content of Go files too (the normaliser re-reads sources)
		if !strings.HasSuffix(f, ".go") {
			delete(abs, f)
		}
	}
	dirty := map[string]bool{}
	for f := range abs {
		found := false
		for _, pk := range p.Pkgs {
			for _, fn := range pk.FileNames {
				if fn == f {
					dirty[pk.Path] = true
					found = true
				}
			}
		}
		if !found {
			return nil, fmt.Errorf("mutate: file %s is not part of any loaded package", f)
		}
	}
	// propagate to importers
	for changed := true; changed; {
		changed = false
		for _, path := range p.Order {
			if dirty[path] {
				continue
			}
			for _, ip := range p.Pkgs[path].Imports {
				if dirty[ip] {
					dirty[path] = true
					changed = true
					break
				}
			}
		}
	}
	np := &Program{Fset: p.Fset, Root: p.Root, Pkgs: map[string]*Package{}, external: p.external, Mutation: desc, Texts: texts}
	for k, v := range p.Pkgs {
		np.Pkgs[k] = v
	}
	imp := mapImporter{ws: np.Pkgs, ext: p.external}
	for _, path := range p.Order {
		if !dirty[path] {
			continue
		}
		old := p.Pkgs[path]
		nk := &Package{Path: old.Path, Name: old.Name, Dir: old.Dir, FileNames: old.FileNames, Imports: old.Imports}
		for i, fn := range old.FileNames {
			if src, ok := abs[fn]; ok {
				f, err := parser.ParseFile(p.Fset, fn, src, parser.ParseComments|parser.SkipObjectResolution)
				if err != nil {
					return nil, fmt.Errorf("mutate: parse %s: %w", fn, err)
				}
				nk.Files = append(nk.Files, f)
			} else {
				nk.Files = append(nk.Files, old.Files[i])
			}
		}
		nk.Info = newInfo()
		var terrs []string
		conf := types.Config{
			Importer: imp,
			Error:    func(err error) { terrs = append(terrs, err.Error()) },
			Sizes:    types.SizesFor("gc", "amd64"),
		}
		tp, _ := conf.Check(path, p.Fset, nk.Files, nk.Info)
		if len(terrs) > 0 {
			if len(terrs) > 5 {
				terrs = terrs[:5]
			}
			return nil, fmt.Errorf("mutate: %s does not type-check: %s", path, strings.Join(terrs, "; "))
		}
		nk.Types = tp
		np.Pkgs[path] = nk
	}
	np.Order = p.Order
	return np, nil
}

// ReadFile returns the on-disk content of a loaded file (relative to Root or absolute).
func (p *Program) ReadFile(file string) ([]byte, error) {
	if !filepath.IsAbs(file) {
		file = filepath.Join(p.Root, file)
	}
	if src, ok := p.Texts[file]; ok {
		return src, nil
	}
	return os.ReadFile(file)
}
