// Package scalatab reads the flat declarative operator tables of the Scala
// compiler as text (no Scala toolchain exists in the sandbox): the built-in
// module tables of BuiltinModules.scala, the unsupportedOperators list of
// MPCalGoCodegenPass.scala, the symbol case objects of AST.scala and the
// prefix/postfix tables of TLAMeta.scala. Any line of those blocks that the
// lexer cannot classify is an error (nothing is skipped silently).
package scalatab

import (
	"fmt"
	"os"
	"path/filepath"
	"regexp"
	"strconv"
	"strings"
)

// Op is one built-in operator the front end knows.
type Op struct {
	Module string
	Name   string // alpha name, or the case-object name of the symbol (e.g. PlusSymbol)
	IsSym  bool
	Arity  int
	Repr   string // first textual representation for symbols ("+"), name for alpha ops
}

type Tables struct {
	Ops         []Op            // every operator of every builtin module (incl. Intrinsics, PCalNames)
	Unsupported map[string]bool // by Name
	SymRepr     map[string][]string
	Prefix      map[string]bool
	Postfix     map[string]bool
	PrefixPrec  map[string][2]int // spelling -> (low, high) precedence, from TLAMeta.prefixOperators
	InfixPrec   map[string][3]int // spelling -> (low, high, left associative), from TLAMeta.infixOperators
	PostfixPrec map[string]int
}

var (
	reObject   = regexp.MustCompile(`^\s*object\s+(\w+)\s+extends\s+TLABuiltinModule\("([^"]*)"\)\s*\{\s*$`)
	reSymOp    = regexp.MustCompile(`^\s*symOp\(TLASymbol\.(\w+)\)\s*$`)
	reAlphaOp  = regexp.MustCompile(`^\s*alphaOp\("([^"]+)",\s*(\d+)\)\s*$`)
	reExtend   = regexp.MustCompile(`^\s*extend\((\w+)\)\s*$`)
	reOpAlpha  = regexp.MustCompile(`^\s*op\((\w+)\.memberAlpha\("([^"]+)"\)\)\s*$`)
	reOpSym    = regexp.MustCompile(`^\s*op\((\w+)\.memberSym\(TLASymbol\.(\w+)\)\)\s*$`)
	reUnsAlpha = regexp.MustCompile(`^\s*BuiltinModules\.(\w+)\.memberAlpha\("([^"]+)"\),\s*$`)
	reUnsSym   = regexp.MustCompile(`^\s*BuiltinModules\.(\w+)\.memberSym\(TLASymbol\.(\w+)\),\s*$`)
	reCaseObj  = regexp.MustCompile(`^\s*case object (\w+) extends Symbol\((.*?)\)\s*(\{\s*)?$`)
	reRaw      = regexp.MustCompile(`raw"""(.*?)"""`)
	rePrec     = regexp.MustCompile(`\d+`)
	reStr      = regexp.MustCompile(`"((?:[^"\\]|\\.)*)"`)
)

func stripComment(l string) string {
	if i := strings.Index(l, "//"); i >= 0 {
		l = l[:i]
	}
	return strings.TrimRight(l, " \t")
}

// Load reads the four Scala files under root (the repository root).
func Load(root string) (*Tables, error) {
	t := &Tables{Unsupported: map[string]bool{}, SymRepr: map[string][]string{}, Prefix: map[string]bool{}, Postfix: map[string]bool{},
		PrefixPrec: map[string][2]int{}, InfixPrec: map[string][3]int{}, PostfixPrec: map[string]int{}}
	src := filepath.Join(root, "pgo", "src")
	// --- AST.scala: symbols
	ast, err := os.ReadFile(filepath.Join(src, "model", "tla", "AST.scala"))
	if err != nil {
		return nil, err
	}
	for _, l := range strings.Split(string(ast), "\n") {
		if m := reCaseObj.FindStringSubmatch(l); m != nil {
			var reps []string
			for _, s := range reStr.FindAllStringSubmatch(m[2], -1) {
				u, err := strconv.Unquote(`"` + s[1] + `"`)
				if err != nil {
					u = s[1]
				}
				reps = append(reps, u)
			}
			if len(reps) == 0 {
				return nil, fmt.Errorf("AST.scala: symbol %s has no representation: %q", m[1], l)
			}
			t.SymRepr[m[1]] = reps
		}
	}
	if len(t.SymRepr) < 60 {
		return nil, fmt.Errorf("AST.scala: only %d symbol case objects recognised", len(t.SymRepr))
	}
	// --- TLAMeta.scala: prefix / postfix
	meta, err := os.ReadFile(filepath.Join(src, "parser", "TLAMeta.scala"))
	if err != nil {
		return nil, err
	}
	mode := ""
	for _, l := range strings.Split(string(meta), "\n") {
		switch {
		case strings.Contains(l, "val prefixOperators"):
			mode = "prefix"
			continue
		case strings.Contains(l, "val postfixOperators"):
			mode = "postfix"
			continue
		case strings.Contains(l, "val infixOperators"):
			mode = "infix"
			continue
		}
		if strings.TrimSpace(l) == ")" {
			mode = ""
			continue
		}
		if mode == "prefix" || mode == "postfix" {
			s := strings.TrimSpace(stripComment(l))
			if s == "" {
				continue
			}
			m := reRaw.FindStringSubmatch(s)
			if m == nil {
				return nil, fmt.Errorf("TLAMeta.scala: unclassified line in %sOperators: %q", mode, l)
			}
			nums := rePrec.FindAllString(s[strings.Index(s, "->"):], -1)
			if mode == "prefix" {
				t.Prefix[m[1]] = true
				if len(nums) != 2 {
					return nil, fmt.Errorf("TLAMeta.scala: prefix operator without (low, high): %q", l)
				}
				lo, _ := strconv.Atoi(nums[0])
				hi, _ := strconv.Atoi(nums[1])
				t.PrefixPrec[m[1]] = [2]int{lo, hi}
			} else {
				t.Postfix[m[1]] = true
				if len(nums) != 1 {
					return nil, fmt.Errorf("TLAMeta.scala: postfix operator without precedence: %q", l)
				}
				pr, _ := strconv.Atoi(nums[0])
				t.PostfixPrec[m[1]] = pr
			}
		}
		if mode == "infix" {
			s := strings.TrimSpace(l) // no comment stripping: "//" is an operator spelling here
			if s == "" {
				continue
			}
			m := reRaw.FindStringSubmatch(s)
			if m == nil || !strings.Contains(s, "->") {
				return nil, fmt.Errorf("TLAMeta.scala: unclassified line in infixOperators: %q", l)
			}
			tail := s[strings.LastIndex(s, "->"):]
			nums := rePrec.FindAllString(tail, -1)
			if len(nums) != 2 || !(strings.Contains(tail, "true") || strings.Contains(tail, "false")) {
				return nil, fmt.Errorf("TLAMeta.scala: infix operator without (low, high, assoc): %q", l)
			}
			lo, _ := strconv.Atoi(nums[0])
			hi, _ := strconv.Atoi(nums[1])
			as := 0
			if strings.Contains(tail, "true") {
				as = 1
			}
			name := strings.ReplaceAll(strings.ReplaceAll(m[1], `${"\\"}`, `\`), "$$", "$")
			t.InfixPrec[name] = [3]int{lo, hi, as}
		}
	}
	if len(t.InfixPrec) < 60 {
		return nil, fmt.Errorf("TLAMeta.scala: only %d infix operators with precedences recognised", len(t.InfixPrec))
	}
	if len(t.Prefix) < 5 || len(t.Postfix) < 2 {
		return nil, fmt.Errorf("TLAMeta.scala: prefix/postfix tables not recognised (%d/%d)", len(t.Prefix), len(t.Postfix))
	}
	symArity := func(sym string) (int, string, error) {
		reps, ok := t.SymRepr[sym]
		if !ok {
			return 0, "", fmt.Errorf("symbol %s not declared in AST.scala", sym)
		}
		if t.Prefix[reps[0]] || t.Postfix[reps[0]] {
			return 1, reps[0], nil
		}
		return 2, reps[0], nil
	}
	// --- BuiltinModules.scala
	bm, err := os.ReadFile(filepath.Join(src, "model", "tla", "BuiltinModules.scala"))
	if err != nil {
		return nil, err
	}
	cur := ""
	byMod := map[string][]Op{}
	var order []string
	find := func(mod, name string) (Op, bool) {
		for _, o := range byMod[mod] {
			if o.Name == name {
				return o, true
			}
		}
		return Op{}, false
	}
	for ln, raw := range strings.Split(string(bm), "\n") {
		l := stripComment(raw)
		if m := reObject.FindStringSubmatch(l); m != nil {
			cur = m[1]
			order = append(order, cur)
			continue
		}
		if cur == "" {
			continue
		}
		s := strings.TrimSpace(l)
		switch {
		case s == "":
		case s == "}":
			cur = ""
		case reSymOp.MatchString(l):
			m := reSymOp.FindStringSubmatch(l)
			ar, rep, err := symArity(m[1])
			if err != nil {
				return nil, fmt.Errorf("BuiltinModules.scala:%d: %w", ln+1, err)
			}
			byMod[cur] = append(byMod[cur], Op{Module: cur, Name: m[1], IsSym: true, Arity: ar, Repr: rep})
		case reAlphaOp.MatchString(l):
			m := reAlphaOp.FindStringSubmatch(l)
			n, _ := strconv.Atoi(m[2])
			byMod[cur] = append(byMod[cur], Op{Module: cur, Name: m[1], Arity: n, Repr: m[1]})
		case reExtend.MatchString(l):
			m := reExtend.FindStringSubmatch(l)
			for _, o := range byMod[m[1]] {
				o.Module = cur
				byMod[cur] = append(byMod[cur], o)
			}
		case reOpAlpha.MatchString(l):
			m := reOpAlpha.FindStringSubmatch(l)
			o, ok := find(m[1], m[2])
			if !ok {
				return nil, fmt.Errorf("BuiltinModules.scala:%d: %s.%s not declared before use", ln+1, m[1], m[2])
			}
			o.Module = cur
			byMod[cur] = append(byMod[cur], o)
		case reOpSym.MatchString(l):
			m := reOpSym.FindStringSubmatch(l)
			o, ok := find(m[1], m[2])
			if !ok {
				return nil, fmt.Errorf("BuiltinModules.scala:%d: %s.%s not declared before use", ln+1, m[1], m[2])
			}
			o.Module = cur
			byMod[cur] = append(byMod[cur], o)
		default:
			return nil, fmt.Errorf("BuiltinModules.scala:%d: unclassified line in module %s: %q", ln+1, cur, raw)
		}
	}
	for _, mod := range order {
		t.Ops = append(t.Ops, byMod[mod]...)
	}
	if len(t.Ops) < 80 {
		return nil, fmt.Errorf("BuiltinModules.scala: only %d operator declarations recognised", len(t.Ops))
	}
	// --- MPCalGoCodegenPass.scala: unsupportedOperators
	cg, err := os.ReadFile(filepath.Join(src, "trans", "MPCalGoCodegenPass.scala"))
	if err != nil {
		return nil, err
	}
	in := false
	found := false
	for ln, raw := range strings.Split(string(cg), "\n") {
		l := stripComment(raw)
		if strings.Contains(l, "lazy val unsupportedOperators") {
			in, found = true, true
			continue
		}
		if !in {
			continue
		}
		s := strings.TrimSpace(l)
		switch {
		case s == "":
		case s == ")":
			in = false
		case reUnsAlpha.MatchString(l):
			t.Unsupported[reUnsAlpha.FindStringSubmatch(l)[2]] = true
		case reUnsSym.MatchString(l):
			t.Unsupported[reUnsSym.FindStringSubmatch(l)[2]] = true
		default:
			return nil, fmt.Errorf("MPCalGoCodegenPass.scala:%d: unclassified line in unsupportedOperators: %q", ln+1, raw)
		}
	}
	if !found || len(t.Unsupported) < 20 {
		return nil, fmt.Errorf("MPCalGoCodegenPass.scala: unsupportedOperators not recognised (%d entries)", len(t.Unsupported))
	}
	return t, nil
}

// Emittable returns the distinct operators the Go back end can emit a call to:
// declared in some builtin module and not listed as unsupported (by name, as
// the compiler matches unsupported operators by identifier across modules).
func (t *Tables) Emittable() []Op {
	seen := map[string]bool{}
	var out []Op
	for _, o := range t.Ops {
		if t.Unsupported[o.Name] || seen[o.Name] {
			continue
		}
		seen[o.Name] = true
		out = append(out, o)
	}
	return out
}
