package rules

import (
	"fmt"
	"go/ast"
	"go/token"
	"go/types"

	"pgoverif/checker/an"
	"pgoverif/checker/core"
)

func init() {
	register(&core.Rule{ID: "SNAPSHOT-ONCE", Props: []string{"C01", "C13"}, Floor: 3,
		Doc: "a resource that snapshots its state on first touch (S = L in a section operation, L = S in Abort) takes the snapshot only where its 'has snapshot' flag is false, sets the flag with it, restores only where the flag is true, and clears the flag in Commit and Abort: a snapshot retaken by a later write of the same section no longer is the committed state",
		Run: runSnapshotOnce})
	register(&core.Rule{ID: "STR-QUOTE", Props: []string{"C05"}, Floor: 1,
		Doc: "a TLA+ string value prints through strconv.Quote: a string containing a quote or backslash must not print as something that parses as a different value",
		Run: runStrQuote})
	register(&core.Rule{ID: "VCLOCK-MERGE", Props: []string{"C18"}, Floor: 1,
		Doc: "tla.VClock.Merge folds the entries of one operand into the other: the accumulator starts from one of the two swap variables and the iterated clock is the other one, both initialised from the two operands and exchanged only together",
		Run: runVClockMerge})
}

func runSnapshotOnce(c *core.Ctx) {
	e := EnvOf(c.Prog)
	iface := resourceIface(c, e)
	if iface == nil {
		return
	}
	for _, ri := range resourceImpls(e, iface) {
		abort := ri.methods["Abort"]
		if abort == nil || !ri.own["Abort"] {
			continue
		}
		st, ok := ri.named.Underlying().(*types.Struct)
		if !ok {
			continue
		}
		isOwn := func(v *types.Var) bool {
			for i := 0; i < st.NumFields(); i++ {
				if st.Field(i) == v {
					return true
				}
			}
			return false
		}
		ainfo := abort.Pkg.Info
		// restore pairs: L = S in Abort
		type pair struct{ live, snap *types.Var }
		var pairs []pair
		ast.Inspect(abort.Body(), func(m ast.Node) bool {
			if as, ok := m.(*ast.AssignStmt); ok && len(as.Lhs) == 1 && len(as.Rhs) == 1 {
				l, s := an.SelectedField(ainfo, as.Lhs[0]), an.SelectedField(ainfo, as.Rhs[0])
				if l != nil && s != nil && l != s && isOwn(l) && isOwn(s) {
					pairs = append(pairs, pair{l, s})
				}
			}
			return true
		})
		tk := an.TypeKey(ri.named)
		for _, p := range pairs {
			// snapshot sites S = L in section operations
			for _, op := range []string{"WriteValue", "ReadValue", "Index"} {
				f := ri.methods[op]
				if f == nil || !ri.own[op] {
					continue
				}
				info := f.Pkg.Info
				g := e.Graph(f)
				snaps := g.FindAtoms(func(a ast.Node) bool {
					rhs, ok := fieldIsAssigned(info, a, p.snap)
					return ok && rhs != nil && an.SelectedField(info, rhs) == p.live
				})
				for i, sn := range snaps {
					key := fmt.Sprintf("%s.%s:snapshot(%s<-%s)#%d", tk, op, p.snap.Name(), p.live.Name(), i+1)
					// the flag: a bool field of the type whose falseness guards the snapshot
					var flag *types.Var
					for k := 0; k < st.NumFields(); k++ {
						fv := st.Field(k)
						if b, ok := fv.Type().Underlying().(*types.Basic); !ok || b.Kind() != types.Bool {
							continue
						}
						if guardedWhere(g, sn, func(ex ast.Expr, val bool) bool { return an.SelectedField(info, ex) == fv && !val }) {
							flag = fv
						}
					}
					if flag == nil {
						c.Bad(key, sn.Pos(), "%s.%s copies %s into the rollback field %s without checking a 'snapshot taken' flag: a second write of the same section overwrites the snapshot with uncommitted state, so Abort no longer restores the committed value", tk, op, p.live.Name(), p.snap.Name())
						continue
					}
					set := false
					for _, a := range g.FindAtoms(func(a ast.Node) bool {
						rhs, ok := fieldIsAssigned(info, a, flag)
						return ok && isBoolConst(info, rhs, true)
					}) {
						if g.Dominates(sn, a) || g.Dominates(a, sn) {
							set = true
						}
					}
					if !set {
						c.Bad(key, sn.Pos(), "the snapshot is taken under !%s but %s is not set with it: every write retakes the snapshot", flag.Name(), flag.Name())
						continue
					}
					// Abort restores under the flag and clears it; Commit clears it
					ag := e.Graph(abort)
					restoreOK := false
					for _, r := range ag.FindAtoms(func(a ast.Node) bool {
						rhs, ok := fieldIsAssigned(ainfo, a, p.live)
						return ok && rhs != nil && an.SelectedField(ainfo, rhs) == p.snap
					}) {
						if guardedWhere(ag, r, func(ex ast.Expr, val bool) bool { return an.SelectedField(ainfo, ex) == flag && val }) {
							restoreOK = true
						}
					}
					clears := func(fn *an.Func) bool {
						if fn == nil {
							return false
						}
						found := false
						ast.Inspect(fn.Body(), func(m ast.Node) bool {
							if rhs, ok := fieldIsAssigned(fn.Pkg.Info, m, flag); ok && isBoolConst(fn.Pkg.Info, rhs, false) {
								found = true
							}
							return true
						})
						return found
					}
					switch {
					case !restoreOK:
						c.Bad(key, sn.Pos(), "Abort does not restore %s from %s on the branch where %s is true", p.live.Name(), p.snap.Name(), flag.Name())
					case !clears(abort) || !clears(ri.methods["Commit"]):
						c.Bad(key, sn.Pos(), "%s is not cleared by both Abort and Commit: the next section would not take a snapshot", flag.Name())
					default:
						c.Ok(key, sn.Pos(), "taken once per section (under !%s, which is set with it), restored under %s, flag cleared by Commit and Abort", flag.Name(), flag.Name())
					}
				}
			}
		}
	}
}

func runStrQuote(c *core.Ctx) {
	e := EnvOf(c.Prog)
	fn := mustMethod(c, e, an.PkgTLA, "valueString", "String")
	if fn == nil {
		return
	}
	info := fn.Pkg.Info
	g := e.Graph(fn)
	ok := true
	n := 0
	for _, r := range g.FindAtoms(func(a ast.Node) bool { _, ok := a.(*ast.ReturnStmt); return ok }) {
		rs := r.(*ast.ReturnStmt)
		if len(rs.Results) != 1 {
			continue
		}
		n++
		quoted := false
		ast.Inspect(rs.Results[0], func(m ast.Node) bool {
			if call, isC := m.(*ast.CallExpr); isC {
				if f := an.CalleeFunc(info, call); f != nil && f.Pkg() != nil && f.Pkg().Path() == "strconv" && (f.Name() == "Quote" || f.Name() == "QuoteToASCII" || f.Name() == "AppendQuote") {
					quoted = true
				}
			}
			return true
		})
		if !quoted {
			ok = false
		}
	}
	c.Check(n > 0 && ok, "valueString.String:quotes", fn.Pos(), "the printed form goes through strconv.Quote",
		"a string value is printed without escaping: a string containing \" or \\ prints as text that is not valid TLA+ or denotes a different value (<<\"x\\\", \\\"y\">> prints like a two-element tuple)")
}

func runVClockMerge(c *core.Ctx) {
	e := EnvOf(c.Prog)
	fn := mustMethod(c, e, an.PkgTLA, "VClock", "Merge")
	if fn == nil {
		return
	}
	info := fn.Pkg.Info
	var recv, param types.Object
	if fn.Decl.Recv != nil && len(fn.Decl.Recv.List) == 1 && len(fn.Decl.Recv.List[0].Names) == 1 {
		recv = info.Defs[fn.Decl.Recv.List[0].Names[0]]
	}
	if ps := fn.Decl.Type.Params.List; len(ps) == 1 && len(ps[0].Names) == 1 {
		param = info.Defs[ps[0].Names[0]]
	}
	// origin of a variable: which operand(s) it may hold. Locals initialised from an operand alias it; the tuple swap
	// x, y = y, x exchanges two aliases and keeps the pair covering both operands.
	origin := map[types.Object]types.Object{recv: recv, param: param}
	var swaps [][2]types.Object
	okShape := true
	// accumulators: variables rebuilt by `v = v.Set(..)`; they start as (the map of) an operand but are not names for it
	accumulators := map[types.Object]bool{}
	ast.Inspect(fn.Body(), func(m ast.Node) bool {
		as, ok := m.(*ast.AssignStmt)
		if !ok || as.Tok != token.ASSIGN || len(as.Lhs) != 1 || len(as.Rhs) != 1 {
			return true
		}
		if call, isCall := an.Unparen(as.Rhs[0]).(*ast.CallExpr); isCall {
			if sel, isSel := an.Unparen(call.Fun).(*ast.SelectorExpr); isSel && sel.Sel.Name == "Set" {
				if o := an.ObjOf(info, as.Lhs[0]); o != nil && o == an.ObjOf(info, sel.X) {
					accumulators[o] = true
				}
			}
		}
		return true
	})
	ast.Inspect(fn.Body(), func(m ast.Node) bool {
		as, ok := m.(*ast.AssignStmt)
		if !ok {
			return true
		}
		if len(as.Lhs) == len(as.Rhs) && as.Tok == token.DEFINE {
			// `x := operand`, `x := operand.clock`, `a, b := clock.clock, other.clock`: names for (the map of) an operand
			for i := range as.Lhs {
				id, isId := as.Lhs[i].(*ast.Ident)
				if !isId {
					continue
				}
				r := an.Unparen(as.Rhs[i])
				for {
					sel, isSel := r.(*ast.SelectorExpr)
					if !isSel {
						break
					}
					r = an.Unparen(sel.X)
				}
				// a single `acc := self.clock` is the accumulator, not a name for the operand (it is re-assigned by the loop)
				if len(as.Lhs) == 1 && r != an.Unparen(as.Rhs[i]) {
					continue
				}
				if accumulators[info.Defs[id]] {
					continue
				}
				if o := an.ObjOf(info, r); o != nil && origin[o] != nil && info.Defs[id] != nil {
					origin[info.Defs[id]] = origin[o]
				}
			}
			return true
		}
		if len(as.Lhs) == 2 && len(as.Rhs) == 2 {
			a, b := an.ObjOf(info, as.Lhs[0]), an.ObjOf(info, as.Lhs[1])
			x, y := an.ObjOf(info, as.Rhs[0]), an.ObjOf(info, as.Rhs[1])
			if a != nil && b != nil && origin[a] != nil && origin[b] != nil {
				if a == y && b == x {
					swaps = append(swaps, [2]types.Object{a, b})
				} else {
					okShape = false
				}
			}
			return true
		}
		for _, l := range as.Lhs {
			if o := an.ObjOf(info, l); o != nil && origin[o] != nil && as.Tok == token.ASSIGN {
				okShape = false // an alias re-pointed outside a swap
			}
		}
		return true
	})
	rootOf := func(x ast.Expr) types.Object {
		x = an.Unparen(x)
		for {
			switch v := x.(type) {
			case *ast.SelectorExpr:
				x = v.X
				continue
			case *ast.Ident:
				return info.ObjectOf(v)
			}
			return nil
		}
	}
	var base, iterated types.Object
	ast.Inspect(fn.Body(), func(m ast.Node) bool {
		as, ok := m.(*ast.AssignStmt)
		if !ok || len(as.Lhs) != 1 || len(as.Rhs) != 1 || as.Tok != token.DEFINE {
			return true
		}
		if call, ok := an.Unparen(as.Rhs[0]).(*ast.CallExpr); ok {
			if sel, ok := an.Unparen(call.Fun).(*ast.SelectorExpr); ok && sel.Sel.Name == "Iterator" {
				if o := rootOf(sel.X); o != nil && origin[o] != nil {
					iterated = o
				}
			}
			return true
		}
		if sel, ok := an.Unparen(as.Rhs[0]).(*ast.SelectorExpr); ok {
			if o := rootOf(sel); o != nil && origin[o] != nil && base == nil {
				if _, isMap := info.TypeOf(as.Rhs[0]).(*types.Pointer); isMap {
					base = o
				}
			}
		}
		// `acc := bigger` where bigger names an operand's map and acc is the accumulator
		if id, isId := an.Unparen(as.Rhs[0]).(*ast.Ident); isId && base == nil && accumulators[info.Defs[as.Lhs[0].(*ast.Ident)]] {
			if o := info.ObjectOf(id); o != nil && origin[o] != nil {
				base = o
			}
		}
		return true
	})
	good := okShape && base != nil && iterated != nil && base != iterated && origin[base] != origin[iterated]
	// both must be exchanged together by every swap (or by none)
	for _, sw := range swaps {
		inA := sw[0] == base || sw[1] == base
		inB := sw[0] == iterated || sw[1] == iterated
		if inA != inB {
			good = false
		}
	}
	// what Merge returns: the accumulator, or - in the trivial cases - one operand where the other is known to be empty
	var accObj types.Object
	ast.Inspect(fn.Body(), func(m ast.Node) bool {
		as, ok := m.(*ast.AssignStmt)
		if !ok || len(as.Lhs) != 1 || len(as.Rhs) != 1 || as.Tok != token.DEFINE || accObj != nil {
			return true
		}
		if sel, ok := an.Unparen(as.Rhs[0]).(*ast.SelectorExpr); ok {
			if o := rootOf(sel); o != nil && o == base {
				if _, isMap := info.TypeOf(as.Rhs[0]).(*types.Pointer); isMap {
					accObj = info.Defs[as.Lhs[0].(*ast.Ident)]
				}
			}
		}
		if id, isId := an.Unparen(as.Rhs[0]).(*ast.Ident); isId && info.ObjectOf(id) == base && accumulators[info.Defs[as.Lhs[0].(*ast.Ident)]] {
			accObj = info.Defs[as.Lhs[0].(*ast.Ident)]
		}
		return true
	})
	g := e.Graph(fn)
	var swapAtoms []ast.Node
	for _, a := range g.FindAtoms(func(a ast.Node) bool {
		as, ok := a.(*ast.AssignStmt)
		return ok && len(as.Lhs) == 2 && len(as.Rhs) == 2
	}) {
		swapAtoms = append(swapAtoms, a)
	}
	nRet, okRet := 0, true
	badRet := ""
	for _, r := range g.FindAtoms(func(a ast.Node) bool { _, ok := a.(*ast.ReturnStmt); return ok }) {
		rs := r.(*ast.ReturnStmt)
		if len(rs.Results) != 1 {
			continue
		}
		nRet++
		res := an.Unparen(rs.Results[0])
		if cl, ok := res.(*ast.CompositeLit); ok {
			fine := false
			for _, el := range cl.Elts {
				v := el
				if kv, ok := el.(*ast.KeyValueExpr); ok {
					v = kv.Value
				}
				if accObj != nil && an.ObjOf(info, v) == accObj {
					fine = true
				}
			}
			if !fine {
				okRet, badRet = false, types.ExprString(res)
			}
			continue
		}
		o := an.ObjOf(info, res)
		if o == nil || origin[o] == nil {
			okRet, badRet = false, types.ExprString(res)
			continue
		}
		// an operand: only where the other operand's clock is nil, and before any exchange of the aliases
		fine := false
		for _, blk := range g.CFG.Blocks {
			cd, _ := g.Cond(blk)
			if cd == nil {
				continue
			}
			isT, nonNil := nilTestOn(g, info, cd, func(x ast.Expr) bool {
				sel, ok := an.Unparen(x).(*ast.SelectorExpr)
				if !ok {
					return false
				}
				ro := rootOf(sel)
				return ro != nil && origin[ro] != nil && origin[ro] != origin[o]
			})
			if isT && g.GuardedBy(r, cd, !nonNil) {
				fine = true
			}
		}
		for _, sw := range swapAtoms {
			if g.Search(an.Query{From: sw, Target: func(y ast.Node) bool { return y == r }}).Found {
				fine = false
			}
		}
		if !fine {
			okRet, badRet = false, types.ExprString(res)
		}
	}
	c.Check(okRet && nRet > 0 && accObj != nil, "VClock.Merge:returns-the-merged-clock", fn.Pos(), "every return hands back the accumulator, or an operand where the other one is empty",
		"VClock.Merge can return "+badRet+" instead of the accumulated clock: after the size-based exchange of the operands that is not the merge result, so a reader's clock does not cover the writer's (the trace shows an effect before its cause)")
	c.Check(good, "VClock.Merge:folds-one-operand-into-the-other", fn.Pos(), "the accumulator and the iterated clock are the two distinct operands (possibly exchanged together)",
		"VClock.Merge does not fold one operand into the other: after the size-based swap the accumulator and the iterated clock can be the same operand, so the other operand's entries are lost and the reader's clock no longer dominates the writer's")
}
