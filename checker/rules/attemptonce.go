package rules

import (
	"go/ast"

	"pgoverif/checker/an"
	"pgoverif/checker/core"
)

func init() {
	register(&core.Rule{ID: "ATTEMPT-ONCE", Props: []string{"C18", "C01", "C02"}, Floor: 2,
		Doc: "one outcome per attempt: the driver's commit() and abort() are called by Run's dispatch on the section's outcome and by nothing else. A second caller (commit() rolling back by itself on a refused pre-commit, say) ends the same attempt twice - the second abort finds nothing dirty, but it logs a second, empty abort event with the same clock, so the trace no longer has one event per attempt",
		Run: runAttemptOnce})
}

func runAttemptOnce(c *core.Ctx) {
	e := EnvOf(c.Prog)
	for _, name := range []string{"commit", "abort"} {
		target := mustMethod(c, e, an.PkgDistsys, "MPCalContext", name)
		if target == nil {
			continue
		}
		key := name + ":called-only-by-Run"
		n := 0
		bad := false
		for _, fn := range e.Ix.Funcs() {
			if fn.Body() == nil || fn.Pkg.Path != an.PkgDistsys {
				continue
			}
			info := fn.Pkg.Info
			ast.Inspect(fn.Body(), func(m ast.Node) bool {
				call, ok := m.(*ast.CallExpr)
				if !ok {
					// a method value (ctx.abort handed to something) counts as a call by whoever receives it
					if sel, isSel := m.(*ast.SelectorExpr); isSel {
						if f := info.Uses[sel.Sel]; f != nil && f == target.Obj {
							n++
						}
					}
					return true
				}
				if f := an.CalleeFunc(info, call); f == nil || f != target.Obj {
					return true
				}
				if fn.Obj.Name() != "Run" || an.RecvNamed(fn.Obj) == nil || an.RecvNamed(fn.Obj).Obj().Name() != "MPCalContext" {
					bad = true
					c.Bad(key, call.Pos(), "%s() is also called from %s: the attempt it ends is ended a second time by Run's dispatch, and logged twice", name, an.FuncName(fn.Obj))
				}
				return true
			})
		}
		if !bad {
			c.Ok(key, target.Pos(), "%s() has no caller but Run (%d mention(s))", name, n)
		}
	}
}
