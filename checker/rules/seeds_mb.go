package rules

func init() {
	const tcp = "distsys/resources/tcpmailboxes.go"
	const rel = "distsys/resources/relaxedmailboxes.go"
	const chn = "distsys/resources/channels.go"
	const lsh = "distsys/resources/localshared.go"
	// ---- C06
	seed(Seed{Name: "begin-keeps-stale-batch", Prop: "C06", Rule: "MB-PUBLISH", File: tcp,
		Old: "\t\tcase tcpNetworkBegin:\n\t\t\tlocalBuffer = nil\n", New: "\t\tcase tcpNetworkBegin:\n", Expect: "buffer-reset-on-begin"})
	seed(Seed{Name: "publish-on-precommit", Prop: "C06", Rule: "MB-PUBLISH", File: tcp,
		Old: "\t\t\t\t//res.wg.Add(1)\n\t\t\t}()\n", New: "\t\t\t\t//res.wg.Add(1)\n\t\t\t}()\n\t\t\tif len(localBuffer) > 0 {\n\t\t\t\tres.msgChannel <- recvRecord{values: localBuffer}\n\t\t\t\tlocalBuffer = nil\n\t\t\t}\n", Expect: "on-commit-tag"})
	seed(Seed{Name: "publish-before-ack", Prop: "C06", Rule: "MB-PUBLISH", File: tcp,
		Old: "\t\t\terr = encoder.Encode(false)\n\t\t\tif err != nil {\n\t\t\t\tcontinue\n\t\t\t}\n", New: "\t\t\terr = encoder.Encode(false)\n", Expect: "after-ack"})
	seed(Seed{Name: "buffer-kept-after-commit", Prop: "C06", Rule: "MB-PUBLISH", File: tcp,
		Old: "\t\t\tlocalBuffer = nil\n\t\t\thasBegun = false\n", New: "\t\t\thasBegun = false\n", Expect: "buffer-reset-after-publish"})
	seed(Seed{Name: "tcp-abort-appends-behind", Prop: "C06", Rule: "MB-REDELIVER", File: tcp,
		Old: "res.readBacklog = append(clockedReadsInProgress, res.readBacklog...)", New: "res.readBacklog = append(res.readBacklog, clockedReadsInProgress...)", Expect: "tcpMailboxesLocal.Abort:redelivers-first"})
	seed(Seed{Name: "relaxed-commit-keeps-in-progress", Prop: "C06", Rule: "MB-REDELIVER", File: rel,
		Old: "func (res *relaxedMailboxesLocal) Commit(distsys.ArchetypeInterface) chan struct{} {\n\tres.readsInProgress = nil\n", New: "func (res *relaxedMailboxesLocal) Commit(distsys.ArchetypeInterface) chan struct{} {\n", Expect: "relaxedMailboxesLocal.Commit"})
	seed(Seed{Name: "inputchan-abort-drops-reads", Prop: "C06", Rule: "MB-REDELIVER", File: chn,
		Old: "\tres.buffer = append(res.backlogBuffer, res.buffer...)\n", New: "", Expect: "InputChan.Abort:redelivers-first"})
	seed(Seed{Name: "inputchan-read-not-recorded", Prop: "C06", Rule: "MB-BACKLOGFIRST", File: chn,
		Old: "\tcase value := <-res.channel:\n\t\tres.backlogBuffer = append(res.backlogBuffer, value)\n\t\treturn value, nil\n\tcase <-time.After(res.timeout):\n\t\treturn tla.Value{}, distsys.ErrCriticalSectionAborted",
		New: "\tcase value := <-res.channel:\n\t\treturn value, nil\n\tcase <-time.After(res.timeout):\n\t\treturn tla.Value{}, distsys.ErrCriticalSectionAborted", Expect: "InputChan.ReadValue:return"})
	seed(Seed{Name: "tcp-read-channel-first", Prop: "C06", Rule: "MB-BACKLOGFIRST", File: tcp,
		Old: "\tif len(res.readBacklog) > 0 {\n\t\tvalue := res.readBacklog[0]\n\t\tres.readBacklog[0] = tla.Value{} // ensure this reference is null, otherwise it will dangle and prevent potential GC",
		New: "\tif len(res.readBacklog) > 0 && len(res.msgChannel) == 0 {\n\t\tvalue := res.readBacklog[0]\n\t\tres.readBacklog[0] = tla.Value{} // ensure this reference is null, otherwise it will dangle and prevent potential GC", Expect: "tcpMailboxesLocal.ReadValue:receive"})
	seed(Seed{Name: "begin-sent-on-every-write", Prop: "C06", Rule: "MB-TAGS", File: tcp,
		Old: "\tif !res.inCriticalSection {\n\t\tres.inCriticalSection = true\n\t\terr = res.connEncoder.Encode(tcpNetworkBegin)",
		New: "\tif !res.inCriticalSection || len(res.resendBuffer) > 0 {\n\t\tres.inCriticalSection = true\n\t\terr = res.connEncoder.Encode(tcpNetworkBegin)", Expect: "begin-iff-first-write"})
	seed(Seed{Name: "commit-done-before-ack", Prop: "C06", Rule: "MB-TAGS", File: tcp,
		Old: "\t\t\terr = res.connDecoder.Decode(&shouldResend)\n\t\t\tif err != nil {\n\t\t\t\tcontinue\n\t\t\t}\n", New: "\t\t\terr = res.connDecoder.Decode(&shouldResend)\n", Expect: "done-only-after-ack"})
	seed(Seed{Name: "value-not-in-resend-buffer", Prop: "C06", Rule: "MB-RESEND", File: tcp,
		Old: "\tres.resendBuffer = append(res.resendBuffer, &value)\n", New: "", Expect: "encode#3"})
	seed(Seed{Name: "outputchan-abort-keeps-buffer", Prop: "C06", Rule: "CH-DEFER", File: chn,
		Old: "func (res *OutputChan) Abort(distsys.ArchetypeInterface) chan struct{} {\n\tres.buffer = nil\n", New: "func (res *OutputChan) Abort(distsys.ArchetypeInterface) chan struct{} {\n", Expect: "OutputChan.Abort"})
	seed(Seed{Name: "outputchan-commit-unjoined", Prop: "C06", Rule: "ASYNC-JOIN", File: chn,
		Old: "\t\tres.buffer = nil\n\t\tch <- struct{}{}\n\t}()\n\treturn ch", New: "\t\tres.buffer = nil\n\t}()\n\t_ = ch\n\treturn nil", Expect: "OutputChan.Commit"})
	seed(Seed{Name: "length-counts-in-progress", Prop: "C06", Rule: "MB-LEN", File: tcp,
		Old: "return tla.WrapCausal(tla.MakeNumber(int32(len(res.readBacklog))), vclock)", New: "return tla.WrapCausal(tla.MakeNumber(int32(len(res.readBacklog)+len(res.readsInProgress))), vclock)", Expect: "tcpMailboxesLocal.length"})
	// ---- C07
	seed(Seed{Name: "release-before-inner-commit", Prop: "C07", Rule: "LS-2PL", File: lsh,
		Old: "\t\tresCh := res.sharedRes.res.Commit(iface)\n\t\tassumeNil(resCh)\n\t\tres.sharedRes.release()", New: "\t\tres.sharedRes.release()\n\t\tresCh := res.sharedRes.res.Commit(iface)\n\t\tassumeNil(resCh)", Expect: "Commit:release#1-after-inner"})
	seed(Seed{Name: "index-without-lock", Prop: "C07", Rule: "LS-2PL", File: lsh,
		Old: "\tif err := res.tryEnsureLock(); err != nil {\n\t\treturn nil, err\n\t}\n\tout, err", New: "\tout, err", Expect: "Index:cell-use"})
	seed(Seed{Name: "untimed-acquire-in-section", Prop: "C07", Rule: "LS-2PL", File: lsh,
		Old: "\t\tif !res.sharedRes.acquireWithTimeout() {\n\t\t\treturn distsys.ErrCriticalSectionAborted\n\t\t}\n", New: "\t\tres.sharedRes.acquire()\n", Expect: "untimed-acquire"})
	seed(Seed{Name: "abort-keeps-haslock", Prop: "C07", Rule: "LS-2PL", File: lsh,
		Old: "\t\tres.hasLock = false\n\t\tresCh := res.sharedRes.res.Abort(iface)", New: "\t\tresCh := res.sharedRes.res.Abort(iface)", Expect: "Abort:release#1-clears-hasLock"})
	seed(Seed{Name: "release-in-readvalue", Prop: "C07", Rule: "LS-2PL", File: lsh,
		Old: "\treturn res.sharedRes.res.ReadValue(iface)", New: "\tdefer func() { res.hasLock = false; res.sharedRes.release() }()\n\treturn res.sharedRes.res.ReadValue(iface)", Expect: "ReadValue:release"})
	seed(Seed{Name: "lock-capacity-two", Prop: "C07", Rule: "LS-CAP1", File: lsh,
		Old: "make(chan struct{}, 1)", New: "make(chan struct{}, 2)", Expect: "lockCh-init"})
	seed(Seed{Name: "no-timeout-arm", Prop: "C07", Rule: "LS-TIMED", File: lsh,
		Old: "\tcase <-time.After(sv.timeout):\n\t\treturn false\n", New: "", Expect: "timeout-arm"})
	seed(Seed{Name: "timeout-reports-success", Prop: "C07", Rule: "LS-TIMED", File: lsh,
		Old: "\tcase <-time.After(sv.timeout):\n\t\treturn false\n", New: "\tcase <-time.After(sv.timeout):\n\t\treturn true\n", Expect: "acquireWithTimeout"})
	seed(Seed{Name: "begin-reset-only-if-not-begun", Prop: "C06", Rule: "MB-PUBLISH", File: "distsys/resources/tcpmailboxes.go",
		Old: "\t\tcase tcpNetworkBegin:\n\t\t\tlocalBuffer = nil\n\t\t\thasBegun = true\n",
		New: "\t\tcase tcpNetworkBegin:\n\t\t\tif !hasBegun {\n\t\t\t\tlocalBuffer = nil\n\t\t\t\thasBegun = true\n\t\t\t}\n", Expect: "buffer-reset-on-every-begin"})
}
