package rules

import (
	"go/ast"
	"go/types"

	"pgoverif/checker/an"
	"pgoverif/checker/core"
)

func init() {
	register(&core.Rule{ID: "TRACE-DECISION", Props: []string{"C18"}, Floor: 8,
		Doc: "decision table of the trace plumbing: with a recorder every read and write is appended to the attempt's element list, every CommitEvent emits exactly that list and then empties it, BeginEvent refuses a non-empty list; with vector clocks enabled the sink's clock is incremented by InitCriticalSection, merged by WitnessVClock and returned by GetVClock - and none of this happens when tracing / clocks are off",
		Run: runTraceDecision})
}

func runTraceDecision(c *core.Ctx) {
	e := EnvOf(c.Prog)
	st := mustType(c, e, an.PkgTrace, "EventState")
	sk := mustType(c, e, an.PkgTrace, "VClockSink")
	if st == nil || sk == nil {
		return
	}
	elements, clock := mustField(c, st, "elements"), mustField(c, sk, "clock")
	if elements == nil || clock == nil {
		return
	}
	appendTo := func(f *types.Var) func(*types.Info, ast.Node) bool {
		return func(info *types.Info, n ast.Node) bool {
			rhs, ok := fieldIsAssigned(info, n, f)
			if !ok || rhs == nil {
				return false
			}
			call, isCall := an.Unparen(rhs).(*ast.CallExpr)
			return isCall && an.IsBuiltin(info, call, "append")
		}
	}
	callMethod := func(name string) func(*types.Info, ast.Node) bool {
		return func(info *types.Info, n ast.Node) bool {
			call, ok := n.(*ast.CallExpr)
			if !ok {
				return false
			}
			f := an.CalleeFunc(info, call)
			return f != nil && f.Name() == name
		}
	}
	storeCall := func(f *types.Var, method string) func(*types.Info, ast.Node) bool {
		return func(info *types.Info, n ast.Node) bool {
			rhs, ok := fieldIsAssigned(info, n, f)
			if !ok || rhs == nil {
				return false
			}
			call, isCall := an.Unparen(rhs).(*ast.CallExpr)
			if !isCall {
				return false
			}
			fn := an.CalleeFunc(info, call)
			return fn != nil && fn.Name() == method
		}
	}
	hasRec := func(a dtAtoms) bool { return !a.B("$.Recorder==nil") }
	on := func(a dtAtoms) bool { return a.B("$.enabled") }
	rows := []dtRow{
		{fn: "EventState.RecordRead", key: "appends-iff-recording", why: "every read of a traced attempt is logged", find: appendTo(elements),
			bools: []string{"$.Recorder==nil"}, ints: map[string]string{"len(name)": ""}, ref: func(a dtAtoms) bool { return hasRec(a) && a.I("len(name)") != 0 }},
		{fn: "EventState.RecordWrite", key: "appends-iff-recording", why: "every write of a traced attempt is logged", find: appendTo(elements),
			bools: []string{"$.Recorder==nil"}, ints: map[string]string{"len(name)": ""}, ref: func(a dtAtoms) bool { return hasRec(a) && a.I("len(name)") != 0 }},
		{fn: "EventState.CommitEvent", key: "emits-iff-recording", why: "every attempt of a traced archetype is emitted", find: callMethod("RecordEvent"),
			bools: []string{"$.Recorder==nil"}, ref: hasRec},
		{fn: "EventState.CommitEvent", key: "empties-after-emitting", why: "the next attempt starts with an empty element list", find: callMethod("clearElements"),
			bools: []string{"$.Recorder==nil"}, ref: hasRec},
		{fn: "VClockSink.InitCriticalSection", key: "increments-own-component", why: "the archetype's own component grows by one per attempt", find: storeCall(clock, "Inc"),
			bools: []string{"$.enabled"}, ref: on},
		{fn: "VClockSink.WitnessVClock", key: "merges-witnessed-clock", why: "reading a value makes the reader's clock dominate the value's", find: storeCall(clock, "Merge"),
			bools: []string{"$.enabled"}, ref: on},
		{fn: "VClockSink.GetVClock", key: "returns-current-clock", why: "the logged / attached clock is the sink's current clock", find: func(info *types.Info, n ast.Node) bool {
			r, ok := n.(*ast.ReturnStmt)
			return ok && len(r.Results) == 1 && an.SelectedField(info, resolveAnywhere(e, info, r.Results[0])) == clock
		}, bools: []string{"$.enabled"}, ref: on},
		{fn: "VClockSink.SetEnabled", key: "stores-switch", why: "enabling takes effect", find: func(info *types.Info, n ast.Node) bool {
			_, ok := fieldIsAssigned(info, n, an.Field(sk, "enabled"))
			return ok
		}, ref: func(a dtAtoms) bool { return true }},
	}
	runDecisionRows(c, e, an.PkgTrace, "", rows)
	// clearElements really empties the list
	if fn := mustMethod(c, e, an.PkgTrace, "EventState", "clearElements"); fn != nil {
		info, g := fn.Pkg.Info, e.Graph(fn)
		ok, _ := g.MustPass(nil, func(a ast.Node) bool {
			rhs, isSet := fieldIsAssigned(info, a, elements)
			if !isSet || rhs == nil {
				return false
			}
			if isNilIdent(info, rhs) {
				return true
			}
			sl, isSl := an.Unparen(rhs).(*ast.SliceExpr)
			if !isSl || an.SelectedField(info, sl.X) != elements || sl.High == nil {
				return false
			}
			tv := info.Types[sl.High]
			return tv.Value != nil && tv.Value.ExactString() == "0"
		}, nil)
		c.Check(ok, "EventState.clearElements:empties", fn.Pos(), "elements = elements[:0] (or nil) on every path", "clearElements does not empty the element list: the reads and writes of an attempt are logged again with every later attempt")
	}
}
