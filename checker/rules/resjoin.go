package rules

import (
	"fmt"
	"go/ast"
	"go/token"
	"go/types"

	"golang.org/x/tools/go/cfg"

	"pgoverif/checker/an"
	"pgoverif/checker/core"
)

// RES-JOIN: a resource that forwards PreCommit/Commit/Abort to child resources must not lose the
// channel the child returns (the child's step may be asynchronous, and for PreCommit the channel
// carries the child's refusal). Accepted shapes, enumerated from the tree:
//   (a) the child's channel is returned directly;
//   (b) it is waited for in place: `if ch != nil { <-ch }` on every path of that branch;
//   (c) it is asserted nil by a helper that panics on a non-nil argument;
//   (d) it is collected under `ch != nil` into a slice which, when non-empty, is drained by a
//       goroutine that receives once from every element on every path and — for error channels —
//       keeps the first non-nil error as the value it reports (the loop is left, or the
//       assignment is guarded, once a non-nil error was received).
// That the goroutine signals the channel the method returns is ASYNC-JOIN's obligation.

func init() {
	register(&core.Rule{
		ID:    "RES-JOIN",
		Props: []string{"C01"},
		Floor: 8,
		Doc:   "forwarding resources keep every child's PreCommit/Commit/Abort channel: returned, awaited, asserted nil, or collected and drained by the goroutine behind the returned channel; a non-nil pre-commit error is never overwritten",
		Run:   runResJoin,
	})
}

// nilTestOn normalises a block-ending condition: is it a nil test of obj (under parens/negations)?
// nonNilWhen tells which outcome means obj != nil.
func nilTestOn(g *an.Graph, info *types.Info, a ast.Node, match func(ast.Expr) bool) (ok, nonNilWhen bool) {
	ex, isE := a.(ast.Expr)
	if !isE || !g.IsCondAtom(a) {
		return false, false
	}
	neg := false
	for {
		ex = an.Unparen(ex)
		u, isU := ex.(*ast.UnaryExpr)
		if !isU || u.Op != token.NOT {
			break
		}
		neg = !neg
		ex = u.X
	}
	be, isB := ex.(*ast.BinaryExpr)
	if !isB || (be.Op != token.NEQ && be.Op != token.EQL) {
		return false, false
	}
	if !((match(be.X) && isNilIdent(info, be.Y)) || (match(be.Y) && isNilIdent(info, be.X))) {
		return false, false
	}
	return true, (be.Op == token.NEQ) != neg
}

// lenTestOn: condition comparing len(obj) with 0; nonEmptyWhen tells which outcome means len > 0.
func lenTestOn(g *an.Graph, info *types.Info, a ast.Node, obj types.Object) (ok, nonEmptyWhen bool) {
	ex, isE := a.(ast.Expr)
	if !isE || !g.IsCondAtom(a) {
		return false, false
	}
	neg := false
	for {
		ex = an.Unparen(ex)
		u, isU := ex.(*ast.UnaryExpr)
		if !isU || u.Op != token.NOT {
			break
		}
		neg = !neg
		ex = u.X
	}
	be, isB := ex.(*ast.BinaryExpr)
	if !isB {
		return false, false
	}
	isLen := func(x ast.Expr) bool {
		call, ok := an.Unparen(x).(*ast.CallExpr)
		return ok && an.IsBuiltin(info, call, "len") && len(call.Args) == 1 && an.ObjOf(info, call.Args[0]) == obj
	}
	isZero := func(x ast.Expr) bool {
		tv, ok := info.Types[x]
		return ok && tv.Value != nil && tv.Value.String() == "0"
	}
	var when bool
	switch {
	case isLen(be.X) && isZero(be.Y):
		switch be.Op {
		case token.NEQ, token.GTR:
			when = true
		case token.EQL, token.LEQ:
			when = false
		default:
			return false, false
		}
	case isZero(be.X) && isLen(be.Y):
		switch be.Op {
		case token.NEQ, token.LSS:
			when = true
		case token.EQL, token.GEQ:
			when = false
		default:
			return false, false
		}
	default:
		return false, false
	}
	return true, when != neg
}

func runResJoin(c *core.Ctx) {
	e := EnvOf(c.Prog)
	iface := resourceIface(c, e)
	if iface == nil {
		return
	}
	for _, fn := range e.Ix.Funcs() {
		r := an.RecvNamed(fn.Obj)
		if r == nil || !(implementsRes(r, iface) || implementsRes(types.NewPointer(r), iface)) {
			continue
		}
		mname := fn.Obj.Name()
		if mname != "PreCommit" && mname != "Commit" && mname != "Abort" {
			continue
		}
		info := fn.Pkg.Info
		bodies := bodiesOf(fn)
		n := 0
		for _, b := range bodies {
			g := graphOfBody(e, fn.Pkg, fn, b)
			for _, a := range g.FindAtoms(func(a ast.Node) bool {
				call, ok := a.(*ast.CallExpr)
				if !ok {
					return false
				}
				name, _, ok := lifecycleCall(info, call, iface)
				return ok && (name == "PreCommit" || name == "Commit" || name == "Abort")
			}) {
				call := a.(*ast.CallExpr)
				cname, _, _ := lifecycleCall(info, call, iface)
				n++
				key := fmt.Sprintf("%s->%s#%d", fn.Name(), cname, n)
				if _, ok := g.Parent(call).(*ast.ReturnStmt); ok {
					c.Ok(key, call.Pos(), "(a) the child's channel is returned directly")
					continue
				}
				// (c') handed straight to a helper that asserts it is nil: assumeNil(child.Abort(iface))
				if outer, ok := g.Parent(call).(*ast.CallExpr); ok && len(outer.Args) == 1 && an.Unparen(outer.Args[0]) == ast.Expr(call) {
					if h := e.Ix.FuncOf(an.CalleeFunc(info, outer)); h != nil && panicsOnNonNilParam(e, h) {
						c.Ok(key, call.Pos(), "(c) the child's channel is asserted nil by a helper that panics otherwise")
						continue
					}
				}
				var ch types.Object
				if as, ok := g.Parent(call).(*ast.AssignStmt); ok && len(as.Lhs) == 1 && len(as.Rhs) == 1 {
					ch = an.ObjOf(info, as.Lhs[0])
				}
				if ch == nil {
					c.Bad(key, call.Pos(), "the channel returned by the child's %s is dropped: its asynchronous step (and, for PreCommit, its refusal) is lost", cname)
					continue
				}
				isCh := func(x ast.Expr) bool { return an.ObjOf(info, x) == ch }
				// (c) asserted nil by a helper
				asserted := false
				for _, u := range g.FindAtoms(func(x ast.Node) bool {
					cl, ok := x.(*ast.CallExpr)
					return ok && len(cl.Args) == 1 && isCh(cl.Args[0]) && g.Dominates(call, x)
				}) {
					if h := e.Ix.FuncOf(an.CalleeFunc(info, u.(*ast.CallExpr))); h != nil && panicsOnNonNilParam(e, h) {
						if okp, _ := g.MustPass(call, func(x ast.Node) bool { return x == u }, nil); okp {
							asserted = true
						}
					}
				}
				if asserted {
					c.Ok(key, call.Pos(), "(c) the child's channel is asserted nil by a helper that panics otherwise")
					continue
				}
				// the `ch != nil` test(s) after the call
				var cond ast.Node
				var nonNil bool
				for _, blk := range g.CFG.Blocks {
					cd, _ := g.Cond(blk)
					if cd == nil {
						continue
					}
					if ok, when := nilTestOn(g, info, cd, isCh); ok && g.Dominates(call, cd) {
						cond, nonNil = cd, when
					}
				}
				if cond == nil {
					c.Bad(key, call.Pos(), "the channel returned by the child's %s is never tested against nil nor returned: a non-trivial step of the child is not waited for", cname)
					continue
				}
				// (b) awaited in place
				recvs := g.FindAtoms(func(x ast.Node) bool {
					u, ok := x.(*ast.UnaryExpr)
					return ok && u.Op == token.ARROW && isCh(u.X)
				})
				if len(recvs) > 0 {
					p := g.Search(an.Query{From: cond, Edges: g.Branch(cond, nonNil), ToExit: true,
						Target: func(x ast.Node) bool { return x == ast.Node(call) },
						Avoid: func(x ast.Node) bool {
							for _, r := range recvs {
								if x == r {
									return true
								}
							}
							return false
						}})
					c.Check(!p.Found, key, call.Pos(), "(b) awaited in place on every path of the non-nil branch",
						"the child's channel is non-nil on this branch but some path does not receive from it: the method reports completion while the child's "+cname+" is still in progress")
					continue
				}
				// (d) collected and drained
				var appendAtom ast.Node
				var slice types.Object
				for _, x := range g.FindAtoms(func(x ast.Node) bool {
					as, ok := x.(*ast.AssignStmt)
					if !ok || len(as.Lhs) != 1 || len(as.Rhs) != 1 {
						return false
					}
					ap, ok := an.Unparen(as.Rhs[0]).(*ast.CallExpr)
					if !ok || !an.IsBuiltin(info, ap, "append") || len(ap.Args) < 2 || an.ObjOf(info, ap.Args[0]) == nil || an.ObjOf(info, ap.Args[0]) != an.ObjOf(info, as.Lhs[0]) {
						return false
					}
					for _, arg := range ap.Args[1:] {
						if isCh(arg) {
							return true
						}
					}
					return false
				}) {
					if g.GuardedBy(x, cond, nonNil) {
						appendAtom = x
						slice = an.ObjOf(info, x.(*ast.AssignStmt).Lhs[0])
					}
				}
				if appendAtom == nil {
					c.Bad(key, call.Pos(), "a non-nil channel returned by the child's %s is neither awaited nor collected on the `!= nil` branch", cname)
					continue
				}
				if p := g.Search(an.Query{From: cond, Edges: g.Branch(cond, nonNil), ToExit: true,
					Target: func(x ast.Node) bool { return x == ast.Node(call) },
					Avoid:  func(x ast.Node) bool { return x == appendAtom }}); p.Found {
					c.Bad(key, appendAtom.Pos(), "the non-nil channel can escape collection on some path of the `!= nil` branch")
					continue
				}
				// the drain: a go statement whose literal ranges over the slice, receiving from each element
				var goAtom ast.Node
				var drainLit *ast.FuncLit
				var drainRS ast.Stmt
				var drainBody *ast.BlockStmt
				isSlice := func(x ast.Expr) bool { return an.ObjOf(info, x) == slice }
				for _, x := range g.FindAtoms(func(x ast.Node) bool { _, ok := x.(*ast.GoStmt); return ok }) {
					lit, ok := an.Unparen(x.(*ast.GoStmt).Call.Fun).(*ast.FuncLit)
					if !ok {
						continue
					}
					ast.Inspect(lit.Body, func(m ast.Node) bool {
						if inner, isLit := m.(*ast.FuncLit); isLit && inner != lit {
							return false
						}
						if st, ok := m.(ast.Stmt); ok {
							if body, _, ok := perElementLoop(info, st, isSlice); ok && body != nil {
								goAtom, drainLit, drainRS, drainBody = x, lit, st, body
							}
						}
						return true
					})
				}
				if goAtom == nil {
					c.Bad(key, call.Pos(), "the collected channels are never drained by a goroutine of this method: the children's steps are not waited for")
					continue
				}
				lg := e.GraphOfLit(fn.Pkg, drainLit)
				var sliceExpr ast.Expr
				ast.Inspect(drainRS, func(m ast.Node) bool {
					if ex, isEx := m.(ast.Expr); isEx && sliceExpr == nil && isSlice(ex) {
						sliceExpr = ex
					}
					return sliceExpr == nil
				})
				isRecv := func(x ast.Node) bool {
					u, ok := x.(*ast.UnaryExpr)
					return ok && u.Op == token.ARROW && sliceExpr != nil && isLoopElement(info, drainRS, sliceExpr, u.X)
				}
				kind := cfg.KindForBody
				if _, isRange := drainRS.(*ast.RangeStmt); isRange {
					kind = cfg.KindRangeBody
				}
				bb := lg.BlockOfStmt(drainRS, kind)
				if bb == nil || !lg.PassesWithin(bb, drainBody.Pos(), drainBody.End(), isRecv) {
					c.Bad(key, drainRS.Pos(), "the drain loop does not receive from every collected channel on every path of its body")
					continue
				}
				// the loop header is reached on every path of the goroutine
				reached := false
				if p := lg.Search(an.Query{ToExit: true, Avoid: func(x ast.Node) bool {
					return x.Pos() >= drainRS.Pos() && x.End() <= drainRS.End()
				}}); !p.Found {
					reached = true
				}
				if !reached {
					c.Bad(key, drainRS.Pos(), "the goroutine can finish without running the drain loop")
					continue
				}
				// the goroutine is started whenever the slice is non-empty
				started := false
				hasLenTest := false
				for _, blk := range g.CFG.Blocks {
					cd, _ := g.Cond(blk)
					if cd == nil {
						continue
					}
					if ok, when := lenTestOn(g, info, cd, slice); ok {
						hasLenTest = true
						if g.GuardedBy(goAtom, cd, when) {
							if p := g.Search(an.Query{From: cd, Edges: g.Branch(cd, when), ToExit: true, Avoid: func(x ast.Node) bool { return x == goAtom }}); !p.Found {
								started = true
							}
						}
					}
				}
				if !hasLenTest {
					if okp, _ := g.MustPass(call, func(x ast.Node) bool { return x == goAtom }, nil); okp {
						started = true
					}
				}
				if !started {
					c.Bad(key, goAtom.Pos(), "the draining goroutine is not started on every path on which channels were collected (non-empty slice): the children's steps are not waited for and the method returns nil (trivially complete)")
					continue
				}
				// error channels: a non-nil error sticks
				if cname == "PreCommit" {
					if why := errorSticks(lg, info, drainRS, isRecv); why != "" {
						c.Bad(key, drainRS.Pos(), "%s: a child's refusal of the pre-commit could be masked by a later child's success and the section would commit partially", why)
						continue
					}
				}
				c.Ok(key, call.Pos(), "(d) collected under `!= nil` on every path; drained by the goroutine started whenever the slice is non-empty")
			}
		}
	}
}

// panicsOnNonNilParam: h has one parameter and panics exactly on the branch where it is non-nil.
func panicsOnNonNilParam(e *Env, h *an.Func) bool {
	if h == nil || h.Decl == nil || h.Decl.Type.Params == nil || len(h.Decl.Type.Params.List) != 1 || len(h.Decl.Type.Params.List[0].Names) != 1 {
		return false
	}
	info := h.Pkg.Info
	p := info.Defs[h.Decl.Type.Params.List[0].Names[0]]
	g := e.Graph(h)
	for _, blk := range g.CFG.Blocks {
		cd, _ := g.Cond(blk)
		if cd == nil {
			continue
		}
		ok, when := nilTestOn(g, info, cd, func(x ast.Expr) bool { return an.ObjOf(info, x) == p })
		if !ok {
			continue
		}
		for _, pn := range g.FindAtoms(func(a ast.Node) bool {
			call, ok := a.(*ast.CallExpr)
			return ok && an.IsBuiltin(info, call, "panic")
		}) {
			if g.GuardedBy(pn, cd, when) {
				// and the non-nil branch cannot return normally
				if q := g.Search(an.Query{From: cd, Edges: g.Branch(cd, when), ToExit: true}); !q.Found {
					return true
				}
			}
		}
	}
	return false
}

// errorSticks checks, inside the drain loop of a PreCommit forwarder, that the variable holding the
// reported error keeps a non-nil value: every assignment from a receive is either followed, on its
// non-nil outcome, by leaving the loop, or is itself guarded by a non-nil test of the received value.
func errorSticks(lg *an.Graph, info *types.Info, rs ast.Stmt, isRecv func(ast.Node) bool) string {
	found := false
	bad := ""
	ast.Inspect(loopBodyOf(rs), func(m ast.Node) bool {
		as, ok := m.(*ast.AssignStmt)
		if !ok || len(as.Lhs) != 1 || len(as.Rhs) != 1 {
			return true
		}
		if u, ok := an.Unparen(as.Rhs[0]).(*ast.UnaryExpr); !ok || !isRecv(u) {
			return true
		}
		found = true
		ev := an.ObjOf(info, as.Lhs[0])
		if ev == nil {
			bad = "the received pre-commit result is discarded"
			return true
		}
		if as.Tok == token.DEFINE {
			// local copy: must be transferred under a non-nil guard (accumulation) - find `x = ev` guarded by ev != nil
			okAcc := false
			for _, a2 := range lg.FindAtoms(func(a ast.Node) bool {
				x, ok := a.(*ast.AssignStmt)
				return ok && len(x.Rhs) == 1 && an.ObjOf(info, x.Rhs[0]) == ev
			}) {
				for _, blk := range lg.CFG.Blocks {
					cd, _ := lg.Cond(blk)
					if cd == nil {
						continue
					}
					if ok, when := nilTestOn(lg, info, cd, func(x ast.Expr) bool { return an.ObjOf(info, x) == ev }); ok && lg.GuardedBy(a2, cd, when) {
						okAcc = true
					}
				}
			}
			if !okAcc {
				bad = "the received pre-commit result is not accumulated under a non-nil guard"
			}
			return true
		}
		// direct assignment to the reported variable: on the non-nil outcome the loop must be left
		sticks := false
		for _, blk := range lg.CFG.Blocks {
			cd, _ := lg.Cond(blk)
			if cd == nil {
				continue
			}
			ok, when := nilTestOn(lg, info, cd, func(x ast.Expr) bool { return an.ObjOf(info, x) == ev })
			if !ok || !lg.Dominates(as, cd) {
				continue
			}
			back := lg.Search(an.Query{From: cd, Edges: lg.Branch(cd, when), Target: func(a ast.Node) bool { return a == ast.Node(as) }})
			if !back.Found {
				sticks = true
			}
		}
		if !sticks {
			bad = "after a non-nil pre-commit result the drain loop goes on and overwrites it"
		}
		return true
	})
	if !found {
		return "the drain loop does not keep the received pre-commit results"
	}
	return bad
}
