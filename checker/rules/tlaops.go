package rules

import (
	"fmt"
	"go/ast"
	"go/token"
	"go/types"

	"pgoverif/checker/an"
	"pgoverif/checker/core"
)

func init() {
	register(&core.Rule{ID: "OP-RELATION", Props: []string{"C03"}, Floor: 10,
		Doc: "the comparison and non-commutative arithmetic operators apply the Go operator that their TLA+ symbol names to their operands in source order (a comparison is normalised over operand swaps and negation before it is compared with the symbol's relation)",
		Run: runOpRelation})
	register(&core.Rule{ID: "OVERRIDE-DIR", Props: []string{"C03"}, Floor: 1,
		Doc: "f @@ g: the left operand wins on shared keys - every entry written into the result comes from the left operand and is written over (a map derived from) the right operand",
		Run: runOverrideDir})
	register(&core.Rule{ID: "GET-OK-USED", Props: []string{"C03"}, Floor: 8,
		Doc: "in package tla the found/not-found result of a persistent-map lookup is never discarded: a missing key is either a TLA+ error or an explicitly handled case, never a silent zero value",
		Run: runGetOkUsed})
	register(&core.Rule{ID: "INDEX-BASE", Props: []string{"C03"}, Floor: 5,
		Doc: "TLA+ sequences are 1-indexed: a non-constant position handed to immutable.List Get/Set/Slice(start) is <1-based index> - 1, and the accompanying bounds test compares that index with 1 (lower) and Len() (upper)",
		Run: runIndexBase})
}

// derivedFrom computes, for the two value parameters of a binary operator, which local variables derive from which
// parameter (through method calls, conversions and plain assignments). A variable deriving from both is "mixed".
func paramOrigins(info *types.Info, fn *an.Func) map[types.Object]int {
	origin := map[types.Object]int{}
	i := 0
	for _, fl := range fn.Decl.Type.Params.List {
		for _, nm := range fl.Names {
			if o := info.Defs[nm]; o != nil {
				origin[o] = 1 << i
			}
			i++
		}
	}
	var of func(e ast.Expr) int
	of = func(e ast.Expr) int {
		m := 0
		ast.Inspect(e, func(n ast.Node) bool {
			if _, isLit := n.(*ast.FuncLit); isLit {
				return false
			}
			if id, ok := n.(*ast.Ident); ok {
				m |= origin[info.ObjectOf(id)]
			}
			return true
		})
		return m
	}
	for changed, rounds := true, 0; changed && rounds < 6; rounds++ {
		changed = false
		ast.Inspect(fn.Body(), func(n ast.Node) bool {
			as, ok := n.(*ast.AssignStmt)
			if !ok {
				return true
			}
			for i, l := range as.Lhs {
				o := an.ObjOf(info, l)
				if o == nil {
					continue
				}
				var m int
				if len(as.Rhs) == len(as.Lhs) {
					m = of(as.Rhs[i])
				} else if len(as.Rhs) == 1 {
					m = of(as.Rhs[0])
				}
				if m != 0 && origin[o]|m != origin[o] {
					origin[o] |= m
					changed = true
				}
			}
			return true
		})
	}
	return origin
}

func exprOrigin(info *types.Info, origin map[types.Object]int, e ast.Expr) int {
	m := 0
	ast.Inspect(e, func(n ast.Node) bool {
		if _, isLit := n.(*ast.FuncLit); isLit {
			return false
		}
		if id, ok := n.(*ast.Ident); ok {
			m |= origin[info.ObjectOf(id)]
		}
		return true
	})
	return m
}

func flipRel(op token.Token) token.Token {
	switch op {
	case token.LSS:
		return token.GTR
	case token.GTR:
		return token.LSS
	case token.LEQ:
		return token.GEQ
	case token.GEQ:
		return token.LEQ
	}
	return op
}

func negRel(op token.Token) token.Token {
	switch op {
	case token.LSS:
		return token.GEQ
	case token.GTR:
		return token.LEQ
	case token.LEQ:
		return token.GTR
	case token.GEQ:
		return token.LSS
	case token.EQL:
		return token.NEQ
	case token.NEQ:
		return token.EQL
	}
	return op
}

func runOpRelation(c *core.Ctx) {
	e := EnvOf(c.Prog)
	if tlaPkg(c) == nil {
		return
	}
	rel := map[string]token.Token{
		"ModuleLessThanSymbol": token.LSS, "ModuleLessThanOrEqualSymbol": token.LEQ,
		"ModuleGreaterThanSymbol": token.GTR, "ModuleGreaterThanOrEqualSymbol": token.GEQ,
	}
	arith := map[string]token.Token{
		"ModuleMinusSymbol": token.SUB, "ModuleDivSymbol": token.QUO, "ModulePercentSymbol": token.REM,
		"ModulePlusSymbol": token.ADD, "ModuleAsteriskSymbol": token.MUL,
	}
	for name, want := range rel {
		fn := e.Ix.LookupFunc(an.PkgTLA, name)
		if fn == nil {
			c.Lost("tla."+name, "operator not found")
			continue
		}
		info := fn.Pkg.Info
		origin := paramOrigins(info, fn)
		// the returned expression: MakeBool(<comparison>) possibly negated
		var found []token.Token
		undecided := ""
		ast.Inspect(fn.Body(), func(n ast.Node) bool {
			rs, ok := n.(*ast.ReturnStmt)
			if !ok || len(rs.Results) != 1 {
				return true
			}
			call, ok := an.Unparen(rs.Results[0]).(*ast.CallExpr)
			if !ok || !an.IsFuncNamed(an.CalleeFunc(info, call), an.PkgTLA, "MakeBool") {
				undecided = "the result is not MakeBool(<comparison>)"
				return true
			}
			ex := an.Unparen(call.Args[0])
			neg := false
			for {
				if u, ok := ex.(*ast.UnaryExpr); ok && u.Op == token.NOT {
					neg = !neg
					ex = an.Unparen(u.X)
					continue
				}
				break
			}
			be, ok := ex.(*ast.BinaryExpr)
			if !ok {
				undecided = "the result is not a single comparison"
				return true
			}
			op := be.Op
			ox, oy := exprOrigin(info, origin, be.X), exprOrigin(info, origin, be.Y)
			switch {
			case ox == 1 && oy == 2:
			case ox == 2 && oy == 1:
				op = flipRel(op)
			default:
				undecided = "the comparison's operands do not derive one from each parameter"
				return true
			}
			if neg {
				op = negRel(op)
			}
			found = append(found, op)
			return true
		})
		key := "tla." + name
		switch {
		case undecided != "" || len(found) == 0:
			c.Undecided(key, fn.Pos(), "shape not recognised: %s", undecided)
		default:
			ok := true
			for _, op := range found {
				if op != want {
					ok = false
				}
			}
			c.Check(ok, key, fn.Pos(), fmt.Sprintf("computes lhs %s rhs", want), fmt.Sprintf("computes lhs %s rhs where the symbol means lhs %s rhs", found[0], want))
		}
	}
	for name, want := range arith {
		fn := e.Ix.LookupFunc(an.PkgTLA, name)
		if fn == nil {
			c.Lost("tla."+name, "operator not found")
			continue
		}
		info := fn.Pkg.Info
		origin := paramOrigins(info, fn)
		key := "tla." + name
		n, bad := 0, ""
		ast.Inspect(fn.Body(), func(m ast.Node) bool {
			be, ok := m.(*ast.BinaryExpr)
			if !ok {
				return true
			}
			switch be.Op {
			case token.ADD, token.SUB, token.MUL, token.QUO, token.REM:
			default:
				return true
			}
			ox, oy := exprOrigin(info, origin, be.X), exprOrigin(info, origin, be.Y)
			if ox|oy != 3 {
				return true // not the core operation on both operands (e.g. an adjustment)
			}
			if be.Op == token.REM && want == token.QUO {
				return true // the remainder test used to adjust a floor division
			}
			n++
			if be.Op != want {
				bad = fmt.Sprintf("applies %s to the operands where the symbol means %s", be.Op, want)
			}
			if (want == token.SUB || want == token.QUO || want == token.REM) && !(ox == 1 && oy == 2) {
				bad = fmt.Sprintf("applies %s with the operands swapped", be.Op)
			}
			return true
		})
		switch {
		case bad != "":
			c.Bad(key, fn.Pos(), "%s: the operator silently returns a different value", bad)
		case n == 0:
			c.Undecided(key, fn.Pos(), "no arithmetic on both operands recognised")
		default:
			c.Ok(key, fn.Pos(), "lhs %s rhs", want)
		}
	}
	// a..b : loop from lhs up to and including rhs
	if fn := e.Ix.LookupFunc(an.PkgTLA, "ModuleDotDotSymbol"); fn != nil {
		info := fn.Pkg.Info
		origin := paramOrigins(info, fn)
		ok, seen := false, false
		ast.Inspect(fn.Body(), func(m ast.Node) bool {
			fs, isFor := m.(*ast.ForStmt)
			if !isFor || fs.Init == nil || fs.Cond == nil {
				return true
			}
			seen = true
			as, isAs := fs.Init.(*ast.AssignStmt)
			cond, isBin := an.Unparen(fs.Cond).(*ast.BinaryExpr)
			if isAs && isBin && len(as.Rhs) == 1 && exprOrigin(info, origin, as.Rhs[0]) == 1 && cond.Op == token.LEQ && exprOrigin(info, origin, cond.Y) == 2 {
				if inc, isInc := fs.Post.(*ast.IncDecStmt); isInc && inc.Tok == token.INC {
					ok = true
				}
			}
			return true
		})
		if !seen {
			c.Undecided("tla.ModuleDotDotSymbol", fn.Pos(), "no counting loop recognised")
		} else {
			c.Check(ok, "tla.ModuleDotDotSymbol", fn.Pos(), "counts from lhs while <= rhs", "a..b does not enumerate from the left operand up to and including the right operand")
		}
	} else {
		c.Lost("tla.ModuleDotDotSymbol", "operator not found")
	}
}

func runOverrideDir(c *core.Ctx) {
	e := EnvOf(c.Prog)
	fn := mustFunc(c, e, an.PkgTLA, "ModuleDoubleAtSignSymbol")
	if fn == nil {
		return
	}
	info := fn.Pkg.Info
	origin := paramOrigins(info, fn)
	n, bad := 0, ""
	ast.Inspect(fn.Body(), func(m ast.Node) bool {
		call, ok := m.(*ast.CallExpr)
		if !ok || len(call.Args) != 2 {
			return true
		}
		f := an.CalleeFunc(info, call)
		if f == nil || f.Name() != "Set" {
			return true
		}
		sel, ok := an.Unparen(call.Fun).(*ast.SelectorExpr)
		if !ok {
			return true
		}
		n++
		target := exprOrigin(info, origin, sel.X)
		src := exprOrigin(info, origin, call.Args[0]) | exprOrigin(info, origin, call.Args[1])
		// entries of the LEFT operand (bit 1) are written over a map that starts as the RIGHT operand (bit 2)
		if src != 1 || target&2 == 0 {
			bad = fmt.Sprintf("an entry deriving from operand mask %b is written into a map deriving from mask %b", src, target)
		}
		return true
	})
	switch {
	case n == 0:
		c.Undecided("tla.ModuleDoubleAtSignSymbol", fn.Pos(), "no Set call recognised")
	case bad != "":
		c.Bad("tla.ModuleDoubleAtSignSymbol", fn.Pos(), "%s: on shared keys the right operand's value can win, but f @@ g takes f's value (TLC: left operand has priority)", bad)
	default:
		c.Ok("tla.ModuleDoubleAtSignSymbol", fn.Pos(), "left entries are written over the right function")
	}
}

func runGetOkUsed(c *core.Ctx) {
	e := EnvOf(c.Prog)
	if tlaPkg(c) == nil {
		return
	}
	for _, fn := range tlaFuncs(e) {
		info := fn.Pkg.Info
		seq := 0
		ast.Inspect(fn.Body(), func(m ast.Node) bool {
			as, ok := m.(*ast.AssignStmt)
			if !ok || len(as.Rhs) != 1 || len(as.Lhs) != 2 {
				return true
			}
			call, ok := an.Unparen(as.Rhs[0]).(*ast.CallExpr)
			if !ok {
				return true
			}
			f := an.CalleeFunc(info, call)
			if f == nil || f.Name() != "Get" {
				return true
			}
			rn := an.RecvNamed(f)
			if rn == nil || rn.Obj().Pkg() == nil || rn.Obj().Pkg().Path() != an.PkgImmutable || rn.Obj().Name() != "Map" {
				return true
			}
			seq++
			key := fmt.Sprintf("%s:Get#%d", fn.Name(), seq)
			if id, isID := as.Lhs[1].(*ast.Ident); isID && id.Name == "_" {
				c.Bad(key, as.Pos(), "the found/not-found result of %s is discarded: a key outside the domain silently yields the zero value instead of a TLA+ error", an.ExprString(call))
			} else {
				c.Ok(key, as.Pos(), "the lookup's ok result is used")
			}
			return true
		})
	}
}

func runIndexBase(c *core.Ctx) {
	e := EnvOf(c.Prog)
	if tlaPkg(c) == nil {
		return
	}
	for _, fn := range tlaFuncs(e) {
		info := fn.Pkg.Info
		seq := 0
		ast.Inspect(fn.Body(), func(m ast.Node) bool {
			call, ok := m.(*ast.CallExpr)
			if !ok || len(call.Args) == 0 {
				return true
			}
			f := an.CalleeFunc(info, call)
			if f == nil {
				return true
			}
			rn := an.RecvNamed(f)
			if rn == nil || rn.Obj().Pkg() == nil || rn.Obj().Pkg().Path() != an.PkgImmutable || rn.Obj().Name() != "List" {
				return true
			}
			if f.Name() != "Get" && f.Name() != "Set" && f.Name() != "Slice" {
				return true
			}
			arg := an.Unparen(call.Args[0])
			seq++
			key := fmt.Sprintf("%s:List.%s#%d", fn.Name(), f.Name(), seq)
			if tv := info.Types[arg]; tv.Value != nil {
				c.Ok(key, call.Pos(), "constant position %s", tv.Value.ExactString())
				return true
			}
			be, isBin := arg.(*ast.BinaryExpr)
			one := false
			if isBin && be.Op == token.SUB {
				if tv := info.Types[be.Y]; tv.Value != nil && tv.Value.ExactString() == "1" {
					one = true
				}
			}
			if !one {
				c.Bad(key, call.Pos(), "position %s handed to immutable.List.%s is not <1-based index> - 1: TLA+ sequences start at 1, the list at 0", an.ExprString(arg), f.Name())
				return true
			}
			// the 1-based index must be compared with 1 somewhere in the function (lower bound)
			idx := an.ObjOf(info, be.X)
			lower := false
			ast.Inspect(fn.Body(), func(k ast.Node) bool {
				if cmp, ok := k.(*ast.BinaryExpr); ok && cmp.Op == token.GEQ && an.ObjOf(info, cmp.X) == idx && idx != nil {
					if tv := info.Types[cmp.Y]; tv.Value != nil && tv.Value.ExactString() == "1" {
						lower = true
					}
				}
				return true
			})
			c.Check(lower, key, call.Pos(), "0-based position = index - 1, index checked >= 1", "the 1-based index is not checked against the lower bound 1 (index >= 1)")
			return true
		})
	}
}
