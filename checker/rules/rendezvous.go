package rules

import (
	"fmt"
	"go/ast"
	"go/constant"
	"go/token"
	"go/types"
	"strings"

	"pgoverif/checker/an"
	"pgoverif/checker/core"
)

func init() {
	register(&core.Rule{ID: "RESP-RENDEZVOUS", Props: []string{"C14"}, Floor: 1,
		Doc: "client front ends of the generated stores: a channel on which an API call waits for the archetype's answer in a select whose other arm abandons the wait (timeout -> return) is a rendezvous channel (capacity 0). With a buffer, the answer to an abandoned request is parked and handed to the next call as *its* answer: every later response is matched with the wrong request, which no linearization explains. (With a rendezvous channel the late answer blocks the archetype instead: the client stalls, it never lies.)",
		Run: runRespRendezvous})
}

func runRespRendezvous(c *core.Ctx) {
	e := EnvOf(c.Prog)
	n := 0
	for _, pk := range c.Prog.Sorted() {
		if !strings.HasPrefix(pk.Path, an.ModPrefix+"systems/") {
			continue
		}
		info := pk.Info
		// fields received from in an abandoning select
		waited := map[*types.Var]token.Pos{}
		for _, f := range pk.Files {
			ast.Inspect(f, func(m ast.Node) bool {
				sel, ok := m.(*ast.SelectStmt)
				if !ok {
					return true
				}
				var recvFields []*types.Var
				abandons := false
				for _, cl := range sel.Body.List {
					cc := cl.(*ast.CommClause)
					var rx ast.Expr
					switch s := cc.Comm.(type) {
					case *ast.ExprStmt:
						rx = s.X
					case *ast.AssignStmt:
						if len(s.Rhs) == 1 {
							rx = s.Rhs[0]
						}
					}
					var fld *types.Var
					if u, isU := an.Unparen(rx).(*ast.UnaryExpr); rx != nil && isU && u.Op == token.ARROW {
						fld = an.SelectedField(info, u.X)
					}
					returns := false
					for _, st := range cc.Body {
						ast.Inspect(st, func(k ast.Node) bool {
							if _, isLit := k.(*ast.FuncLit); isLit {
								return false
							}
							if _, isRet := k.(*ast.ReturnStmt); isRet {
								returns = true
							}
							return true
						})
					}
					if fld != nil && isValueChan(fld.Type()) {
						recvFields = append(recvFields, fld)
					} else if returns {
						abandons = true
					}
				}
				if abandons {
					for _, fld := range recvFields {
						waited[fld] = sel.Pos()
					}
				}
				return true
			})
		}
		if len(waited) == 0 {
			continue
		}
		// every initialisation of such a field
		for _, f := range pk.Files {
			var fdStack []*ast.FuncDecl
			ast.Inspect(f, func(m ast.Node) bool {
				if fd, ok := m.(*ast.FuncDecl); ok {
					fdStack = []*ast.FuncDecl{fd}
				}
				var fld *types.Var
				var val ast.Expr
				switch x := m.(type) {
				case *ast.KeyValueExpr:
					if id, ok := x.Key.(*ast.Ident); ok {
						if v, isVar := info.ObjectOf(id).(*types.Var); isVar && v.IsField() {
							fld, val = v, x.Value
						}
					}
				case *ast.AssignStmt:
					if len(x.Lhs) == 1 && len(x.Rhs) == 1 {
						fld, val = an.SelectedField(info, x.Lhs[0]), x.Rhs[0]
					}
				}
				if fld == nil || val == nil {
					return true
				}
				if _, isWaited := waited[fld]; !isWaited {
					return true
				}
				n++
				key := fmt.Sprintf("%s.%s", an.ShortPkg(pk.Path), fld.Name())
				var body ast.Node = f
				if len(fdStack) > 0 && fdStack[0].Body != nil && fdStack[0].Pos() <= m.Pos() && m.End() <= fdStack[0].End() {
					body = fdStack[0].Body
				}
				def := an.Unparen(an.ResolveLocal(info, body, val))
				call, isCall := def.(*ast.CallExpr)
				if !isCall || !an.IsBuiltin(info, call, "make") {
					if id, isId := def.(*ast.Ident); isId {
						if v, isVar := info.ObjectOf(id).(*types.Var); isVar && !v.IsField() {
							// handed in by the caller: not created here
							c.Ok(key, m.Pos(), "the channel is handed in by the caller")
							return true
						}
					}
					c.Undecided(key, m.Pos(), "the channel stored in %s is not created by a make() the rule can see", fld.Name())
					return true
				}
				switch {
				case len(call.Args) < 2:
					c.Ok(key, m.Pos(), "make(chan ...) without capacity: rendezvous")
				default:
					tv := info.Types[call.Args[1]]
					if tv.Value != nil {
						if v, exact := constant.Int64Val(constant.ToInt(tv.Value)); exact && v == 0 {
							c.Ok(key, m.Pos(), "capacity is the constant 0")
							return true
						}
					}
					c.Bad(key, call.Pos(), "%s.%s, on which an API call waits with a timeout that abandons the request (select at %s), is created with a buffer: the late answer of an abandoned request is delivered to the next call as its answer", an.ShortPkg(pk.Path), fld.Name(), c.Prog.Rel(waited[fld]))
				}
				return true
			})
		}
	}
	_ = e
}

// isValueChan: a channel of tla.Value.
func isValueChan(t types.Type) bool {
	ch, ok := t.Underlying().(*types.Chan)
	if !ok {
		return false
	}
	nm := an.NamedOf(ch.Elem())
	return nm != nil && nm.Obj().Name() == "Value" && nm.Obj().Pkg() != nil && strings.HasSuffix(nm.Obj().Pkg().Path(), "distsys/tla")
}

func init() {
	register(&core.Rule{ID: "FRONTEND-ANSWER", Props: []string{"C14", "C09"}, Floor: 2,
		Doc: "client front ends of the generated stores: an API call that waits for the archetype's answer in a select with an abandoning arm reports success (a nil error together with a value) only from the arm that received the answer of this call; the abandoning arm (timeout) reports an error. A value remembered from an earlier call and returned as a success after a timeout is an answer the store never gave for this request",
		Run: runFrontendAnswer})
}

func runFrontendAnswer(c *core.Ctx) {
	errT := types.Universe.Lookup("error").Type()
	for _, pk := range c.Prog.Sorted() {
		if !strings.HasPrefix(pk.Path, an.ModPrefix+"systems/") {
			continue
		}
		info := pk.Info
		for _, f := range pk.Files {
			for _, d := range f.Decls {
				fd, ok := d.(*ast.FuncDecl)
				if !ok || fd.Body == nil || fd.Type.Results == nil {
					continue
				}
				switch fd.Name.Name {
				case "ReadValue", "WriteValue", "Index", "PreCommit", "Commit", "Abort", "Close":
					continue // a resource's operation (a timed read has its own rules), not an API call of a front end
				}
				sig, _ := info.Defs[fd.Name].Type().(*types.Signature)
				if sig == nil || sig.Results().Len() < 2 || !types.Identical(sig.Results().At(sig.Results().Len()-1).Type(), errT) {
					continue
				}
				// the answering arms of abandoning selects in this function
				var answering []*ast.CommClause
				hasAbandon := false
				ast.Inspect(fd.Body, func(m ast.Node) bool {
					if _, isLit := m.(*ast.FuncLit); isLit {
						return false
					}
					sel, ok := m.(*ast.SelectStmt)
					if !ok {
						return true
					}
					var recv []*ast.CommClause
					abandons := false
					for _, cl := range sel.Body.List {
						cc := cl.(*ast.CommClause)
						var rx ast.Expr
						switch s := cc.Comm.(type) {
						case *ast.ExprStmt:
							rx = s.X
						case *ast.AssignStmt:
							if len(s.Rhs) == 1 {
								rx = s.Rhs[0]
							}
						}
						var fld *types.Var
						if u, isU := an.Unparen(rx).(*ast.UnaryExpr); rx != nil && isU && u.Op == token.ARROW {
							fld = an.SelectedField(info, u.X)
						}
						returns := false
						for _, st := range cc.Body {
							ast.Inspect(st, func(k ast.Node) bool {
								if _, isRet := k.(*ast.ReturnStmt); isRet {
									returns = true
								}
								return true
							})
						}
						if fld != nil && isValueChan(fld.Type()) {
							recv = append(recv, cc)
						} else if returns {
							abandons = true
						}
					}
					if abandons && len(recv) > 0 {
						hasAbandon = true
						answering = append(answering, recv...)
					}
					return true
				})
				if !hasAbandon {
					continue
				}
				name := an.ShortPkg(pk.Path) + "." + fd.Name.Name
				if fd.Recv != nil && len(fd.Recv.List) == 1 {
					name = an.ShortPkg(pk.Path) + "." + strings.TrimPrefix(types.ExprString(fd.Recv.List[0].Type), "*") + "." + fd.Name.Name
				}
				bad := ""
				ast.Inspect(fd.Body, func(m ast.Node) bool {
					if _, isLit := m.(*ast.FuncLit); isLit {
						return false
					}
					r, ok := m.(*ast.ReturnStmt)
					if !ok || len(r.Results) != sig.Results().Len() || !isNilIdent(info, r.Results[len(r.Results)-1]) {
						return true
					}
					inside := false
					for _, cc := range answering {
						if r.Pos() >= cc.Pos() && r.End() <= cc.End() {
							inside = true
						}
					}
					if !inside {
						bad = fmt.Sprintf("line %d returns %s as a success outside the arm that received the answer", c.Prog.Fset.Position(r.Pos()).Line, types.ExprString(r.Results[0]))
					}
					return true
				})
				c.Check(bad == "", name+":success-only-from-the-answer", fd.Pos(), "every success return lies in the arm that received this call's answer",
					bad+": after the wait was abandoned the caller is told the store answered, with a value the store did not give for this request")
			}
		}
	}
}
