package rules

import (
	"go/ast"
	"go/types"

	"pgoverif/checker/an"
	"pgoverif/checker/core"
)

func init() {
	register(&core.Rule{ID: "FD-DIAL", Props: []string{"C19"}, Floor: 1,
		Doc: "a detector that has no usable connection dials on every poll: in SingleFailureDetector.ensureClient the dial happens exactly when there is no client or a re-dial was requested - nothing done first (closing the old client, say) can return before it. Otherwise one failed step leaves the detector without a connection for good, and it reports a running archetype as failed for ever",
		Run: func(c *core.Ctx) {
			e := EnvOf(c.Prog)
			rows := []dtRow{{fn: "SingleFailureDetector.ensureClient", key: "dials-exactly-when-needed", why: "the dial is attempted exactly when there is no client or a re-dial was requested",
				find: func(info *types.Info, n ast.Node) bool {
					call, ok := n.(*ast.CallExpr)
					if !ok {
						return false
					}
					f := an.CalleeFunc(info, call)
					return f != nil && f.Pkg() != nil && f.Pkg().Path() == "net" && (f.Name() == "DialTimeout" || f.Name() == "Dial")
				},
				bools: []string{"$.client==nil", "$.reDial"}, ref: func(a dtAtoms) bool { return a.B("$.client==nil") || a.B("$.reDial") }}}
			runDecisionRows(c, e, an.PkgResources, "SingleFailureDetector", rows)
		}})
}
