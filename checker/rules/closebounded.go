package rules

import (
	"go/ast"
	"go/types"

	"pgoverif/checker/an"
	"pgoverif/checker/core"
)

func init() {
	register(&core.Rule{ID: "CLOSE-BOUNDED", Props: []string{"C17"}, Floor: 20,
		Doc: "Close of a resource does not wait for a counter that only a peer's protocol messages bring back to zero: a sync.WaitGroup (or sync.Cond) that Close waits on is decremented only by deferred Done calls - i.e. by the exit of goroutines that Close itself ends - never by a plain Done on a message-handling path (a pre-commit that is never followed by its commit would keep Close, and with it Run's epilogue and every Stop, waiting for ever)",
		Run: runCloseBounded})
}

func runCloseBounded(c *core.Ctx) {
	e := EnvOf(c.Prog)
	resI := e.Ix.LookupType(an.PkgDistsys, "ArchetypeResource")
	if resI == nil {
		c.Lost("distsys.ArchetypeResource", "interface not found")
		return
	}
	for _, nt := range e.Ix.Implementations(an.InterfaceOf(resI)) {
		fn := e.Ix.MethodDecl(nt, "Close")
		if fn == nil || fn.Body() == nil {
			continue
		}
		info := fn.Pkg.Info
		key := an.TypeKey(nt) + ".Close:waits-only-for-what-it-ends"
		// wait sites in Close and in the methods of the same type it calls (depth 2)
		var waited []*types.Var
		seen := map[*an.Func]bool{}
		var visit func(f *an.Func, depth int)
		visit = func(f *an.Func, depth int) {
			if f == nil || f.Body() == nil || seen[f] || depth > 2 {
				return
			}
			seen[f] = true
			fi := f.Pkg.Info
			ast.Inspect(f.Body(), func(m ast.Node) bool {
				call, ok := m.(*ast.CallExpr)
				if !ok {
					return true
				}
				callee := an.CalleeFunc(fi, call)
				if callee == nil {
					return true
				}
				if callee.Pkg() != nil && callee.Pkg().Path() == "sync" && callee.Name() == "Wait" {
					if sel, ok := an.Unparen(call.Fun).(*ast.SelectorExpr); ok {
						if fld := an.SelectedField(fi, sel.X); fld != nil {
							waited = append(waited, fld)
						}
					}
					return true
				}
				if t := e.Ix.FuncOf(callee); t != nil && t.Pkg == f.Pkg {
					visit(t, depth+1)
				}
				return true
			})
		}
		visit(fn, 0)
		bad := ""
		for _, fld := range waited {
			// every Done on that field, anywhere in the package, is deferred
			for _, f := range e.Ix.Funcs() {
				if f.Pkg != fn.Pkg || f.Body() == nil {
					continue
				}
				var stack []ast.Node
				ast.Inspect(f.Body(), func(m ast.Node) bool {
					if m == nil {
						stack = stack[:len(stack)-1]
						return true
					}
					stack = append(stack, m)
					call, ok := m.(*ast.CallExpr)
					if !ok {
						return true
					}
					callee := an.CalleeFunc(info, call)
					if callee == nil || callee.Pkg() == nil || callee.Pkg().Path() != "sync" || callee.Name() != "Done" {
						return true
					}
					sel, ok := an.Unparen(call.Fun).(*ast.SelectorExpr)
					if !ok || an.SelectedField(info, sel.X) != fld {
						return true
					}
					if len(stack) >= 2 {
						if _, isDefer := stack[len(stack)-2].(*ast.DeferStmt); isDefer {
							return true
						}
					}
					bad = fld.Name() + " is decremented by a plain Done in " + f.Name()
					return true
				})
			}
		}
		c.Check(bad == "", key, fn.Pos(), "no wait on a counter driven by protocol messages",
			"Close waits on a WaitGroup ("+bad+"): the counter returns to zero only if a later protocol message arrives, which a peer that aborted, restarted or died never sends - Close, Run's epilogue and every Stop then block for ever")
	}
}
