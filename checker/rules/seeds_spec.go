package rules

func init() {
	const raft = "systems/raftkvs/raftkvs.go"
	seed(Seed{Name: "dqueue-wrong-goto", Prop: "C02", Rule: "SPEC-MATCH", File: "systems/dqueue/dqueue.go",
		Old: "return iface.Goto(\"AConsumer.c2\")", New: "return iface.Goto(\"AConsumer.c\")", Expect: "dqueue/AConsumer.c1"})
	seed(Seed{Name: "dqueue-write-wrong-index", Prop: "C02", Rule: "SPEC-MATCH", File: "systems/dqueue/dqueue.go",
		Old: "err = iface.Write(net, []tla.Value{iface.GetConstant(\"PRODUCER\")()}, iface.Self())", New: "err = iface.Write(net, []tla.Value{iface.Self()}, iface.Self())", Expect: "dqueue/AConsumer.c1"})
	seed(Seed{Name: "dqueue-goto-missing-label", Prop: "C02", Rule: "SPEC-MATCH", File: "systems/dqueue/dqueue.go",
		Old: "return iface.Goto(\"AProducer.p2\")", New: "return iface.Goto(\"AProducer.p3\")", Expect: "dqueue/AProducer.p1"})
	seed(Seed{Name: "dqueue-operator-body", Prop: "C02", Rule: "SPEC-MATCH", File: "systems/dqueue/dqueue.go",
		Old: "return tla.ModulePlusSymbol(iface.GetConstant(\"NUM_CONSUMERS\")(), tla.MakeNumber(1))", New: "return tla.ModulePlusSymbol(iface.GetConstant(\"NUM_CONSUMERS\")(), tla.MakeNumber(2))", Expect: "operator NUM_NODES"})
	seed(Seed{Name: "dqueue-ref-param-as-val", Prop: "C02", Rule: "SPEC-MATCH", File: "systems/dqueue/dqueue.go",
		Old: "RequiredRefParams: []string{\"AProducer.net\", \"AProducer.s\"},\n\tRequiredValParams: []string{},", New: "RequiredRefParams: []string{\"AProducer.net\"},\n\tRequiredValParams: []string{\"AProducer.s\"},", Expect: "AProducer:archetype"})
	seed(Seed{Name: "proxy-await-dropped", Prop: "C02", Rule: "SPEC-MATCH", File: "systems/proxy/proxy.go",
		Old: "\t\t\t\t\tif !condition3.AsBool() {\n\t\t\t\t\t\treturn distsys.ErrCriticalSectionAborted\n\t\t\t\t\t}\n", New: "\t\t\t\t\t_ = condition3\n", Expect: "proxy/AProxy"})
	seed(Seed{Name: "spaghetti-statevars-order", Prop: "C02", Rule: "SPEC-MATCH", File: "pgo/test/files/general/ProcedureSpaghetti.tla.gotests/ProcedureSpaghetti.go",
		Old: "StateVars: []string{\"Proc1.a\", \"Proc1.b\", \"Proc1.c\"},", New: "StateVars: []string{\"Proc1.b\", \"Proc1.a\", \"Proc1.c\"},", Expect: "Proc1:procedure"})
	seed(Seed{Name: "extra-resource-read", Prop: "C02", Rule: "SPEC-MATCH", File: "systems/dqueue/dqueue.go",
		Old: "\t\t\terr = iface.Write(requester, nil, exprRead0)", New: "\t\t\tvar extra tla.Value\n\t\t\textra, err = iface.Read(net1, []tla.Value{iface.Self()})\n\t\t\tif err != nil {\n\t\t\t\treturn err\n\t\t\t}\n\t\t\t_ = extra\n\t\t\terr = iface.Write(requester, nil, exprRead0)", Expect: "dqueue/AProducer.p1"})
	// spec-side seeds (applied through the text overlay): the spec is edited without regenerating the Go
	seed(Seed{Name: "spec-junction-item-moved-out", Prop: "C02", Rule: "SPEC-MATCH", File: "systems/raftkvs/raftkvs.tla",
		Old: "                           /\\ state[i] = Follower\n                           /\\ \\lnot logOK\n", New: "                           /\\ state[i] = Follower\n                        \\/ \\lnot logOK\n", Expect: "AServer.handleMsg"})
	seed(Seed{Name: "spec-parentheses-dropped", Prop: "C02", Rule: "SPEC-MATCH", File: "systems/gcounter/gcounter.tla",
		Old: "await cntr[self] >= (r + 1) * NUM_NODES;", New: "await cntr[self] >= r + 1 * NUM_NODES;", Expect: "ANodeBench.waitInc"})
	seed(Seed{Name: "go-call-argument-regrouped", Prop: "C02", Rule: "SPEC-MATCH", File: "systems/gcounter/gcounter.go",
		Old: "tla.ModuleAsteriskSymbol(tla.ModulePlusSymbol(condition2, tla.MakeNumber(1)), iface.GetConstant(\"NUM_NODES\")())", New: "tla.ModulePlusSymbol(condition2, tla.ModuleAsteriskSymbol(tla.MakeNumber(1), iface.GetConstant(\"NUM_NODES\")()))", Expect: "ANodeBench.waitInc"})
}
