package rules

import (
	"fmt"
	"go/ast"
	"go/token"
	"go/types"

	"golang.org/x/tools/go/cfg"

	"pgoverif/checker/an"
	"pgoverif/checker/core"
)

// IO-ERR: inside the methods of resource implementations (and the goroutines / helpers they start)
// a step that can fail — any call whose last result is an error kept in a variable — must not be
// followed by the success path when it failed:
//   (1) the error is tested against nil, or returned/forwarded, on every path before the function
//       ends or the variable is overwritten;
//   (2) on the non-nil outcome of that test the statement that follows the test on the nil outcome
//       (the success continuation) is not reachable while the variable still holds that error
//       (other nil tests of the same variable are followed on their non-nil side only);
//   (3) the error value is not used (logged, wrapped, sent, returned) on the outcome where it is nil.
// A failed send that is treated as sent loses a message of a committed section (C06); a failed
// pre-commit step that is treated as acknowledged commits against a peer that never agreed (C01).
// Exception, frozen: errors of Close() calls may be logged and ignored.

func init() {
	register(&core.Rule{
		ID:    "IO-ERR",
		Props: []string{"C01", "C06"},
		Floor: 25,
		Doc:   "resource implementations: the error of every fallible step is examined on every path, its failure outcome never falls through to the success continuation, and the error is not used on the outcome where it is nil",
		Run:   runIOErr,
	})
}

var ioErrIgnorable = map[string]string{
	"Close": "closing a connection/listener/file is best effort; the repo logs and continues everywhere",
}

func runIOErr(c *core.Ctx) {
	e := EnvOf(c.Prog)
	iface := resourceIface(c, e)
	aiT := mustType(c, e, an.PkgDistsys, "ArchetypeInterface")
	if iface == nil || aiT == nil {
		return
	}
	errT := types.Universe.Lookup("error").Type()
	counts := map[string]int{}
	for _, fn := range e.Ix.Funcs() {
		r := an.RecvNamed(fn.Obj)
		if r == nil || !(implementsRes(r, iface) || implementsRes(types.NewPointer(r), iface)) {
			continue
		}
		info := fn.Pkg.Info
		for _, b := range bodiesOf(fn) {
			g := graphOfBody(e, fn.Pkg, fn, b)
			var ftype *ast.FuncType
			if b.lit != nil {
				ftype = b.lit.Type
			} else {
				ftype = fn.Decl.Type
			}
			named := map[types.Object]bool{}
			if ftype.Results != nil {
				for _, fl := range ftype.Results.List {
					for _, nm := range fl.Names {
						if o := info.Defs[nm]; o != nil {
							named[o] = true
						}
					}
				}
			}
			for _, src := range g.FindAtoms(func(a ast.Node) bool {
				call, ok := a.(*ast.CallExpr)
				if !ok {
					return false
				}
				tv, ok := info.Types[call]
				if !ok {
					return false
				}
				var last types.Type
				switch t := tv.Type.(type) {
				case *types.Tuple:
					if t.Len() == 0 {
						return false
					}
					last = t.At(t.Len() - 1).Type()
				default:
					last = t
				}
				if last == nil || !types.Identical(last, errT) {
					return false
				}
				// section-time operations are ERR-PROPAGATE's
				if name, _, ok := lifecycleCall(info, call, iface); ok && (name == "Index" || name == "ReadValue" || name == "WriteValue") {
					return false
				}
				if f := an.CalleeFunc(info, call); f != nil {
					if rn := an.RecvNamed(f); rn != nil && rn.Obj() == aiT.Obj() {
						return false
					}
				}
				return true
			}) {
				call := src.(*ast.CallExpr)
				callee := an.ExprString(call.Fun)
				short := callee
				if f := an.CalleeFunc(info, call); f != nil {
					short = f.Name()
				}
				as, ok := g.Parent(call).(*ast.AssignStmt)
				if !ok || len(as.Rhs) != 1 || as.Rhs[0] != ast.Expr(call) {
					continue // returned directly, passed on, or used as an operand: not a kept error
				}
				id, ok := as.Lhs[len(as.Lhs)-1].(*ast.Ident)
				if !ok {
					continue
				}
				base := fn.Name()
				if b.lit != nil {
					base += ".func"
				}
				counts[base+":"+short]++
				key := fmt.Sprintf("%s:%s#%d", base, short, counts[base+":"+short])
				if id.Name == "_" {
					if why, ok := ioErrIgnorable[short]; ok {
						c.Ok(key, call.Pos(), "ignored: "+why)
					} else {
						c.Bad(key, call.Pos(), "the error of %s is discarded with _", callee)
					}
					continue
				}
				ev := an.ObjOf(info, id)
				if ev == nil {
					continue
				}
				nilTest := func(a ast.Node) (isTest, nonNil bool) {
					ex, ok := a.(ast.Expr)
					if !ok || !g.IsCondAtom(a) {
						return false, false
					}
					neg := false
					for {
						ex = an.Unparen(ex)
						u, ok := ex.(*ast.UnaryExpr)
						if !ok || u.Op != token.NOT {
							break
						}
						neg = !neg
						ex = u.X
					}
					be, ok := ex.(*ast.BinaryExpr)
					if !ok || (be.Op != token.NEQ && be.Op != token.EQL) {
						return false, false
					}
					if !((an.ObjOf(info, be.X) == ev && isNilIdent(info, be.Y)) || (an.ObjOf(info, be.Y) == ev && isNilIdent(info, be.X))) {
						return false, false
					}
					return true, (be.Op == token.NEQ) != neg
				}
				isTest := func(a ast.Node) bool { t, _ := nilTest(a); return t }
				mentions := func(n ast.Node) bool {
					found := false
					ast.Inspect(n, func(m ast.Node) bool {
						if _, isLit := m.(*ast.FuncLit); isLit {
							return false
						}
						if x, ok := m.(*ast.Ident); ok && info.Uses[x] == ev {
							found = true
						}
						return true
					})
					return found
				}
				// local closures that read e (handleError := func() { log(err); ... }): calling one is a use of e
				readers := map[types.Object]bool{}
				ast.Inspect(b.body, func(m ast.Node) bool {
					x, ok := m.(*ast.AssignStmt)
					if !ok || len(x.Lhs) != 1 || len(x.Rhs) != 1 {
						return true
					}
					lit, ok := an.Unparen(x.Rhs[0]).(*ast.FuncLit)
					if !ok {
						return true
					}
					reads := false
					ast.Inspect(lit.Body, func(k ast.Node) bool {
						if id, ok := k.(*ast.Ident); ok && info.Uses[id] == ev {
							reads = true
						}
						return true
					})
					if o := an.ObjOf(info, x.Lhs[0]); o != nil && reads {
						readers[o] = true
					}
					return true
				})
				usesE := func(a ast.Node) bool {
					if mentions(a) {
						return true
					}
					if call, ok := a.(*ast.CallExpr); ok {
						if o := an.ObjOf(info, call.Fun); o != nil && readers[o] {
							return true
						}
					}
					return false
				}
				forwards := func(a ast.Node) bool {
					switch x := a.(type) {
					case *ast.ReturnStmt:
						if len(x.Results) == 0 {
							return named[ev]
						}
						return mentions(x)
					case *ast.SendStmt:
						return mentions(x.Value)
					case *ast.CallExpr:
						// handed to someone else (logged, wrapped, panicked with)
						for _, arg := range x.Args {
							if mentions(arg) {
								return true
							}
						}
					}
					return false
				}
				// comparison with a sentinel error (err == io.EOF): an examination, though not a nil test
				sentinelTest := func(a ast.Node) bool {
					ex, ok := a.(ast.Expr)
					if !ok || !g.IsCondAtom(a) {
						return false
					}
					be, ok := an.Unparen(ex).(*ast.BinaryExpr)
					if !ok || (be.Op != token.EQL && be.Op != token.NEQ) {
						return false
					}
					return (an.ObjOf(info, be.X) == ev && !isNilIdent(info, be.Y)) || (an.ObjOf(info, be.Y) == ev && !isNilIdent(info, be.X))
				}
				reassigns := func(a ast.Node) bool {
					x, ok := a.(*ast.AssignStmt)
					if !ok || x == as {
						return false
					}
					for _, l := range x.Lhs {
						if an.ObjOf(info, l) == ev {
							return true
						}
					}
					return false
				}
				// compound conditions mentioning e: shape not decided
				compound := false
				for _, blk := range g.CFG.Blocks {
					if cd, _ := g.Cond(blk); cd != nil && !isTest(cd) && mentions(cd) {
						if be, ok := an.Unparen(cd).(*ast.BinaryExpr); ok && (be.Op == token.EQL || be.Op == token.NEQ) && !isNilIdent(info, be.Y) && !isNilIdent(info, be.X) {
							continue // comparison with a sentinel (err != io.EOF): not a nil test, not compound
						}
						compound = true
					}
				}
				if compound {
					c.Undecided(key, call.Pos(), "the error is tested inside a compound condition; shape not recognised")
					continue
				}
				// (1)
				p := g.Search(an.Query{From: call, ToExit: true, Target: reassigns, Avoid: func(a ast.Node) bool { return isTest(a) || sentinelTest(a) || forwards(a) }})
				if p.Found {
					if _, ok := ioErrIgnorable[short]; ok {
						c.Ok(key, call.Pos(), "ignored: "+ioErrIgnorable[short])
						continue
					}
					what := "the function can end"
					if p.Target != nil {
						what = "the variable is overwritten at " + c.Prog.Rel(p.Target.Pos())
					}
					c.Bad(key, call.Pos(), "the error of %s is not examined on every path: %s without testing or forwarding it; a failed step would be taken for a successful one", callee, what)
					continue
				}
				if _, ok := ioErrIgnorable[short]; ok {
					c.Ok(key, call.Pos(), "examined; may be logged and ignored: "+ioErrIgnorable[short])
					continue
				}
				// e-correlated edge filter: while e holds the error, other nil tests of e go to their non-nil side
				bad := ""
				for _, cd := range g.FindAtoms(isTest) {
					first := g.Search(an.Query{From: call, Target: func(a ast.Node) bool { return a == cd }, Avoid: func(a ast.Node) bool {
						return a != cd && (isTest(a) || forwards(a) || reassigns(a))
					}})
					if !first.Found {
						continue
					}
					_, nonNil := nilTest(cd)
					pc, _ := g.PointOf(cd)
					blk := g.CFG.Blocks[pc.Block]
					nilSucc := blk.Succs[1]
					if !nonNil {
						nilSucc = blk.Succs[0]
					}
					// (3) uses of e on the nil outcome, before any reassignment
					for _, a := range g.FindAtoms(func(a ast.Node) bool {
						if a == cd || reassigns(a) || !usesE(a) {
							return false
						}
						if _, isRet := a.(*ast.ReturnStmt); isRet {
							return false // `return x, err` on the nil side is the normal success return
						}
						if t, _ := nilTest(a); t {
							return false
						}
						if ex, isE := a.(ast.Expr); isE && g.IsCondAtom(a) {
							_ = ex
							return false
						}
						return g.GuardedBy(a, cd, !nonNil)
					}) {
						// reachable from the nil edge without reassigning e?
						q := g.Search(an.Query{From: cd,
							Edges: func(from *cfg.Block, i int) bool {
								if len(from.Succs) == 2 && len(from.Nodes) > 0 {
									if t, nn := nilTest(from.Nodes[len(from.Nodes)-1]); t {
										// e is nil along this search: take the nil side of every nil test of e
										if nn {
											return i == 1
										}
										return i == 0
									}
								}
								return true
							},
							Target: func(x ast.Node) bool { return x == a }, Avoid: func(x ast.Node) bool { return reassigns(x) }})
						if q.Found {
							bad = "the error value is used at " + c.Prog.Rel(a.Pos()) + " on the outcome of the test at " + c.Prog.Rel(cd.Pos()) + " where it is nil: the failure handling sits on the wrong branch"
						}
					}
					// (2) the success continuation
					var cont ast.Node
					for _, a := range g.Atoms[nilSucc.Index] {
						cont = a
						break
					}
					if cont == nil {
						continue
					}
					q := g.Search(an.Query{From: cd,
						Edges: func(from *cfg.Block, i int) bool {
							if len(from.Succs) == 2 && len(from.Nodes) > 0 {
								if t, nn := nilTest(from.Nodes[len(from.Nodes)-1]); t {
									if nn {
										return i == 0
									}
									return i == 1
								}
							}
							return true
						},
						Target: func(a ast.Node) bool { return a == cont },
						Avoid:  func(a ast.Node) bool { return reassigns(a) }})
					if q.Found {
						bad = "after the test at " + c.Prog.Rel(cd.Pos()) + " the failure outcome reaches the success continuation (" + c.Prog.Rel(cont.Pos()) + ") while the error is still set"
					}
				}
				if bad != "" {
					c.Bad(key, call.Pos(), "a failure of %s is treated as success: %s", callee, bad)
				} else {
					c.Ok(key, call.Pos(), "examined on every path; the failure outcome never reaches the success continuation")
				}
			}
		}
	}
}
