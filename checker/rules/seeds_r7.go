package rules

func init() {
	seed(Seed{Name: "unnamed-choice-skips-counter", Prop: "C10", Rule: "FC-DELEGATE", File: "distsys/archetypeinterface.go",
		Old: "\treturn iface.ctx.fairnessCounter.NextFairnessCounter(id, ceiling)\n", New: "\tif len(id) == 0 {\n\t\treturn 0\n\t}\n\treturn iface.ctx.fairnessCounter.NextFairnessCounter(id, ceiling)\n", Expect: "every-path-asks-the-counter"})
	seed(Seed{Name: "close-waits-for-unstarted-loop", Prop: "C17", Rule: "FD-HANDSHAKE", File: "distsys/resources/fd.go",
		Old: "\tif res.started {\n\t\t// wait for the main loop to finish\n\t\tres.done <- struct{}{}\n\t}\n", New: "\t// wait for the main loop to finish\n\tres.done <- struct{}{}\n", Expect: "hands-over-the-stop-token"})
	seed(Seed{Name: "loop-announces-outside-lock", Prop: "C17", Rule: "FD-HANDSHAKE", File: "distsys/resources/fd.go",
		Old: "\tres.started = true\n\tres.execLock.Unlock()\n", New: "\tres.execLock.Unlock()\n\tres.started = true\n", Expect: "announces-under-the-lock"})
	seed(Seed{Name: "hint-receiver-left-armed", Prop: "C01", Rule: "CTX-ROLLBACK", File: "distsys/archetypeinterface.go",
		Old: "\t\tiface.ctx.oldValueHintReceiver = nil\n\t}()\n", New: "\t}()\n", Expect: "oldValueHintReceiver"})
	seed(Seed{Name: "abort-keeps-dirty-set", Prop: "C04", Rule: "CTX-ROLLBACK", File: "distsys/mpcalctx.go",
		Old: "\tctx.eventState.CommitEvent(ctx.vclockSink.GetVClock(), true)\n\n\t// the go compiler optimizes this to a map clear operation\n\tfor resHandle := range ctx.dirtyResourceHandles {\n\t\tdelete(ctx.dirtyResourceHandles, resHandle)\n\t}\n", New: "\tctx.eventState.CommitEvent(ctx.vclockSink.GetVClock(), true)\n", Expect: "dirtyResourceHandles"})
	seed(Seed{Name: "fd-address-from-last-config", Prop: "C19", Rule: "ADDR-PURE", File: "systems/pbkvs/bootstrap/helper.go",
		Old: "func fdAddrMapper(c configs.Root, index tla.Value) string {\n", New: "var lastRoot configs.Root\n\nfunc fdAddrMapper(c configs.Root, index tla.Value) string {\n\tif len(c.Replicas) == 0 {\n\t\tc = lastRoot\n\t}\n\tlastRoot = c\n", Expect: "fdAddrMapper"})
	seed(Seed{Name: "precommit-keeps-closed-conn", Prop: "C17", Rule: "MB-CONN-DROP", File: "distsys/resources/tcpmailboxes.go",
		Old: "\t\t\tres.conn = nil\n\t\t\tch <- distsys.ErrCriticalSectionAborted\n", New: "\t\t\tch <- distsys.ErrCriticalSectionAborted\n", Expect: "PreCommit"})
	seed(Seed{Name: "put-timeout-reported-as-success", Prop: "C14", Rule: "FRONTEND-ANSWER", File: "systems/pbkvs/bootstrap/client.go",
		Old: "\tcase resp := <-c.respCh:\n\t\treturn Response(resp.AsString()), nil\n\tcase <-c.timer.C:\n\t\tc.timerDrained = true\n\t\treturn Response(\"\"), errors.New(\"timeout\")", New: "\tcase resp := <-c.respCh:\n\t\treturn Response(resp.AsString()), nil\n\tcase <-c.timer.C:\n\t\tc.timerDrained = true\n\t\treturn Response(value), nil", Expect: "Client.Put"})
	seed(Seed{Name: "length-view-remembers", Prop: "C06", Rule: "MB-LEN", File: "distsys/resources/mailboxes.go",
		Old: "\treturn res.mailbox.length(), nil\n", New: "\tn := res.mailbox.length()\n\tif n.AsNumber() > 1 {\n\t\treturn tla.MakeNumber(1), nil\n\t}\n\treturn n, nil\n", Expect: "asks-the-mailbox"})
	seed(Seed{Name: "queue-append-under-new-guard", Prop: "C15", Rule: "LOCK-DECISION", File: "systems/locksvc/locksvc.tla",
		Old: "                q := Append(q, msg.from);\n", New: "                if (Len(q) < NumClients) {\n                    q := Append(q, msg.from);\n                };\n", Expect: "queues-every-requester"})
	// round 9
	seed(Seed{Name: "ack-of-old-state-uses-fresh-budget", Prop: "C13", Rule: "CRDT-ARM", File: "distsys/resources/crdt.go",
		Old: "\t\t\t\t\tif res.needBroadcastEpoch == epoch {\n\t\t\t\t\t\tres.needBroadcastCount = max(res.needBroadcastCount-1, 0)\n\t\t\t\t\t}\n", New: "\t\t\t\t\t_ = epoch\n\t\t\t\t\tres.needBroadcastCount = max(res.needBroadcastCount-1, 0)\n", Expect: "counts-only-for-the-state-it-acknowledges"})
	seed(Seed{Name: "dial-only-small-clusters", Prop: "C13", Rule: "CRDT-DIAL", File: "distsys/resources/crdt.go",
		Old: "\t\tif _, ok := res.conns.Get(id); !ok {\n", New: "\t\tif _, ok := res.conns.Get(id); !ok && len(res.peerIds) < 8 {\n", Expect: "dials-every-unconnected-peer"})
	seed(Seed{Name: "duplicate-message-waved-through", Prop: "C11", Rule: "TPC-STALE", File: "distsys/resources/twopc.go",
		Old: "\tif twopc.senderTimes[arg.Sender] > arg.SenderTime {\n", New: "\tif twopc.senderTimes[arg.Sender] >= arg.SenderTime {\n", Expect: "processes-unless-strictly-older"})
	seed(Seed{Name: "redial-request-ignored", Prop: "C19", Rule: "FD-DIAL", File: "distsys/resources/fd.go",
		Old: "\tif res.client == nil || res.reDial {\n", New: "\tif res.client == nil {\n", Expect: "dials-exactly-when-needed"})
	seed(Seed{Name: "monitor-serves-inline", Prop: "C19", Rule: "FD-MONITOR", File: "distsys/resources/fd.go",
		Old: "\t\tgo m.server.ServeConn(conn)\n", New: "\t\tm.server.ServeConn(conn)\n", Expect: "own-server-goroutine"})
	seed(Seed{Name: "abort-resets-variable-clock", Prop: "C18", Rule: "CLK-MONOTONE", File: "distsys/archetyperesource.go",
		Old: "func (res *LocalArchetypeResource) Abort(ArchetypeInterface) chan struct{} {\n\tres.value = res.oldValue\n", New: "func (res *LocalArchetypeResource) Abort(ArchetypeInterface) chan struct{} {\n\tres.value = res.oldValue\n\tres.clock = tla.VClock{}\n", Expect: "clock#"})
	seed(Seed{Name: "fd-loop-ends-on-crash-verdict", Prop: "C17", Rule: "FD-HANDSHAKE", File: "distsys/resources/fd.go",
		Old: "\t\t\tres.setState(reply)\n", New: "\t\t\tres.setState(reply)\n\t\t\tif reply == failed {\n\t\t\t\tbreak loop\n\t\t\t}\n", Expect: "leaves-only-with-the-stop-token"})
}

