package rules

import (
	"fmt"
	"go/ast"
	"go/token"
	"go/types"

	"pgoverif/checker/an"
	"pgoverif/checker/core"
)

func init() {
	register(&core.Rule{ID: "MERGE-COMPONENT", Props: []string{"C12", "C13"}, Floor: 2,
		Doc: "a Merge loop that folds component F of the other replica into component F of this one decides per key from F alone (this replica's F entry and the other's): consulting another component makes the join depend on what else has arrived, i.e. on delivery order",
		Run: runMergeComponent})
	register(&core.Rule{ID: "MERGE-MONO", Props: []string{"C12", "C13"}, Floor: 3,
		Doc: "in a max-map Merge (GCounter, LWWSet components, VClock) a per-key store is guarded by the comparison that establishes the stored operand as the greater one (join is max, never min or blind overwrite)",
		Run: runMergeMono})
	register(&core.Rule{ID: "WRITE-INFLATES", Props: []string{"C12"}, Floor: 2,
		Doc: "AWORSet.Write creates a fresh (empty) clock for an element only when neither the add map nor the remove map has a clock for it; otherwise the new clock extends the existing one, so a local update never moves the state down the merge order",
		Run: runWriteInflates})
	register(&core.Rule{ID: "MERGE-PURE", Props: []string{"C12"}, Floor: 3,
		Doc: "Merge and Read of a CRDT value (and their callees) use no clock, randomness or package-level mutable state: the join is a function of its two arguments",
		Run: runMergePure})
}

func crdtValueTypes(c *core.Ctx, e *Env) []*types.Named {
	t := e.Ix.LookupType(an.PkgResources, "CRDTValue")
	if t == nil {
		c.Lost("resources.CRDTValue", "interface not found")
		return nil
	}
	return e.Ix.Implementations(an.InterfaceOf(t))
}

// iteratorSource: for `it := X.F.Iterator()` returns field F (or nil for embedded/other).
func iteratorSources(info *types.Info, body ast.Node) map[types.Object]*types.Var {
	out := map[types.Object]*types.Var{}
	ast.Inspect(body, func(n ast.Node) bool {
		as, ok := n.(*ast.AssignStmt)
		if !ok || len(as.Lhs) != 1 || len(as.Rhs) != 1 {
			return true
		}
		call, ok := an.Unparen(as.Rhs[0]).(*ast.CallExpr)
		if !ok {
			return true
		}
		sel, ok := an.Unparen(call.Fun).(*ast.SelectorExpr)
		if !ok || sel.Sel.Name != "Iterator" {
			return true
		}
		if f := an.SelectedField(info, sel.X); f != nil {
			if o := an.ObjOf(info, as.Lhs[0]); o != nil {
				out[o] = f
			}
		}
		return true
	})
	return out
}

func runMergeComponent(c *core.Ctx) {
	e := EnvOf(c.Prog)
	n := 0
	for _, t := range crdtValueTypes(c, e) {
		fn := e.Ix.MethodDecl(t, "Merge")
		if fn == nil {
			continue
		}
		info := fn.Pkg.Info
		srcs := iteratorSources(info, fn.Body())
		ast.Inspect(fn.Body(), func(m ast.Node) bool {
			fs, ok := m.(*ast.ForStmt)
			if !ok || fs.Cond == nil {
				return true
			}
			for itObj := range iteratorDoneCalls(info, fs.Cond) {
				F := srcs[itObj]
				if F == nil {
					continue
				}
				// does the loop store into the receiver's F?
				stores := false
				ast.Inspect(fs.Body, func(k ast.Node) bool {
					if as, ok := k.(*ast.AssignStmt); ok {
						for _, l := range as.Lhs {
							if an.SelectedField(info, l) == F {
								stores = true
							}
						}
					}
					return true
				})
				if !stores {
					continue
				}
				n++
				key := fmt.Sprintf("%s.Merge:component(%s)", an.TypeKey(t), F.Name())
				var foreign []string
				ast.Inspect(fs.Body, func(k ast.Node) bool {
					call, ok := k.(*ast.CallExpr)
					if !ok {
						return true
					}
					sel, ok := an.Unparen(call.Fun).(*ast.SelectorExpr)
					if !ok {
						return true
					}
					if g := an.SelectedField(info, sel.X); g != nil && g != F {
						if owner := e.Ix.FieldOwner(g); owner != nil && owner.Obj() == t.Obj() {
							foreign = append(foreign, g.Name()+"."+sel.Sel.Name)
						}
					}
					return true
				})
				if len(foreign) > 0 {
					c.Bad(key, fs.Pos(), "merging component %s consults component(s) %v: whether a peer's entry is kept then depends on what else has been delivered, so merge is no longer commutative/associative", F.Name(), foreign)
				} else {
					c.Ok(key, fs.Pos(), "decided from component %s alone", F.Name())
				}
			}
			return true
		})
	}
	if n == 0 {
		c.Lost("component-merge-loops", "no component-wise Merge loop found")
	}
}

func runMergeMono(c *core.Ctx) {
	e := EnvOf(c.Prog)
	var fns []*an.Func
	for _, t := range crdtValueTypes(c, e) {
		if fn := e.Ix.MethodDecl(t, "Merge"); fn != nil {
			fns = append(fns, fn)
		}
	}
	if vm := e.Ix.LookupMethod(an.PkgTLA, "VClock", "Merge"); vm != nil {
		fns = append(fns, vm)
	} else {
		c.Lost("tla.VClock.Merge", "not found")
	}
	n := 0
	for _, fn := range fns {
		info := fn.Pkg.Info
		g := e.Graph(fn)
		// stores of the form  X = X.Set(key, v) / c = T{c.Set(key, v)} inside an iterator loop where v comes from the iterator
		ast.Inspect(fn.Body(), func(m ast.Node) bool {
			fs, ok := m.(*ast.ForStmt)
			if !ok || fs.Cond == nil || len(iteratorDoneCalls(info, fs.Cond)) == 0 {
				return true
			}
			// iterated value variable: second result of it.Next()
			var otherVal types.Object
			ast.Inspect(fs.Body, func(k ast.Node) bool {
				if as, ok := k.(*ast.AssignStmt); ok && len(as.Lhs) == 3 && len(as.Rhs) == 1 {
					if call, ok := an.Unparen(as.Rhs[0]).(*ast.CallExpr); ok {
						if f := an.CalleeFunc(info, call); f != nil && f.Name() == "Next" {
							otherVal = an.ObjOf(info, as.Lhs[1])
						}
					}
				}
				return true
			})
			if otherVal == nil {
				return true
			}
			// aliases of otherVal (x := otherVal)
			alias := map[types.Object]bool{otherVal: true}
			ast.Inspect(fs.Body, func(k ast.Node) bool {
				if as, ok := k.(*ast.AssignStmt); ok && len(as.Lhs) == 1 && len(as.Rhs) == 1 && alias[an.ObjOf(info, as.Rhs[0])] {
					if o := an.ObjOf(info, as.Lhs[0]); o != nil {
						alias[o] = true
					}
				}
				return true
			})
			ast.Inspect(fs.Body, func(k ast.Node) bool {
				call, ok := k.(*ast.CallExpr)
				if !ok || len(call.Args) != 2 {
					return true
				}
				f := an.CalleeFunc(info, call)
				if f == nil || f.Name() != "Set" || !alias[an.ObjOf(info, call.Args[1])] {
					return true
				}
				if rn := an.RecvNamed(f); rn == nil || rn.Obj().Pkg() == nil || rn.Obj().Pkg().Path() != an.PkgImmutable || rn.Obj().Name() != "Map" {
					return true // only persistent maps are max-maps here; builders assemble results of non-pointwise merges (AWORSet)
				}
				n++
				key := fmt.Sprintf("%s:store#%d", fn.Name(), n)
				at := g.AtomOf(call)
				if at == nil {
					return true
				}
				// the store runs only where the key is absent here (`!ok`) or the peer's entry is strictly greater
				// (`self < other`, `other > self`, other.After(self), or the negation of their complements)
				isOther := func(x ast.Expr) bool { return alias[an.ObjOf(info, x)] }
				okGuard := guardsEntail(g, at, func(leaf ast.Expr) (string, bool, bool) {
					switch b := an.Unparen(leaf).(type) {
					case *ast.Ident:
						if t := info.TypeOf(b); t != nil {
							if bt, isBasic := t.Underlying().(*types.Basic); isBasic && bt.Info()&types.IsBoolean != 0 {
								return "absent", false, true // ok: the key is present on this side
							}
						}
					case *ast.BinaryExpr:
						switch {
						case b.Op == token.LSS && isOther(b.Y) && !isOther(b.X), b.Op == token.GTR && isOther(b.X) && !isOther(b.Y):
							return "greater", true, true
						case b.Op == token.GEQ && isOther(b.Y) && !isOther(b.X), b.Op == token.LEQ && isOther(b.X) && !isOther(b.Y):
							return "greater", false, true
						}
					case *ast.CallExpr:
						if s, ok := an.Unparen(b.Fun).(*ast.SelectorExpr); ok && s.Sel.Name == "After" && isOther(s.X) && len(b.Args) == 1 && !isOther(b.Args[0]) {
							return "greater", true, true
						}
					}
					return "", false, false
				}, func(val map[string]bool) bool { return val["absent"] || val["greater"] })
				c.Check(okGuard, key, call.Pos(), "the peer's entry is stored only if absent here or strictly greater",
					"a peer's per-key entry is stored without the comparison that makes it the greater one: merge could lower an entry (not an upper bound) or depend on argument order")
				return true
			})
			return true
		})
	}
	if n == 0 {
		c.Lost("max-map stores", "no guarded per-key store found in any Merge")
	}
}

func runWriteInflates(c *core.Ctx) {
	e := EnvOf(c.Prog)
	t := mustType(c, e, an.PkgResources, "AWORSet")
	fn := mustMethod(c, e, an.PkgResources, "AWORSet", "Write")
	if t == nil || fn == nil {
		return
	}
	addMap, remMap := mustField(c, t, "addMap"), mustField(c, t, "remMap")
	if addMap == nil || remMap == nil {
		return
	}
	g := e.Graph(fn)
	info := fn.Pkg.Info
	// ok-variables of Get on addMap / remMap
	okOf := map[types.Object]*types.Var{}
	ast.Inspect(fn.Body(), func(m ast.Node) bool {
		as, ok := m.(*ast.AssignStmt)
		if !ok || len(as.Lhs) != 2 || len(as.Rhs) != 1 {
			return true
		}
		call, ok := an.Unparen(as.Rhs[0]).(*ast.CallExpr)
		if !ok {
			return true
		}
		sel, ok := an.Unparen(call.Fun).(*ast.SelectorExpr)
		if !ok || sel.Sel.Name != "Get" {
			return true
		}
		if f := an.SelectedField(info, sel.X); f == addMap || f == remMap {
			if o := an.ObjOf(info, as.Lhs[1]); o != nil {
				okOf[o] = f
			}
		}
		return true
	})
	fresh := g.FindAtoms(func(a ast.Node) bool {
		call, ok := a.(*ast.CallExpr)
		return ok && an.IsFuncNamed(an.CalleeFunc(info, call), an.PkgResources, "MakeVClock")
	})
	if len(fresh) == 0 {
		c.Lost("AWORSet.Write:fresh-clock", "no MakeVClock() call found")
		return
	}
	for i, fr := range fresh {
		guardedBy := map[*types.Var]bool{}
		for _, cd := range g.CondAtoms(func(ex ast.Expr) bool { return okOf[an.ObjOf(info, ex)] != nil }) {
			if g.GuardedBy(fr, cd, false) {
				guardedBy[okOf[an.ObjOf(info, cd.(ast.Expr))]] = true
			}
		}
		c.Check(guardedBy[addMap] && guardedBy[remMap], fmt.Sprintf("AWORSet.Write:fresh-clock#%d", i+1), fr.Pos(),
			"a fresh clock is used only when neither addMap nor remMap knows the element",
			"Write starts an element's clock from scratch although the add or remove map already holds a clock for it: the new entry does not dominate the observed one, so a later merge with a state still carrying the old clock undoes the local update (the write moved the state down the merge order)")
	}
}

func runMergePure(c *core.Ctx) {
	e := EnvOf(c.Prog)
	impure := map[string]bool{"time.Now": true, "time.Since": true, "math/rand.Int": true, "math/rand.Intn": true, "math/rand.Int63": true, "math/rand.Uint32": true, "math/rand.Float64": true, "os.Getenv": true}
	for _, t := range crdtValueTypes(c, e) {
		for _, m := range []string{"Merge", "Read"} {
			fn := e.Ix.MethodDecl(t, m)
			if fn == nil {
				continue
			}
			es := e.Fx.Of(fn)
			var bad []string
			for name := range es.Ext {
				if impure[name] {
					bad = append(bad, name)
				}
			}
			// package-level variable writes
			info := fn.Pkg.Info
			ast.Inspect(fn.Body(), func(k ast.Node) bool {
				if as, ok := k.(*ast.AssignStmt); ok {
					for _, l := range as.Lhs {
						if v, ok := an.ObjOf(info, l).(*types.Var); ok && v.Parent() == v.Pkg().Scope() {
							bad = append(bad, "writes package variable "+v.Name())
						}
					}
				}
				return true
			})
			key := an.TypeKey(t) + "." + m
			if len(bad) > 0 {
				c.Bad(key, fn.Pos(), "%s depends on %v: the result is not a function of the two states, so replicas that received the same updates can disagree", key, bad)
			} else {
				c.Ok(key, fn.Pos(), "a function of its arguments only")
			}
		}
	}
}
