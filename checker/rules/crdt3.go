package rules

import (
	"go/ast"
	"go/token"
	"go/types"

	"pgoverif/checker/an"
	"pgoverif/checker/core"
)

func init() {
	register(&core.Rule{ID: "CRDT-SECTION", Props: []string{"C13", "C01"}, Floor: 10,
		Doc: "the CRDT resource's section protocol: WriteValue snapshots exactly when no snapshot exists and always applies the write; Abort restores exactly when a snapshot exists; Commit arms the broadcast budget exactly for a section that wrote; broadcast skips a tick only when the budget is spent, spends budget and merges the reply only for a successful call; the constructor starts the broadcaster and the merger, and the broadcaster calls broadcast on every tick; peer states are enqueued whenever they are non-nil",
		Run: runCRDTSection})
}

// guardedWhere reports whether node n is guarded by some block-ending condition / outcome for which
// leaf (applied through parens, negations, conjunctions, disjunctions and predicate literals) holds.
func guardedWhere(g *an.Graph, n ast.Node, leaf func(ex ast.Expr, val bool) bool) bool {
	return guardedWhereIn(nil, nil, g, n, leaf)
}

// guardedWhereIn additionally looks through calls of single-return predicate helpers of the workspace (fields are
// identified by their objects, so the helper's own receiver name does not matter).
func guardedWhereIn(e *Env, info *types.Info, g *an.Graph, n ast.Node, leaf func(ex ast.Expr, val bool) bool) bool {
	var lf func(ex ast.Expr, val bool) bool
	depth := 0
	lf = func(ex ast.Expr, val bool) bool {
		if call, ok := an.Unparen(ex).(*ast.CallExpr); ok {
			if lit, ok := an.Unparen(call.Fun).(*ast.FuncLit); ok && len(lit.Body.List) > 0 {
				if rs, ok := lit.Body.List[len(lit.Body.List)-1].(*ast.ReturnStmt); ok && len(rs.Results) == 1 {
					return an.Implies(rs.Results[0], val, lf)
				}
			}
			if e != nil && info != nil && depth < 3 {
				if callee := e.Ix.FuncOf(an.CalleeFunc(info, call)); callee != nil {
					if r := singleReturn(callee); r != nil {
						depth++
						defer func() { depth-- }()
						return an.Implies(r, val, lf)
					}
				}
			}
		}
		return leaf(an.Unparen(ex), val)
	}
	for _, blk := range g.CFG.Blocks {
		cd, _ := g.Cond(blk)
		if cd == nil {
			continue
		}
		for _, branch := range []bool{true, false} {
			if g.GuardedBy(n, cd, branch) && an.Implies(cd, branch, lf) {
				return true
			}
		}
	}
	return false
}

func runCRDTSection(c *core.Ctx) {
	e := EnvOf(c.Prog)
	a := crdtOf(c, e)
	if a == nil {
		return
	}
	m := func(name string) *an.Func { return mustMethod(c, e, an.PkgResources, "crdt", name) }
	write, abort, commit, bc, run, prep := m("WriteValue"), m("Abort"), m("Commit"), m("broadcast"), m("runBroadcasts"), m("prepMerge")
	recv := mustMethod(c, e, an.PkgResources, "CRDTRPCReceiver", "ReceiveValue")
	ctor := mustFunc(c, e, an.PkgResources, "NewCRDT")
	if write == nil || abort == nil || commit == nil || bc == nil || run == nil || prep == nil || recv == nil || ctor == nil {
		return
	}
	flagIs := func(info *types.Info, want bool) func(ast.Expr, bool) bool {
		return func(ex ast.Expr, val bool) bool { return an.SelectedField(info, ex) == a.hasOld && val == want }
	}
	// ---- WriteValue
	{
		g, info := e.Graph(write), write.Pkg.Info
		snaps := g.FindAtoms(func(x ast.Node) bool {
			rhs, ok := fieldIsAssigned(info, x, a.oldValue)
			return ok && rhs != nil && an.SelectedField(info, rhs) == a.value
		})
		okSnap := len(snaps) > 0
		for _, s := range snaps {
			if !guardedWhere(g, s, flagIs(info, false)) {
				okSnap = false
			}
		}
		c.Check(okSnap, "crdt.WriteValue:snapshot-iff-none", write.Pos(), "oldValue = value exactly on the branch where no snapshot exists",
			"WriteValue does not take its snapshot exactly when hasOldValue is false: the second write of a section overwrites the snapshot with a value that already contains the first write, so Abort no longer restores the committed state")
		sets := g.FindAtoms(func(x ast.Node) bool {
			rhs, ok := fieldIsAssigned(info, x, a.hasOld)
			return ok && isBoolConst(info, rhs, true)
		})
		okSet := false
		for _, s := range sets {
			for _, sn := range snaps {
				if g.Dominates(sn, s) || g.Dominates(s, sn) {
					okSet = true
				}
			}
		}
		c.Check(okSet, "crdt.WriteValue:marks-snapshot", write.Pos(), "hasOldValue = true together with the snapshot", "WriteValue takes a snapshot but does not set hasOldValue: Abort would not restore it and broadcasts would send uncommitted state")
		var valParam types.Object
		if ps := write.Decl.Type.Params.List; len(ps) == 2 && len(ps[1].Names) == 1 {
			valParam = info.Defs[ps[1].Names[0]]
		}
		applied, _ := g.MustPass(nil, func(x ast.Node) bool {
			rhs, ok := fieldIsAssigned(info, x, a.value)
			if !ok || rhs == nil {
				return false
			}
			call, ok := an.Unparen(rhs).(*ast.CallExpr)
			if !ok || len(call.Args) != 2 || an.ObjOf(info, call.Args[1]) != valParam {
				return false
			}
			sel, ok := an.Unparen(call.Fun).(*ast.SelectorExpr)
			return ok && sel.Sel.Name == "Write" && an.SelectedField(info, sel.X) == a.value
		}, nil)
		c.Check(applied, "crdt.WriteValue:applies-write", write.Pos(), "value = value.Write(id, v) on every path", "WriteValue does not apply the written value to the CRDT state on every path: the update is silently lost")
	}
	// ---- Abort
	{
		g, info := e.Graph(abort), abort.Pkg.Info
		rest := g.FindAtoms(func(x ast.Node) bool {
			rhs, ok := fieldIsAssigned(info, x, a.value)
			return ok && rhs != nil && an.SelectedField(info, rhs) == a.oldValue
		})
		ok := len(rest) > 0
		for _, r := range rest {
			if !guardedWhere(g, r, flagIs(info, true)) {
				ok = false
			}
		}
		c.Check(ok, "crdt.Abort:restores-iff-snapshot", abort.Pos(), "value = oldValue exactly on the branch where a snapshot exists",
			"Abort does not restore the snapshot exactly when hasOldValue is true: an aborted section's writes stay in the state (and are later broadcast), or a section that only read wipes the state with a stale/empty snapshot")
		// every path on which a snapshot exists restores
		skipped := false
		for _, blk := range g.CFG.Blocks {
			cd, _ := g.Cond(blk)
			if cd == nil {
				continue
			}
			for _, branch := range []bool{true, false} {
				if an.Implies(cd, branch, func(ex ast.Expr, val bool) bool { return flagIs(info, true)(an.Unparen(ex), val) }) {
					q := g.Search(an.Query{From: cd, Edges: g.Branch(cd, branch), ToExit: true, Avoid: func(x ast.Node) bool {
						for _, r := range rest {
							if x == r {
								return true
							}
						}
						return false
					}})
					if q.Found {
						skipped = true
					}
				}
			}
		}
		c.Check(!skipped, "crdt.Abort:restore-on-every-path", abort.Pos(), "no path with a snapshot skips the restore", "Abort can return with a snapshot present without restoring it")
	}
	// ---- Commit
	{
		g, info := e.Graph(commit), commit.Pkg.Info
		// locals that hold the flag's value
		wrote := map[types.Object]bool{}
		g.AllAtoms(func(x ast.Node) {
			if as, ok := x.(*ast.AssignStmt); ok && len(as.Lhs) == 1 && len(as.Rhs) == 1 && an.SelectedField(info, as.Rhs[0]) == a.hasOld {
				if o := an.ObjOf(info, as.Lhs[0]); o != nil {
					wrote[o] = true
				}
			}
		})
		arms := g.FindAtoms(func(x ast.Node) bool {
			rhs, ok := fieldIsAssigned(info, x, a.count)
			if !ok || rhs == nil {
				return false
			}
			call, ok := an.Unparen(rhs).(*ast.CallExpr)
			return ok && an.IsBuiltin(info, call, "len") && len(call.Args) == 1 && an.SelectedField(info, call.Args[0]) == a.peers
		})
		ok := len(arms) > 0
		for _, ar := range arms {
			if !guardedWhere(g, ar, func(ex ast.Expr, val bool) bool {
				if val && wrote[an.ObjOf(info, ex)] {
					return true
				}
				return flagIs(info, true)(ex, val)
			}) {
				// unconditional arming is also fine (only extra broadcasts)
				if passes, _ := g.MustPass(nil, func(x ast.Node) bool { return x == ar }, nil); !passes {
					ok = false
				}
			}
		}
		c.Check(ok, "crdt.Commit:arms-iff-written", commit.Pos(), "the budget is armed on the branch where the section wrote (or unconditionally)",
			"Commit arms the broadcast budget on the branch where the section did NOT write: a section that wrote never triggers a broadcast, so its update reaches no peer")
		cleared, _ := g.MustPass(nil, func(x ast.Node) bool {
			rhs, ok := fieldIsAssigned(info, x, a.hasOld)
			return ok && isBoolConst(info, rhs, false)
		}, nil)
		c.Check(cleared, "crdt.Commit:drops-snapshot", commit.Pos(), "hasOldValue = false on every path", "Commit does not clear hasOldValue: the next section's first write takes no snapshot and broadcasts keep sending the old snapshot")
	}
	// ---- broadcast
	{
		g, info := e.Graph(bc), bc.Pkg.Info
		budgetSpent := func(ex ast.Expr, val bool) bool {
			ex = an.Unparen(resolveThroughLiteral(info, bc.Body(), ex))
			be, ok := ex.(*ast.BinaryExpr)
			if !ok || an.SelectedField(info, an.ResolveLocal(info, bc.Body(), be.X)) != a.count {
				return false
			}
			tv := info.Types[be.Y]
			if tv.Value == nil || tv.Value.ExactString() != "0" {
				return false
			}
			switch be.Op {
			case token.GTR, token.NEQ:
				return !val
			case token.LEQ, token.EQL:
				return val
			}
			return false
		}
		sends := g.FindAtoms(func(x ast.Node) bool {
			call, ok := x.(*ast.CallExpr)
			if !ok {
				return false
			}
			f := an.CalleeFunc(info, call)
			return f != nil && f.Name() == "Go" && f.Pkg() != nil && f.Pkg().Path() == "net/rpc"
		})
		if len(sends) == 0 {
			c.Lost("crdt.broadcast:sends", "no rpc Go call found")
		}
		early := g.FindAtoms(func(x ast.Node) bool {
			r, ok := x.(*ast.ReturnStmt)
			if !ok {
				return false
			}
			for _, s := range sends {
				if g.Search(an.Query{From: s, Target: func(y ast.Node) bool { return y == ast.Node(r) }}).Found {
					return false
				}
			}
			return true
		})
		okEarly := true
		for _, r := range early {
			if !guardedWhere(g, r, budgetSpent) {
				okEarly = false
			}
		}
		c.Check(okEarly, "crdt.broadcast:skips-only-when-budget-spent", bc.Pos(), "returns before sending only if needBroadcastCount <= 0",
			"broadcast returns without sending on a branch that does not establish needBroadcastCount <= 0: ticks are skipped while committed state is still owed to peers")
		// success-only accounting
		errLeaf := func(wantNil bool) func(ast.Expr, bool) bool {
			return func(ex ast.Expr, val bool) bool {
				be, ok := ex.(*ast.BinaryExpr)
				if !ok || (be.Op != token.NEQ && be.Op != token.EQL) || !isNilIdent(info, be.Y) {
					return false
				}
				sel, ok := an.Unparen(be.X).(*ast.SelectorExpr)
				if !ok || sel.Sel.Name != "Error" {
					return false
				}
				isNil := (be.Op == token.EQL) == val
				return isNil == wantNil
			}
		}
		okSpend, okMerge := true, true
		nSpend, nMerge := 0, 0
		for _, b := range bodiesOf(bc) {
			lg := graphOfBody(e, bc.Pkg, bc, b)
			for _, d := range lg.FindAtoms(func(x ast.Node) bool {
				_, ok := fieldIsAssigned(info, x, a.count)
				return ok
			}) {
				nSpend++
				// the literal wrapping the decrement is called from the success branch: check the call site of the literal
				site := ast.Node(d)
				gg := lg
				if b.lit != nil {
					site = g.AtomOf(b.lit)
					gg = g
				}
				if site == nil || !guardedWhere(gg, site, errLeaf(true)) {
					okSpend = false
				}
			}
		}
		for _, p := range g.FindAtoms(func(x ast.Node) bool {
			call, ok := x.(*ast.CallExpr)
			return ok && an.CalleeFunc(info, call) == prep.Obj
		}) {
			nMerge++
			if !guardedWhere(g, p, errLeaf(true)) {
				okMerge = false
			}
		}
		c.Check(nSpend > 0 && okSpend, "crdt.broadcast:spends-only-on-success", bc.Pos(), "the budget is decremented only where call.Error == nil",
			"broadcast decrements needBroadcastCount for a call that failed: the budget runs out although the peer never received the state")
		c.Check(nMerge > 0 && okMerge, "crdt.broadcast:merges-reply-only-on-success", bc.Pos(), "the reply is enqueued only where call.Error == nil",
			"broadcast enqueues the reply of a failed call (nil or stale) or drops the reply of a successful one")
	}
	// ---- wiring
	{
		info := ctor.Pkg.Info
		g := e.Graph(ctor)
		for _, name := range []string{"runBroadcasts", "merger"} {
			target := m(name)
			if target == nil {
				continue
			}
			ok, _ := g.MustPass(nil, func(x ast.Node) bool {
				gs, isGo := x.(*ast.GoStmt)
				return isGo && an.CalleeFunc(info, gs.Call) == target.Obj
			}, nil)
			c.Check(ok, "NewCRDT:starts-"+name, ctor.Pos(), "go "+name+"() on every path", "NewCRDT does not start "+name+": committed state is never sent / received state is never merged")
		}
		rg, ri := e.Graph(run), run.Pkg.Info
		calls := rg.FindAtoms(func(x ast.Node) bool {
			call, ok := x.(*ast.CallExpr)
			return ok && an.CalleeFunc(ri, call) == bc.Obj
		})
		inLoop := false
		for _, cl := range calls {
			// a loop that runs once per tick: it ranges over, or receives from, the channel of a time.Ticker
			isTick := func(x ast.Expr) bool {
				sel, ok := an.Unparen(x).(*ast.SelectorExpr)
				if !ok || sel.Sel.Name != "C" {
					return false
				}
				t := ri.TypeOf(sel.X)
				if p, isPtr := t.(*types.Pointer); isPtr {
					t = p.Elem()
				}
				n, isNamed := t.(*types.Named)
				return isNamed && n.Obj().Pkg() != nil && n.Obj().Pkg().Path() == "time" && n.Obj().Name() == "Ticker"
			}
			if rg.Enclosing(cl, func(n ast.Node) bool {
				switch l := n.(type) {
				case *ast.RangeStmt:
					return isTick(l.X)
				case *ast.ForStmt:
					ticks := false
					ast.Inspect(l.Body, func(m ast.Node) bool {
						if _, isLit := m.(*ast.FuncLit); isLit {
							return false
						}
						if u, isU := m.(*ast.UnaryExpr); isU && u.Op == token.ARROW && isTick(u.X) {
							ticks = true
						}
						return true
					})
					return ticks
				}
				return false
			}) != nil {
				inLoop = true
			}
		}
		c.Check(inLoop, "crdt.runBroadcasts:broadcasts-every-tick", run.Pos(), "broadcast() is called inside the ticker loop", "runBroadcasts does not call broadcast() inside its ticker loop")
	}
	// ---- enqueue guards
	{
		g, info := e.Graph(prep), prep.Pkg.Info
		var p types.Object
		if ps := prep.Decl.Type.Params.List; len(ps) == 1 && len(ps[0].Names) == 1 {
			p = info.Defs[ps[0].Names[0]]
		}
		nonNil := func(match func(ast.Expr) bool) func(ast.Expr, bool) bool {
			return func(ex ast.Expr, val bool) bool {
				be, ok := ex.(*ast.BinaryExpr)
				if !ok || (be.Op != token.NEQ && be.Op != token.EQL) || !isNilIdent(info, be.Y) || !match(be.X) {
					return false
				}
				return ((be.Op == token.NEQ) == val)
			}
		}
		ok := true
		n := 0
		for _, s := range g.FindAtoms(func(x ast.Node) bool {
			ss, isS := x.(*ast.SendStmt)
			return isS && an.SelectedField(info, ss.Chan) == a.queue
		}) {
			n++
			unconditional, _ := g.MustPass(nil, func(x ast.Node) bool { return x == s }, nil)
			if !unconditional && !guardedWhere(g, s, nonNil(func(x ast.Expr) bool { return an.ObjOf(info, x) == p })) {
				ok = false
			}
		}
		// the hand-off blocks until the merger takes the state: a select with a default (or any other) arm may drop it
		blocking := true
		ast.Inspect(prep.Body(), func(k ast.Node) bool {
			sel, isSel := k.(*ast.SelectStmt)
			if !isSel {
				return true
			}
			for _, st := range sel.Body.List {
				cc := st.(*ast.CommClause)
				if ss, isSend := cc.Comm.(*ast.SendStmt); isSend && an.SelectedField(info, ss.Chan) == a.queue && len(sel.Body.List) > 1 {
					blocking = false
				}
			}
			return true
		})
		c.Check(blocking, "crdt.prepMerge:blocking-handoff", prep.Pos(), "the send to the merge queue has no alternative arm",
			"prepMerge offers the state to the merge queue in a select with another arm (default/timeout): when the merger is behind the state is dropped although the RPC is acknowledged and the sender's budget is spent, so it is never sent again")
		c.Check(n > 0 && ok, "crdt.prepMerge:queues-non-nil", prep.Pos(), "a non-nil state is always queued", "prepMerge queues the state on the branch where it is nil (and drops it where it is not)")
		rg, ri := e.Graph(recv), recv.Pkg.Info
		ok2 := true
		n2 := 0
		for _, cl := range rg.FindAtoms(func(x ast.Node) bool {
			call, isC := x.(*ast.CallExpr)
			return isC && an.CalleeFunc(ri, call) == prep.Obj
		}) {
			n2++
			unconditional, _ := rg.MustPass(nil, func(x ast.Node) bool { return x == cl }, nil)
			if !unconditional && !guardedWhere(rg, cl, func(ex ast.Expr, val bool) bool {
				be, ok := ex.(*ast.BinaryExpr)
				if !ok || (be.Op != token.NEQ && be.Op != token.EQL) || !isNilIdent(ri, be.Y) {
					return false
				}
				sel, ok := an.Unparen(be.X).(*ast.SelectorExpr)
				return ok && sel.Sel.Name == "Value" && (be.Op == token.NEQ) == val
			}) {
				ok2 = false
			}
		}
		c.Check(n2 > 0 && ok2, "CRDTRPCReceiver.ReceiveValue:enqueues-non-nil", recv.Pos(), "a non-nil peer state is always handed to prepMerge", "ReceiveValue hands the peer's state to prepMerge only on the branch where it is nil: every received state is dropped")
	}
}

// resolveThroughLiteral reads a local that receives a named result of an immediately invoked function literal
// (`a, b := func() (x T, y U) { ...; x = E; ...; return }()`, what a helper with a deferred unlock looks like once it is
// read in place) as the expression the literal assigns to that result, when the result is assigned exactly once. Other
// expressions (and single-definition locals, via an.ResolveLocal) are returned as they are.
func resolveThroughLiteral(info *types.Info, body ast.Node, e ast.Expr) ast.Expr {
	for depth := 0; depth < 4; depth++ {
		e = an.ResolveLocal(info, body, e)
		id, ok := an.Unparen(e).(*ast.Ident)
		if !ok {
			return e
		}
		o := info.ObjectOf(id)
		if o == nil {
			return e
		}
		var next ast.Expr
		n := 0
		ast.Inspect(body, func(m ast.Node) bool {
			as, ok := m.(*ast.AssignStmt)
			if !ok {
				return true
			}
			for i, l := range as.Lhs {
				if an.ObjOf(info, l) != o {
					continue
				}
				n++
				if len(as.Rhs) == 1 && len(as.Lhs) > 1 {
					if call, isCall := an.Unparen(as.Rhs[0]).(*ast.CallExpr); isCall {
						if lit, isLit := an.Unparen(call.Fun).(*ast.FuncLit); isLit && lit.Type.Results != nil {
							k := 0
							for _, fld := range lit.Type.Results.List {
								for _, nm := range fld.Names {
									if k == i {
										next = nm
									}
									k++
								}
							}
						}
					}
				} else if len(as.Rhs) == len(as.Lhs) {
					next = as.Rhs[i]
				}
			}
			return true
		})
		if n != 1 || next == nil {
			return e
		}
		if nid, isID := next.(*ast.Ident); isID && info.Defs[nid] != nil {
			// a named result: the single assignment inside the literal
			ro := info.Defs[nid]
			var rhs ast.Expr
			k := 0
			ast.Inspect(body, func(m ast.Node) bool {
				if as, ok := m.(*ast.AssignStmt); ok && len(as.Lhs) == len(as.Rhs) {
					for i, l := range as.Lhs {
						if an.ObjOf(info, l) == ro {
							k++
							rhs = as.Rhs[i]
						}
					}
				}
				return true
			})
			if k != 1 {
				return e
			}
			e = rhs
			continue
		}
		e = next
	}
	return e
}
