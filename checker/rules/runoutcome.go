package rules

import (
	"fmt"
	"go/ast"
	"go/types"

	"golang.org/x/tools/go/cfg"

	"pgoverif/checker/an"
	"pgoverif/checker/core"
)

func init() {
	register(&core.Rule{ID: "RUN-OUTCOME", Props: []string{"C17"}, Floor: 2,
		Doc: "the outcome of MPCalContext.Run is not lost by the runtime's wrappers (Monitor.RunArchetype, the nested-archetype runner): the error Run returns is what the wrapper hands on - stored in the wrapper's own error result (not a shadowing variable), returned, sent, or wrapped - on every path on which it is non-nil",
		Run: runRunOutcome})
}

func runRunOutcome(c *core.Ctx) {
	e := EnvOf(c.Prog)
	errT := types.Universe.Lookup("error").Type()
	n := 0
	for _, fn := range e.Ix.Funcs() {
		if fn.Pkg.Path != an.PkgResources && fn.Pkg.Path != an.PkgDistsys {
			continue
		}
		if fn.Body() == nil {
			continue
		}
		info := fn.Pkg.Info
		for _, b := range bodiesOf(fn) {
			g := graphOfBody(e, fn.Pkg, fn, b)
			// the error result of this body, if any
			var ftype *ast.FuncType
			if b.lit != nil {
				ftype = b.lit.Type
			} else {
				ftype = fn.Decl.Type
			}
			var named types.Object
			errIdx := -1
			if ftype.Results != nil {
				i := 0
				for _, fld := range ftype.Results.List {
					cnt := len(fld.Names)
					if cnt == 0 {
						cnt = 1
					}
					for k := 0; k < cnt; k++ {
						if types.Identical(info.TypeOf(fld.Type), errT) {
							errIdx = i
							if len(fld.Names) > 0 {
								named = info.Defs[fld.Names[k]]
							}
						}
						i++
					}
				}
			}
			k := 0
			for _, call := range g.FindAtoms(func(a ast.Node) bool { return callsMethodOf(info, a, an.PkgDistsys, "MPCalContext", "Run") }) {
				k++
				n++
				key := fmt.Sprintf("%s:Run#%d-outcome-handed-on", fn.Name(), k)
				// where the result goes
				var v types.Object
				direct := false
				switch p := g.Parent(call).(type) {
				case *ast.AssignStmt:
					if len(p.Lhs) == 1 {
						v = an.ObjOf(info, p.Lhs[0])
					}
				case *ast.ValueSpec:
					if len(p.Names) == 1 {
						v = info.Defs[p.Names[0]]
					}
				case *ast.ReturnStmt, *ast.SendStmt, *ast.CallExpr:
					direct = true
				}
				if direct {
					c.Ok(key, call.Pos(), "returned / sent / passed on directly")
					continue
				}
				if v == nil {
					c.Bad(key, call.Pos(), "the result of Run is discarded: an assertion failure, the Error label and resource errors all look like a normal termination")
					continue
				}
				mentions := func(x ast.Node, o types.Object) bool {
					found := false
					ast.Inspect(x, func(m ast.Node) bool {
						if id, ok := m.(*ast.Ident); ok && info.Uses[id] == o {
							found = true
						}
						return true
					})
					return found
				}
				// on the non-nil side of every test of v: follow only that side
				edges := func(from *cfg.Block, i int) bool {
					cc, _ := g.Cond(from)
					if cc == nil {
						return true
					}
					if ok, nn := nilTestOn(g, info, cc, func(x ast.Expr) bool { return an.ObjOf(info, x) == v }); ok {
						return (i == 0) == nn
					}
					return true
				}
				// atoms that hand v on: a return mentioning it, a send / call argument mentioning it, a store of something mentioning it into the named result
				handsOn := func(a ast.Node) bool {
					switch x := a.(type) {
					case *ast.ReturnStmt:
						if len(x.Results) == 0 {
							return named != nil && named == v
						}
						if errIdx >= 0 && errIdx < len(x.Results) {
							return mentions(x.Results[errIdx], v)
						}
						return mentions(x, v)
					case *ast.SendStmt:
						return mentions(x.Value, v)
					case *ast.AssignStmt:
						for i, l := range x.Lhs {
							if o := an.ObjOf(info, l); o != nil && o != v && i < len(x.Rhs) && mentions(x.Rhs[i], v) {
								// stored somewhere that outlives the wrapper: its named result, a field, a captured variable
								if o == named {
									return true
								}
								if _, isField := an.Unparen(l).(*ast.SelectorExpr); isField {
									return true
								}
								if obj, ok := o.(*types.Var); ok && b.lit != nil && !(b.lit.Pos() <= obj.Pos() && obj.Pos() < b.lit.End()) {
									return true
								}
							}
						}
					case *ast.CallExpr:
						if x == call {
							return false
						}
						if id, ok := an.Unparen(x.Fun).(*ast.Ident); ok {
							if _, isB := info.Uses[id].(*types.Builtin); isB && id.Name != "panic" {
								return false
							}
						}
						if f := an.CalleeFunc(info, x); f != nil && f.Pkg() != nil && f.Pkg().Path() == "log" {
							return false // logging is not handing on
						}
						for _, arg := range x.Args {
							if mentions(arg, v) {
								return true
							}
						}
					}
					return false
				}
				ok := true
				if named != nil && named == v {
					ok = true // stored in the wrapper's own result
				} else {
					q := g.Search(an.Query{From: call, Edges: edges, ToExit: true, Avoid: handsOn})
					ok = !q.Found
				}
				c.Check(ok, key, call.Pos(), "Run's error reaches the wrapper's caller on every path on which it is set",
					"the error returned by Run is kept in "+v.Name()+" but there is a path to the end of the wrapper on which it is neither returned, sent nor stored in the wrapper's result (a shadowing variable?): a run that ended with an assertion failure, at the Error label or with a resource error is reported as a normal termination")
			}
		}
	}
	if n == 0 {
		c.Lost("MPCalContext.Run wrappers", "no call of MPCalContext.Run found in the runtime")
	}
}
