package rules

import (
	"fmt"
	"go/ast"
	"go/token"
	"go/types"

	"pgoverif/checker/an"
	"pgoverif/checker/core"
)

func init() {
	register(&core.Rule{ID: "EV-PAIR", Props: []string{"C18"}, Floor: 5,
		Doc: "every attempt is logged exactly once: abort() calls CommitEvent(_, true) once on every path; commit() calls CommitEvent(_, false) once, after every resource Commit, never on the error return; Run calls BeginEvent once per iteration before the .pc read",
		Run: runEVPair})
	register(&core.Rule{ID: "EV-RECORD", Props: []string{"C18"}, Floor: 4,
		Doc: "RecordRead/RecordWrite are called only from ArchetypeInterface.Read/Write, on the nil-error successor of the resource operation, with the handle's name, the indices and the value of that operation",
		Run: runEVRecord})
	register(&core.Rule{ID: "CLK-INC", Props: []string{"C18"}, Floor: 3,
		Doc: "InitCriticalSection (own clock component +1) runs once per iteration between BeginEvent and Body; the clock logged by CommitEvent is the sink's clock read at that point (after the resources committed / aborted)",
		Run: runClkInc})
	register(&core.Rule{ID: "CLK-WITNESS", Props: []string{"C18"}, Floor: 3,
		Doc: "Read witnesses the clock of the value it read before recording; Write hands the resource the value wrapped with the writer's current clock",
		Run: runClkWitness})
	register(&core.Rule{ID: "HINT-PAIR", Props: []string{"C18"}, Floor: 3,
		Doc: "the old-value hint receiver is armed before WriteValue and disarmed on every exit of Write; only Write and oldValueHint touch it",
		Run: runHintPair})
	register(&core.Rule{ID: "CLK-COMMITSTAMP", Props: []string{"C18"}, Floor: 4,
		Doc: "the clock that accompanies a value readable by another archetype is taken from the writer's sink at or after commit (in the carrier's Commit), not at write time: a section that writes and then reads something newer would otherwise publish a clock its logged event does not have",
		Run: runClkCommitStamp})
}

func isCallNamed(info *types.Info, a ast.Node, pkg, typ, name string) bool {
	call, ok := a.(*ast.CallExpr)
	return ok && an.IsMethodNamed(an.CalleeFunc(info, call), pkg, typ, name)
}

func runEVPair(c *core.Ctx) {
	e := EnvOf(c.Prog)
	iface := resourceIface(c, e)
	if iface == nil {
		return
	}
	commitEvent := func(info *types.Info, want bool) func(a ast.Node) bool {
		return func(a ast.Node) bool {
			call, ok := a.(*ast.CallExpr)
			return ok && an.IsMethodNamed(an.CalleeFunc(info, call), an.PkgTrace, "EventState", "CommitEvent") && len(call.Args) == 2 && isBoolConst(info, call.Args[1], want)
		}
	}
	anyCommitEvent := func(info *types.Info) func(a ast.Node) bool {
		return func(a ast.Node) bool { return isCallNamed(info, a, an.PkgTrace, "EventState", "CommitEvent") }
	}
	if fn := mustMethod(c, e, an.PkgDistsys, "MPCalContext", "abort"); fn != nil {
		g := e.Graph(fn)
		info := fn.Pkg.Info
		ok, _ := g.MustPass(nil, commitEvent(info, true), nil)
		c.Check(ok, "abort:logs-aborted-attempt", fn.Pos(), "CommitEvent(_, true) on every path", "abort() can return without logging the aborted attempt (or logs it as committed)")
		twice := false
		for _, ce := range g.FindAtoms(anyCommitEvent(info)) {
			if g.Search(an.Query{From: ce, Target: anyCommitEvent(info)}).Found {
				twice = true
			}
		}
		c.Check(!twice && len(g.FindAtoms(commitEvent(info, false))) == 0, "abort:logs-once", fn.Pos(), "exactly one event per aborted attempt", "abort() can log more than one event, or a commit event, for one attempt")
		// after the resources were rolled back
		okAfter := true
		for _, ce := range g.FindAtoms(commitEvent(info, true)) {
			late := g.Search(an.Query{From: ce, Target: func(a ast.Node) bool {
				call, ok := a.(*ast.CallExpr)
				if !ok {
					return false
				}
				name, _, ok := lifecycleCall(info, call, iface)
				return ok && name == "Abort"
			}})
			if late.Found {
				okAfter = false
			}
		}
		c.Check(okAfter, "abort:logs-after-rollback", fn.Pos(), "the event is logged after every resource aborted", "the abort event is logged before some resource has aborted: the logged clock misses what that resource witnesses")
	}
	if fn := mustMethod(c, e, an.PkgDistsys, "MPCalContext", "commit"); fn != nil {
		g := e.Graph(fn)
		info := fn.Pkg.Info
		errVar := returnedErr(fn)
		ces := g.FindAtoms(commitEvent(info, false))
		c.Check(len(ces) == 1 && len(g.FindAtoms(commitEvent(info, true))) == 0, "commit:logs-commit-once", fn.Pos(), "one CommitEvent(_, false)", "commit() does not log exactly one commit event")
		for _, ce := range ces {
			guarded := false
			for _, cd := range g.CondAtoms(func(ex ast.Expr) bool { return isNeqNil(info, ex, errVar) }) {
				if g.GuardedBy(ce, cd, false) {
					guarded = true
				}
			}
			c.Check(guarded, "commit:no-event-on-refused-precommit", ce.Pos(), "the commit event is logged only past the pre-commit error test", "a commit event is logged although a pre-commit was refused (the attempt will be aborted and logged again)")
			late := g.Search(an.Query{From: ce, Target: func(a ast.Node) bool {
				call, ok := a.(*ast.CallExpr)
				if !ok {
					return false
				}
				name, _, ok := lifecycleCall(info, call, iface)
				if ok && name == "Commit" {
					return true
				}
				u, isRecv := a.(*ast.UnaryExpr)
				return isRecv && u.Op == token.ARROW
			}})
			c.Check(!late.Found, "commit:logs-after-all-commits", ce.Pos(), "the event is logged after every resource Commit completed", "the commit event is logged before every resource finished committing: the logged clock can miss clocks merged during Commit")
			okAll, _ := g.MustPass(ce, func(a ast.Node) bool { return false }, nil)
			_ = okAll
		}
		// every successful return passed a commit event
		if len(ces) == 1 {
			lc := g.FindAtoms(func(a ast.Node) bool {
				call, ok := a.(*ast.CallExpr)
				if !ok {
					return false
				}
				name, _, ok := lifecycleCall(info, call, iface)
				return ok && name == "Commit"
			})
			if len(lc) > 0 {
				ok, _ := g.MustPass(lc[len(lc)-1], commitEvent(info, false), nil)
				c.Check(ok, "commit:every-commit-logged", fn.Pos(), "every committed attempt is logged", "commit() can return after committing without logging the event")
			}
		}
	}
	if fn := mustMethod(c, e, an.PkgDistsys, "MPCalContext", "Run"); fn != nil {
		g := e.Graph(fn)
		info := fn.Pkg.Info
		begins := g.FindAtoms(func(a ast.Node) bool { return isCallNamed(info, a, an.PkgTrace, "EventState", "BeginEvent") })
		reads := g.FindAtoms(func(a ast.Node) bool { return isCallNamed(info, a, an.PkgDistsys, "ArchetypeInterface", "Read") })
		csT := e.Ix.LookupType(an.PkgDistsys, "MPCalCriticalSection")
		bodyFld := an.Field(csT, "Body")
		bodies := g.FindAtoms(func(a ast.Node) bool {
			call, ok := a.(*ast.CallExpr)
			return ok && bodyFld != nil && an.SelectedField(info, call.Fun) == bodyFld
		})
		if len(begins) != 1 || len(reads) == 0 || len(bodies) != 1 {
			c.Lost("Run:BeginEvent", "expected one BeginEvent, a .pc Read and one Body call (%d/%d/%d)", len(begins), len(reads), len(bodies))
		} else {
			b := begins[0]
			c.Check(g.Dominates(b, reads[0]) && g.Dominates(b, bodies[0]), "Run:begin-before-pc-read", b.Pos(), "BeginEvent precedes the .pc read and Body", "the attempt's first read (.pc) happens before BeginEvent: it is attributed to the previous event or corrupts the accumulator")
			cyc := g.Search(an.Query{From: bodies[0], Target: func(a ast.Node) bool { return a == bodies[0] }, Avoid: func(a ast.Node) bool { return a == b }})
			c.Check(!cyc.Found, "Run:begin-every-iteration", b.Pos(), "every iteration begins an event", "an iteration can run Body without BeginEvent")
		}
	}
}

func runEVRecord(c *core.Ctx) {
	e := EnvOf(c.Prog)
	iface := resourceIface(c, e)
	if iface == nil {
		return
	}
	// who calls RecordRead / RecordWrite
	for _, fn := range e.Ix.Funcs() {
		info := fn.Pkg.Info
		ast.Inspect(fn.Body(), func(n ast.Node) bool {
			call, ok := n.(*ast.CallExpr)
			if !ok {
				return true
			}
			f := an.CalleeFunc(info, call)
			for _, pair := range [][2]string{{"RecordRead", "distsys.ArchetypeInterface.Read"}, {"RecordWrite", "distsys.ArchetypeInterface.Write"}} {
				if an.IsMethodNamed(f, an.PkgTrace, "EventState", pair[0]) {
					c.Check(fn.Name() == pair[1], fn.Name()+":"+pair[0], call.Pos(), pair[0]+" called from its owner", pair[0]+" is called outside "+pair[1]+": the trace would contain accesses the archetype did not perform through the interface")
				}
			}
			return true
		})
	}
	for _, spec := range []struct{ fn, rec, op string }{{"Read", "RecordRead", "ReadValue"}, {"Write", "RecordWrite", "WriteValue"}} {
		fn := mustMethod(c, e, an.PkgDistsys, "ArchetypeInterface", spec.fn)
		if fn == nil {
			continue
		}
		g := e.Graph(fn)
		info := fn.Pkg.Info
		recs := g.FindAtoms(func(a ast.Node) bool { return isCallNamed(info, a, an.PkgTrace, "EventState", spec.rec) })
		ops := g.FindAtoms(func(a ast.Node) bool {
			call, ok := a.(*ast.CallExpr)
			if !ok {
				return false
			}
			name, _, ok := lifecycleCall(info, call, iface)
			return ok && name == spec.op
		})
		if len(recs) != 1 || len(ops) != 1 {
			c.Lost("ArchetypeInterface."+spec.fn+":record", "expected one %s and one %s call (%d/%d)", spec.rec, spec.op, len(recs), len(ops))
			continue
		}
		rec, op := recs[0].(*ast.CallExpr), ops[0]
		// the error of the resource operation: the variable its result is assigned to
		var errVar types.Object
		if as, ok := g.Parent(op).(*ast.AssignStmt); ok && len(as.Lhs) >= 1 {
			errVar = an.ObjOf(info, as.Lhs[len(as.Lhs)-1])
		}
		if errVar == nil {
			errVar = returnedErr(fn)
		}
		guarded := false
		for _, blk := range g.CFG.Blocks {
			cd, _ := g.Cond(blk)
			if cd == nil {
				continue
			}
			// `if err == nil { record }` or `if err != nil { return }; record`
			if isT, nonNil := nilTestOn(g, info, cd, func(x ast.Expr) bool { return an.ObjOf(info, x) == errVar }); isT {
				if g.Dominates(op, cd) && g.GuardedBy(rec, cd, !nonNil) {
					guarded = true
				}
			}
		}
		c.Check(guarded, "ArchetypeInterface."+spec.fn+":records-only-successful-ops", rec.Pos(), "recorded on the err == nil successor of the resource operation",
			"the access is recorded although the resource operation failed (or before it ran): the trace would contain reads/writes that did not happen")
		// arguments: nameFromHandle(handle), indices, value
		params := map[string]types.Object{}
		for _, fl := range fn.Decl.Type.Params.List {
			for _, nm := range fl.Names {
				params[nm.Name] = info.Defs[nm]
			}
		}
		okArgs := len(rec.Args) >= 3
		if okArgs {
			nc, isCall := an.Unparen(rec.Args[0]).(*ast.CallExpr)
			okArgs = isCall && an.IsMethodNamed(an.CalleeFunc(info, nc), an.PkgDistsys, "ArchetypeInterface", "nameFromHandle") && len(nc.Args) == 1 && an.ObjOf(info, nc.Args[0]) == params["handle"]
			okArgs = okArgs && an.ObjOf(info, rec.Args[1]) == params["indices"]
			last := rec.Args[len(rec.Args)-1]
			if spec.fn == "Write" {
				okArgs = okArgs && an.ObjOf(info, last) == params["value"]
			} else {
				okArgs = okArgs && an.ObjOf(info, last) == namedResult(fn, 0)
			}
		}
		c.Check(okArgs, "ArchetypeInterface."+spec.fn+":records-what-was-accessed", rec.Pos(), "name of the handle, the indices and the value of this very operation", "the recorded name / indices / value are not those of the operation performed")
	}
}

func resultNames(fn *an.Func) []*ast.Ident {
	var out []*ast.Ident
	if fn.Type().Results == nil {
		return nil
	}
	for _, fl := range fn.Type().Results.List {
		out = append(out, fl.Names...)
	}
	return out
}

func runClkInc(c *core.Ctx) {
	e := EnvOf(c.Prog)
	if fn := mustMethod(c, e, an.PkgDistsys, "MPCalContext", "Run"); fn != nil {
		g := e.Graph(fn)
		info := fn.Pkg.Info
		inits := g.FindAtoms(func(a ast.Node) bool { return isCallNamed(info, a, an.PkgTrace, "VClockSink", "InitCriticalSection") })
		begins := g.FindAtoms(func(a ast.Node) bool { return isCallNamed(info, a, an.PkgTrace, "EventState", "BeginEvent") })
		csT := e.Ix.LookupType(an.PkgDistsys, "MPCalCriticalSection")
		bodyFld := an.Field(csT, "Body")
		bodies := g.FindAtoms(func(a ast.Node) bool {
			call, ok := a.(*ast.CallExpr)
			return ok && bodyFld != nil && an.SelectedField(info, call.Fun) == bodyFld
		})
		if len(inits) != 1 || len(begins) != 1 || len(bodies) != 1 {
			c.Lost("Run:InitCriticalSection", "expected one InitCriticalSection/BeginEvent/Body (%d/%d/%d)", len(inits), len(begins), len(bodies))
		} else {
			in := inits[0]
			c.Check(g.Dominates(begins[0], in) && g.Dominates(in, bodies[0]), "Run:clock-incremented-between-begin-and-body", in.Pos(), "own component +1 after BeginEvent, before Body", "the archetype's own clock component is not incremented between BeginEvent and Body: two attempts would carry the same own component")
			cyc := g.Search(an.Query{From: bodies[0], Target: func(a ast.Node) bool { return a == bodies[0] }, Avoid: func(a ast.Node) bool { return a == in }})
			again := g.Search(an.Query{From: in, Target: func(a ast.Node) bool { return a == in }, Avoid: func(a ast.Node) bool { return a == begins[0] }})
			c.Check(!cyc.Found && !again.Found, "Run:clock-incremented-once-per-attempt", in.Pos(), "exactly one increment per attempt", "an attempt can run without / with more than one increment of the own clock component")
		}
	}
	for _, name := range []string{"commit", "abort"} {
		fn := mustMethod(c, e, an.PkgDistsys, "MPCalContext", name)
		if fn == nil {
			continue
		}
		info := fn.Pkg.Info
		n := 0
		ast.Inspect(fn.Body(), func(m ast.Node) bool {
			call, ok := m.(*ast.CallExpr)
			if !ok || !an.IsMethodNamed(an.CalleeFunc(info, call), an.PkgTrace, "EventState", "CommitEvent") || len(call.Args) != 2 {
				return true
			}
			n++
			inner, isCall := an.Unparen(call.Args[0]).(*ast.CallExpr)
			c.Check(isCall && an.IsMethodNamed(an.CalleeFunc(info, inner), an.PkgTrace, "VClockSink", "GetVClock"), fmt.Sprintf("%s:event-clock-is-current-sink-clock#%d", name, n), call.Pos(),
				"the logged clock is vclockSink.GetVClock() evaluated at the CommitEvent call", "the clock logged with the event is not the sink's clock read at that moment (a stale copy misses clocks witnessed during the attempt)")
			return true
		})
	}
}

func runClkWitness(c *core.Ctx) {
	e := EnvOf(c.Prog)
	if fn := mustMethod(c, e, an.PkgDistsys, "ArchetypeInterface", "Read"); fn != nil {
		g := e.Graph(fn)
		info := fn.Pkg.Info
		wit := g.FindAtoms(func(a ast.Node) bool { return isCallNamed(info, a, an.PkgTrace, "VClockSink", "WitnessVClock") })
		rec := g.FindAtoms(func(a ast.Node) bool { return isCallNamed(info, a, an.PkgTrace, "EventState", "RecordRead") })
		getc := g.FindAtoms(func(a ast.Node) bool { return isCallNamed(info, a, an.PkgTLA, "Value", "GetVClock") })
		ok := len(wit) == 1 && len(rec) == 1 && len(getc) >= 1
		if ok {
			// the witnessed clock derives from value.GetVClock() and only a nil clock skips it
			w := wit[0]
			guarded := false
			for _, cd := range g.CondAtoms(func(ex ast.Expr) bool {
				be, isBin := an.Unparen(ex).(*ast.BinaryExpr)
				return isBin && be.Op == token.NEQ && isNilIdent(info, be.Y)
			}) {
				if g.GuardedBy(w, cd, true) {
					// the other branch must be reachable only when the clock is nil: condition variable assigned from GetVClock
					obj := an.ObjOf(info, an.Unparen(cd.(ast.Expr)).(*ast.BinaryExpr).X)
					ast.Inspect(fn.Body(), func(m ast.Node) bool {
						if as, isAs := m.(*ast.AssignStmt); isAs && len(as.Lhs) == 1 && an.ObjOf(info, as.Lhs[0]) == obj {
							if call, isCall := an.Unparen(as.Rhs[0]).(*ast.CallExpr); isCall && an.IsMethodNamed(an.CalleeFunc(info, call), an.PkgTLA, "Value", "GetVClock") {
								guarded = true
							}
						}
						return true
					})
				}
			}
			ok = guarded
			// stripped only after witnessing
			strips := g.FindAtoms(func(a ast.Node) bool { return isCallNamed(info, a, an.PkgTLA, "Value", "StripVClock") })
			for _, s := range strips {
				if g.Search(an.Query{From: s, Target: func(a ast.Node) bool { return a == w }}).Found {
					ok = false
				}
			}
		}
		c.Check(ok, "ArchetypeInterface.Read:witnesses-value-clock", fn.Pos(), "the clock carried by the value read is merged into the reader's clock (skipped only when the value carries none), before it is stripped",
			"Read does not merge the clock carried by the value into the reader's clock: the reader's logged event would not dominate the writer's")
	}
	if fn := mustMethod(c, e, an.PkgDistsys, "ArchetypeInterface", "Write"); fn != nil {
		info := fn.Pkg.Info
		iface := resourceIface(c, e)
		ok := false
		ast.Inspect(fn.Body(), func(m ast.Node) bool {
			call, isCall := m.(*ast.CallExpr)
			if !isCall {
				return true
			}
			name, _, isLC := lifecycleCall(info, call, iface)
			if !isLC || name != "WriteValue" || len(call.Args) != 2 {
				return true
			}
			wc, isWrap := an.Unparen(an.ResolveLocal(info, fn.Body(), call.Args[1])).(*ast.CallExpr)
			if isWrap && an.IsFuncNamed(an.CalleeFunc(info, wc), an.PkgTLA, "WrapCausal") && len(wc.Args) == 2 {
				if gc, isGet := an.Unparen(an.ResolveLocal(info, fn.Body(), wc.Args[1])).(*ast.CallExpr); isGet && an.IsMethodNamed(an.CalleeFunc(info, gc), an.PkgTrace, "VClockSink", "GetVClock") {
					ok = true
				}
			}
			return true
		})
		c.Check(ok, "ArchetypeInterface.Write:wraps-with-writer-clock", fn.Pos(), "WriteValue receives WrapCausal(value, sink.GetVClock())", "the value handed to the resource does not carry the writer's clock: readers cannot inherit the writer's causality")
	}
	// resources that receive a value from another archetype must not strip its clock before handing it on:
	// local reader resources return the stored value as is (checked by RES-*), nothing to add here
	if fn := mustMethod(c, e, an.PkgDistsys, "LocalArchetypeResource", "ReadValue"); fn != nil {
		info := fn.Pkg.Info
		wraps := false
		ast.Inspect(fn.Body(), func(m ast.Node) bool {
			if call, ok := m.(*ast.CallExpr); ok && an.IsFuncNamed(an.CalleeFunc(info, call), an.PkgTLA, "WrapCausal") {
				wraps = true
			}
			return true
		})
		c.Check(wraps, "LocalArchetypeResource.ReadValue:returns-cell-clock", fn.Pos(), "the value is returned wrapped with the cell's clock", "a local/shared cell returns its value without its clock: a reader of a shared variable inherits nothing from the writer")
	}
}

func runHintPair(c *core.Ctx) {
	e := EnvOf(c.Prog)
	ctxT := mustType(c, e, an.PkgDistsys, "MPCalContext")
	fn := mustMethod(c, e, an.PkgDistsys, "ArchetypeInterface", "Write")
	if ctxT == nil || fn == nil {
		return
	}
	recv := mustField(c, ctxT, "oldValueHintReceiver")
	iface := resourceIface(c, e)
	if recv == nil || iface == nil {
		return
	}
	// writers of the field
	for _, f2 := range e.Ix.Funcs() {
		i2 := f2.Pkg.Info
		ast.Inspect(f2.Body(), func(m ast.Node) bool {
			if _, ok := fieldIsAssigned(i2, m, recv); ok {
				okOwner := f2.Name() == "distsys.ArchetypeInterface.Write" || f2.Name() == "distsys.ArchetypeInterface.oldValueHint"
				c.Check(okOwner, f2.Name()+":sets-hint-receiver", m.Pos(), "hint receiver set by its owner", "oldValueHintReceiver is assigned outside Write/oldValueHint")
			}
			return true
		})
	}
	// the hint a resource gives is the value immediately before this write: the field it is about to overwrite
	hints := 0
	for _, f2 := range e.Ix.Funcs() {
		i2 := f2.Pkg.Info
		var g2 *an.Graph
		ast.Inspect(f2.Body(), func(m ast.Node) bool {
			call, ok := m.(*ast.CallExpr)
			if !ok || !an.IsMethodNamed(an.CalleeFunc(i2, call), an.PkgDistsys, "ArchetypeInterface", "oldValueHint") || len(call.Args) != 1 {
				return true
			}
			hints++
			fld := an.SelectedField(i2, call.Args[0])
			if fld == nil {
				c.Ok(f2.Name()+":hint-source", call.Pos(), "the hint is a local value (old value handed in by the substitution helper)")
				return true
			}
			if g2 == nil {
				g2 = e.Graph(f2)
			}
			overwritten := false
			for _, a := range g2.FindAtoms(func(a ast.Node) bool { _, ok := fieldIsAssigned(i2, a, fld); return ok }) {
				if at := g2.AtomOf(call); at != nil && g2.Dominates(at, a) {
					overwritten = true
				}
			}
			c.Check(overwritten, f2.Name()+":hint-source", call.Pos(), "the hinted field is the one this write then overwrites (the immediately previous value)",
				"the old-value hint is taken from field "+fld.Name()+", which this write does not overwrite: after the first write of a section the logged oldValue is not the value immediately before the write, so replaying the trace contradicts it")
			return true
		})
	}
	if hints < 2 {
		c.Lost("oldValueHint call sites", "expected >= 2 hint sites, found %d", hints)
	}
	g := e.Graph(fn)
	info := fn.Pkg.Info
	arms := g.FindAtoms(func(a ast.Node) bool {
		rhs, ok := fieldIsAssigned(info, a, recv)
		return ok && rhs != nil && !isNilIdent(info, rhs)
	})
	ops := g.FindAtoms(func(a ast.Node) bool {
		call, ok := a.(*ast.CallExpr)
		if !ok {
			return false
		}
		name, _, ok := lifecycleCall(info, call, iface)
		return ok && name == "WriteValue"
	})
	okArm := len(arms) == 1 && len(ops) == 1 && g.Dominates(arms[0], ops[0])
	c.Check(okArm, "Write:hint-armed-before-WriteValue", fn.Pos(), "the receiver is armed before the resource's WriteValue", "the old-value hint receiver is not armed before WriteValue: hints are dropped or written through a stale pointer")
	// a deferred literal registered before WriteValue disarms it
	disarm := false
	for _, a := range g.FindAtoms(func(a ast.Node) bool { _, ok := a.(*ast.DeferStmt); return ok }) {
		lit, ok := an.Unparen(a.(*ast.DeferStmt).Call.Fun).(*ast.FuncLit)
		if !ok || len(ops) == 0 || !g.Dominates(a, ops[0]) {
			continue
		}
		lg := e.GraphOfLit(fn.Pkg, lit)
		passes, _ := lg.MustPass(nil, func(x ast.Node) bool {
			rhs, ok := fieldIsAssigned(info, x, recv)
			return ok && isNilIdent(info, rhs)
		}, nil)
		if passes {
			disarm = true
		}
	}
	// nilLeaf: leaf expression e having truth value val means "field recv == nil" (wantNil) resp. "!= nil"
	nilLeaf := func(inf *types.Info, wantNil bool) func(ast.Expr, bool) bool {
		return func(ex ast.Expr, val bool) bool {
			be, ok := ex.(*ast.BinaryExpr)
			if !ok || (be.Op != token.EQL && be.Op != token.NEQ) {
				return false
			}
			if !((an.SelectedField(inf, be.X) == recv && isNilIdent(inf, be.Y)) || (an.SelectedField(inf, be.Y) == recv && isNilIdent(inf, be.X))) {
				return false
			}
			isNil := (be.Op == token.EQL) == val
			return isNil == wantNil
		}
	}
	// oldValueHint: deposits its argument through the armed receiver and disarms it, only when a receiver is armed
	if hf := mustMethod(c, e, an.PkgDistsys, "ArchetypeInterface", "oldValueHint"); hf != nil {
		hg := e.Graph(hf)
		hi := hf.Pkg.Info
		var param types.Object
		if ps := hf.Decl.Type.Params.List; len(ps) == 1 && len(ps[0].Names) == 1 {
			param = hi.Defs[ps[0].Names[0]]
		}
		deposited, disarmed := false, false
		for _, st := range hg.FindAtoms(func(a ast.Node) bool {
			as, ok := a.(*ast.AssignStmt)
			if !ok || len(as.Lhs) != 1 || len(as.Rhs) != 1 {
				return false
			}
			star, ok := an.Unparen(as.Lhs[0]).(*ast.StarExpr)
			return ok && an.SelectedField(hi, star.X) == recv && an.ObjOf(hi, as.Rhs[0]) == param
		}) {
			for _, blk := range hg.CFG.Blocks {
				cd, _ := hg.Cond(blk)
				if cd == nil {
					continue
				}
				for _, branch := range []bool{true, false} {
					if an.Implies(cd, branch, nilLeaf(hi, false)) && hg.GuardedBy(st, cd, branch) {
						deposited = true
						for _, d := range hg.FindAtoms(func(a ast.Node) bool {
							rhs, ok := fieldIsAssigned(hi, a, recv)
							return ok && isNilIdent(hi, rhs)
						}) {
							if hg.Dominates(st, d) && hg.GuardedBy(d, cd, branch) {
								disarmed = true
							}
						}
					}
				}
			}
		}
		c.Check(deposited, "oldValueHint:deposits-through-armed-receiver", hf.Pos(), "the hint is stored through the receiver, on the branch where one is armed",
			"oldValueHint does not store its argument through oldValueHintReceiver on the branch where the receiver is non-nil: old values are never logged, or a nil pointer is written through")
		c.Check(disarmed, "oldValueHint:disarms-after-deposit", hf.Pos(), "the receiver is set to nil after the deposit",
			"oldValueHint does not disarm the receiver after depositing: Write cannot tell that a hint was given")
	}
	// Write: the hint handed to the recorder is &oldValue exactly when the receiver was consumed (is nil after WriteValue)
	if len(arms) == 1 && len(ops) == 1 {
		var slot types.Object
		if as, ok := arms[0].(*ast.AssignStmt); ok && len(as.Rhs) == 1 {
			if u, ok := an.Unparen(as.Rhs[0]).(*ast.UnaryExpr); ok && u.Op == token.AND {
				slot = an.ObjOf(info, u.X)
			}
		}
		recs := g.FindAtoms(func(a ast.Node) bool {
			call, ok := a.(*ast.CallExpr)
			return ok && an.IsMethodNamed(an.CalleeFunc(info, call), an.PkgTrace, "EventState", "RecordWrite")
		})
		if slot == nil || len(recs) == 0 {
			c.Lost("Write:hint-extraction", "armed slot (&oldValue) or RecordWrite call not found")
		}
		for i, rc := range recs {
			key := fmt.Sprintf("Write:hint-passed-iff-consumed#%d", i+1)
			call := rc.(*ast.CallExpr)
			var hintVar types.Object
			for _, a := range call.Args {
				if p, ok := info.TypeOf(a).(*types.Pointer); ok {
					if n := an.NamedOf(p.Elem()); n != nil && n.Obj().Name() == "Value" {
						hintVar = an.ObjOf(info, a)
					}
				}
			}
			if hintVar == nil {
				c.Bad(key, rc.Pos(), "RecordWrite is not given a *tla.Value hint variable")
				continue
			}
			okHint := false
			for _, as := range g.FindAtoms(func(a ast.Node) bool {
				x, ok := a.(*ast.AssignStmt)
				if !ok || len(x.Lhs) != 1 || len(x.Rhs) != 1 || an.ObjOf(info, x.Lhs[0]) != hintVar {
					return false
				}
				u, ok := an.Unparen(x.Rhs[0]).(*ast.UnaryExpr)
				return ok && u.Op == token.AND && an.ObjOf(info, u.X) == slot
			}) {
				if !g.Dominates(ops[0], as) {
					continue
				}
				for _, blk := range g.CFG.Blocks {
					cd, _ := g.Cond(blk)
					if cd == nil || !g.Dominates(ops[0], cd) {
						continue
					}
					for _, branch := range []bool{true, false} {
						if !g.GuardedBy(as, cd, branch) {
							continue
						}
						// directly a test of the receiver field ...
						if an.Implies(cd, branch, nilLeaf(info, true)) {
							okHint = true
						}
						// ... or of a bool computed from it after WriteValue
						if an.Implies(cd, branch, func(ex ast.Expr, val bool) bool {
							b := an.ObjOf(info, ex)
							if b == nil || !val {
								return false
							}
							for _, d := range g.FindAtoms(func(a ast.Node) bool {
								x, ok := a.(*ast.AssignStmt)
								return ok && len(x.Lhs) == 1 && len(x.Rhs) == 1 && an.ObjOf(info, x.Lhs[0]) == b
							}) {
								if g.Dominates(ops[0], d) && an.Implies(d.(*ast.AssignStmt).Rhs[0], true, nilLeaf(info, true)) {
									return true
								}
							}
							return false
						}) {
							okHint = true
						}
					}
				}
			}
			// and nothing else assigns a non-nil hint
			others := g.FindAtoms(func(a ast.Node) bool {
				x, ok := a.(*ast.AssignStmt)
				if !ok || len(x.Lhs) != 1 || len(x.Rhs) != 1 || an.ObjOf(info, x.Lhs[0]) != hintVar || isNilIdent(info, x.Rhs[0]) {
					return false
				}
				u, ok := an.Unparen(x.Rhs[0]).(*ast.UnaryExpr)
				return !(ok && u.Op == token.AND && an.ObjOf(info, u.X) == slot)
			})
			c.Check(okHint && len(others) == 0, key, rc.Pos(), "the recorder gets &oldValue exactly on the branch where the receiver was consumed by the resource",
				"the previous-value hint given to RecordWrite is not `&oldValue iff the receiver is nil after WriteValue`: writes are logged with a zero old value although none was hinted, or hints given by the resource are dropped")
		}
	}
	c.Check(disarm, "Write:hint-disarmed-on-every-exit", fn.Pos(), "a defer registered before WriteValue sets the receiver to nil", "the hint receiver can stay armed after Write returns (e.g. on an error return): a later write to another variable would deposit its old value into a dead stack slot")
}

func runClkCommitStamp(c *core.Ctx) {
	e := EnvOf(c.Prog)
	type carrier struct{ pkg, typ, clockField string }
	carriers := []carrier{
		{an.PkgDistsys, "LocalArchetypeResource", "clock"},
		{an.PkgResources, "OutputChan", ""},
		{an.PkgResources, "tcpMailboxesRemote", ""},
		{an.PkgResources, "relaxedMailboxesRemote", ""},
	}
	for _, cr := range carriers {
		t := mustType(c, e, cr.pkg, cr.typ)
		fn := mustMethod(c, e, cr.pkg, cr.typ, "Commit")
		if t == nil || fn == nil {
			continue
		}
		info := fn.Pkg.Info
		key := an.TypeKey(t) + ".Commit"
		readsSink := false
		ast.Inspect(fn.Body(), func(m ast.Node) bool {
			if call, ok := m.(*ast.CallExpr); ok && an.IsMethodNamed(an.CalleeFunc(info, call), an.PkgTrace, "VClockSink", "GetVClock") {
				readsSink = true
			}
			return true
		})
		ok := readsSink
		if ok && cr.clockField != "" {
			fld := an.Field(t, cr.clockField)
			_, writes := e.Fx.Of(fn).Writes[fld]
			ok = writes
			// ... on every path of Commit: a stamp that depends on a flag some write path may not set (an indexed write goes
			// through the sub-resource) leaves that write with its write-time clock
			if ok {
				g := e.Graph(fn)
				stamp := func(a ast.Node) bool {
					_, isStore := fieldIsAssigned(info, a, fld)
					return isStore
				}
				if always, _ := g.MustPass(nil, stamp, nil); !always {
					c.Bad(key+":on-every-path", fn.Pos(), "%s.Commit attaches the committing section's clock on some paths only: a write that does not arm the condition (an indexed write `x[k] := v` goes through the sub-resource) keeps its write-time clock, and a later reader's clock does not dominate the writer's logged event", an.TypeKey(t))
				} else {
					c.Ok(key+":on-every-path", fn.Pos(), "every path of Commit stamps")
				}
			}
		}
		c.Check(ok, key, fn.Pos(), "the committing archetype's clock is attached in Commit",
			fmt.Sprintf("values written through %s keep the clock the writer had at write time: if the section later reads something with a newer clock, readers of this value carry a clock that does not dominate the writer's logged event", an.TypeKey(t)))
	}
}

func init() {
	register(&core.Rule{ID: "EV-NAMES", Props: []string{"C18"}, Floor: 2,
		Doc: "the name an access is logged under is the name the code used for it: both functions that hand a handle to a critical section (RequireArchetypeResource, RequireArchetypeResourceRef) re-label the handle with the requested name on every path. A by-reference parameter re-labels the caller's variable with the parameter name; if the direct lookup does not label it back, every later access of that variable is logged under the callee's parameter name and a replay of the trace assigns the values to the wrong variable",
		Run: runEvNames})
}

func runEvNames(c *core.Ctx) {
	e := EnvOf(c.Prog)
	ctxT := mustType(c, e, an.PkgDistsys, "MPCalContext")
	if ctxT == nil {
		return
	}
	names := mustField(c, ctxT, "apparentResourceNames")
	if names == nil {
		return
	}
	for _, fname := range []string{"RequireArchetypeResource", "RequireArchetypeResourceRef"} {
		fn := mustMethod(c, e, an.PkgDistsys, "ArchetypeInterface", fname)
		if fn == nil {
			continue
		}
		info := fn.Pkg.Info
		g := e.Graph(fn)
		// the requested name: the first parameter
		var nameParam types.Object
		if ps := fn.Decl.Type.Params.List; len(ps) > 0 && len(ps[0].Names) > 0 {
			nameParam = info.Defs[ps[0].Names[0]]
		}
		label := func(a ast.Node) bool {
			as, ok := a.(*ast.AssignStmt)
			if !ok || len(as.Lhs) != 1 || len(as.Rhs) != 1 {
				return false
			}
			ix, isIx := an.Unparen(as.Lhs[0]).(*ast.IndexExpr)
			if !isIx || an.SelectedField(info, ix.X) == nil || an.SelectedField(info, ix.X).Origin() != names {
				return false
			}
			return nameParam != nil && an.ObjOf(info, an.ResolveLocal(info, fn.Body(), as.Rhs[0])) == nameParam
		}
		// every normal return of a handle passes the labelling store (error returns of the Ref variant are exempt:
		// they return no usable handle)
		p := g.Search(an.Query{ToExit: true, Avoid: func(a ast.Node) bool {
			if label(a) {
				return true
			}
			// an error return: `return "", err` / a return whose last result is a non-nil error variable
			if rs, isRet := a.(*ast.ReturnStmt); isRet && len(rs.Results) == 2 {
				if id, isId := an.Unparen(rs.Results[1]).(*ast.Ident); !isId || id.Name != "nil" {
					return true
				}
			}
			return false
		}})
		c.Check(!p.Found, fname+":labels-handle-with-requested-name", fn.Pos(), "the handle is (re-)labelled with the requested name before it is handed out",
			fname+" can hand out a handle without labelling it with the name it was asked for: after a by-reference call re-labelled the variable, its accesses stay logged under the callee's parameter name")
	}
}
