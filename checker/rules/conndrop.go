package rules

import (
	"fmt"
	"go/ast"
	"go/types"

	"golang.org/x/tools/go/cfg"

	"pgoverif/checker/an"
	"pgoverif/checker/core"
)

func init() {
	register(&core.Rule{ID: "MB-CONN-DROP", Props: []string{"C06", "C01"}, Floor: 8,
		Doc: "a wire error ends the connection: in the mailbox senders, after a failed Encode/Decode (or a failed resend) on the connection no further wire operation and no return to the caller happens before res.conn is set to nil - a reply to the failed exchange may still be in flight, and a retried section that reuses the connection would read that stale reply as its own (a batch is then published by two receivers, or acknowledged without being delivered)",
		Run: runConnDrop})
}

func runConnDrop(c *core.Ctx) {
	e := EnvOf(c.Prog)
	n := 0
	for _, typ := range []string{"tcpMailboxesRemote", "relaxedMailboxesRemote"} {
		t := mustType(c, e, an.PkgResources, typ)
		if t == nil {
			continue
		}
		conn, enc, dec := mustField(c, t, "conn"), mustField(c, t, "connEncoder"), mustField(c, t, "connDecoder")
		if conn == nil || enc == nil || dec == nil {
			continue
		}
		for _, fn := range e.Ix.MethodsOf(t) {
			// resend() hands its error to its only caller, Commit's retry loop, where the call counts as a wire operation
			if fn.Body() == nil || fn.Obj.Name() == "resend" {
				continue
			}
			info := fn.Pkg.Info
			// local closures by variable
			lits := map[types.Object]*ast.FuncLit{}
			ast.Inspect(fn.Body(), func(m ast.Node) bool {
				if as, ok := m.(*ast.AssignStmt); ok && len(as.Lhs) == 1 && len(as.Rhs) == 1 {
					if lit, ok := an.Unparen(as.Rhs[0]).(*ast.FuncLit); ok {
						if o := an.ObjOf(info, as.Lhs[0]); o != nil {
							lits[o] = lit
						}
					}
				}
				return true
			})
			// local names for the connection and its codecs (`conn, enc, dec := res.conn, res.connEncoder, res.connDecoder`,
			// never reassigned): an operation on the alias is an operation on the field's value
			aliasOf := map[types.Object]*types.Var{}
			reassigned := map[types.Object]bool{}
			ast.Inspect(fn.Body(), func(m ast.Node) bool {
				as, ok := m.(*ast.AssignStmt)
				if !ok || len(as.Lhs) != len(as.Rhs) {
					return true
				}
				for i, l := range as.Lhs {
					o := an.ObjOf(info, l)
					if o == nil {
						continue
					}
					if _, isID := an.Unparen(l).(*ast.Ident); !isID {
						continue
					}
					if f := an.SelectedField(info, as.Rhs[i]); f != nil && (f == conn || f == enc || f == dec) && aliasOf[o] == nil && !reassigned[o] {
						aliasOf[o] = f
					} else {
						reassigned[o] = true
						delete(aliasOf, o)
					}
				}
				return true
			})
			fieldOrAlias := func(x ast.Expr) *types.Var {
				if f := an.SelectedField(info, x); f != nil {
					return f
				}
				if id, ok := an.Unparen(x).(*ast.Ident); ok {
					return aliasOf[info.ObjectOf(id)]
				}
				return nil
			}
			setsNil := func(a ast.Node) bool {
				as, ok := a.(*ast.AssignStmt)
				if !ok {
					return false
				}
				for i, l := range as.Lhs {
					if an.SelectedField(info, l) == conn {
						if len(as.Rhs) == len(as.Lhs) && isNilIdent(info, as.Rhs[i]) {
							return true
						}
					}
				}
				return false
			}
			// a call of a local closure every path of which drops the connection
			closureDrops := map[*ast.FuncLit]bool{}
			for _, lit := range lits {
				lg := e.GraphOfLit(fn.Pkg, lit)
				ok, _ := lg.MustPass(nil, setsNil, nil)
				closureDrops[lit] = ok
			}
			drops := func(a ast.Node) bool {
				if setsNil(a) {
					return true
				}
				if call, ok := a.(*ast.CallExpr); ok {
					if id, ok := an.Unparen(call.Fun).(*ast.Ident); ok {
						if lit := lits[info.ObjectOf(id)]; lit != nil && closureDrops[lit] {
							return true
						}
					}
				}
				return false
			}
			isWire := func(a ast.Node) bool {
				call, ok := a.(*ast.CallExpr)
				if !ok {
					return false
				}
				sel, ok := an.Unparen(call.Fun).(*ast.SelectorExpr)
				if !ok {
					return false
				}
				if f := fieldOrAlias(sel.X); f == enc || f == dec {
					return sel.Sel.Name == "Encode" || sel.Sel.Name == "Decode"
				}
				return an.IsMethodNamed(an.CalleeFunc(info, call), an.PkgResources, typ, "resend")
			}
			for _, b := range bodiesOf(fn) {
				g := graphOfBody(e, fn.Pkg, fn, b)
				k := 0
				for _, w := range g.FindAtoms(isWire) {
					// the error of this operation
					var errObj types.Object
					switch p := g.Parent(w).(type) {
					case *ast.AssignStmt:
						if len(p.Lhs) == 1 {
							errObj = an.ObjOf(info, p.Lhs[0])
						}
					}
					if errObj == nil {
						continue
					}
					k++
					n++
					// variables the error is copied into (`ret = err`, `err2 := ret`): a test of any of them on the failure
					// path is a test of this error
					errSet := map[types.Object]bool{errObj: true}
					for changed := true; changed; {
						changed = false
						ast.Inspect(b.body, func(m ast.Node) bool {
							if as, ok := m.(*ast.AssignStmt); ok && len(as.Lhs) == len(as.Rhs) {
								for i := range as.Lhs {
									l, r := an.ObjOf(info, as.Lhs[i]), an.ObjOf(info, as.Rhs[i])
									if l != nil && r != nil && errSet[r] && !errSet[l] {
										errSet[l] = true
										changed = true
									}
								}
							}
							return true
						})
					}
					key := fmt.Sprintf("%s:wire-op#%d(%s)-failure-drops-connection", fn.Name(), k, types.ExprString(w.(*ast.CallExpr).Fun))
					bad := ""
					tested := false
					for _, blk := range g.CFG.Blocks {
						cd, _ := g.Cond(blk)
						if cd == nil {
							continue
						}
						isT, nonNil := nilTestOn(g, info, cd, func(x ast.Expr) bool { return an.ObjOf(info, x) == errObj })
						if !isT {
							continue
						}
						// the test examines this operation's error: reachable from w without another store to the variable
						reach := g.Search(an.Query{From: w, Target: func(y ast.Node) bool { return y == ast.Node(cd) }, Avoid: func(y ast.Node) bool {
							if y == w || y == g.Parent(w) {
								return false
							}
							as, ok := y.(*ast.AssignStmt)
							if !ok {
								return false
							}
							for _, l := range as.Lhs {
								if an.ObjOf(info, l) == errObj {
									return true
								}
							}
							return false
						}})
						if !reach.Found {
							continue
						}
						tested = true
						// edges that imply the connection is already nil count as dropped
						connNilEdge := func(from *cfg.Block, i int) bool {
							cc, _ := g.Cond(from)
							if cc == nil || cc == cd {
								return true
							}
							// other tests of the same error variable: the error is still set on this path
							if ok, nn := nilTestOn(g, info, cc, func(x ast.Expr) bool { return errSet[an.ObjOf(info, x)] }); ok {
								return (i == 0) == nn
							}
							if ok, nn := nilTestOn(g, info, cc, func(x ast.Expr) bool { return an.SelectedField(info, x) == conn }); ok {
								// successor 0 is the true branch
								isTrue := i == 0
								nonNilBranch := isTrue == nn
								return nonNilBranch // do not follow the branch on which conn == nil: nothing to drop there
							}
							return true
						}
						fail := g.Branch(cd, nonNil)
						edges := func(from *cfg.Block, i int) bool { return fail(from, i) && connNilEdge(from, i) }
						if q := g.Search(an.Query{From: cd, Edges: edges, Target: isWire, Avoid: drops}); q.Found {
							bad = "another wire operation follows"
						}
						if q := g.Search(an.Query{From: cd, Edges: edges, ToExit: true, Avoid: func(y ast.Node) bool { return drops(y) || isWire(y) }}); q.Found {
							bad = "the operation returns"
						}
					}
					if !tested {
						c.Undecided(key, w.Pos(), "the error of this wire operation is not tested with a nil comparison")
						continue
					}
					c.Check(bad == "", key, w.Pos(), "after a failure the connection is dropped before anything else happens on it",
						"after this wire operation fails "+bad+" while res.conn is still set: the next attempt reuses a connection on which the reply to the failed exchange can still arrive, and reads it as the reply to its own request (the section is then acknowledged / published twice)")
				}
			}
		}
	}
	if n == 0 {
		c.Lost("wire operations", "no Encode/Decode on the sender connections found")
	}
}
