package rules

import (
	"fmt"
	"go/ast"
	"go/token"
	"go/types"

	"pgoverif/checker/an"
	"pgoverif/checker/core"
)

func init() {
	register(&core.Rule{ID: "TPC-POISON", Props: []string{"C11"}, Floor: 3,
		Doc: "a 2PC section that accepted another proposer's value (state acceptedNewValueInCriticalSection) never makes progress: every store of a forward state (inUninterruptedCriticalSection, inPreCommit, hasPreCommitted) is guarded by a condition that - through the single-return predicate helpers - rules the poisoned state out on that path",
		Run: runTPCPoison})
	register(&core.Rule{ID: "TPC-RETRY", Props: []string{"C11"}, Floor: 1,
		Doc: "the per-replica Abort/Commit sender leaves its retry loop only through the loop condition (the version moved on) or after a reply: a send error always leads back to the loop condition, so an acceptor that granted a pre-commit is eventually released while the proposer lives",
		Run: runTPCRetry})
}

// singleReturn: fn's body is exactly `return E`.
func singleReturn(fn *an.Func) ast.Expr {
	if fn == nil || fn.Body() == nil || len(fn.Body().List) != 1 {
		return nil
	}
	rs, ok := fn.Body().List[0].(*ast.ReturnStmt)
	if !ok || len(rs.Results) != 1 {
		return nil
	}
	return rs.Results[0]
}

func runTPCPoison(c *core.Ctx) {
	e := EnvOf(c.Prog)
	t := mustType(c, e, an.PkgResources, "TwoPCArchetypeResource")
	pk := c.Prog.Pkg(an.PkgResources)
	if t == nil || pk == nil {
		return
	}
	state := mustField(c, t, "criticalSectionState")
	if state == nil {
		return
	}
	lookup := func(n string) types.Object { return pk.Types.Scope().Lookup(n) }
	poison := lookup("acceptedNewValueInCriticalSection")
	forward := map[types.Object]bool{}
	for _, n := range []string{"inUninterruptedCriticalSection", "inPreCommit", "hasPreCommitted"} {
		if o := lookup(n); o != nil {
			forward[o] = true
		}
	}
	if poison == nil || len(forward) != 3 {
		c.Lost("CriticalSectionState constants", "acceptedNewValueInCriticalSection / forward states not found")
		return
	}
	n := 0
	for _, fn := range e.Ix.Funcs() {
		if fn.Pkg.Path != an.PkgResources {
			continue
		}
		info := fn.Pkg.Info
		// isState: expression denotes the criticalSectionState field (or, inside methods of the state type, the receiver)
		var excludes func(ex ast.Expr, val bool, depth int) bool
		excludes = func(ex ast.Expr, val bool, depth int) bool {
			ex = an.Unparen(ex)
			switch x := ex.(type) {
			case *ast.BinaryExpr:
				if x.Op != token.EQL && x.Op != token.NEQ {
					return false
				}
				var k types.Object
				switch {
				case an.SelectedField(info, x.X) == state:
					k = an.ObjOf(info, x.Y)
				case an.SelectedField(info, x.Y) == state:
					k = an.ObjOf(info, x.X)
				default:
					return false
				}
				if k == nil {
					return false
				}
				eq := (x.Op == token.EQL) == val // the expression being val means state == k (eq) or state != k
				if k == poison {
					return !eq
				}
				_, isConst := k.(*types.Const)
				return eq && isConst
			case *ast.CallExpr:
				if depth > 3 {
					return false
				}
				callee := e.Ix.FuncOf(an.CalleeFunc(info, x))
				if callee == nil || callee.Pkg != fn.Pkg {
					return false
				}
				if r := singleReturn(callee); r != nil {
					return an.Implies(r, val, func(e2 ast.Expr, v2 bool) bool { return excludes(e2, v2, depth+1) })
				}
			}
			return false
		}
		for _, b := range bodiesOf(fn) {
			g := graphOfBody(e, fn.Pkg, fn, b)
			for _, a := range g.FindAtoms(func(a ast.Node) bool {
				rhs, ok := fieldIsAssigned(info, a, state)
				return ok && rhs != nil && forward[an.ObjOf(info, rhs)]
			}) {
				n++
				rhs, _ := fieldIsAssigned(info, a, state)
				key := fmt.Sprintf("%s:state=%s#%d", fn.Name(), an.ObjOf(info, rhs).Name(), n)
				ok := false
				for _, blk := range g.CFG.Blocks {
					cd, _ := g.Cond(blk)
					if cd == nil {
						continue
					}
					for _, branch := range []bool{true, false} {
						if g.GuardedBy(a, cd, branch) && an.Implies(cd, branch, func(e2 ast.Expr, v2 bool) bool { return excludes(e2, v2, 0) }) {
							// the knowledge is stale if the resource's mutex may be released between the test and the store
							stale := false
							for _, x := range g.FindAtoms(func(x ast.Node) bool {
								call, isCall := x.(*ast.CallExpr)
								if !isCall {
									return false
								}
								f := an.CalleeFunc(info, call)
								return f != nil && (f.Name() == "leaveMutex" || f.Name() == "escapeMutex" || f.Name() == "inMutex" || f.Name() == "broadcast")
							}) {
								if g.Search(an.Query{From: cd, Target: func(y ast.Node) bool { return y == x }}).Found &&
									g.Search(an.Query{From: x, Target: func(y ast.Node) bool { return y == a }, Avoid: func(y ast.Node) bool { return y == cd }}).Found {
									stale = true
								}
							}
							if !stale {
								ok = true
							}
						}
					}
				}
				c.Check(ok, key, a.Pos(), "reached only where the section is known not to be poisoned",
					"the section state is advanced to "+an.ObjOf(info, rhs).Name()+" on a path that does not exclude acceptedNewValueInCriticalSection: a section that already adopted another proposer's committed value would go on to pre-commit/commit, overwriting that value with one computed from stale reads (lost update, reported as success)")
			}
		}
	}
	if n == 0 {
		c.Lost("forward state stores", "no store of a forward critical-section state found")
	}
}

func runTPCRetry(c *core.Ctx) {
	e := EnvOf(c.Prog)
	fn := mustMethod(c, e, an.PkgResources, "TwoPCArchetypeResource", "broadcastAbortOrCommit")
	if fn == nil {
		return
	}
	info := fn.Pkg.Info
	found := 0
	for _, b := range bodiesOf(fn) {
		if b.lit == nil {
			continue
		}
		g := graphOfBody(e, fn.Pkg, fn, b)
		// the retry loop: a for statement whose condition is a call, containing a Send
		var loop *ast.ForStmt
		ast.Inspect(b.body, func(m ast.Node) bool {
			if _, isLit := m.(*ast.FuncLit); isLit && m != ast.Node(b.lit) {
				return false
			}
			if f, ok := m.(*ast.ForStmt); ok && f.Cond != nil && loop == nil {
				sends := false
				ast.Inspect(f.Body, func(k ast.Node) bool {
					if call, ok := k.(*ast.CallExpr); ok {
						if cf := an.CalleeFunc(info, call); cf != nil && cf.Name() == "Send" {
							sends = true
						}
					}
					return true
				})
				if sends {
					loop = f
				}
			}
			return true
		})
		if loop == nil {
			continue
		}
		found++
		// the error variable received from the call channel
		var errObj types.Object
		ast.Inspect(loop.Body, func(m ast.Node) bool {
			as, ok := m.(*ast.AssignStmt)
			if !ok || len(as.Lhs) != 1 || len(as.Rhs) != 1 {
				return true
			}
			if u, ok := an.Unparen(as.Rhs[0]).(*ast.UnaryExpr); ok && u.Op == token.ARROW {
				if o := an.ObjOf(info, as.Lhs[0]); o != nil && types.Identical(o.Type(), types.Universe.Lookup("error").Type()) {
					errObj = o
				}
			}
			return true
		})
		if errObj == nil {
			c.Lost("broadcastAbortOrCommit:send-error", "the error received from the send was not found")
			continue
		}
		condAtom := g.AtomOf(loop.Cond)
		bad := false
		tested := false
		for _, blk := range g.CFG.Blocks {
			cd, _ := g.Cond(blk)
			if cd == nil {
				continue
			}
			ok, nonNil := nilTestOn(g, info, cd, func(x ast.Expr) bool { return an.ObjOf(info, x) == errObj })
			if !ok {
				continue
			}
			tested = true
			// from the failure branch, the function exit must not be reachable without re-evaluating the loop condition
			q := g.Search(an.Query{From: cd, Edges: g.Branch(cd, nonNil), ToExit: true,
				Avoid: func(a ast.Node) bool {
					if a == condAtom {
						return true
					}
					within := false
					ast.Inspect(loop.Cond, func(k ast.Node) bool {
						if k == a {
							within = true
						}
						return true
					})
					return within
				}})
			if q.Found {
				bad = true
			}
		}
		// every replica is a recipient: the per-replica function cannot return without having evaluated the loop condition
		// (a replica that is skipped - because its acknowledgement of the pre-commit was lost, say - holds the pre-commit
		// for ever)
		skip := g.Search(an.Query{ToExit: true, Avoid: func(a ast.Node) bool {
			if a == condAtom {
				return true
			}
			within := false
			ast.Inspect(loop.Cond, func(k ast.Node) bool {
				if k == a {
					within = true
				}
				return true
			})
			return within
		}})
		c.Check(!skip.Found, "broadcastAbortOrCommit:no-replica-skipped", loop.Pos(), "the per-replica sender always reaches the send loop",
			"the per-replica sender can return without ever entering the send loop: that replica never receives the Abort / Commit; if it accepted the pre-commit (and only its acknowledgement was lost) it keeps holding it, refuses every other proposer and aborts its own sections for ever")
		c.Check(tested && !bad, "broadcastAbortOrCommit:retry-until-delivered", loop.Pos(), "a failed send always returns to the loop condition",
			"after a failed Abort/Commit send the per-replica sender can give up without re-checking the loop condition: an acceptor that holds this proposer's pre-commit and missed the message is never released, so every other proposer is refused there forever (livelock once a quorum needs that replica)")
	}
	if found == 0 {
		c.Lost("broadcastAbortOrCommit:retry-loop", "retry loop with a Send not found")
	}
}

func init() {
	register(&core.Rule{ID: "RPC-REPLY-FRESH", Props: []string{"C11", "C05"}, Floor: 3,
		Doc: "the reply of a 2PC exchange is decoded into a variable that is fresh for that send (declared in the function literal / loop body that sends): net/rpc decodes replies with gob, and gob does not transmit zero-valued fields, so a reply variable that survives from an earlier exchange keeps its old Accept=true when the new reply says Accept=false - a rejection is counted as an acceptance over RPC and as a rejection in process",
		Run: runRPCReplyFresh})
}

func runRPCReplyFresh(c *core.Ctx) {
	e := EnvOf(c.Prog)
	n := 0
	for _, fn := range e.Ix.Funcs() {
		if fn.Body() == nil || fn.Pkg.Path != an.PkgResources {
			continue
		}
		if rn := an.RecvNamed(fn.Obj); rn == nil || rn.Obj().Name() != "TwoPCArchetypeResource" {
			continue
		}
		info := fn.Pkg.Info
		var stack []ast.Node
		ast.Inspect(fn.Body(), func(m ast.Node) bool {
			if m == nil {
				stack = stack[:len(stack)-1]
				return true
			}
			stack = append(stack, m)
			call, ok := m.(*ast.CallExpr)
			if !ok || len(call.Args) != 2 {
				return true
			}
			cf := an.CalleeFunc(info, call)
			if cf == nil || cf.Name() != "Send" {
				return true
			}
			arg := an.Unparen(an.ResolveLocal(info, fn.Body(), call.Args[1]))
			u, isU := arg.(*ast.UnaryExpr)
			if !isU || u.Op != token.AND {
				// a pointer that is not the address of a variable taken here: where it points is not decided by this code
				if _, isPtr := info.TypeOf(call.Args[1]).(*types.Pointer); isPtr {
					n++
					c.Bad(fmt.Sprintf("%s:reply#%d", fn.Name(), n), call.Pos(), "the reply of this exchange is decoded through the pointer %s, not into a variable declared for this send: gob leaves fields that the new reply does not transmit at their previous values", an.ExprString(call.Args[1]))
				}
				return true
			}
			n++
			key := fmt.Sprintf("%s:reply#%d", fn.Name(), n)
			v, _ := an.ObjOf(info, u.X).(*types.Var)
			// innermost enclosing function literal or loop body
			var scope ast.Node
			for i := len(stack) - 1; i >= 0 && scope == nil; i-- {
				switch x := stack[i].(type) {
				case *ast.FuncLit:
					scope = x.Body
				case *ast.ForStmt:
					scope = x.Body
				case *ast.RangeStmt:
					scope = x.Body
				}
			}
			if scope == nil {
				scope = fn.Body()
			}
			fresh := v != nil && !v.IsField() && v.Pos() >= scope.Pos() && v.Pos() < scope.End()
			c.Check(fresh, key, call.Pos(), "the reply variable is declared by the code that sends", "the reply of this exchange is decoded into "+an.ExprString(u.X)+", which outlives the exchange: gob leaves fields that the new reply does not transmit (Accept=false, Version=0) at their previous values")
			return true
		})
	}
	if n == 0 {
		c.Lost("TwoPCArchetypeResource:sends", "no Send(request, &reply) found")
	}
}

func init() {
	register(&core.Rule{ID: "TPC-COMMITTED-ONLY", Props: []string{"C11", "C01"}, Floor: 2,
		Doc: "what a 2PC replica tells others about the decided state (reject replies, GetState replies) is its committed value (oldValue) and version - never the working copy of a section in flight; proposals (PreCommit / Commit requests) carry the working copy, the Abort request carries none",
		Run: runTPCCommittedOnly})
}

func runTPCCommittedOnly(c *core.Ctx) {
	e := EnvOf(c.Prog)
	t := mustType(c, e, an.PkgResources, "TwoPCArchetypeResource")
	respT := mustType(c, e, an.PkgResources, "TwoPCResponse")
	if t == nil || respT == nil {
		return
	}
	valueF, oldF := mustField(c, t, "value"), mustField(c, t, "oldValue")
	respValue := mustField(c, respT, "Value")
	if valueF == nil || oldF == nil || respValue == nil {
		return
	}
	pk := c.Prog.Pkg(an.PkgResources)
	n := 0
	check := func(where string, pos ast.Node, src ast.Expr) {
		n++
		key := fmt.Sprintf("%s:response-value#%d", where, n)
		f := an.SelectedField(pk.Info, src)
		switch {
		case f == oldF:
			c.Ok(key, pos.Pos(), "the reply carries the committed value")
		case f == valueF:
			c.Bad(key, pos.Pos(), "a 2PC reply carries res.value, the working copy of the local critical section: a proposer that is behind adopts an uncommitted write as the decided value of that version, so replicas disagree on a version")
		default:
			// values taken from a request / another reply are fine (they are decided elsewhere); anything else is not recognised
			c.Ok(key, pos.Pos(), "the reply's value does not come from the working copy")
		}
	}
	for _, f := range pk.Files {
		ast.Inspect(f, func(m ast.Node) bool {
			switch x := m.(type) {
			case *ast.CompositeLit:
				if nt := an.NamedOf(pk.Info.TypeOf(x)); nt != nil && nt.Obj() == respT.Obj() {
					for _, el := range x.Elts {
						if kv, ok := el.(*ast.KeyValueExpr); ok {
							if id, ok := kv.Key.(*ast.Ident); ok && id.Name == "Value" {
								check(enclosingFuncName(pk, f, x), kv, kv.Value)
							}
						}
					}
				}
			case *ast.AssignStmt:
				for i, l := range x.Lhs {
					if an.SelectedField(pk.Info, l) == respValue && len(x.Rhs) == len(x.Lhs) {
						check(enclosingFuncName(pk, f, x), x, x.Rhs[i])
					}
				}
			}
			return true
		})
	}
	if n == 0 {
		c.Lost("TwoPCResponse values", "no TwoPCResponse with a Value found")
	}
}
