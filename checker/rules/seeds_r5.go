package rules

// Seeds for the round-5 rules: spec-side edits (the specification alone is mutated in memory: fidelity to the unchanged Go
// breaks too, but the seed asks for the protocol-table rule) and the rendezvous / snapshot clauses.
func init() {
	const raft = "systems/raftkvs/raftkvs.tla"
	const pb = "systems/pbkvs/pbkvs.tla"
	const lock = "systems/locksvc/locksvc.tla"
	const proxy = "systems/proxy/proxy.tla"
	const nested = "systems/nestedcrdtimpl/NestedCRDTImpl.tla"
	for _, p := range []string{"C08", "C09"} {
		seed(Seed{Name: "quorum-is-half", Prop: p, Rule: "RAFT-DECISION", File: raft,
			Old: "isQuorum(s) == Cardinality(s) * 2 > NumServers", New: "isQuorum(s) == Cardinality(s) * 2 >= NumServers", Expect: "operator isQuorum"})
		seed(Seed{Name: "vote-for-any-term", Prop: p, Rule: "RAFT-DECISION", File: raft,
			Old: "grant = /\\ m.mterm = currentTerm[i]", New: "grant = /\\ m.mterm <= currentTerm[i]", Expect: "vote-grant-condition"})
		seed(Seed{Name: "vote-ignores-log-length", Prop: p, Rule: "RAFT-DECISION", File: raft,
			Old: "/\\ m.mlastLogIndex >= Len(log[i]),", New: "/\\ m.mlastLogIndex >= commitIndex[i],", Expect: "vote-log-up-to-date"})
		seed(Seed{Name: "commit-old-term-entries", Prop: p, Rule: "RAFT-DECISION", File: raft,
			Old: "/\\ log[i][maxAgreeIndex].term = currentTerm[i]", New: "/\\ log[i][maxAgreeIndex].term <= currentTerm[i]", Expect: "commits-only-current-term-entries"})
		seed(Seed{Name: "append-skips-term-check", Prop: p, Rule: "RAFT-DECISION", File: raft,
			Old: "                               /\\ m.mprevLogTerm = log[i][m.mprevLogIndex].term\n", New: "", Expect: "append-log-consistency"})
		seed(Seed{Name: "leader-without-candidacy", Prop: p, Rule: "RAFT-DECISION", File: raft,
			Old: "            await state[srvId] = Candidate;", New: "            await state[srvId] # Leader;", Expect: "leader-was-candidate"})
	}
	seed(Seed{Name: "client-accepts-older-response", Prop: "C09", Rule: "RAFT-DECISION", File: raft,
		Old: "if (resp.mresponse.idx /= reqIdx) {", New: "if (resp.mresponse.idx > reqIdx) {", Expect: "drops-stale-responses"})
	seed(Seed{Name: "answer-before-apply-index", Prop: "C09", Rule: "RAFT-DECISION", File: raft,
		Old: "                    k = commitIndex[i],\n", New: "                    k = newCommitIndex,\n", Expect: "applyLoop"})
	seed(Seed{Name: "primary-answers-with-one-ack-missing", Prop: "C14", Rule: "PB-DECISION", File: pb,
		Old: "        rcvReplicaRespLoop:\n            while (Cardinality(replicaSet) > 0) {", New: "        rcvReplicaRespLoop:\n            while (Cardinality(replicaSet) > 1) {", Expect: "answers-only-after-all-live-backups-acked"})
	seed(Seed{Name: "backup-applies-older-sync", Prop: "C14", Rule: "PB-DECISION", File: pb,
		Old: "            } else if (req.typ = SYNC_REQ) {\n                if (req.body.versionNumber > lastPutBody.versionNumber) {", New: "            } else if (req.typ = SYNC_REQ) {\n                if (req.body.versionNumber >= lastPutBody.versionNumber) {", Expect: "backup-applies-put"})
	seed(Seed{Name: "put-reuses-version", Prop: "C14", Rule: "PB-DECISION", File: pb,
		Old: "lastPutBody := [versionNumber |-> lastPutBody.versionNumber+1, key", New: "lastPutBody := [versionNumber |-> lastPutBody.versionNumber, key", Expect: "put-gets-next-version"})
	seed(Seed{Name: "new-primary-serves-unsynced", Prop: "C14", Rule: "PB-DECISION", File: pb,
		Old: "        rcvMsg:\n            if (primary = self /\\ shouldSync) {", New: "        rcvMsg:\n            if (primary = self /\\ shouldSync /\\ FALSE) {", Expect: "new-primary-syncs-before-serving"})
	seed(Seed{Name: "client-response-channel-buffered", Prop: "C14", Rule: "RESP-RENDEZVOUS", File: "systems/pbkvs/bootstrap/client.go",
		Old: "\trespCh := make(chan tla.Value)", New: "\trespCh := make(chan tla.Value, 1)", Expect: "respCh"})
	seed(Seed{Name: "grant-while-held", Prop: "C15", Rule: "LOCK-DECISION", File: lock,
		Old: "                if (q = <<>>) {", New: "                if (Len(q) <= 1) {", Expect: "grants-free-lock-to-requester"})
	seed(Seed{Name: "unlock-grants-old-head", Prop: "C15", Rule: "LOCK-DECISION", File: lock,
		Old: "                q := Tail(q);\n                if (q # <<>>) {\n                    network[Head(q)] := GrantMsg;\n                };", New: "                if (Tail(q) # <<>>) {\n                    network[Head(q)] := GrantMsg;\n                };\n                q := Tail(q);", Expect: "passes-lock-to-next-in-queue"})
	seed(Seed{Name: "requester-jumps-queue", Prop: "C15", Rule: "LOCK-DECISION", File: lock,
		Old: "q := Append(q, msg.from);", New: "q := <<msg.from>> \\o q;", Expect: "queues-every-requester"})
	seed(Seed{Name: "client-enters-on-any-message", Prop: "C15", Rule: "LOCK-DECISION", File: lock,
		Old: "            assert resp = GrantMsg;", New: "            assert resp \\in {GrantMsg, LockMsg};", Expect: "enters-only-on-grant"})
	seed(Seed{Name: "proxy-accepts-any-backend", Prop: "C16", Rule: "SYS-DECISION", File: proxy,
		Old: "if (tmp.from # idx \\/ tmp.id # msg.id) {", New: "if (tmp.id # msg.id) {", Expect: "accepts-only-the-awaited-reply"})
	seed(Seed{Name: "proxy-gives-up-early", Prop: "C16", Rule: "SYS-DECISION", File: proxy,
		Old: "                while (idx <= NUM_SERVERS) {", New: "                while (idx < NUM_SERVERS) {", Expect: "reports-failure-after-the-last-backend"})
	seed(Seed{Name: "nested-commit-overwrites-state", Prop: "C16", Rule: "SYS-DECISION", File: nested,
		Old: "remainingPeersToUpdate := peers;\n            };\n            state := COMBINE_FN(state, readState);", New: "remainingPeersToUpdate := peers;\n            };\n            state := readState;", Expect: "commit-merges-working-copy-into-state"})
	seed(Seed{Name: "nested-broadcasts-working-copy", Prop: "C16", Rule: "SYS-DECISION", File: nested,
		Old: "            network[target] := state;", New: "            network[target] := readState;", Expect: "broadcasts-committed-state"})
	seed(Seed{Name: "merger-snapshot-gets-other-state", Prop: "C13", Rule: "CRDT-SNAPSHOT", File: "distsys/resources/crdt.go",
		Old: "\t\t\t\t\tres.oldValue = res.oldValue.Merge(mergeVal)", New: "\t\t\t\t\tstale := mergeVal\n\t\t\t\t\tstale = res.oldValue\n\t\t\t\t\tres.oldValue = res.oldValue.Merge(stale)", Expect: "snapshot-merges-what-the-value-merges"})
	seed(Seed{Name: "pbkvs-client-netlen-of-fresh-network", Prop: "C14", Rule: "NETLEN-WIRING", File: "systems/pbkvs/bootstrap/client.go",
		Old: "\tnetworkLen := resources.NewMailboxesLength(network)\n\tconstants := makeConstants(c)\n\tfd := getFailureDetector(c)", New: "\tnetworkLen := resources.NewMailboxesLength(newNetwork(self, c))\n\tconstants := makeConstants(c)\n\tfd := getFailureDetector(c)", Expect: "getClientCtx"})
	seed(Seed{Name: "raft-client-netlen-of-fresh-network", Prop: "C09", Rule: "NETLEN-WIRING", File: "systems/raftkvs/bootstrap/client.go",
		Old: "\tnetLen := resources.NewMailboxesLength(net)", New: "\tnetLen := resources.NewMailboxesLength(newNetwork(self, c))", Expect: "newClientCtx"})
	seed(Seed{Name: "backup-returns-to-rcvmsg", Prop: "C14", Rule: "PB-DECISION", File: "systems/pbkvs/pbkvs.tla",
		Old: "                await fd[resp.to];\n            };\n            goto replicaLoop;", New: "                await fd[resp.to];\n            };\n            goto rcvMsg;", Expect: "label-graph"})
	seed(Seed{Name: "stability-over-pending-clients-only", Prop: "C16", Rule: "SYS-DECISION", File: "systems/replicatedkv/replicated_kv.tla",
		Old: "                clientsIter := liveClients;", New: "                clientsIter := pendingClients;", Expect: "stability-over-all-live-clients"})
	seed(Seed{Name: "stable-request-not-popped", Prop: "C16", Rule: "SYS-DECISION", File: "systems/replicatedkv/replicated_kv.tla",
		Old: "                      pendingRequests[nextClient] := Tail(pendingRequests[nextClient]);\n", New: "", Expect: "pops-the-stable-request"})
}
