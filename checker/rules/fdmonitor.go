package rules

import (
	"go/ast"
	"go/types"

	"pgoverif/checker/an"
	"pgoverif/checker/core"
)

func init() {
	register(&core.Rule{ID: "FD-MONITOR", Props: []string{"C19"}, Floor: 2,
		Doc: "the monitor answers every detector for as long as the archetype runs: (a) every connection ListenAndServe accepts is served by a goroutine of its own (ServeConn occupies its goroutine for the connection's lifetime, so a bounded pool leaves the detectors beyond the bound unanswered, and they report a running archetype as failed); (b) the monitor's table of archetype states is written by setState alone - the record of a running archetype is written once, when it starts, so nothing else (closing the listener, say) may drop it",
		Run: func(c *core.Ctx) {
			e := EnvOf(c.Prog)
			t := mustType(c, e, an.PkgResources, "Monitor")
			serve := mustMethod(c, e, an.PkgResources, "Monitor", "ListenAndServe")
			if t == nil || serve == nil {
				return
			}
			states := mustField(c, t, "states")
			// (a)
			{
				info := serve.Pkg.Info
				var conns []types.Object
				ast.Inspect(serve.Body(), func(m ast.Node) bool {
					as, ok := m.(*ast.AssignStmt)
					if !ok || len(as.Rhs) != 1 {
						return true
					}
					call, ok := an.Unparen(as.Rhs[0]).(*ast.CallExpr)
					if !ok {
						return true
					}
					if sel, ok := an.Unparen(call.Fun).(*ast.SelectorExpr); ok && sel.Sel.Name == "Accept" && len(as.Lhs) >= 1 {
						if o := an.ObjOf(info, as.Lhs[0]); o != nil {
							conns = append(conns, o)
						}
					}
					return true
				})
				if len(conns) == 0 {
					c.Lost("Monitor.ListenAndServe:accept", "no Accept call found")
				}
				for _, conn := range conns {
					own := false
					ast.Inspect(serve.Body(), func(m ast.Node) bool {
						gs, ok := m.(*ast.GoStmt)
						if !ok {
							return true
						}
						ast.Inspect(gs.Call, func(k ast.Node) bool {
							call, ok := k.(*ast.CallExpr)
							if !ok {
								return true
							}
							if sel, ok := an.Unparen(call.Fun).(*ast.SelectorExpr); ok && sel.Sel.Name == "ServeConn" && len(call.Args) == 1 && an.ObjOf(info, call.Args[0]) == conn {
								own = true
							}
							return true
						})
						return true
					})
					c.Check(own, "Monitor.ListenAndServe:every-connection-has-its-own-server-goroutine", serve.Pos(), "go ServeConn(conn) for the accepted connection",
						"an accepted connection is not served by a goroutine started for it: with a queue and a fixed number of servers the detectors beyond that number connect but are never answered")
				}
			}
			// (b)
			if states != nil {
				for _, fn := range e.Ix.MethodsOf(t) {
					if fn.Body() == nil || fn.Obj.Name() == "setState" {
						continue
					}
					info := fn.Pkg.Info
					ast.Inspect(fn.Body(), func(m ast.Node) bool {
						switch x := m.(type) {
						case *ast.CallExpr:
							if sel, ok := an.Unparen(x.Fun).(*ast.SelectorExpr); ok && an.SelectedField(info, sel.X) == states {
								switch sel.Sel.Name {
								case "Get", "Keys", "Len":
								default:
									c.Bad("Monitor."+fn.Obj.Name()+":writes-the-state-table", x.Pos(), "Monitor.%s changes the table of archetype states (%s): the record of an archetype that is still running is written once, by setState when it starts, and is not written again - after this the monitor answers `not found` for it and every detector reports it failed", fn.Obj.Name(), sel.Sel.Name)
								}
							}
						case *ast.AssignStmt:
							for _, l := range x.Lhs {
								if an.SelectedField(info, l) == states {
									c.Bad("Monitor."+fn.Obj.Name()+":writes-the-state-table", x.Pos(), "Monitor.%s replaces the table of archetype states", fn.Obj.Name())
								}
							}
						}
						return true
					})
				}
				c.Ok("Monitor:state-table-written-by-setState-alone", serve.Pos(), "methods other than setState only read the table (violations are reported per site)")
			}
		}})
}
