package rules

import (
	"go/ast"
	"go/token"
	"go/types"
	"math"
	"strings"
	"sync"

	"pgoverif/checker/an"
	"pgoverif/checker/core"
)

// OP-DECISION: decision table of the TLA+ operator library (package tla): which elements an operator keeps, when a
// quantifier stops, when arithmetic is adjusted or refused. Same machinery as TPC-DECISION: the path condition of the
// effect, read from the CFG, equals the condition TLA+ prescribes on every assignment of the guard atoms. Results of
// arithmetic are not computed here (that would be a test); only the guards are compared.

func init() {
	register(&core.Rule{ID: "OP-DECISION", Props: []string{"C03"}, Floor: 36,
		Doc: "decision table of the operator library: set operators keep exactly the elements their definition names, quantifiers / CHOOSE / set refinement react to the predicate with the right polarity and recurse over every bound set, floor-division and modulo adjust exactly when TLA+ and Go disagree, range and emptiness preconditions are the stated ones",
		Run: runOpDecision})
}

func runOpDecision(c *core.Ctx) {
	e := EnvOf(c.Prog)
	builderSet := func(info *types.Info, n ast.Node) bool {
		call, ok := n.(*ast.CallExpr)
		if !ok {
			return false
		}
		f := an.CalleeFunc(info, call)
		if f == nil || f.Name() != "Set" {
			return false
		}
		rn := an.RecvNamed(f)
		return rn != nil && strings.HasSuffix(rn.Obj().Name(), "Builder")
	}
	returnsObj := func(name string) func(*types.Info, ast.Node) bool {
		return func(info *types.Info, n ast.Node) bool {
			r, ok := n.(*ast.ReturnStmt)
			if !ok || len(r.Results) != 1 {
				return false
			}
			o := an.ObjOf(info, r.Results[0])
			return o != nil && o.Name() == name
		}
	}
	returnsBool := func(v bool) func(*types.Info, ast.Node) bool {
		return func(info *types.Info, n ast.Node) bool {
			r, ok := n.(*ast.ReturnStmt)
			return ok && len(r.Results) == 1 && isBoolConst(info, r.Results[0], v)
		}
	}
	callNamed := func(name string) func(*types.Info, ast.Node) bool {
		return func(info *types.Info, n ast.Node) bool {
			call, ok := n.(*ast.CallExpr)
			if !ok {
				return false
			}
			if id, ok := an.Unparen(call.Fun).(*ast.Ident); ok {
				if name == "helper" {
					return isRecClosure(info, id)
				}
				return id.Name == name
			}
			return false
		}
	}
	// returnsNextElem: a return of the variable that received the first component of an iterator's Next(), possibly through
	// one plain copy
	returnsNextElem := func(info *types.Info, n ast.Node) bool {
		r, ok := n.(*ast.ReturnStmt)
		if !ok || len(r.Results) != 1 {
			return false
		}
		o := an.ObjOf(info, r.Results[0])
		if o == nil {
			return false
		}
		fn := e.Ix.LookupFunc(an.PkgTLA, "Choose")
		if fn == nil || fn.Body() == nil {
			return false
		}
		from := map[types.Object]bool{}
		ast.Inspect(fn.Body(), func(m ast.Node) bool {
			as, isAs := m.(*ast.AssignStmt)
			if !isAs || len(as.Rhs) != 1 {
				return true
			}
			if call, isCall := an.Unparen(as.Rhs[0]).(*ast.CallExpr); isCall && len(as.Lhs) == 3 {
				if sel, isSel := an.Unparen(call.Fun).(*ast.SelectorExpr); isSel && sel.Sel.Name == "Next" {
					from[an.ObjOf(info, as.Lhs[0])] = true
				}
			}
			return true
		})
		ast.Inspect(fn.Body(), func(m ast.Node) bool {
			as, isAs := m.(*ast.AssignStmt)
			if isAs && len(as.Lhs) == 1 && len(as.Rhs) == 1 && from[an.ObjOf(info, as.Rhs[0])] {
				from[an.ObjOf(info, as.Lhs[0])] = true
			}
			return true
		})
		return from[o]
	}
	requireArg := func(idx int) func(*types.Info, *an.Func) ast.Expr {
		return func(info *types.Info, fn *an.Func) ast.Expr {
			var out ast.Expr
			k := 0
			ast.Inspect(fn.Body(), func(m ast.Node) bool {
				if call, ok := m.(*ast.CallExpr); ok {
					if f := an.CalleeFunc(info, call); f != nil && f.Name() == "require" && len(call.Args) >= 1 {
						if k == idx {
							out = call.Args[0]
						}
						k++
					}
				}
				return true
			})
			return out
		}
	}
	makeBoolArg := func(info *types.Info, fn *an.Func) ast.Expr {
		if r := singleReturnLast(fn); r != nil {
			if call, ok := an.Unparen(r).(*ast.CallExpr); ok && len(call.Args) == 1 {
				if f := an.CalleeFunc(info, call); f != nil && f.Name() == "MakeBool" {
					return call.Args[0]
				}
			}
		}
		return nil
	}
	i32 := []int64{math.MinInt32 - 1, math.MinInt32, -1, 0, 1, math.MaxInt32, math.MaxInt32 + 1}
	small := []int64{-3, -2, -1, 0, 1, 2, 3}
	inRange := func(v int64) bool { return v >= math.MinInt32 && v <= math.MaxInt32 }
	gomod := func(a, b int64) int64 {
		if b == 0 {
			return 0
		}
		return a % b
	}
	rows := []dtRow{
		{fn: ".ModuleInSymbol", key: "member", why: "x \\in S is TRUE iff S contains x", exprOf: makeBoolArg, bools: []string{"ok"}, ref: func(a dtAtoms) bool { return a.B("ok") }},
		{fn: ".ModuleNotInSymbol", key: "non-member", why: "x \\notin S is TRUE iff S does not contain x", exprOf: makeBoolArg, bools: []string{"ok"}, ref: func(a dtAtoms) bool { return !a.B("ok") }},
		{fn: ".ModuleIntersectSymbol", key: "keeps-common", why: "S \\cap T keeps exactly the elements of S that T contains", find: builderSet, bools: []string{"it.Done()", "ok"},
			ref: func(a dtAtoms) bool { return !a.B("it.Done()") && a.B("ok") }},
		{fn: ".ModuleBackslashSymbol", key: "keeps-missing", why: "S \\ T keeps exactly the elements of S that T does not contain", find: builderSet, bools: []string{"it.Done()", "ok"},
			ref: func(a dtAtoms) bool { return !a.B("it.Done()") && !a.B("ok") }},
		{fn: ".ModuleSubsetOrEqualSymbol", key: "fails-on-missing", why: "S \\subseteq T is FALSE as soon as an element of S is not in T", find: returnsObj("ModuleFALSE"), bools: []string{"it.Done()", "ok"},
			ref: func(a dtAtoms) bool { return !a.B("it.Done()") && !a.B("ok") }},
		{fn: ".ModuleSubsetOrEqualSymbol", key: "holds-otherwise", why: "... and TRUE once every element was found", find: returnsObj("ModuleTRUE"), bools: []string{"it.Done()", "ok"},
			ref: func(a dtAtoms) bool { return a.B("it.Done()") }},
		{fn: ".ModuleEquivSymbol", key: "iff", why: "<=> is TRUE iff both sides have the same truth value", exprOf: makeBoolArg, bools: []string{"lhs.AsBool()", "rhs.AsBool()"},
			ref: func(a dtAtoms) bool { return a.B("lhs.AsBool()") == a.B("rhs.AsBool()") }},
		{fn: ".ModuleLogicalNotSymbol", key: "not", why: "~", exprOf: makeBoolArg, bools: []string{"v.AsBool()"}, ref: func(a dtAtoms) bool { return !a.B("v.AsBool()") }},
		{fn: ".makeNumberChecked", key: "int32-range", why: "arithmetic results outside the int32 range are refused (TLC reports an overflow), all others accepted",
			exprOf: requireArg(0), ints: map[string]string{"result": ""}, intDom: map[string][]int64{"result": i32}, ref: func(a dtAtoms) bool { return inRange(a.I("result")) }},
		{fn: ".ModuleDivSymbol", key: "divisor-nonzero", why: "\\div by zero is refused", exprOf: requireArg(0), ints: map[string]string{"rhsNum": ""}, intDom: map[string][]int64{"rhsNum": small},
			ref: func(a dtAtoms) bool { return a.I("rhsNum") != 0 }},
		{fn: ".ModuleDivSymbol", key: "floor-adjust", why: "Go truncates toward zero, TLA+ rounds toward minus infinity: the quotient is decremented exactly when the division is inexact and the signs differ",
			find: func(info *types.Info, n ast.Node) bool {
				switch x := n.(type) {
				case *ast.IncDecStmt:
					return x.Tok == token.DEC
				case *ast.AssignStmt:
					return x.Tok == token.SUB_ASSIGN
				}
				return false
			},
			ints: map[string]string{"lhsNum": "", "rhsNum": ""}, intDom: map[string][]int64{"lhsNum": small, "rhsNum": small},
			ref: func(a dtAtoms) bool {
				l, r := a.I("lhsNum"), a.I("rhsNum")
				return gomod(l, r) != 0 && (l < 0) != (r < 0)
			}},
		{fn: ".ModuleDivSymbol", key: "int32-range", why: "the quotient must fit int32", exprOf: requireArg(1), ints: map[string]string{"quotient": ""}, intDom: map[string][]int64{"quotient": i32},
			ref: func(a dtAtoms) bool { return inRange(a.I("quotient")) }},
		{fn: ".ModulePercentSymbol", key: "divisor-positive", why: "% is defined for a positive divisor only", exprOf: requireArg(0), ints: map[string]string{"rhsNum": ""}, intDom: map[string][]int64{"rhsNum": small},
			ref: func(a dtAtoms) bool { return a.I("rhsNum") > 0 }},
		{fn: ".ModulePercentSymbol", key: "non-negative-remainder", why: "Go's % keeps the dividend's sign, TLA+'s result is never negative: add the divisor exactly when the remainder is negative",
			find: func(info *types.Info, n ast.Node) bool {
				as, ok := n.(*ast.AssignStmt)
				return ok && as.Tok == token.ADD_ASSIGN
			},
			ints: map[string]string{"remainder": ""}, intDom: map[string][]int64{"remainder": small}, ref: func(a dtAtoms) bool { return a.I("remainder") < 0 }},
		{fn: ".ModuleHead", key: "non-empty", why: "Head of an empty sequence is refused", exprOf: requireArg(0), ints: map[string]string{"tuple.Len()": ""}, ref: func(a dtAtoms) bool { return a.I("tuple.Len()") > 0 }},
		{fn: ".ModuleTail", key: "non-empty", why: "Tail of an empty sequence is refused", exprOf: requireArg(0), ints: map[string]string{"tuple.Len()": ""}, ref: func(a dtAtoms) bool { return a.I("tuple.Len()") > 0 }},
		// quantifiers and comprehensions
		{fn: ".QuantifiedUniversal", key: "evaluates-body-at-full-depth", why: "the predicate is evaluated once every bound variable has a value", find: func(info *types.Info, n ast.Node) bool {
			r, ok := n.(*ast.ReturnStmt)
			if !ok || len(r.Results) != 1 {
				return false
			}
			call, ok := an.Unparen(r.Results[0]).(*ast.CallExpr)
			return ok && an.ObjOf(info, call.Fun) != nil && an.ObjOf(info, call.Fun).Name() == "pred"
		}, ints: map[string]string{"idx": "", "len(sets)": ""}, ref: func(a dtAtoms) bool { return a.I("idx") == a.I("len(sets)") }},
		{fn: ".QuantifiedUniversal", key: "fails-on-counterexample", why: "\\A is FALSE as soon as one tuple falsifies the body", find: returnsBool(false),
			ints: map[string]string{"idx": "", "len(sets)": ""}, bools: []string{"it.Done()", "$rec(idx+1)"},
			ref: func(a dtAtoms) bool {
				return a.I("idx") != a.I("len(sets)") && !a.B("it.Done()") && !a.B("$rec(idx+1)")
			}},
		{fn: ".QuantifiedUniversal", key: "holds-otherwise", why: "... and TRUE when the bound set is exhausted", find: returnsBool(true),
			ints: map[string]string{"idx": "", "len(sets)": ""}, bools: []string{"it.Done()", "$rec(idx+1)"},
			ref: func(a dtAtoms) bool { return a.I("idx") != a.I("len(sets)") && a.B("it.Done()") }},
		{fn: ".QuantifiedExistential", key: "succeeds-on-witness", why: "\\E is TRUE as soon as one tuple satisfies the body", find: returnsBool(true),
			ints: map[string]string{"idx": "", "len(sets)": ""}, bools: []string{"it.Done()", "$rec(idx+1)"},
			ref: func(a dtAtoms) bool {
				return a.I("idx") != a.I("len(sets)") && !a.B("it.Done()") && a.B("$rec(idx+1)")
			}},
		{fn: ".QuantifiedExistential", key: "fails-otherwise", why: "... and FALSE when the bound set is exhausted", find: returnsBool(false),
			ints: map[string]string{"idx": "", "len(sets)": ""}, bools: []string{"it.Done()", "$rec(idx+1)"},
			ref: func(a dtAtoms) bool { return a.I("idx") != a.I("len(sets)") && a.B("it.Done()") }},
		{fn: ".SetRefinement", key: "keeps-satisfying", why: "{x \\in S : P(x)} keeps exactly the elements satisfying P", find: builderSet, bools: []string{"it.Done()", "pred(elem)"},
			ref: func(a dtAtoms) bool { return !a.B("it.Done()") && a.B("pred(elem)") }},
		{fn: ".Choose", key: "returns-first-satisfying", why: "CHOOSE returns an element satisfying the predicate", find: returnsNextElem, bools: []string{"it.Done()", "pred(elemV)"},
			ref: func(a dtAtoms) bool { return !a.B("it.Done()") && a.B("pred(elemV)") }},
		{fn: ".SetComprehension", key: "emits-at-full-depth", why: "one result per complete tuple of bound values", find: builderSet, ints: map[string]string{"idx": "", "len(sets)": ""},
			ref: func(a dtAtoms) bool { return a.I("idx") == a.I("len(sets)") }},
		{fn: ".SetComprehension", key: "recurses-over-every-element", why: "every element of every bound set is visited", find: callNamed("helper"),
			ints: map[string]string{"idx": "", "len(sets)": ""}, bools: []string{"it.Done()"},
			ref: func(a dtAtoms) bool {
				// the initial call helper(0) (unconditional) or the recursive call inside the loop
				return true
			}},
	}
	// recursive descent over the bound sets: the recursive call (not the initial helper(0)) and the depth it passes on
	recursiveCall := func(info *types.Info, n ast.Node) bool {
		call, ok := n.(*ast.CallExpr)
		if !ok || len(call.Args) == 0 {
			return false
		}
		id, ok := an.Unparen(call.Fun).(*ast.Ident)
		if !ok || !isRecClosure(info, id) {
			return false
		}
		last := call.Args[len(call.Args)-1]
		if tv := info.Types[last]; tv.Value != nil {
			return false // helper(..., 0): the initial call
		}
		return true
	}
	lastArg := func(info *types.Info, n ast.Node) ast.Expr {
		call := n.(*ast.CallExpr)
		return call.Args[len(call.Args)-1]
	}
	returnsCallOf := func(name string) func(*types.Info, ast.Node) bool {
		return func(info *types.Info, n ast.Node) bool {
			r, ok := n.(*ast.ReturnStmt)
			if !ok || len(r.Results) != 1 {
				return false
			}
			call, ok := an.Unparen(r.Results[0]).(*ast.CallExpr)
			if !ok {
				return false
			}
			id, ok := an.Unparen(call.Fun).(*ast.Ident)
			return ok && id.Name == name
		}
	}
	depth := map[string]string{"idx": "", "len(sets)": ""}
	rows = append(rows,
		dtRow{fn: ".SetComprehension", key: "recurses-for-every-element", why: "below full depth, every element of the bound set leads one level down", find: recursiveCall, ints: depth, bools: []string{"it.Done()"},
			ref: func(a dtAtoms) bool { return a.I("idx") != a.I("len(sets)") && !a.B("it.Done()") }},
		dtRow{fn: ".SetComprehension", key: "recurses-one-level-down", why: "the next bound variable is the next one", find: recursiveCall, valueOf: lastArg, ints: depth, bools: []string{"it.Done()"}, optional: true,
			refInt: func(a dtAtoms) int64 { return a.I("idx") + 1 }},
		dtRow{fn: ".CrossProduct", key: "emits-at-full-depth", why: "one tuple per complete choice of components", find: builderSet, ints: depth,
			ref: func(a dtAtoms) bool { return !(a.I("idx") < a.I("len(sets)")) }},
		dtRow{fn: ".CrossProduct", key: "recurses-for-every-element", why: "every element of every component set is used", find: recursiveCall, ints: depth, bools: []string{"it.Done()"},
			ref: func(a dtAtoms) bool { return a.I("idx") < a.I("len(sets)") && !a.B("it.Done()") }},
		dtRow{fn: ".CrossProduct", key: "recurses-one-level-down", why: "the next component is the next one", find: recursiveCall, valueOf: lastArg, ints: depth, bools: []string{"it.Done()"}, optional: true,
			refInt: func(a dtAtoms) int64 { return a.I("idx") + 1 }},
		dtRow{fn: ".FunctionSubstitution", key: "applies-update-at-the-end-of-the-path", why: "[f EXCEPT ![k1]...[kn] = e] evaluates e for the value found after the last key", find: returnsCallOf("value"),
			ints: map[string]string{"len(keys)": ""}, existsOthers: true, ref: func(a dtAtoms) bool { return a.I("len(keys)") == 0 }},
		dtRow{fn: ".FunctionSubstitution", key: "tuple-index-in-bounds", why: "a sequence is updated at positions 1..Len only", exprOf: requireArg(1),
			ints: map[string]string{"idx": "", "sourceTuple.Len()": ""}, ref: func(a dtAtoms) bool { return a.I("idx") >= 1 && a.I("idx") <= a.I("sourceTuple.Len()") }},
		dtRow{fn: ".ModuleDotDotSymbol", key: "contains-every-number-of-the-range", why: "a..b contains i exactly for a <= i <= b", find: builderSet, ints: map[string]string{"i": "", "to": ""},
			ref: func(a dtAtoms) bool { return a.I("i") <= a.I("to") }},
		dtRow{fn: ".ModuleSubSeq", key: "empty-when-from-exceeds-to", why: "SubSeq(s, m, n) is <<>> when m > n", find: func(info *types.Info, n ast.Node) bool {
			r, ok := n.(*ast.ReturnStmt)
			if !ok || len(r.Results) != 1 {
				return false
			}
			found := false
			ast.Inspect(r.Results[0], func(m ast.Node) bool {
				if call, ok := m.(*ast.CallExpr); ok {
					if f := an.CalleeFunc(info, call); f != nil && f.Name() == "NewList" {
						found = true
					}
				}
				return true
			})
			return found
		}, ints: map[string]string{"from": "", "to": ""}, ref: func(a dtAtoms) bool { return a.I("from") > a.I("to") }},
		dtRow{fn: ".ModuleSubSeq", key: "indices-in-bounds", why: "otherwise 1 <= m <= n <= Len(s) is required", exprOf: requireArg(0),
			ints: map[string]string{"from": "", "to": "", "tuple.Len()": ""}, ref: func(a dtAtoms) bool {
				return a.I("from") <= a.I("to") && a.I("from") >= 1 && a.I("to") <= a.I("tuple.Len()")
			}},
	)
	initialCall := func(info *types.Info, n ast.Node) bool {
		call, ok := n.(*ast.CallExpr)
		if !ok || len(call.Args) == 0 {
			return false
		}
		id, ok := an.Unparen(call.Fun).(*ast.Ident)
		if !ok || !isRecClosure(info, id) {
			return false
		}
		tv := info.Types[call.Args[len(call.Args)-1]]
		return tv.Value != nil && tv.Value.ExactString() == "0"
	}
	assignsFromCall := func(recvMethod string) func(*types.Info, ast.Node) bool {
		return func(info *types.Info, n ast.Node) bool {
			as, ok := n.(*ast.AssignStmt)
			if !ok || len(as.Rhs) != 1 {
				return false
			}
			call, ok := an.Unparen(as.Rhs[0]).(*ast.CallExpr)
			if !ok {
				return false
			}
			f := an.CalleeFunc(info, call)
			return f != nil && f.Name() == recvMethod
		}
	}
	isF, isT := "source.IsFunction()", "source.IsTuple()"
	rows = append(rows,
		dtRow{fn: ".SetComprehension", key: "starts-at-the-first-bound", why: "the enumeration starts with the first bound set", find: initialCall, ref: func(a dtAtoms) bool { return true }},
		dtRow{fn: ".CrossProduct", key: "starts-at-the-first-component", why: "the enumeration starts with the first component", find: initialCall, ref: func(a dtAtoms) bool { return true }},
		dtRow{fn: ".FunctionSubstitution", key: "function-updated-as-function", why: "a function / record source is updated through its map", find: assignsFromCall("AsFunction"),
			ints: map[string]string{"len(keys)": ""}, bools: []string{isF, isT}, ref: func(a dtAtoms) bool { return a.I("len(keys)") != 0 && a.B(isF) }},
		dtRow{fn: ".FunctionSubstitution", key: "sequence-updated-as-sequence", why: "a sequence source is updated by position", find: assignsFromCall("AsTuple"),
			ints: map[string]string{"len(keys)": ""}, bools: []string{isF, isT}, ref: func(a dtAtoms) bool { return a.I("len(keys)") != 0 && !a.B(isF) && a.B(isT) }},
		dtRow{fn: ".ModuleSuperscriptSymbol", key: "int32-range", why: "a power outside the int32 range is refused", exprOf: requireArg(0),
			// the operands are floats, which the abstract domain does not evaluate: the two comparisons are atoms (their text
			// names the bound and the direction) and the row decides how they are combined
			bools: []string{"rawResult<=math.MaxInt32", "rawResult>=math.MinInt32"}, ref: func(a dtAtoms) bool { return a.B("rawResult<=math.MaxInt32") && a.B("rawResult>=math.MinInt32") }},
	)
	runDecisionRows(c, e, an.PkgTLA, "", rows)
	// [S -> T] is built by giving every element of S the codomain T, for every S and T: [{} -> T] is {<<>>} (one function,
	// the empty one) even when T is empty. Every return of MakeFunctionSet hands on what MakeRecordSet built from the pairs
	// collected over the domain; no special case short-cuts that.
	if fn := mustFunc(c, e, an.PkgTLA, "MakeFunctionSet"); fn != nil {
		info := fn.Pkg.Info
		bad := ""
		n := 0
		ast.Inspect(fn.Body(), func(m ast.Node) bool {
			if _, isLit := m.(*ast.FuncLit); isLit {
				return false
			}
			r, ok := m.(*ast.ReturnStmt)
			if !ok {
				return true
			}
			n++
			if len(r.Results) != 1 {
				bad = "a return without a value"
				return true
			}
			call, isCall := an.Unparen(an.ResolveLocal(info, fn.Body(), r.Results[0])).(*ast.CallExpr)
			if !isCall || an.CalleeFunc(info, call) == nil || an.CalleeFunc(info, call).Name() != "MakeRecordSet" {
				bad = "a path returns " + an.ExprString(r.Results[0]) + " instead of the record set built from the domain"
			}
			return true
		})
		if n == 0 {
			bad = "no return found"
		}
		c.Check(bad == "", ".MakeFunctionSet:always-built-from-the-domain", fn.Pos(), "every return hands on MakeRecordSet(pairs over the domain)",
			bad+": [{} -> {}] is {<<>>}, not {}, and [S -> {}] is empty only because no record can be built - a short cut on an empty operand answers one of the two wrongly")
	}
}

// singleReturnLast: the result expression of the function's last statement if it is `return E`.
func singleReturnLast(fn *an.Func) ast.Expr {
	if fn == nil || fn.Body() == nil || len(fn.Body().List) == 0 {
		return nil
	}
	rs, ok := fn.Body().List[len(fn.Body().List)-1].(*ast.ReturnStmt)
	if !ok || len(rs.Results) != 1 {
		return nil
	}
	return rs.Results[0]
}

// isRecClosure: id names a local variable of function type declared without a value (`var helper func(int) bool`), the idiom
// for a closure that calls itself. The set is collected per program by fillRecClosures.
func isRecClosure(info *types.Info, id *ast.Ident) bool {
	o := info.ObjectOf(id)
	if o == nil {
		return false
	}
	_, ok := recClosures.Load(o)
	return ok
}

// recClosures is shared by the concurrent runs of the mutation sweep: objects are unique per program, entries are only
// ever added.
var recClosures sync.Map
var recClosuresFilled sync.Map

func fillRecClosures(e *Env) {
	if _, done := recClosuresFilled.LoadOrStore(e, true); done {
		return
	}
	for _, fn := range e.Ix.Funcs() {
		if fn.Body() == nil {
			continue
		}
		info := fn.Pkg.Info
		ast.Inspect(fn.Body(), func(m ast.Node) bool {
			ds, ok := m.(*ast.DeclStmt)
			if !ok {
				return true
			}
			gd, ok := ds.Decl.(*ast.GenDecl)
			if !ok || gd.Tok != token.VAR {
				return true
			}
			for _, sp := range gd.Specs {
				vs, isVS := sp.(*ast.ValueSpec)
				if !isVS || len(vs.Values) != 0 {
					continue
				}
				if _, isFunc := vs.Type.(*ast.FuncType); !isFunc {
					continue
				}
				for _, nm := range vs.Names {
					if o := info.Defs[nm]; o != nil {
						recClosures.Store(o, true)
					}
				}
			}
			return true
		})
	}
}
