package rules

import (
	"fmt"
	"go/ast"
	"go/token"
	"go/types"
	"strings"

	"pgoverif/checker/an"
	"pgoverif/checker/core"
)

func init() {
	register(&core.Rule{
		ID: "VAL-IDENTITY", Props: []string{"C05"}, Floor: 40,
		Doc: "no ==/!=, switch tag or map key whose type contains tla.Value (pointer-represented: Go identity is not TLA+ equality)",
		Run: func(c *core.Ctx) { runValIdentity(c, "") },
	})
	register(&core.Rule{
		ID: "VAL-IDENTITY-2PC", Props: []string{"C11"}, Floor: 1,
		Doc: "VAL-IDENTITY restricted to the file(s) declaring the 2PC resource: the acceptor must treat gob-decoded (fresh-pointer) proposer ids and values like in-process ones",
		Run: func(c *core.Ctx) { runValIdentity(c, "TwoPCArchetypeResource") },
	})
	register(&core.Rule{
		ID: "PURE-UNUSED", Props: []string{"C12", "C05"}, Floor: 1,
		Doc: "the result of a persistent-collection update / VClock / CRDTValue operation is never discarded",
		Run: runPureUnused,
	})
	register(&core.Rule{
		ID: "ITER-ADVANCE", Props: []string{"C03"}, Floor: 40,
		Doc: "every cycle through a loop conditioned on !X.Done() advances X (calls X.Next()) or rebinds X",
		Run: runIterAdvance,
	})
}

func runValIdentity(c *core.Ctx, onlyFileOfType string) {
	e := EnvOf(c.Prog)
	val := tlaValue(e)
	if val == nil {
		c.Lost("tla.Value", "type tla.Value not found")
		return
	}
	var onlyFile *ast.File
	if onlyFileOfType != "" {
		n := e.Ix.LookupType(an.PkgResources, onlyFileOfType)
		if n == nil {
			c.Lost("resources."+onlyFileOfType, "type not found")
			return
		}
		pk := c.Prog.Pkg(an.PkgResources)
		for _, f := range pk.Files {
			if f.Pos() <= n.Obj().Pos() && n.Obj().Pos() <= f.End() {
				onlyFile = f
			}
		}
		if onlyFile == nil {
			c.Lost("resources."+onlyFileOfType, "declaring file not found")
			return
		}
	}
	sites := 0
	for _, pk := range c.Prog.Sorted() {
		for _, f := range pk.Files {
			if onlyFile != nil && f != onlyFile {
				continue
			}
			ast.Inspect(f, func(n ast.Node) bool {
				switch x := n.(type) {
				case *ast.BinaryExpr:
					if x.Op != token.EQL && x.Op != token.NEQ {
						return true
					}
					sites++
					lt, rt := pk.Info.TypeOf(x.X), pk.Info.TypeOf(x.Y)
					if containsValue(lt, val, 0) || containsValue(rt, val, 0) {
						c.Bad(enclosingFuncName(pk, f, x)+":"+an.ExprString(x), x.Pos(),
							"Go identity comparison of a type containing tla.Value (%s); gob-decoded or independently constructed equal values compare unequal", lt)
					}
				case *ast.SwitchStmt:
					if x.Tag == nil {
						return true
					}
					sites++
					if containsValue(pk.Info.TypeOf(x.Tag), val, 0) {
						c.Bad(enclosingFuncName(pk, f, x)+":switch "+an.ExprString(x.Tag), x.Pos(),
							"switch on a type containing tla.Value compares by Go identity")
					}
				case *ast.MapType:
					sites++
					if containsValue(pk.Info.TypeOf(x.Key), val, 0) {
						c.Bad(enclosingFuncName(pk, f, x)+":"+an.ExprString(x), x.Pos(),
							"Go map keyed by a type containing tla.Value hashes by pointer identity; equal values map to different entries")
					}
				}
				return true
			})
		}
	}
	c.Count("comparison/switch/map-type sites", sites)
	if onlyFile != nil {
		if sites < 20 {
			c.Lost("2pc-sites", "only %d comparison sites in the 2PC file", sites)
		}
		bad := false
		for _, o := range c.Obs {
			bad = bad || o.Verdict == core.Violation
		}
		if !bad {
			c.Ok("file of resources."+onlyFileOfType, onlyFile.Pos(), "no identity comparison / map key on tla.Value among %d sites", sites)
		}
		return
	}
	// every package contributes one "clean" obligation so that the count reflects coverage
	for _, pk := range c.Prog.Sorted() {
		bad := false
		for _, o := range c.Obs {
			if o.Verdict == core.Violation && strings.HasPrefix(o.Construct, an.ShortPkg(pk.Path)+".") {
				bad = true
			}
		}
		if !bad {
			c.Ok("package "+an.ShortPkg(pk.Path), pk.Files[0].Pos(), "no identity comparison / map key on tla.Value")
		}
	}
}

func isPersistentUpdate(fn *types.Func, crdtValue *types.Interface) (bool, string) {
	n := an.RecvNamed(fn)
	if n == nil || n.Obj().Pkg() == nil {
		return false, ""
	}
	path, tname, m := n.Obj().Pkg().Path(), n.Obj().Name(), fn.Name()
	if path == an.PkgImmutable {
		switch tname {
		case "Map", "List", "SortedMap":
			switch m {
			case "Set", "Delete", "Append", "Prepend", "Slice":
				return true, "immutable." + tname + "." + m
			}
		}
	}
	if path == an.PkgTLA && tname == "VClock" && (m == "Merge" || m == "Inc") {
		return true, "tla.VClock." + m
	}
	if (m == "Write" || m == "Merge") && crdtValue != nil {
		if _, isIface := n.Underlying().(*types.Interface); isIface {
			if n.Obj().Name() == "CRDTValue" {
				return true, "CRDTValue." + m
			}
		} else if types.Implements(n, crdtValue) || types.Implements(types.NewPointer(n), crdtValue) {
			return true, an.TypeKey(n) + "." + m
		}
	}
	return false, ""
}

func runPureUnused(c *core.Ctx) {
	e := EnvOf(c.Prog)
	crdt := an.InterfaceOf(e.Ix.LookupType(an.PkgResources, "CRDTValue"))
	if crdt == nil {
		c.Lost("resources.CRDTValue", "interface not found")
	}
	calls := 0
	for _, pk := range c.Prog.Sorted() {
		for _, f := range pk.Files {
			// collect calls in statement position or assigned only to blanks
			ast.Inspect(f, func(n ast.Node) bool {
				var call *ast.CallExpr
				switch x := n.(type) {
				case *ast.ExprStmt:
					call, _ = an.Unparen(x.X).(*ast.CallExpr)
				case *ast.AssignStmt:
					if len(x.Rhs) == 1 {
						allBlank := true
						for _, l := range x.Lhs {
							if id, ok := l.(*ast.Ident); !ok || id.Name != "_" {
								allBlank = false
							}
						}
						if allBlank {
							call, _ = an.Unparen(x.Rhs[0]).(*ast.CallExpr)
						}
					}
				}
				// count all calls to pure updates for coverage
				if ce, ok := n.(*ast.CallExpr); ok {
					if fn := an.CalleeFunc(pk.Info, ce); fn != nil {
						if ok, _ := isPersistentUpdate(fn, crdt); ok {
							calls++
						}
					}
				}
				if call == nil {
					return true
				}
				fn := an.CalleeFunc(pk.Info, call)
				if fn == nil {
					return true
				}
				if ok, what := isPersistentUpdate(fn, crdt); ok {
					c.Bad(enclosingFuncName(pk, f, call)+":"+an.ExprString(call.Fun), call.Pos(),
						"result of %s discarded: the receiver is persistent, the update is lost", what)
				}
				return true
			})
		}
	}
	c.Count("calls to persistent update operations", calls)
	if calls < 40 {
		c.Lost("persistent-update-calls", "only %d calls to persistent update operations found (expected >= 40): the callee table no longer matches", calls)
	}
	for _, pk := range c.Prog.Sorted() {
		bad := false
		for _, o := range c.Obs {
			if o.Verdict == core.Violation && strings.HasPrefix(o.Construct, an.ShortPkg(pk.Path)+".") {
				bad = true
			}
		}
		if !bad {
			c.Ok("package "+an.ShortPkg(pk.Path), pk.Files[0].Pos(), "no discarded persistent update")
		}
	}
}

// iteratorDoneCalls returns, for a loop condition, the objects X such that X.Done() is called in it
// with X an iterator from the immutable package.
func iteratorDoneCalls(info *types.Info, cond ast.Node) map[types.Object]*ast.CallExpr {
	out := map[types.Object]*ast.CallExpr{}
	ast.Inspect(cond, func(n ast.Node) bool {
		call, ok := n.(*ast.CallExpr)
		if !ok {
			return true
		}
		fn := an.CalleeFunc(info, call)
		if fn == nil || fn.Name() != "Done" {
			return true
		}
		rn := an.RecvNamed(fn)
		if rn == nil || rn.Obj().Pkg() == nil || rn.Obj().Pkg().Path() != an.PkgImmutable || !strings.HasSuffix(rn.Obj().Name(), "Iterator") {
			return true
		}
		sel, ok := an.Unparen(call.Fun).(*ast.SelectorExpr)
		if !ok {
			return true
		}
		if obj := an.ObjOf(info, sel.X); obj != nil {
			out[obj] = call
		}
		return true
	})
	return out
}

func runIterAdvance(c *core.Ctx) {
	e := EnvOf(c.Prog)
	loops := 0
	for _, fn := range e.Ix.Funcs() {
		info := fn.Pkg.Info
		// find candidate loops in the declaration and in nested literals
		var bodies []struct {
			body *ast.BlockStmt
			g    *an.Graph
		}
		hasLoop := false
		ast.Inspect(fn.Body(), func(n ast.Node) bool {
			if fs, ok := n.(*ast.ForStmt); ok && fs.Cond != nil && len(iteratorDoneCalls(info, fs.Cond)) > 0 {
				hasLoop = true
			}
			return true
		})
		if !hasLoop {
			continue
		}
		bodies = append(bodies, struct {
			body *ast.BlockStmt
			g    *an.Graph
		}{fn.Body(), e.Graph(fn)})
		ast.Inspect(fn.Body(), func(n ast.Node) bool {
			if lit, ok := n.(*ast.FuncLit); ok {
				bodies = append(bodies, struct {
					body *ast.BlockStmt
					g    *an.Graph
				}{lit.Body, e.GraphOfLit(fn.Pkg, lit)})
			}
			return true
		})
		seq := map[string]int{}
		for _, b := range bodies {
			an.Inspect(b.body, func(n ast.Node) bool {
				fs, ok := n.(*ast.ForStmt)
				if !ok || fs.Cond == nil {
					return true
				}
				for obj, done := range iteratorDoneCalls(info, fs.Cond) {
					loops++
					name := obj.Name()
					seq[name]++
					key := fmt.Sprintf("%s:loop(%s)", fn.Name(), name)
					if seq[name] > 1 {
						key = fmt.Sprintf("%s:loop(%s)#%d", fn.Name(), name, seq[name])
					}
					advances := func(a ast.Node) bool {
						switch x := a.(type) {
						case *ast.CallExpr:
							f := an.CalleeFunc(info, x)
							if f == nil || f.Name() != "Next" {
								return false
							}
							sel, ok := an.Unparen(x.Fun).(*ast.SelectorExpr)
							return ok && an.ObjOf(info, sel.X) == obj
						case *ast.AssignStmt:
							for _, l := range x.Lhs {
								if id, ok := l.(*ast.Ident); ok && info.ObjectOf(id) == obj {
									return true
								}
							}
						}
						return false
					}
					p := b.g.Search(an.Query{
						From:   done,
						Target: func(a ast.Node) bool { return a == ast.Node(done) },
						Avoid:  advances,
					})
					if p.Found {
						c.Bad(key, fs.Pos(), "a cycle through the loop condition !%s.Done() never calls %s.Next(): the loop cannot terminate once entered", name, name)
					} else {
						c.Ok(key, fs.Pos(), "every cycle advances %s", name)
					}
				}
				return true
			})
		}
	}
	c.Count("iterator loops", loops)
}
