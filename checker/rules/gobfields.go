package rules

import (
	"go/ast"
	"go/token"
	"go/types"
	"sort"
	"strings"

	"pgoverif/checker/an"
	"pgoverif/checker/core"
)

func init() {
	register(&core.Rule{ID: "GOB-FIELDS", Props: []string{"C05", "C12", "C13"}, Floor: 6,
		Doc: "a type with a hand-written GobDecode rebuilds every field its other methods read: a field the decoder leaves at its zero value (a cached total, a size, an index kept beside the map) makes a value that crossed the wire behave differently from the value that was sent - equal states read differently, Merge stops being commutative",
		Run: runGobFields})
	register(&core.Rule{ID: "GOB-LOSSLESS", Props: []string{"C05", "C12", "C13"}, Floor: 6,
		Doc: "hand-written GobEncode / GobDecode (and the helpers they call) put the stored values themselves on the wire, not a lossy function of them: no time.Time.Unix / UnixMilli / UnixMicro / Truncate / Round and no narrowing integer conversion of a stored number. Two timestamps that differ below the wire resolution are ordered at the sender and tied at every receiver, so replicas that exchanged everything still disagree",
		Run: runGobLossless})
}

func gobTypes(e *Env) []*types.Named {
	var out []*types.Named
	seen := map[*types.Named]bool{}
	for _, fn := range e.Ix.Funcs() {
		if fn.Obj.Name() != "GobDecode" || (fn.Pkg.Path != an.PkgResources && fn.Pkg.Path != an.PkgTLA) {
			continue
		}
		if n := an.RecvNamed(fn.Obj); n != nil && !seen[n] {
			seen[n] = true
			out = append(out, n)
		}
	}
	sort.Slice(out, func(i, j int) bool { return an.TypeKey(out[i]) < an.TypeKey(out[j]) })
	return out
}

func runGobFields(c *core.Ctx) {
	e := EnvOf(c.Prog)
	for _, n := range gobTypes(e) {
		st, ok := n.Underlying().(*types.Struct)
		if !ok {
			continue
		}
		tk := an.TypeKey(n)
		dec := e.Ix.MethodDecl(n, "GobDecode")
		if dec == nil || dec.Body() == nil {
			continue
		}
		info := dec.Pkg.Info
		// fields the decoder (or a workspace helper it calls, depth 2) writes; `*recv = T{...}` writes all
		written := map[*types.Var]bool{}
		whole := false
		var scan func(body ast.Node, inf *types.Info, depth int)
		scan = func(body ast.Node, inf *types.Info, depth int) {
			ast.Inspect(body, func(m ast.Node) bool {
				switch x := m.(type) {
				case *ast.AssignStmt:
					for _, l := range x.Lhs {
						if star, isStar := an.Unparen(l).(*ast.StarExpr); isStar {
							if t := an.NamedOf(inf.TypeOf(star)); t != nil && t.Origin() == n.Origin() {
								whole = true
							}
						}
						for _, f := range an.FieldsInLvalue(inf, l) {
							written[f.Origin()] = true
						}
					}
				case *ast.CallExpr:
					// decoder.Decode(&recv.f) writes f
					for _, a := range x.Args {
						if u, isU := an.Unparen(a).(*ast.UnaryExpr); isU {
							if f := an.SelectedField(inf, u.X); f != nil {
								written[f.Origin()] = true
							}
						}
					}
					if depth < 2 {
						if callee := an.CalleeFunc(inf, x); callee != nil {
							if cf := e.Ix.FuncOf(callee); cf != nil && cf.Body() != nil && cf.Pkg.Path == dec.Pkg.Path && cf != dec {
								scan(cf.Body(), cf.Pkg.Info, depth+1)
							}
						}
					}
				}
				return true
			})
		}
		scan(dec.Body(), info, 0)
		// fields other methods of the type read
		read := map[*types.Var][]string{}
		for _, m := range e.Ix.MethodsOf(n) {
			if m.Body() == nil || m.Obj.Name() == "GobDecode" || m.Obj.Name() == "GobEncode" {
				continue
			}
			ast.Inspect(m.Body(), func(k ast.Node) bool {
				sel, isSel := k.(*ast.SelectorExpr)
				if !isSel {
					return true
				}
				if f := an.SelectedField(m.Pkg.Info, sel); f != nil {
					for i := 0; i < st.NumFields(); i++ {
						if st.Field(i) == f.Origin() {
							read[f.Origin()] = append(read[f.Origin()], m.Obj.Name())
						}
					}
				}
				return true
			})
		}
		// lazily computed fields: every method that reads the field tests it against its zero value first (a memo whose zero
		// value means "not computed yet" needs no help from the decoder)
		lazy := map[*types.Var]bool{}
		for i := 0; i < st.NumFields(); i++ {
			f := st.Field(i)
			if len(read[f]) == 0 {
				continue
			}
			all := true
			for _, m := range e.Ix.MethodsOf(n) {
				if m.Body() == nil || m.Obj.Name() == "GobDecode" || m.Obj.Name() == "GobEncode" {
					continue
				}
				reads, tests := false, false
				ast.Inspect(m.Body(), func(k ast.Node) bool {
					if sel, isSel := k.(*ast.SelectorExpr); isSel && an.SelectedField(m.Pkg.Info, sel) != nil && an.SelectedField(m.Pkg.Info, sel).Origin() == f {
						reads = true
					}
					be, isBin := k.(*ast.BinaryExpr)
					if !isBin || (be.Op != token.EQL && be.Op != token.NEQ) {
						return true
					}
					isZero := func(x ast.Expr) bool {
						if id, isId := an.Unparen(x).(*ast.Ident); isId && id.Name == "nil" {
							return true
						}
						tv := m.Pkg.Info.Types[x]
						return tv.Value != nil && (tv.Value.ExactString() == "0" || tv.Value.ExactString() == `""` || tv.Value.ExactString() == "false")
					}
					isField := func(x ast.Expr) bool {
						x = an.ResolveLocal(m.Pkg.Info, m.Body(), x)
						hit := false
						ast.Inspect(x, func(q ast.Node) bool {
							if sel, isSel := q.(*ast.SelectorExpr); isSel {
								if ff := an.SelectedField(m.Pkg.Info, sel); ff != nil && ff.Origin() == f {
									hit = true
								}
							}
							return !hit
						})
						return hit
					}
					if (isZero(be.X) && isField(be.Y)) || (isZero(be.Y) && isField(be.X)) {
						tests = true
					}
					return true
				})
				if reads && !tests {
					all = false
				}
			}
			lazy[f] = all
		}
		// a lazily computed field is written only by the methods that compute it on demand (the ones that test it against
		// zero): a second writer that derives the memo some other way (incrementally, from another value's memo) can
		// store a value the computing method would not have produced
		for i := 0; i < st.NumFields(); i++ {
			f := st.Field(i)
			if !lazy[f] || len(read[f]) == 0 {
				continue
			}
			computing := map[string]bool{}
			for _, r := range read[f] {
				computing[r] = true
			}
			for _, fn := range e.Ix.Funcs() {
				if fn.Body() == nil || fn.Pkg.Path != dec.Pkg.Path {
					continue
				}
				if rn := an.RecvNamed(fn.Obj); rn != nil && rn.Origin() == n.Origin() && computing[fn.Obj.Name()] {
					continue
				}
				ast.Inspect(fn.Body(), func(k ast.Node) bool {
					var lhs []ast.Expr
					switch x := k.(type) {
					case *ast.AssignStmt:
						lhs = x.Lhs
					case *ast.CallExpr:
						// atomic.StoreUint32(&v.f, ..)
						for _, a := range x.Args {
							if u, isU := an.Unparen(a).(*ast.UnaryExpr); isU && u.Op == token.AND {
								if cf := an.CalleeFunc(fn.Pkg.Info, x); cf != nil && strings.HasPrefix(cf.Name(), "Store") {
									lhs = append(lhs, u.X)
								}
							}
						}
					}
					for _, l := range lhs {
						for _, ff := range an.FieldsInLvalue(fn.Pkg.Info, l) {
							if ff.Origin() == f {
								c.Bad(tk+"."+f.Name()+":memo-owner", k.Pos(), "%s writes the memo field %s.%s, which %s compute(s) on demand: a memo stored by anything but its computing method can disagree with what that method would compute (equal values with different hashes)", an.FuncName(fn.Obj), tk, f.Name(), strings.Join(uniq(read[f]), ", "))
							}
						}
					}
					return true
				})
			}
		}
		for i := 0; i < st.NumFields(); i++ {
			f := st.Field(i)
			key := tk + "." + f.Name()
			readers := read[f]
			switch {
			case len(readers) == 0:
				c.Ok(key, dec.Pos(), "no method reads the field")
			case lazy[f]:
				c.Ok(key, dec.Pos(), "every reader tests the field against its zero value first: computed on demand")
			case whole || written[f]:
				c.Ok(key, dec.Pos(), "rebuilt by GobDecode")
			default:
				sort.Strings(readers)
				c.Bad(key, dec.Pos(), "%s.GobDecode does not set the field %s, which %s read(s): a value that crossed the wire has it at its zero value and behaves differently from the value that was sent", tk, f.Name(), strings.Join(uniq(readers), ", "))
			}
		}
	}
}

func uniq(xs []string) []string {
	var out []string
	for i, x := range xs {
		if i == 0 || x != xs[i-1] {
			out = append(out, x)
		}
	}
	return out
}

func runGobLossless(c *core.Ctx) {
	e := EnvOf(c.Prog)
	lossy := map[string]bool{"Unix": true, "UnixMilli": true, "UnixMicro": true, "Truncate": true, "Round": true}
	for _, n := range gobTypes(e) {
		tk := an.TypeKey(n)
		for _, name := range []string{"GobEncode", "GobDecode"} {
			fn := e.Ix.MethodDecl(n, name)
			if fn == nil || fn.Body() == nil {
				continue
			}
			key := tk + "." + name
			bad := ""
			var scan func(body ast.Node, inf *types.Info, depth int)
			scan = func(body ast.Node, inf *types.Info, depth int) {
				ast.Inspect(body, func(m ast.Node) bool {
					call, ok := m.(*ast.CallExpr)
					if !ok {
						return true
					}
					if callee := an.CalleeFunc(inf, call); callee != nil {
						if callee.Pkg() != nil && callee.Pkg().Path() == "time" && lossy[callee.Name()] {
							if rn := an.RecvNamed(callee); rn != nil && rn.Obj().Name() == "Time" {
								bad = "time.Time." + callee.Name() + " at " + c.Prog.Rel(call.Pos())
							}
						}
						if depth < 2 {
							if cf := e.Ix.FuncOf(callee); cf != nil && cf.Body() != nil && cf.Pkg.Path == fn.Pkg.Path && cf != fn {
								scan(cf.Body(), cf.Pkg.Info, depth+1)
							}
						}
						return true
					}
					// narrowing integer conversion of a stored number: intN(x) with x of a wider integer type (lengths are exempt)
					if tv, isType := inf.Types[call.Fun]; isType && tv.IsType() && len(call.Args) == 1 {
						to, ok1 := tv.Type.Underlying().(*types.Basic)
						from, ok2 := inf.TypeOf(call.Args[0]).Underlying().(*types.Basic)
						if ok1 && ok2 && to.Info()&types.IsInteger != 0 && from.Info()&types.IsInteger != 0 && intWidth(to) < intWidth(from) {
							if inner, isCall := an.Unparen(call.Args[0]).(*ast.CallExpr); isCall && (an.IsBuiltin(inf, inner, "len") || isLenMethod(inf, inner)) {
								return true
							}
							if inf.Types[call.Args[0]].Value != nil {
								return true
							}
							bad = "narrowing conversion " + an.ExprString(call) + " at " + c.Prog.Rel(call.Pos())
						}
					}
					return true
				})
			}
			scan(fn.Body(), fn.Pkg.Info, 0)
			c.Check(bad == "", key, fn.Pos(), "the wire form carries the stored values themselves", "the wire form of "+tk+" is a lossy function of the stored value ("+bad+"): values that differ at the sender are equal at the receiver")
		}
	}
}

func intWidth(b *types.Basic) int {
	switch b.Kind() {
	case types.Int8, types.Uint8:
		return 8
	case types.Int16, types.Uint16:
		return 16
	case types.Int32, types.Uint32:
		return 32
	}
	return 64
}

func isLenMethod(info *types.Info, call *ast.CallExpr) bool {
	f := an.CalleeFunc(info, call)
	return f != nil && f.Name() == "Len"
}
