package rules

import (
	"go/ast"
	"go/token"
	"go/types"

	"pgoverif/checker/an"
	"pgoverif/checker/core"
)

func init() {
	register(&core.Rule{ID: "FD-WIRING", Props: []string{"C19"}, Floor: 6,
		Doc: "the failure detector's plumbing: both setState functions store their argument on every path; the monitor's IsAlive answers with the recorded state exactly when one is recorded; the detector's constructor starts its polling loop; a completed RPC's error is what the failure test examines; ensureClient dials when there is no client or a re-dial was requested",
		Run: runFDWiring})
}

func runFDWiring(c *core.Ctx) {
	e := EnvOf(c.Prog)
	mon := mustType(c, e, an.PkgResources, "Monitor")
	det := mustType(c, e, an.PkgResources, "SingleFailureDetector")
	if mon == nil || det == nil {
		return
	}
	// setState of the monitor: states.Set(id, state)
	if fn := mustMethod(c, e, an.PkgResources, "Monitor", "setState"); fn != nil {
		info, g := fn.Pkg.Info, e.Graph(fn)
		states := mustField(c, mon, "states")
		var idP, stP types.Object
		if ps := fn.Decl.Type.Params.List; len(ps) == 2 && len(ps[0].Names) == 1 && len(ps[1].Names) == 1 {
			idP, stP = info.Defs[ps[0].Names[0]], info.Defs[ps[1].Names[0]]
		}
		ok, _ := g.MustPass(nil, func(a ast.Node) bool {
			call, isC := a.(*ast.CallExpr)
			if !isC || len(call.Args) != 2 {
				return false
			}
			sel, isS := an.Unparen(call.Fun).(*ast.SelectorExpr)
			return isS && sel.Sel.Name == "Set" && an.SelectedField(info, sel.X) == states && an.ObjOf(info, call.Args[0]) == idP && an.ObjOf(info, call.Args[1]) == stP
		}, nil)
		c.Check(ok && states != nil, "Monitor.setState:records", fn.Pos(), "states.Set(archetypeID, state) on every path", "Monitor.setState does not record the state it is given: alive/failed/finished are never visible to detectors")
	}
	// setState / getState of the detector
	stateF := mustField(c, det, "state")
	if fn := mustMethod(c, e, an.PkgResources, "SingleFailureDetector", "setState"); fn != nil && stateF != nil {
		info, g := fn.Pkg.Info, e.Graph(fn)
		var stP types.Object
		if ps := fn.Decl.Type.Params.List; len(ps) == 1 && len(ps[0].Names) == 1 {
			stP = info.Defs[ps[0].Names[0]]
		}
		ok, _ := g.MustPass(nil, func(a ast.Node) bool {
			rhs, isSet := fieldIsAssigned(info, a, stateF)
			return isSet && rhs != nil && an.ObjOf(info, rhs) == stP
		}, nil)
		c.Check(ok, "SingleFailureDetector.setState:records", fn.Pos(), "state = <argument> on every path", "SingleFailureDetector.setState does not store its argument: the detector never leaves `uninitialized`, or never notices a failure")
	}
	if fn := mustMethod(c, e, an.PkgResources, "SingleFailureDetector", "getState"); fn != nil && stateF != nil {
		info := fn.Pkg.Info
		okRet := true
		n := 0
		ast.Inspect(fn.Body(), func(m ast.Node) bool {
			if r, isR := m.(*ast.ReturnStmt); isR && len(r.Results) == 1 {
				n++
				if an.SelectedField(info, an.ResolveLocal(info, fn.Body(), r.Results[0])) != stateF {
					okRet = false
				}
			}
			return true
		})
		c.Check(n > 0 && okRet, "SingleFailureDetector.getState:reads-state", fn.Pos(), "returns the state field", "getState does not return the detector's state field")
	}
	// IsAlive: reply = recorded state exactly when found
	if fn := mustMethod(c, e, an.PkgResources, "MonitorRPCReceiver", "IsAlive"); fn != nil {
		info, g := fn.Pkg.Info, e.Graph(fn)
		var okVar, stVar, replyP types.Object
		if ps := fn.Decl.Type.Params.List; len(ps) == 2 && len(ps[1].Names) == 1 {
			replyP = info.Defs[ps[1].Names[0]]
		}
		g.AllAtoms(func(a ast.Node) {
			if as, isA := a.(*ast.AssignStmt); isA && len(as.Lhs) == 2 && len(as.Rhs) == 1 {
				if call, isC := an.Unparen(as.Rhs[0]).(*ast.CallExpr); isC && an.IsMethodNamed(an.CalleeFunc(info, call), an.PkgResources, "Monitor", "getState") {
					stVar, okVar = an.ObjOf(info, as.Lhs[0]), an.ObjOf(info, as.Lhs[1])
				}
			}
		})
		okReply := false
		for _, a := range g.FindAtoms(func(a ast.Node) bool {
			as, isA := a.(*ast.AssignStmt)
			if !isA || len(as.Lhs) != 1 || len(as.Rhs) != 1 {
				return false
			}
			st, isStar := an.Unparen(as.Lhs[0]).(*ast.StarExpr)
			return isStar && an.ObjOf(info, st.X) == replyP && an.ObjOf(info, as.Rhs[0]) == stVar && stVar != nil
		}) {
			if guardedWhere(g, a, func(ex ast.Expr, val bool) bool { return okVar != nil && an.ObjOf(info, ex) == okVar && val }) {
				okReply = true
			}
		}
		// and the found outcome never returns an error
		errOnFound := false
		for _, r := range g.FindAtoms(func(a ast.Node) bool {
			rs, isR := a.(*ast.ReturnStmt)
			return isR && len(rs.Results) == 1 && !isNilIdent(info, rs.Results[0])
		}) {
			if !guardedWhere(g, r, func(ex ast.Expr, val bool) bool { return okVar != nil && an.ObjOf(info, ex) == okVar && !val }) {
				errOnFound = true
			}
		}
		c.Check(okReply && !errOnFound, "MonitorRPCReceiver.IsAlive:answers-recorded-state", fn.Pos(), "*reply = state exactly when a state is recorded; an error only when none is",
			"IsAlive does not answer with the recorded state on the branch where one was found (or reports an error there): every poll of a live archetype looks like a failure, or an unknown archetype looks alive")
	}
	// constructor starts the loop
	if ctor := mustFunc(c, e, an.PkgResources, "NewSingleFailureDetector"); ctor != nil {
		loop := mustMethod(c, e, an.PkgResources, "SingleFailureDetector", "mainLoop")
		info, g := ctor.Pkg.Info, e.Graph(ctor)
		ok := false
		if loop != nil {
			ok, _ = g.MustPass(nil, func(a ast.Node) bool {
				gs, isGo := a.(*ast.GoStmt)
				return isGo && an.CalleeFunc(info, gs.Call) == loop.Obj
			}, nil)
		}
		c.Check(ok, "NewSingleFailureDetector:starts-polling", ctor.Pos(), "go mainLoop() on every path", "the detector's polling loop is never started: its state stays uninitialized and every read aborts forever")
	}
	// mainLoop: err = call.Error on the completion arm, before the failure test
	if fn := mustMethod(c, e, an.PkgResources, "SingleFailureDetector", "mainLoop"); fn != nil {
		info, g := fn.Pkg.Info, e.Graph(fn)
		n, ok := 0, true
		for _, r := range g.FindAtoms(func(a ast.Node) bool {
			u, isU := a.(*ast.UnaryExpr)
			if !isU || u.Op != token.ARROW {
				return false
			}
			sel, isS := an.Unparen(u.X).(*ast.SelectorExpr)
			return isS && sel.Sel.Name == "Done" && an.NamedOf(info.TypeOf(sel.X)) != nil && an.NamedOf(info.TypeOf(sel.X)).Obj().Name() == "Call"
		}) {
			n++
			// every path from the completion receive to the next nil test of an error passes `e = call.Error`
			passes, _ := g.MustPass(r, func(a ast.Node) bool {
				as, isA := a.(*ast.AssignStmt)
				if !isA || len(as.Lhs) != 1 || len(as.Rhs) != 1 {
					return false
				}
				sel, isS := an.Unparen(as.Rhs[0]).(*ast.SelectorExpr)
				return isS && sel.Sel.Name == "Error" && types.Identical(info.TypeOf(as.Lhs[0]), types.Universe.Lookup("error").Type())
			}, nil)
			if !passes {
				ok = false
			}
		}
		c.Check(n > 0 && ok, "mainLoop:completed-call-error-examined", fn.Pos(), "after <-call.Done the call's Error is copied into the tested error variable", "the error of a completed RPC is not copied into the variable the failure test examines: a call that completed with an error (connection lost, archetype unknown) is taken for a valid reply")
	}
	// ensureClient: dial when no client or reDial
	if fn := mustMethod(c, e, an.PkgResources, "SingleFailureDetector", "ensureClient"); fn != nil {
		info, g := fn.Pkg.Info, e.Graph(fn)
		clientF, redialF := mustField(c, det, "client"), mustField(c, det, "reDial")
		dials := g.FindAtoms(func(a ast.Node) bool {
			call, isC := a.(*ast.CallExpr)
			if !isC {
				return false
			}
			f := an.CalleeFunc(info, call)
			return f != nil && f.Pkg() != nil && f.Pkg().Path() == "net" && (f.Name() == "DialTimeout" || f.Name() == "Dial")
		})
		ok := len(dials) > 0 && clientF != nil && redialF != nil
		// the no-dial outcome implies client != nil and !reDial
		for _, blk := range g.CFG.Blocks {
			cd, _ := g.Cond(blk)
			if cd == nil {
				continue
			}
			for _, d := range dials {
				for _, branch := range []bool{true, false} {
					if !g.GuardedBy(d, cd, branch) {
						continue
					}
					hasClient := an.Implies(cd, !branch, func(ex ast.Expr, val bool) bool {
						be, isB := an.Unparen(ex).(*ast.BinaryExpr)
						if !isB || !isNilIdent(info, be.Y) || an.SelectedField(info, be.X) != clientF {
							return false
						}
						return (be.Op == token.NEQ) == val && (be.Op == token.NEQ || be.Op == token.EQL)
					})
					noRedial := an.Implies(cd, !branch, func(ex ast.Expr, val bool) bool {
						return an.SelectedField(info, an.Unparen(ex)) == redialF && !val
					})
					if !hasClient || !noRedial {
						ok = false
					}
				}
			}
		}
		c.Check(ok, "ensureClient:dials-when-needed", fn.Pos(), "the dial is skipped only if a client exists and no re-dial was requested",
			"ensureClient can skip dialling although there is no client or a re-dial was requested (after rpc.ErrShutdown): every later poll fails on the dead connection, or dereferences a nil client")
	}
}
