package rules

import (
	"fmt"
	"go/ast"
	"go/token"
	"go/types"

	"pgoverif/checker/an"
	"pgoverif/checker/core"
)

func init() {
	register(&core.Rule{ID: "HASHMAP-EQ", Props: []string{"C05"}, Floor: 2,
		Doc: "hashmap.HashMap: a bucket hit is confirmed with Key.Equal before a value is returned as found or overwritten; a 32-bit hash match alone never identifies a key",
		Run: func(c *core.Ctx) { runHashmapEq(c, true) }})
	register(&core.Rule{ID: "HASHMAP-KEYS", Props: []string{"C17", "C01"}, Floor: 3,
		Doc: "hashmap.HashMap keeps its key list in step with its buckets: every Set stores the pair and records a new key, Clear empties both - map resources (IncMap, resources.HashMap) enumerate their elements for Commit/Abort/Close through Keys(), so an element missing from the list is never committed, aborted or closed",
		Run: func(c *core.Ctx) { runHashmapEq(c, false) }})
	register(&core.Rule{ID: "DATA-ENCAPSULATED", Props: []string{"C05"}, Floor: 6,
		Doc: "the value kinds (implementations of tla.impl) inspect another Value only through the Value API, never through its unexported data field: the API forwards through the causal (vector-clock) wrapper, a type assertion on data does not",
		Run: runDataEncapsulated})
	register(&core.Rule{ID: "TPC-ACCEPTOR", Props: []string{"C11"}, Floor: 4,
		Doc: "2PC acceptor rules: an Abort releases the held pre-commit only if it comes from the proposer that owns it; a pre-commit is accepted only if the local section state allows it; installing a value (acceptNewValue) releases a held pre-commit of that or an older version and poisons the section in flight",
		Run: runTPCAcceptor})
}

func runHashmapEq(c *core.Ctx, eqPart bool) {
	e := EnvOf(c.Prog)
	t := mustType(c, e, an.PkgHashmap, "HashMap")
	if t == nil {
		return
	}
	isEqualCond := func(info *types.Info) func(ex ast.Expr) bool {
		return func(ex ast.Expr) bool {
			call, ok := an.Unparen(ex).(*ast.CallExpr)
			return ok && an.IsMethodNamed(an.CalleeFunc(info, call), an.PkgTLA, "Value", "Equal")
		}
	}
	if fn := mustMethod(c, e, an.PkgHashmap, "HashMap", "Get"); fn != nil && eqPart {
		g := e.Graph(fn)
		info := fn.Pkg.Info
		n := 0
		for _, r := range g.FindAtoms(func(a ast.Node) bool {
			rs, ok := a.(*ast.ReturnStmt)
			return ok && len(rs.Results) == 2 && isBoolConst(info, rs.Results[1], true)
		}) {
			n++
			ok := false
			for _, cd := range g.CondAtoms(isEqualCond(info)) {
				if g.GuardedBy(r, cd, true) {
					ok = true
				}
			}
			c.Check(ok, fmt.Sprintf("hashmap.HashMap.Get:found#%d", n), r.Pos(), "a hit is reported only after Key.Equal",
				"Get reports an entry as found without comparing its key with Equal: two unequal keys with the same 32-bit hash are treated as one (map resources alias two TLA+ indices to one cell)")
		}
		if n == 0 {
			c.Lost("hashmap.HashMap.Get:found", "no `return v, true` found")
		}
	}
	if fn := mustMethod(c, e, an.PkgHashmap, "HashMap", "Set"); fn != nil {
		g := e.Graph(fn)
		info := fn.Pkg.Info
		n := 0
		if !eqPart {
			n = -1
		}
		// overwrites: assignment to an element's Value field
		for _, a := range g.FindAtoms(func(a ast.Node) bool {
			as, ok := a.(*ast.AssignStmt)
			if !ok || len(as.Lhs) != 1 {
				return false
			}
			sel, ok := an.Unparen(as.Lhs[0]).(*ast.SelectorExpr)
			return eqPart && ok && sel.Sel.Name == "Value"
		}) {
			n++
			ok := false
			for _, cd := range g.CondAtoms(isEqualCond(info)) {
				if g.GuardedBy(a, cd, true) {
					ok = true
				}
			}
			c.Check(ok, fmt.Sprintf("hashmap.HashMap.Set:overwrite#%d", n), a.Pos(), "an entry is overwritten only after Key.Equal",
				"Set overwrites an entry without comparing its key with Equal: storing under a colliding key replaces another key's value")
		}
		// a new entry in an existing bucket is appended only after no entry compared equal: the append in the
		// non-empty-bucket branch must not be reachable from an Equal-true edge
		if n == 0 {
			c.Lost("hashmap.HashMap.Set:overwrite", "no overwrite of an entry's Value found")
		}
		// every call stores the pair: each normal exit is preceded by the overwrite of an equal key's entry, or by appending the
		// entry to its bucket and the key to the key list
		mF, keysF := an.Field(t, "m"), an.Field(t, "keys")
		isOverwrite := func(a ast.Node) bool {
			as, ok := a.(*ast.AssignStmt)
			if !ok || len(as.Lhs) != 1 {
				return false
			}
			sel, ok := an.Unparen(as.Lhs[0]).(*ast.SelectorExpr)
			return ok && sel.Sel.Name == "Value"
		}
		appendsTo := func(f *types.Var) func(ast.Node) bool {
			return func(a ast.Node) bool {
				as, ok := a.(*ast.AssignStmt)
				if !ok || len(as.Lhs) != 1 || len(as.Rhs) != 1 {
					return false
				}
				lhs := an.Unparen(as.Lhs[0])
				if ix, isIx := lhs.(*ast.IndexExpr); isIx {
					lhs = ix.X
				}
				if an.SelectedField(info, lhs) != f {
					return false
				}
				call, ok := an.Unparen(as.Rhs[0]).(*ast.CallExpr)
				return ok && an.IsBuiltin(info, call, "append")
			}
		}
		if mF != nil {
			// a new entry is appended only where no entry for the key can exist: the bucket is absent, or the bucket was
			// scanned (the scan returns on an equal key) before the append
			var scans []ast.Node
			ast.Inspect(fn.Body(), func(m ast.Node) bool {
				rs, ok := m.(*ast.RangeStmt)
				if !ok {
					return true
				}
				hasEq := false
				ast.Inspect(rs.Body, func(k ast.Node) bool {
					if ex, ok := k.(ast.Expr); ok && isEqualCond(info)(ex) {
						hasEq = true
					}
					return true
				})
				if hasEq {
					scans = append(scans, rs)
				}
				return true
			})
			nApp := 0
			for _, a := range g.FindAtoms(appendsTo(mF)) {
				nApp++
				fine := false
				for _, blk := range g.CFG.Blocks {
					cd, _ := g.Cond(blk)
					if cd == nil {
						continue
					}
					ex := an.Unparen(cd.(ast.Expr))
					neg := false
					for {
						u, isU := ex.(*ast.UnaryExpr)
						if !isU || u.Op != token.NOT {
							break
						}
						neg = !neg
						ex = an.Unparen(u.X)
					}
					id, isId := ex.(*ast.Ident)
					if !isId || id.Name != "ok" {
						continue
					}
					// `ok` is the presence of the bucket: absent when the (possibly negated) test says so
					if g.GuardedBy(a, cd, neg) {
						fine = true
					}
				}
				for _, rs := range scans {
					// the scan loop is left (without having returned) before the append: every path to the append passes the loop
					if scanPrecedes(g, rs.(*ast.RangeStmt), a) {
						fine = true
					}
				}
				c.Check(fine, fmt.Sprintf("hashmap.HashMap.Set:append#%d-only-for-a-new-key", nApp), a.Pos(), "an entry is appended only to an absent bucket or after the bucket was scanned for the key",
					"Set can append an entry to an existing bucket without first looking for the key in it: the key ends up twice in the bucket and in the key list, Get keeps returning the older entry (a written value is never read back), and map resources commit/abort/close the element twice")
			}
		}
		if mF != nil && keysF != nil {
			okB, _ := g.MustPass(nil, func(a ast.Node) bool { return isOverwrite(a) || appendsTo(mF)(a) }, nil)
			okK, _ := g.MustPass(nil, func(a ast.Node) bool { return isOverwrite(a) || appendsTo(keysF)(a) }, nil)
			c.Check(okB, "hashmap.HashMap.Set:stores-entry", fn.Pos(), "every path overwrites the equal key's entry or appends a new entry to the bucket",
				"Set can return without storing the value: the write to a map resource element / CRDT table entry is silently lost")
			c.Check(okK, "hashmap.HashMap.Set:records-key", fn.Pos(), "every path that adds an entry also adds its key to the key list",
				"Set can add an entry without recording its key: Keys() omits it, so map resources never commit, abort or close that element")
		}
	}
	if fn := mustMethod(c, e, an.PkgHashmap, "HashMap", "Clear"); fn != nil {
		info := fn.Pkg.Info
		g := e.Graph(fn)
		keysF, mF := an.Field(t, "keys"), an.Field(t, "m")
		okK, _ := g.MustPass(nil, func(a ast.Node) bool {
			rhs, isSet := fieldIsAssigned(info, a, keysF)
			return isSet && rhs != nil && (isNilIdent(info, rhs) || func() bool { _, isSl := an.Unparen(rhs).(*ast.SliceExpr); return isSl }())
		}, nil)
		empties := false
		ast.Inspect(fn.Body(), func(m ast.Node) bool {
			if call, ok := m.(*ast.CallExpr); ok {
				if (an.IsBuiltin(info, call, "delete") || an.IsBuiltin(info, call, "clear")) && len(call.Args) >= 1 && an.SelectedField(info, call.Args[0]) == mF {
					empties = true
				}
			}
			if rhs, isSet := fieldIsAssigned(info, m, mF); isSet && rhs != nil {
				empties = true
			}
			return true
		})
		c.Check(okK && empties, "hashmap.HashMap.Clear:empties-keys-and-buckets", fn.Pos(), "Clear empties both the buckets and the key list",
			"Clear leaves keys or entries behind: the dirty set of a map resource keeps elements of earlier sections, which are then committed/aborted again")
	}
}

func runDataEncapsulated(c *core.Ctx) {
	e := EnvOf(c.Prog)
	val := tlaValue(e)
	implT := e.Ix.LookupType(an.PkgTLA, "impl")
	if val == nil || implT == nil {
		c.Lost("tla.Value/impl", "types not found")
		return
	}
	data := mustField(c, val, "data")
	if data == nil {
		return
	}
	for _, n := range e.Ix.Implementations(an.InterfaceOf(implT)) {
		if carriesInterface(n, implT) {
			continue // tla.Value itself
		}
		uses := 0
		var firstBad ast.Node
		for _, fn := range e.Ix.MethodsOf(n) {
			info := fn.Pkg.Info
			ast.Inspect(fn.Body(), func(m ast.Node) bool {
				if sel, ok := m.(*ast.SelectorExpr); ok && an.SelectedField(info, sel) == data {
					uses++
					if firstBad == nil {
						firstBad = sel
					}
				}
				return true
			})
		}
		key := an.TypeKey(n)
		if firstBad != nil {
			c.Bad(key, firstBad.Pos(), "a method of value kind %s reads the unexported data of a Value (%d site(s)): a causally wrapped value is then seen as a different kind (the wrapper only forwards method calls), so equality becomes asymmetric and set/function lookups of wrapped keys fail when tracing is on", key, uses)
		} else {
			c.Ok(key, n.Obj().Pos(), "other values are inspected through the Value API only")
		}
	}
}

func runTPCAcceptor(c *core.Ctx) {
	e := EnvOf(c.Prog)
	t := mustType(c, e, an.PkgResources, "TwoPCArchetypeResource")
	recv := mustMethod(c, e, an.PkgResources, "TwoPCArchetypeResource", "receiveInternal")
	acc := mustMethod(c, e, an.PkgResources, "TwoPCArchetypeResource", "acceptNewValue")
	if t == nil || recv == nil || acc == nil {
		return
	}
	pk := c.Prog.Pkg(an.PkgResources)
	sc := pk.Types.Scope()
	initial, accepted := sc.Lookup("initial"), sc.Lookup("acceptedPreCommit")
	abortK, preK := sc.Lookup("Abort"), sc.Lookup("PreCommit")
	state := mustField(c, t, "twoPCState")
	held := mustField(c, t, "acceptedPreCommit")
	if initial == nil || accepted == nil || abortK == nil || preK == nil || state == nil || held == nil {
		c.Lost("2PC anchors", "state constants / fields not found")
		return
	}
	setsState := func(info *types.Info, a ast.Node, st types.Object) bool {
		if call, ok := a.(*ast.CallExpr); ok && an.IsMethodNamed(an.CalleeFunc(info, call), an.PkgResources, "TwoPCArchetypeResource", "setTwoPCState") && len(call.Args) == 1 {
			return an.ObjOf(info, call.Args[0]) == st
		}
		if rhs, ok := fieldIsAssigned(info, a, state); ok && rhs != nil {
			return an.ObjOf(info, rhs) == st
		}
		return false
	}
	{
		g := e.Graph(recv)
		info := recv.Pkg.Info
		clauseOf := func(n ast.Node) *ast.CaseClause {
			cc, _ := g.Enclosing(n, func(m ast.Node) bool { _, ok := m.(*ast.CaseClause); return ok }).(*ast.CaseClause)
			return cc
		}
		inArm := func(n ast.Node, k types.Object) bool {
			// any enclosing clause: the arm's body may itself contain switch statements
			for cc := clauseOf(n); cc != nil; cc = clauseOf(g.Parent(cc)) {
				for _, ex := range cc.List {
					if selectedOrIdentObj(info, ex) == k {
						return true
					}
				}
			}
			return false
		}
		// Abort arm: release guarded by sender equality
		releases := g.FindAtoms(func(a ast.Node) bool { return setsState(info, a, initial) && inArm(a, abortK) })
		if len(releases) == 0 {
			c.Bad("receiveInternal:abort-releases", recv.Pos(), "the Abort arm never releases the held pre-commit: a rolled-back proposal blocks the replica until a newer version arrives (livelock)")
		}
		senderConds := g.CondAtoms(func(ex ast.Expr) bool {
			found := false
			ast.Inspect(ex, func(m ast.Node) bool {
				call, ok := m.(*ast.CallExpr)
				if !ok || !an.IsMethodNamed(an.CalleeFunc(info, call), an.PkgTLA, "Value", "Equal") {
					return true
				}
				mentions := func(x ast.Expr) (arg, heldSender bool) {
					ast.Inspect(x, func(k ast.Node) bool {
						if sel, ok := k.(*ast.SelectorExpr); ok && sel.Sel.Name == "Sender" {
							if an.SelectedField(info, sel.X) == held {
								heldSender = true
							} else {
								arg = true
							}
						}
						return true
					})
					return
				}
				a1, h1 := mentions(an.Unparen(call.Fun).(*ast.SelectorExpr).X)
				a2, h2 := mentions(call.Args[0])
				if (a1 && h2) || (h1 && a2) {
					found = true
				}
				return true
			})
			return found
		})
		for i, r := range releases {
			ok := false
			for _, cd := range senderConds {
				neg := false
				if u, isU := an.Unparen(cd.(ast.Expr)).(*ast.UnaryExpr); isU && u.Op == token.NOT {
					neg = true
				}
				if g.GuardedBy(r, cd, !neg) {
					ok = true
				}
			}
			c.Check(ok, fmt.Sprintf("receiveInternal:abort#%d-only-from-owner", i+1), r.Pos(), "the held pre-commit is released only by an Abort from the proposer that owns it",
				"an Abort from any proposer releases the held pre-commit: a loser's rollback wipes the winner's pre-commit, the loser's retry for the same version is then accepted, and two proposers win one version (replicas install different values)")
		}
		// PreCommit arm: acceptance guarded by canAcceptPreCommit
		accepts := g.FindAtoms(func(a ast.Node) bool { return setsState(info, a, accepted) && inArm(a, preK) })
		if len(accepts) == 0 {
			c.Bad("receiveInternal:precommit-accepts", recv.Pos(), "the PreCommit arm never records an accepted pre-commit")
		}
		for i, ac := range accepts {
			ok := guardedByLeaf(g, ac, func(leaf ast.Expr) (bool, bool) {
				call, isCall := an.Unparen(leaf).(*ast.CallExpr)
				if !isCall {
					return false, false
				}
				f := an.CalleeFunc(info, call)
				return f != nil && f.Name() == "canAcceptPreCommit", true
			})
			c.Check(ok, fmt.Sprintf("receiveInternal:precommit#%d-respects-local-section", i+1), ac.Pos(), "a pre-commit is accepted only if the local critical-section state allows it",
				"a pre-commit is accepted without consulting canAcceptPreCommit(): a replica that is itself in pre-commit would accept a competitor, so two proposers can both collect a majority")
		}
	}
	{
		g := e.Graph(acc)
		info := acc.Pkg.Info
		releases := g.FindAtoms(func(a ast.Node) bool { return setsState(info, a, initial) })
		ok := false
		for _, r := range releases {
			// both conditions guard the release (in one test or in nested ones)
			heldState := guardedByLeaf(g, r, func(leaf ast.Expr) (bool, bool) {
				be, isBin := an.Unparen(leaf).(*ast.BinaryExpr)
				if !isBin || (be.Op != token.EQL && be.Op != token.NEQ) {
					return false, false
				}
				x, y := be.X, be.Y
				if an.SelectedField(info, x) != state {
					x, y = y, x
				}
				return an.SelectedField(info, x) == state && an.ObjOf(info, y) == accepted, be.Op == token.EQL
			})
			decided := guardedByLeaf(g, r, func(leaf ast.Expr) (bool, bool) {
				be, isBin := an.Unparen(leaf).(*ast.BinaryExpr)
				if !isBin {
					return false, false
				}
				isHeldVersion := func(x ast.Expr) bool {
					sel, isSel := an.Unparen(x).(*ast.SelectorExpr)
					return isSel && sel.Sel.Name == "Version" && an.SelectedField(info, sel.X) == held
				}
				switch {
				case be.Op == token.LEQ && isHeldVersion(be.X), be.Op == token.GEQ && isHeldVersion(be.Y):
					return true, true
				case be.Op == token.GTR && isHeldVersion(be.X), be.Op == token.LSS && isHeldVersion(be.Y):
					return true, false
				}
				return false, false
			})
			if heldState && decided {
				ok = true
			}
		}
		c.Check(ok, "acceptNewValue:releases-decided-precommit", acc.Pos(), "installing version v releases a held pre-commit of version <= v",
			"acceptNewValue (the path by which a replica also catches up from a reject reply) does not release a held pre-commit whose version is now decided: the replica keeps rejecting every proposal, including its own, for good")
		poisons := false
		cs := an.Field(t, "criticalSectionState")
		poison := sc.Lookup("acceptedNewValueInCriticalSection")
		for _, a := range g.FindAtoms(func(a ast.Node) bool {
			rhs, isSet := fieldIsAssigned(info, a, cs)
			return isSet && rhs != nil && an.ObjOf(info, rhs) == poison
		}) {
			notIn := sc.Lookup("notInCriticalSection")
			if guardedByLeaf(g, a, func(leaf ast.Expr) (bool, bool) {
				switch x := an.Unparen(leaf).(type) {
				case *ast.CallExpr:
					f := an.CalleeFunc(info, x)
					return f != nil && f.Name() == "inCriticalSection", true
				case *ast.BinaryExpr:
					if x.Op != token.EQL && x.Op != token.NEQ {
						return false, false
					}
					l, r := x.X, x.Y
					if an.SelectedField(info, l) != cs {
						l, r = r, l
					}
					return an.SelectedField(info, l) == cs && notIn != nil && an.ObjOf(info, r) == notIn, x.Op == token.NEQ
				}
				return false, false
			}) {
				poisons = true
			}
		}
		c.Check(poisons, "acceptNewValue:poisons-section-in-flight", acc.Pos(), "a section that is in flight when a new value is installed is marked as failed",
			"installing a new value does not fail the local section in flight: a section that read the overwritten value could still commit (lost update)")
	}
}

// scanPrecedes: every path from the function entry to atom a runs through the range statement rs.
func scanPrecedes(g *an.Graph, rs *ast.RangeStmt, a ast.Node) bool {
	q := g.Search(an.Query{Target: func(y ast.Node) bool { return y == a }, Avoid: func(y ast.Node) bool {
		return y.Pos() >= rs.Pos() && y.End() <= rs.End()
	}})
	return !q.Found
}
