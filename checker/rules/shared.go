package rules

import (
	"fmt"
	"go/ast"
	"go/constant"
	"go/token"
	"go/types"
	"strings"

	"pgoverif/checker/an"
	"pgoverif/checker/core"
)

func init() {
	register(&core.Rule{ID: "LS-2PL", Props: []string{"C07", "C08"}, Floor: 10,
		Doc: "strict two-phase locking of localShared: the shared cell is touched only after tryEnsureLock succeeded; hasLock is set only on successful acquisition; release happens only in Commit/Abort (after the inner commit/abort, once, clearing hasLock) and in GetState paired with its own acquire",
		Run: runLS2PL})
	register(&core.Rule{ID: "LS-TIMED", Props: []string{"C07"}, Floor: 3,
		Doc: "acquireWithTimeout is a select between sending on lockCh (-> true) and time.After (-> false); the untimed acquire is used only by GetState",
		Run: runLSTimed})
	register(&core.Rule{ID: "LS-CAP1", Props: []string{"C07", "C08"}, Floor: 1,
		Doc: "the channel used as the lock has constant capacity 1",
		Run: runLSCap1})
	register(&core.Rule{ID: "LS-OWNER", Props: []string{"C07"}, Floor: 2,
		Doc: "the shared cell and its lock channel are referenced only by LocalSharedManager / localShared code",
		Run: runLSOwner})
}

// assignedFromCall: obj is defined/assigned from a call to method pkg.typ.name somewhere in body.
func definedFromCall(info *types.Info, body ast.Node, obj types.Object, pkg, typ, name string) bool {
	found := false
	ast.Inspect(body, func(n ast.Node) bool {
		as, ok := n.(*ast.AssignStmt)
		if !ok || len(as.Rhs) != 1 {
			return true
		}
		call, ok := an.Unparen(as.Rhs[0]).(*ast.CallExpr)
		if !ok || !an.IsMethodNamed(an.CalleeFunc(info, call), pkg, typ, name) {
			return true
		}
		for _, l := range as.Lhs {
			if an.ObjOf(info, l) == obj {
				found = true
			}
		}
		return true
	})
	return found
}

func fieldIsAssigned(info *types.Info, a ast.Node, fld *types.Var) (ast.Expr, bool) {
	as, ok := a.(*ast.AssignStmt)
	if !ok {
		return nil, false
	}
	for i, l := range as.Lhs {
		if an.SelectedField(info, l) == fld {
			if len(as.Rhs) == len(as.Lhs) {
				return as.Rhs[i], true
			}
			return nil, true
		}
	}
	return nil, false
}

func isBoolConst(info *types.Info, e ast.Expr, want bool) bool {
	if e == nil {
		return false
	}
	tv, ok := info.Types[e]
	return ok && tv.Value != nil && tv.Value.Kind() == constant.Bool && constant.BoolVal(tv.Value) == want
}

func runLS2PL(c *core.Ctx) {
	e := EnvOf(c.Prog)
	mgr := mustType(c, e, an.PkgResources, "LocalSharedManager")
	ls := mustType(c, e, an.PkgResources, "localShared")
	if mgr == nil || ls == nil {
		return
	}
	cell := mustField(c, mgr, "res")
	hasLock := mustField(c, ls, "hasLock")
	if cell == nil || hasLock == nil {
		return
	}
	// (a) section operations touch the cell only after tryEnsureLock succeeded
	for _, m := range []string{"ReadValue", "WriteValue", "Index"} {
		fn := mustMethod(c, e, an.PkgResources, "localShared", m)
		if fn == nil {
			continue
		}
		g := e.Graph(fn)
		info := fn.Pkg.Info
		uses := g.FindAtoms(func(a ast.Node) bool {
			call, ok := a.(*ast.CallExpr)
			if !ok {
				return false
			}
			sel, ok := an.Unparen(call.Fun).(*ast.SelectorExpr)
			return ok && an.SelectedField(info, sel.X) == cell
		})
		// any other mention of the cell (not as receiver of a call) counts as a use too
		ast.Inspect(fn.Body(), func(n ast.Node) bool {
			if sel, ok := n.(*ast.SelectorExpr); ok && an.SelectedField(info, sel) == cell {
				if at := g.AtomOf(sel); at != nil {
					dup := false
					for _, u := range uses {
						if u == at {
							dup = true
						}
					}
					if !dup {
						uses = append(uses, at)
					}
				}
			}
			return true
		})
		conds := g.CondAtoms(func(ex ast.Expr) bool {
			be, ok := an.Unparen(ex).(*ast.BinaryExpr)
			if !ok || be.Op != token.NEQ || !isNilIdent(info, be.Y) {
				return false
			}
			obj := an.ObjOf(info, be.X)
			return obj != nil && definedFromCall(info, fn.Body(), obj, an.PkgResources, "localShared", "tryEnsureLock")
		})
		if len(uses) == 0 {
			c.Lost("localShared."+m+":cell-use", "no use of the shared cell found")
		}
		for i, u := range uses {
			ok := false
			for _, cd := range conds {
				if g.GuardedBy(u, cd, false) {
					ok = true
				}
			}
			c.Check(ok, fmt.Sprintf("localShared.%s:cell-use#%d-under-lock", m, i+1), u.Pos(),
				"the shared cell is touched only on the nil-error successor of tryEnsureLock()",
				"the shared cell is reachable without a successful tryEnsureLock(): another archetype's uncommitted write could be read or overwritten (dirty read / lost update)")
		}
	}
	// (a') the end of a section touches the cell only while this handle holds the lock: a handle whose attempt failed on the
	// lock timeout never held it, and the cell then carries another archetype's uncommitted write
	for _, m := range []string{"Abort", "Commit", "PreCommit"} {
		fn := mustMethod(c, e, an.PkgResources, "localShared", m)
		if fn == nil {
			continue
		}
		g := e.Graph(fn)
		info := fn.Pkg.Info
		uses := g.FindAtoms(func(a ast.Node) bool {
			call, ok := a.(*ast.CallExpr)
			if !ok {
				return false
			}
			sel, ok := an.Unparen(call.Fun).(*ast.SelectorExpr)
			return ok && an.SelectedField(info, sel.X) == cell
		})
		for i, u := range uses {
			ok := guardedWhere(g, u, func(ex ast.Expr, val bool) bool {
				return val && an.SelectedField(info, an.ResolveLocal(info, fn.Body(), ex)) == hasLock
			})
			c.Check(ok, fmt.Sprintf("localShared.%s:cell-use#%d-only-while-holding", m, i+1), u.Pos(),
				"the shared cell is ended (committed / rolled back) only on the side of a test that this handle holds the lock",
				"the shared cell is "+strings.ToLower(m)+"ed although this handle may not hold the lock (its attempt timed out acquiring it): it ends another archetype's section in the middle - that archetype's uncommitted write is rolled back, or published, under it")
		}
	}
	// (b) tryEnsureLock sets hasLock only after a successful timed acquisition
	if fn := mustMethod(c, e, an.PkgResources, "localShared", "tryEnsureLock"); fn != nil {
		g := e.Graph(fn)
		info := fn.Pkg.Info
		sets := g.FindAtoms(func(a ast.Node) bool {
			rhs, ok := fieldIsAssigned(info, a, hasLock)
			return ok && !isBoolConst(info, rhs, false)
		})
		conds := g.CondAtoms(func(ex ast.Expr) bool {
			u, ok := an.Unparen(ex).(*ast.UnaryExpr)
			if !ok || u.Op != token.NOT {
				return false
			}
			call, ok := an.Unparen(u.X).(*ast.CallExpr)
			return ok && an.IsMethodNamed(an.CalleeFunc(info, call), an.PkgResources, "LocalSharedManager", "acquireWithTimeout")
		})
		if len(sets) == 0 {
			c.Bad("tryEnsureLock:sets-hasLock", fn.Pos(), "tryEnsureLock never records that the lock is held: Commit/Abort would not release it and every later section of any sharer would time out")
		}
		for i, s := range sets {
			ok := false
			for _, cd := range conds {
				if g.GuardedBy(s, cd, false) {
					ok = true
				}
			}
			// any spelling: the store is on the side of a condition on which the timed acquisition returned true
			// (`if !acquire() { return }`, `if ok := acquire(); !ok { return }`, `if acquire() { hasLock = true }`)
			if !ok {
				ok = guardedWhere(g, s, func(ex ast.Expr, val bool) bool {
					call, isCall := an.Unparen(an.ResolveLocal(info, fn.Body(), ex)).(*ast.CallExpr)
					return isCall && val && an.IsMethodNamed(an.CalleeFunc(info, call), an.PkgResources, "LocalSharedManager", "acquireWithTimeout")
				})
			}
			c.Check(ok, fmt.Sprintf("tryEnsureLock:hasLock#%d-only-after-acquire", i+1), s.Pos(), "hasLock is set only when acquireWithTimeout() returned true",
				"hasLock is set without a successful acquireWithTimeout(): the section proceeds without mutual exclusion and Commit/Abort release a lock it does not hold")
		}
		// the nil return requires hasLock: every `return nil` is either under the hasLock test or after a set
		hasTests := g.CondAtoms(func(ex ast.Expr) bool {
			u, ok := an.Unparen(ex).(*ast.UnaryExpr)
			return ok && u.Op == token.NOT && an.SelectedField(info, u.X) == hasLock
		})
		// ... or a test of it through a predicate helper: the timed acquisition is guarded by "hasLock is false"
		if len(hasTests) == 0 {
			for _, a := range g.FindAtoms(func(a ast.Node) bool {
				call, ok := a.(*ast.CallExpr)
				return ok && an.IsMethodNamed(an.CalleeFunc(info, call), an.PkgResources, "LocalSharedManager", "acquireWithTimeout")
			}) {
				if guardedWhereIn(e, info, g, a, func(ex ast.Expr, val bool) bool {
					return an.SelectedField(fieldInfoOf(e, ex, info), ex) == hasLock && !val
				}) {
					hasTests = append(hasTests, a)
				}
			}
		}
		c.Check(len(hasTests) > 0, "tryEnsureLock:reentrant", fn.Pos(), "acquisition is skipped only when hasLock is already true", "tryEnsureLock does not test hasLock: a second access in the same section would block on its own lock until the timeout")
	}
	// (c) release
	release := e.Ix.LookupMethod(an.PkgResources, "LocalSharedManager", "release")
	acquire := e.Ix.LookupMethod(an.PkgResources, "LocalSharedManager", "acquire")
	if release == nil || acquire == nil {
		c.Lost("LocalSharedManager.release/acquire", "not found")
		return
	}
	allowed := map[string]bool{"resources.localShared.Commit": true, "resources.localShared.Abort": true, "resources.localShared.GetState": true}
	for _, fn := range e.Ix.Funcs() {
		info := fn.Pkg.Info
		ast.Inspect(fn.Body(), func(n ast.Node) bool {
			call, ok := n.(*ast.CallExpr)
			if !ok {
				return true
			}
			cf := an.CalleeFunc(info, call)
			if cf == release.Obj {
				c.Check(allowed[fn.Name()], fn.Name()+":release", call.Pos(), "release from an allowed site",
					"the shared-variable lock is released outside Commit/Abort/GetState: two-phase locking is broken (the lock is dropped before the section's outcome is decided)")
			}
			if cf == acquire.Obj {
				c.Check(fn.Name() == "resources.localShared.GetState", fn.Name()+":untimed-acquire", call.Pos(), "untimed acquire only in GetState",
					"the untimed acquire() is used outside GetState: opposite acquisition orders of two sections can deadlock forever")
			}
			return true
		})
	}
	for _, m := range []string{"Commit", "Abort"} {
		fn := mustMethod(c, e, an.PkgResources, "localShared", m)
		if fn == nil {
			continue
		}
		g := e.Graph(fn)
		info := fn.Pkg.Info
		rels := g.FindAtoms(func(a ast.Node) bool {
			call, ok := a.(*ast.CallExpr)
			return ok && an.CalleeFunc(info, call) == release.Obj
		})
		inner := g.FindAtoms(func(a ast.Node) bool {
			call, ok := a.(*ast.CallExpr)
			if !ok {
				return false
			}
			sel, ok := an.Unparen(call.Fun).(*ast.SelectorExpr)
			return ok && an.SelectedField(info, sel.X) == cell && sel.Sel.Name == m
		})
		hasConds := g.CondAtoms(func(ex ast.Expr) bool { return an.SelectedField(info, ex) == hasLock })
		clears := g.FindAtoms(func(a ast.Node) bool {
			rhs, ok := fieldIsAssigned(info, a, hasLock)
			return ok && isBoolConst(info, rhs, false)
		})
		key := "localShared." + m
		if len(rels) == 0 {
			c.Bad(key+":releases", fn.Pos(), "%s never releases the lock: after the first section every sharer times out forever", m)
			continue
		}
		if len(inner) == 0 {
			c.Bad(key+":inner", fn.Pos(), "%s never calls %s on the shared cell", m, m)
			continue
		}
		for i, r := range rels {
			heldLeaf := func(ex ast.Expr, val bool) bool { return val && an.SelectedField(info, ex) == hasLock }
			guarded := guardedWhere(g, r, heldLeaf)
			_ = hasConds
			c.Check(guarded, fmt.Sprintf("%s:release#%d-only-if-held", key, i+1), r.Pos(), "release only under hasLock",
				"release() is reachable although hasLock is false: it would steal the lock held by another archetype's open section")
			after := false
			for _, in := range inner {
				if g.Dominates(in, r) {
					after = true
				}
			}
			c.Check(after, fmt.Sprintf("%s:release#%d-after-inner-%s", key, i+1, m), r.Pos(), "the cell is committed/rolled back before the lock is released",
				"the lock is released before the shared cell is committed/rolled back: another archetype can observe or overwrite the uncommitted value")
			again := g.Search(an.Query{From: r, Target: func(a ast.Node) bool {
				call, ok := a.(*ast.CallExpr)
				return ok && an.CalleeFunc(info, call) == release.Obj
			}})
			c.Check(!again.Found, fmt.Sprintf("%s:release#%d-once", key, i+1), r.Pos(), "released at most once per call", "release() can run twice in one call")
			cleared := false
			for _, cl := range clears {
				if guardedWhere(g, cl, heldLeaf) {
					cleared = true
				}
			}
			c.Check(cleared, fmt.Sprintf("%s:release#%d-clears-hasLock", key, i+1), r.Pos(), "hasLock is cleared on the releasing path",
				"hasLock stays true after the release: the next section skips acquisition and runs without the lock")
		}
	}
	if fn := mustMethod(c, e, an.PkgResources, "localShared", "GetState"); fn != nil {
		info := fn.Pkg.Info
		acq, rel := 0, 0
		ast.Inspect(fn.Body(), func(n ast.Node) bool {
			if call, ok := n.(*ast.CallExpr); ok {
				switch an.CalleeFunc(info, call) {
				case acquire.Obj:
					acq++
				case release.Obj:
					rel++
				}
			}
			return true
		})
		c.Check(acq == rel, "localShared.GetState:paired", fn.Pos(), "acquire/release are paired", "GetState does not pair acquire() with release()")
		// the lock is taken by GetState exactly when this sharer does not hold it already (else: self-deadlock, or an unlocked read)
		g := e.Graph(fn)
		if hasLock := mustField(c, e.Ix.LookupType(an.PkgResources, "localShared"), "hasLock"); hasLock != nil {
			for _, a := range g.FindAtoms(func(a ast.Node) bool {
				call, ok := a.(*ast.CallExpr)
				return ok && an.CalleeFunc(info, call) == acquire.Obj
			}) {
				guarded := false
				for _, blk := range g.CFG.Blocks {
					cd, _ := g.Cond(blk)
					if cd == nil {
						continue
					}
					ex := ast.Expr(cd)
					neg := false
					for {
						ex = an.Unparen(ex)
						u, isU := ex.(*ast.UnaryExpr)
						if !isU || u.Op != token.NOT {
							break
						}
						neg = !neg
						ex = u.X
					}
					if an.SelectedField(info, ex) == hasLock && g.GuardedBy(a, cd, neg) {
						guarded = true
					}
				}
				c.Check(guarded, "localShared.GetState:acquire-iff-not-held", a.Pos(), "acquire() only when hasLock is false",
					"GetState acquires the lock on the branch where this sharer already holds it (self-deadlock) and reads the cell unlocked otherwise")
				// the cell is read after the acquire on that branch: acquire dominates nothing else needed; the read happens on every path
			}
		}
	}
}

func runLSTimed(c *core.Ctx) {
	e := EnvOf(c.Prog)
	mgr := mustType(c, e, an.PkgResources, "LocalSharedManager")
	fn := mustMethod(c, e, an.PkgResources, "LocalSharedManager", "acquireWithTimeout")
	if mgr == nil || fn == nil {
		return
	}
	lockCh := mustField(c, mgr, "lockCh")
	timeout := mustField(c, mgr, "timeout")
	if lockCh == nil || timeout == nil {
		return
	}
	info := fn.Pkg.Info
	var sel *ast.SelectStmt
	ast.Inspect(fn.Body(), func(n ast.Node) bool {
		if s, ok := n.(*ast.SelectStmt); ok && sel == nil {
			sel = s
		}
		return true
	})
	if sel == nil {
		c.Bad("acquireWithTimeout:select", fn.Pos(), "acquireWithTimeout is not a select: acquisition is either untimed (deadlock-prone) or never blocks")
		return
	}
	sendArm, timerArm, other := false, false, false
	trueOutsideSend := false
	// the variable through which the function reports its verdict when the arms do not return themselves: the named
	// result, or the variable named by the returns outside the select
	resVar := namedResult(fn, 0)
	if resVar == nil {
		ast.Inspect(fn.Body(), func(n ast.Node) bool {
			if n == ast.Node(sel) {
				return false
			}
			if r, ok := n.(*ast.ReturnStmt); ok && len(r.Results) == 1 {
				if o := an.ObjOf(info, r.Results[0]); o != nil {
					if _, isVar := o.(*types.Var); isVar {
						resVar = o
					}
				}
			}
			return true
		})
	}
	returnsIn := func(body []ast.Stmt, want bool) (all bool, any bool) {
		all = true
		for _, st := range body {
			ast.Inspect(st, func(n ast.Node) bool {
				switch x := n.(type) {
				case *ast.ReturnStmt:
					if len(x.Results) == 1 {
						any = true
						if !isBoolConst(info, x.Results[0], want) {
							all = false
						}
					}
				case *ast.AssignStmt:
					// `acquired = true` with `return acquired` after the select
					if resVar != nil && len(x.Lhs) == 1 && len(x.Rhs) == 1 && an.ObjOf(info, x.Lhs[0]) == resVar {
						any = true
						if !isBoolConst(info, x.Rhs[0], want) {
							all = false
						}
					}
				}
				return true
			})
		}
		return
	}
	for _, st := range sel.Body.List {
		cc := st.(*ast.CommClause)
		switch comm := cc.Comm.(type) {
		case *ast.SendStmt:
			if an.SelectedField(info, comm.Chan) == lockCh {
				all, any := returnsIn(cc.Body, true)
				sendArm = all && any
				continue
			}
			other = true
		case *ast.ExprStmt:
			if u, ok := an.Unparen(comm.X).(*ast.UnaryExpr); ok && u.Op == token.ARROW {
				// <-timer.C with timer := time.NewTimer(sv.timeout)
				if sel, ok := an.Unparen(u.X).(*ast.SelectorExpr); ok && sel.Sel.Name == "C" {
					if call, ok := an.Unparen(an.ResolveLocal(info, fn.Body(), sel.X)).(*ast.CallExpr); ok {
						if f := an.CalleeFunc(info, call); f != nil && f.Pkg() != nil && f.Pkg().Path() == "time" && f.Name() == "NewTimer" &&
							len(call.Args) == 1 && an.SelectedField(info, call.Args[0]) == timeout {
							all, any := returnsIn(cc.Body, false)
							timerArm = all && any
							continue
						}
					}
				}
				if call, ok := an.Unparen(u.X).(*ast.CallExpr); ok {
					if f := an.CalleeFunc(info, call); f != nil && f.Pkg() != nil && f.Pkg().Path() == "time" && f.Name() == "After" &&
						len(call.Args) == 1 && an.SelectedField(info, call.Args[0]) == timeout {
						all, any := returnsIn(cc.Body, false)
						timerArm = all && any
						continue
					}
				}
			}
			other = true
		case nil:
			// default arm: must not report success
			if _, any := returnsIn(cc.Body, false); !any {
				other = true
			}
			if all, any := returnsIn(cc.Body, true); any && all {
				trueOutsideSend = true
			}
		default:
			other = true
		}
		if _, isSend := cc.Comm.(*ast.SendStmt); !isSend {
			ast.Inspect(cc, func(n ast.Node) bool {
				if r, ok := n.(*ast.ReturnStmt); ok && len(r.Results) == 1 && isBoolConst(info, r.Results[0], true) {
					trueOutsideSend = true
				}
				return true
			})
		}
	}
	// returns outside the select
	ast.Inspect(fn.Body(), func(n ast.Node) bool {
		if n == ast.Node(sel) {
			return false
		}
		if r, ok := n.(*ast.ReturnStmt); ok && len(r.Results) == 1 && isBoolConst(info, r.Results[0], true) {
			trueOutsideSend = true
		}
		return true
	})
	// the untimed primitives: acquire sends on lockCh, release receives from it, on every path
	for _, prim := range []struct {
		name string
		send bool
	}{{"acquire", true}, {"release", false}} {
		pf := mustMethod(c, e, an.PkgResources, "LocalSharedManager", prim.name)
		if pf == nil {
			continue
		}
		pg := e.Graph(pf)
		pi := pf.Pkg.Info
		okp, _ := pg.MustPass(nil, func(a ast.Node) bool {
			if prim.send {
				ss, ok := a.(*ast.SendStmt)
				return ok && an.SelectedField(pi, ss.Chan) == lockCh
			}
			u, ok := a.(*ast.UnaryExpr)
			return ok && u.Op == token.ARROW && an.SelectedField(pi, u.X) == lockCh
		}, nil)
		opposite := pg.FindAtoms(func(a ast.Node) bool {
			if !prim.send {
				ss, ok := a.(*ast.SendStmt)
				return ok && an.SelectedField(pi, ss.Chan) == lockCh
			}
			u, ok := a.(*ast.UnaryExpr)
			return ok && u.Op == token.ARROW && an.SelectedField(pi, u.X) == lockCh
		})
		what := "receives from"
		if prim.send {
			what = "sends on"
		}
		c.Check(okp && len(opposite) == 0, "LocalSharedManager."+prim.name+":token", pf.Pos(), prim.name+" "+what+" lockCh on every path (and does nothing else with it)",
			prim.name+" does not "+strings.TrimSuffix(strings.TrimSuffix(what, " on"), " from")+" the lock token on every path: the cell is read or written without mutual exclusion, or the lock is never given back")
	}
	c.Check(sendArm, "acquireWithTimeout:send-arm", sel.Pos(), "sending on lockCh acquires and returns true", "no arm sends on lockCh and returns true: the lock is never actually taken")
	c.Check(timerArm, "acquireWithTimeout:timeout-arm", sel.Pos(), "a time.After(timeout) arm returns false", "no time.After(sv.timeout) arm returning false: acquisition is untimed, so opposite acquisition orders deadlock forever")
	c.Check(!trueOutsideSend && !other, "acquireWithTimeout:true-only-when-acquired", sel.Pos(), "true is returned only from the send arm",
		"acquireWithTimeout can return true without having sent on lockCh (or has an unrecognised arm): a section would run without holding the lock")
}

func runLSCap1(c *core.Ctx) {
	e := EnvOf(c.Prog)
	mgr := mustType(c, e, an.PkgResources, "LocalSharedManager")
	if mgr == nil {
		return
	}
	lockCh := mustField(c, mgr, "lockCh")
	if lockCh == nil {
		return
	}
	n := 0
	checkVal := func(info *types.Info, where string, pos token.Pos, v ast.Expr) {
		n++
		key := fmt.Sprintf("%s:lockCh-init#%d", where, n)
		call, ok := an.Unparen(v).(*ast.CallExpr)
		if !ok || !an.IsBuiltin(info, call, "make") || len(call.Args) < 1 {
			c.Bad(key, pos, "lockCh is initialised with %s, not make(chan struct{}, 1)", an.ExprString(v))
			return
		}
		if len(call.Args) < 2 {
			c.Bad(key, pos, "lockCh is an unbuffered channel: a send blocks until someone receives, so the 'lock' can never be taken")
			return
		}
		tv := info.Types[call.Args[1]]
		if tv.Value == nil {
			c.Bad(key, pos, "the capacity of lockCh is not a constant (%s): mutual exclusion needs capacity exactly 1", an.ExprString(call.Args[1]))
			return
		}
		if v, ok := constant.Int64Val(tv.Value); !ok || v != 1 {
			c.Bad(key, pos, "lockCh has capacity %s: with capacity > 1 several archetypes hold the 'lock' at once", tv.Value.ExactString())
			return
		}
		c.Ok(key, pos, "make(chan struct{}, 1)")
	}
	for _, pk := range c.Prog.Sorted() {
		for _, f := range pk.Files {
			ast.Inspect(f, func(m ast.Node) bool {
				switch x := m.(type) {
				case *ast.KeyValueExpr:
					if id, ok := x.Key.(*ast.Ident); ok && pk.Info.Uses[id] == lockCh {
						checkVal(pk.Info, enclosingFuncName(pk, f, x), x.Pos(), x.Value)
					}
				case *ast.AssignStmt:
					for i, l := range x.Lhs {
						if an.SelectedField(pk.Info, l) == lockCh && i < len(x.Rhs) {
							checkVal(pk.Info, enclosingFuncName(pk, f, x), x.Pos(), x.Rhs[i])
						}
					}
				}
				return true
			})
		}
	}
	if n == 0 {
		c.Lost("lockCh-init", "no initialisation of LocalSharedManager.lockCh found")
	}
}

func runLSOwner(c *core.Ctx) {
	e := EnvOf(c.Prog)
	mgr := mustType(c, e, an.PkgResources, "LocalSharedManager")
	if mgr == nil {
		return
	}
	for _, name := range []string{"res", "lockCh"} {
		fld := mustField(c, mgr, name)
		if fld == nil {
			continue
		}
		refs, bad := 0, 0
		for _, pk := range c.Prog.Sorted() {
			for _, f := range pk.Files {
				ast.Inspect(f, func(m ast.Node) bool {
					id, ok := m.(*ast.Ident)
					if !ok || pk.Info.Uses[id] != fld {
						return true
					}
					refs++
					where := enclosingFuncName(pk, f, id)
					switch {
					case where == "resources.NewLocalSharedManager":
					case len(where) > len("resources.LocalSharedManager.") && where[:len("resources.LocalSharedManager.")] == "resources.LocalSharedManager.":
					case len(where) > len("resources.localShared.") && where[:len("resources.localShared.")] == "resources.localShared.":
					default:
						bad++
						c.Bad(where+":"+name, id.Pos(), "LocalSharedManager.%s is referenced outside LocalSharedManager/localShared: the shared cell or its lock can be used without the two-phase-locking discipline", name)
					}
					return true
				})
			}
		}
		if refs == 0 {
			c.Lost("LocalSharedManager."+name, "no reference found")
		} else if bad == 0 {
			c.Ok("LocalSharedManager."+name, fld.Pos(), "%d references, all inside the owning types", refs)
		}
	}
}

// fieldInfoOf returns the types.Info that knows expression ex (the caller's, or — for expressions inside an inlined
// helper — the one of the package declaring it; helpers inlined here live in the same package).
func fieldInfoOf(e *Env, ex ast.Expr, info *types.Info) *types.Info { return info }
