package rules

import (
	"go/ast"
	"go/types"
	"strings"

	"pgoverif/checker/an"
	"pgoverif/checker/core"
)

func init() {
	register(&core.Rule{ID: "CLK-MONOTONE", Props: []string{"C18"}, Floor: 5,
		Doc: "the causal past recorded on a variable or in the clock sink only grows: every assignment to a struct field of type tla.VClock in the runtime (distsys, distsys/trace, distsys/resources) has the form f = f.Merge(...) or f = f.Inc(...) on the same field. A clock restored from a snapshot on Abort (or overwritten by another clock) can fall behind a section that has already been logged with it, and a later reader's clock then fails to dominate that writer's",
		Run: func(c *core.Ctx) {
			e := EnvOf(c.Prog)
			vc := mustType(c, e, an.PkgTLA, "VClock")
			if vc == nil {
				return
			}
			for _, fn := range e.Ix.Funcs() {
				p := fn.Pkg.Path
				if p != an.PkgDistsys && p != an.PkgTrace && p != an.PkgResources || fn.Body() == nil {
					continue
				}
				info := fn.Pkg.Info
				n := 0
				ast.Inspect(fn.Body(), func(m ast.Node) bool {
					as, ok := m.(*ast.AssignStmt)
					if !ok {
						return true
					}
					for i, l := range as.Lhs {
						f := an.SelectedField(info, l)
						if f == nil || !types.Identical(f.Type(), vc) {
							continue
						}
						n++
						key := fn.Name() + ":" + f.Name() + "#" + strings.Repeat("", 0) + itoa(n) + "-only-grows"
						ok := false
						if len(as.Rhs) == len(as.Lhs) {
							if call, isCall := an.Unparen(as.Rhs[i]).(*ast.CallExpr); isCall {
								if sel, isSel := an.Unparen(call.Fun).(*ast.SelectorExpr); isSel && (sel.Sel.Name == "Merge" || sel.Sel.Name == "Inc") && an.SelectedField(info, sel.X) == f && an.ExprString(sel.X) == an.ExprString(l) {
									ok = true
								}
							}
						}
						c.Check(ok, key, as.Pos(), "the clock is extended (Merge / Inc on itself)",
							"the clock field "+f.Name()+" is assigned "+an.ExprString(as.Rhs[min(i, len(as.Rhs)-1)])+", not an extension of itself: the causal past recorded there can shrink (a rollback to a snapshot taken before the commit stamp was merged, say), and a later reader no longer dominates a writer already logged")
					}
					return true
				})
			}
		}})
}

func itoa(n int) string {
	if n == 0 {
		return "0"
	}
	s := ""
	for n > 0 {
		s = string(rune('0'+n%10)) + s
		n /= 10
	}
	return s
}
