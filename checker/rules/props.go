package rules

// PropInfo describes what the rules of one property decide (written to evidence).
type PropInfo struct {
	ID          string
	Level       string
	Explanation string
	NotDecided  string
	Assumptions []string
}

var commonAssumptions = []string{
	"go/types, go/cfg (golang.org/x/tools v0.50.0) and the checker's own rule code are trusted",
	"only non-test packages of the go.work workspace are analysed; the Scala compiler is outside every check",
	"exception tables in the checker (one symbol + reason each) are correct",
}

var props = map[string]*PropInfo{}

func prop(p *PropInfo) { props[p.ID] = p }

// Prop returns the description of property id (nil if the property is not claimed).
func Prop(id string) *PropInfo { return props[id] }

// Claimed lists claimed property ids.
func Claimed() []string {
	var out []string
	for k := range props {
		out = append(out, k)
	}
	return out
}

func init() {
	prop(&PropInfo{ID: "C05", Level: "other",
		Explanation: "Decides structural necessary conditions of value coherence for all call sites of the 42 workspace packages: (VAL-IDENTITY) no Go identity (==, !=, switch, map key) is ever applied to a type containing the pointer-represented tla.Value; (PURE-UNUSED) no persistent-collection / clock update result is discarded; plus the gob and hashing shape rules listed under 'rules'. Every obligation is a (rule, construct) pair found in the current source. GOB-WHOLE: a hand-written GobEncode ships the whole value.",
		NotDecided:  "that Equal is an equivalence and Hash respects it on all values (algebra over run-time values); that String() re-parses; gob round-trip equality beyond the encode/decode shape agreement.",
		Assumptions: commonAssumptions})
	prop(&PropInfo{ID: "C11", Level: "other",
		Explanation: "Decides the transport-independence clause of the 2PC property statically: proposer ids and values that arrive over net/rpc are fresh pointers after gob decoding, so any Go-identity comparison or map lookup on tla.Value in the acceptor logic makes the RPC transport behave differently from the in-process one (an Abort is never honoured, the accepted pre-commit is never released). VAL-IDENTITY enumerates every ==/!=/switch/map-key site; the TPC-* rules check version monotonicity, release-on-failure and request-type exhaustiveness on the CFG of twopc.go.",
		NotDecided:  "agreement, single winner per version and progress under all message schedules (history properties); unsynchronised reads in Commit().",
		Assumptions: commonAssumptions})
	prop(&PropInfo{ID: "C12", Level: "other",
		Explanation: "Decides shape-level necessary conditions of the CRDT semilattice laws: (PURE-UNUSED) no update of a persistent map/list or clock computed in Merge/Write is discarded (a discarded Set in Merge loses the peer's state, so merge is not an upper bound); further MERGE-* rules are listed under 'rules'; (OPERAND-TRAVERSED) binary operations look at every component of every operand; (WRITE-UNCOND) set writes are recorded unconditionally; (GOB-FRESH) decode loops use a fresh destination. CRDT-DECISION (decision table of the value types) and GOB-WHOLE (nothing is filtered out of the wire form).",
		NotDecided:  "commutativity / associativity / idempotence of Merge on all reachable states and the declared read semantics (algebra over values).",
		Assumptions: commonAssumptions})
	prop(&PropInfo{ID: "C03", Level: "other",
		Explanation: "Decides necessary conditions of 'evaluates as TLA+ defines or fails loudly, never hangs' that are visible in the shape of package tla: (ITER-ADVANCE) every iterator loop advances the iterator it tests on every cycle (workspace-wide); further rules listed under 'rules'.",
		NotDecided:  "value-level correctness of every operator on every input; agreement with TLAExprInterpreter.scala beyond operator names and arity.",
		Assumptions: commonAssumptions})
}

func init() {
	prop(&PropInfo{ID: "C01", Level: "other",
		Explanation: "Decides the structural transaction protocol that makes critical sections atomic, for every ArchetypeResource implementation of the workspace (enumerated by types.Implements) and for the driver in distsys: who may call lifecycle methods (RES-OWNER), that every field written during a section is written by Abort and snapshot fields are maintained (RES-RESTORE), that wrappers and map resources forward and track dirty children (RES-FORWARD), that observable sinks are reachable only from Commit (RES-PUBLISH), the ordering obligations of Run/commit/abort and Read/Write on their control-flow graphs (CS-ORDER, CS-DIRTY), that the abort/done sentinels are never wrapped (ERR-SENTINEL) and that critical-section code never re-binds a live resource cell (RES-NOREBIND); that the error of every section-time operation stops the operation (ERR-PROPAGATE) and a failed I/O step never falls through to the success path inside a resource (IO-ERR); that forwarding resources and the driver keep and drain every channel a resource returns, never overwriting a refused pre-commit (RES-JOIN, CS-ORDER join clauses). Also: decision tables of the file element / persistent wrapper (STORE-DECISION), of the persistent log (PLOG-DECISION) and of local variables (LOCAL-RES); a failed wire operation ends the mailbox sender's connection (MB-CONN-DROP); OutputChan forgets what it sent (CH-DEFER); the CRDT merger folds only received state into the rollback snapshot (CRDT-SNAPSHOT); the hashmap lists every key (HASHMAP-KEYS); 2PC replies carry committed values only (TPC-COMMITTED-ONLY).",
		NotDecided:  "that each Abort restores the right value (only that it writes the field); socket-level delivery; timeouts; interaction of two contexts; the equality 'state after a failed attempt = state before' as a run-time fact.",
		Assumptions: commonAssumptions})
}

func init() {
	prop(&PropInfo{ID: "C04", Level: "other",
		Explanation: "Decides structural necessary conditions of PlusCal call/return semantics on the control-flow graphs of ArchetypeInterface.Call/Return/TailCall: live state-variable cells are never re-bound by section code (RES-NOREBIND: otherwise recursion saves zero values), the .stack cell is used as a sequence of frames (KIND-STACK), and the save/bind/push/preamble/goto and pop/restore orders hold on every path (CALL-ORDER).",
		NotDecided:  "value-correctness for all call graphs and argument values; by-reference aliasing through mapped resources; the generated call sites (their targets are checked by C02/JT-CLOSED).",
		Assumptions: commonAssumptions})
}

func init() {
	prop(&PropInfo{ID: "C07", Level: "other",
		Explanation: "Decides strict two-phase locking of the shared-variable resource as a typestate on the control-flow graphs of localShared and LocalSharedManager: the shared cell is touched only on the success successor of tryEnsureLock (LS-2PL), hasLock is set only after a successful timed acquisition, release happens only in Commit/Abort after the inner commit/abort, under hasLock, once, clearing hasLock; acquisition is a select with a timeout arm and returns true only from the send arm (LS-TIMED); the lock channel has constant capacity 1 (LS-CAP1); the cell and lock are private to the owning types (LS-OWNER).",
		NotDecided:  "serial equivalence of histories as such; fairness of lock acquisition; Persistent durability (recovery is unimplemented upstream).",
		Assumptions: commonAssumptions})
}

func init() {
	prop(&PropInfo{ID: "C06", Level: "other",
		Explanation: "Decides the structural clauses that make mailboxes and channel resources transactional FIFO links, on the control-flow graphs of every reader/writer type: the TCP receiver publishes a connection's buffer only on the commit tag after a successful ack, as one record, and resets it on begin and after publishing (MB-PUBLISH); Abort puts in-progress reads back in front of the backlog and both Abort and Commit clear them (MB-REDELIVER); ReadValue serves the backlog before the channel and records every returned message (MB-BACKLOGFIRST); the tag protocol is exhaustive and Begin/PreCommit/Commit are conditioned on the section flag (MB-TAGS); the resend buffer mirrors what was sent (MB-RESEND); OutputChan buffers until Commit and its asynchronous commit is joined (CH-DEFER, ASYNC-JOIN); the reported length counts pending messages only (MB-LEN); plus RES-RESTORE / RES-PUBLISH instances for these types. Also MB-DECISION, MB-CONN-DROP (a failed exchange ends the connection), ONESHOT-FRESH, DEADLINE-SCOPED, CH-DEFER forgets-sent-values.",
		NotDecided:  "order/loss/duplication over all interleavings as a history property; per-sender order across reconnects; duplication on lost commit acks (excluded by 'absent connection failure'); timing.",
		Assumptions: commonAssumptions})
}

func init() {
	prop(&PropInfo{ID: "C17", Level: "other",
		Explanation: "Decides the lifecycle protocol of MPCalContext on the control-flow graphs of Run, Stop and the nested-context adapter: the exit request is sent at most once (under the lock, flag tested and set on the same path, capacity 1) so Stop cannot block holding the lock Run's epilogue needs (STOP-ONCE); awaitExit is closed only under the lock and only once (CLOSE-ONCE: non-blocking-receive guard, or Run's epilogue, which is registered only for a context that never ran and was not stopped); every path of Stop waits for awaitExit outside the lock (STOP-WAITS); every loop iteration polls requestExit before BeginEvent/Body/commit (EXIT-POLL); cleanupResources closes every resource, exactly from the epilogue, errors merged (CLEANUP-ALL, RES-OWNER, RES-FORWARD for map elements); nested contexts report exactly once and are collected (NESTED-COUNT). The hashmap behind the map resources lists every key it stores, so Close reaches every element (HASHMAP-KEYS). RUN-OUTCOME: the runtime's wrappers hand on what Run returned. CLOSE-BOUNDED: Close waits on no counter that only protocol messages reset. No call runs between Run's gate and the registration of its epilogue.",
		NotDecided:  "exactly-once Close when the same object is bound under two handles; duration bounds of cleanup; behaviour of a second Run after the first finished beyond the panic gate.",
		Assumptions: commonAssumptions})
}

func init() {
	prop(&PropInfo{ID: "C13", Level: "other",
		Explanation: "Decides structural necessary conditions of 'every committed update is delivered, in-flight updates are never broadcast, aborted updates disappear, peer state is never lost' on crdt.go: every state sent to a peer is getStableValue(), which returns the snapshot exactly while a section writes, under the lock (CRDT-STABLE); the merger updates the snapshot too, so Abort cannot discard merged peer state (CRDT-SNAPSHOT); the broadcast budget is armed in Commit (CRDT-ARM); every received state is queued and only the merger drains the queue (CRDT-ENQUEUE); Abort restores every field the section operations write (RES-RESTORE). The merge rules of the value types (MERGE-COMPONENT, MERGE-MONO, OPERAND-TRAVERSED, CRDT-DECISION, GOB-WHOLE) are decided here too; every broadcast call has its own deadline (ONESHOT-FRESH); the snapshot is merged with the received state only.",
		NotDecided:  "eventual delivery and convergence (liveness over schedules and timing); peers that join late; the CRDT value algebra (C12).",
		Assumptions: commonAssumptions})
}

func init() {
	prop(&PropInfo{ID: "C19", Level: "other",
		Explanation: "Decides the structural clauses of failure-detector completeness and settling on the control-flow graphs of fd.go: RunArchetype stores alive before Run, finished/failed on every normal exit according to Run's error and failed on every path after a recovered panic (FD-EXITSTATE); every poll iteration of mainLoop stores a state, the three failure successors store the constant failed, a reply is stored only without error and timeout, ErrShutdown forces a re-dial, reply variable and completion channel are per-poll (FD-FAILBRANCH); ReadValue writes nothing, cannot wait longer than one Sleep(pullInterval), and maps uninitialized->abort, alive->FALSE, everything else->TRUE (FD-READ). The state locks of the detector and the monitor are held across field accesses only, so a read never waits for a dial or RPC (FD-LOCK-SHORT); the plumbing clauses of FD-WIRING. DEADLINE-SCOPED: no absolute deadline is left on a served connection; the rpc.ErrShutdown test is made for every RPC error; ONESHOT-FRESH.",
		NotDecided:  "the bound 'within k polling intervals', reachability of monitors, ordering of start events - timing and network behaviour.",
		Assumptions: commonAssumptions})
}

func init() {
	prop(&PropInfo{ID: "C18", Level: "other",
		Explanation: "Decides the structural clauses of faithful, causally consistent traces on the control-flow graphs of Run/commit/abort/Read/Write and the value carriers: each attempt is begun once and logged exactly once, commit events only past the pre-commit test and after all resource commits, abort events after all rollbacks (EV-PAIR); accesses are recorded only by Read/Write, only when the operation succeeded, with that operation's name, indices and value (EV-RECORD); the own clock component is incremented exactly once per attempt between BeginEvent and Body and the logged clock is the sink's clock at logging time (CLK-INC); Read witnesses the value's clock before stripping, Write wraps with the writer's clock (CLK-WITNESS); the old-value hint channel is armed/disarmed around WriteValue (HINT-PAIR); carriers attach the writer's clock at commit (CLK-COMMITSTAMP). The mailbox-length view merges the clocks of exactly the backlog it counts (LEN-CLOCK); decision tables of the recorder / clock plumbing and of local variables (TRACE-DECISION, LOCAL-RES, VAL-DECISION, VCLOCK-MERGE).",
		NotDecided:  "replayability of logged reads; dominance along multi-hop relays (value dependent); the JSON layout consumed by JSONToTLA.scala.",
		Assumptions: commonAssumptions})
}

func init() {
	prop(&PropInfo{ID: "C10", Level: "other",
		Explanation: "Decides the structural clauses of 'choices in range, every combination tried': NextFairnessCounter returns only a range-checked count and initialises digits modulo their ceiling (FC-RANGE); Run advances the oracle exactly once per attempt, between the .pc read and Body, keyed by that label (FC-BEGIN); the odometer increment starts at the deepest digit, visits every digit without early exit, stores digits modulo their ceilings and propagates the carry, label change resets, id/bound change truncates (FC-CARRY); in all generated code choice ids are distinct literals per critical section, either-switches cover exactly 0..n-1, with-selections use Len of the same set after the empty-set abort (FC-IDS).",
		NotDecided:  "the combinatorial claim itself (every tuple exactly once per product-of-bounds consecutive attempts) as a statement about run-time sequences.",
		Assumptions: commonAssumptions})
}

func init() {
	prop(&PropInfo{ID: "C02", Level: "translation_validation",
		Explanation: "Purely syntactic translation validation of every checked-in spec/Go pair: the MPCal block is parsed and normalised as the compiler's front end does, and each critical section (statement structure, every read/write target and index, every expression as its fully grouped parse tree: spec expressions are parsed with the front end's precedence table from TLAMeta.scala and junction lists by column, so regroupings are mismatches and redundant parentheses are not), each archetype/procedure table entry, each operator definition and each Goto/Call target is compared with what is recovered from the generated Go by inverting the code generator's templates. Neither artefact is executed and the Scala compiler is not needed.",
		NotDecided:  "the PlusCal back end and the BEGIN TRANSLATION text; run-time semantics of the distsys library calls (C01/C03/C04); the Scala compiler itself.",
		Assumptions: append([]string{"the re-implementation of MPCalNormalizePass and the inverted templates in checker/specmatch are faithful to pgo/src/trans (validated by agreement on all checked-in pairs)"}, commonAssumptions...)})
}

func init() {
	prop(&PropInfo{ID: "C08", Level: "other",
		Explanation: "(RAFT-FIDELITY) the server archetypes of the generated raftkvs.go, their table entries and the operator definitions are section by section the image of raftkvs.tla, so the implementation takes exactly the steps of the specification the invariants are model-checked for (client sections are ignored; this is the basis of the safety argument, not a logical necessary condition). Also decides one structural clause outside the generated code that the Raft safety invariants need: in raftkvs/bootstrap each of the 12 per-server state variables (state, currentTerm, log, commitIndex, nextIndex, matchIndex, votedFor, votesResponded, votesGranted, leader, sm, smDomain) is bound in all five archetype contexts of a server to MakeLocalShared() of one LocalSharedManager created once per server (RAFT-WIRING), and that shared cell is accessed under strict two-phase locking with a capacity-1 lock (LS-2PL, LS-CAP1). If e.g. votedFor were per-archetype, a server could vote for two candidates in one term. Fidelity of raftkvs.go to raftkvs.tla is reported under C02.",
		NotDecided:  "the invariants themselves (ElectionSafety, LogMatching, LeaderCompleteness, StateMachineSafety, LeaderAppendOnly) over all schedules: they need the spec-level argument (model checking) plus fidelity; nothing here decides them. RAFT-DECISION pins the specification's safety-critical decisions (quorum, vote granting, log-consistency check, commit rule, term adoption) so that a change made consistently in raftkvs.tla and raftkvs.go is still reported.",
		Assumptions: commonAssumptions})
}

func init() {
	const basis = " The rules of C01 (atomic critical sections) and C06 (reliable FIFO exactly-once links) are decided under this property too: the specification's invariants are argued for atomic labelled steps over such links, and the implementation inherits them only while the runtime provides both. Nothing here decides the invariant itself over all schedules: that needs the spec-level argument (model checking of the specification), of which these rules are the implementation-side half (the Go takes the specification's steps) plus a table that pins the specification's safety-critical decisions."
	prop(&PropInfo{ID: "C09", Level: "other",
		Explanation: "(KV-FIDELITY) every critical section of the generated Raft key-value store - servers and client -, every archetype table entry and every operator definition is the image of raftkvs.tla. (RAFT-DECISION) a protocol table over the specification itself: quorum = strict majority, vote granting (current term, up-to-date log compared with the voter's whole log, one vote per term), term adoption, the AppendEntries consistency check / truncate / append, match-index bookkeeping from acknowledgements, commit only of current-term entries agreed by a quorum, one-by-one application, a client is answered exactly when its entry is applied at the leader with the request's own index, the client numbers requests and drops responses whose index is not the current one, retries only on refusal / suspicion / timeout. Conditions are compared as boolean functions over their atoms (truth tables), so a change made consistently in the specification and the Go is still a mismatch. (RAFT-WIRING, LS-2PL, LS-CAP1) the per-server state, including the applied store sm / smDomain, is one copy shared by the server's five archetypes under strict 2PL.",
		NotDecided:  "linearizability of all concurrent histories (a predicate over histories, schedules and crashes); duplicate execution of retried requests (the specification itself does not deduplicate: observed, not decided)." + basis,
		Assumptions: commonAssumptions})
	prop(&PropInfo{ID: "C14", Level: "other",
		Explanation: "(PB-FIDELITY) every critical section, table entry and operator definition of the generated primary-backup store is the image of pbkvs.tla. (PB-DECISION) protocol table over the specification: the primary answers a Put only after every backup acknowledged or is detected as failed with nothing in flight, replication goes to every other replica, every Put gets the next version, a new primary synchronises (asks everyone, adopts strictly newer versions, repeats) before it serves, backups apply replicated Puts and only strictly newer synchronisation values, clients drop responses with a stale id and retry only on a detected failure. (RESP-RENDEZVOUS) the client front end's response channel is a rendezvous channel, so the late answer of an abandoned request cannot be handed to the next call.",
		NotDecided:  "ConsistencyOK and linearizability over all schedules and crash sequences; the stub leader election of the Go deployment." + basis,
		Assumptions: commonAssumptions})
	prop(&PropInfo{ID: "C15", Level: "other",
		Explanation: "(LOCK-FIDELITY) every critical section, table entry and operator definition of the generated lock service is the image of locksvc.tla. (LOCK-DECISION) protocol table over the specification: a request is granted at once exactly when the queue is empty, every requester is appended to the queue, an unlock removes the head and passes the lock to the new head if there is one, the server sends nothing else, a client enters only on a grant and marks itself holder in that step, releases before telling the server.",
		NotDecided:  "mutual exclusion and FIFO service over all interleavings and delivery orders." + basis,
		Assumptions: commonAssumptions})
	prop(&PropInfo{ID: "C16", Level: "other",
		Explanation: "(SYS-FIDELITY) every critical section, table entry and operator definition of the generated dqueue, load balancer, proxy, shared counter, gcounter, shopcart, nested-CRDT and replicated-KV systems is the image of its specification; in particular every assertion written in a specification is present, with the same condition, in the generated section. (SYS-DECISION) protocol tables over the specifications: the proxy accepts only the reply of the backend being tried for the request in hand, moves on only on a detected failure and reports failure only after the last backend; request/response pairing of the queue and the load balancer (own name, own mailbox, round robin, answer to the asking client); the nested CRDT's first-touch snapshot, merge-on-commit, broadcast of committed state only. The 2PC rules of C11 (the shared counter rests on the 2PC resource) and the CRDT value-type rules of C12 (counters never decrease, equal knowledge reads equal values) are decided under this property too.",
		NotDecided:  "the invariants (exactly-once hand-off in order, buffer bounds, proxy accuracy, counter total, convergence, monotonicity) over all schedules and crash sequences." + basis,
		Assumptions: commonAssumptions})
}
