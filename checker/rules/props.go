package rules

// PropInfo describes what the rules of one property decide (written to evidence).
type PropInfo struct {
	ID          string
	Level       string
	Explanation string
	NotDecided  string
	Assumptions []string
}

var commonAssumptions = []string{
	"go/types, go/cfg (golang.org/x/tools v0.50.0) and the checker's own rule code are trusted",
	"only non-test packages of the go.work workspace are analysed; the Scala compiler is outside every check",
	"exception tables in the checker (one symbol + reason each) are correct",
}

var props = map[string]*PropInfo{}

func prop(p *PropInfo) { props[p.ID] = p }

// Prop returns the description of property id (nil if the property is not claimed).
func Prop(id string) *PropInfo { return props[id] }

// Claimed lists claimed property ids.
func Claimed() []string {
	var out []string
	for k := range props {
		out = append(out, k)
	}
	return out
}

func init() {
	prop(&PropInfo{ID: "C05", Level: "other",
		Explanation: "Decides structural necessary conditions of value coherence for all call sites of the 42 workspace packages: (VAL-IDENTITY) no Go identity (==, !=, switch, map key) is ever applied to a type containing the pointer-represented tla.Value; (PURE-UNUSED) no persistent-collection / clock update result is discarded; plus the gob and hashing shape rules listed under 'rules'. Every obligation is a (rule, construct) pair found in the current source.",
		NotDecided:  "that Equal is an equivalence and Hash respects it on all values (algebra over run-time values); that String() re-parses; gob round-trip equality beyond the encode/decode shape agreement.",
		Assumptions: commonAssumptions})
	prop(&PropInfo{ID: "C11", Level: "other",
		Explanation: "Decides the transport-independence clause of the 2PC property statically: proposer ids and values that arrive over net/rpc are fresh pointers after gob decoding, so any Go-identity comparison or map lookup on tla.Value in the acceptor logic makes the RPC transport behave differently from the in-process one (an Abort is never honoured, the accepted pre-commit is never released). VAL-IDENTITY enumerates every ==/!=/switch/map-key site; the TPC-* rules check version monotonicity, release-on-failure and request-type exhaustiveness on the CFG of twopc.go.",
		NotDecided:  "agreement, single winner per version and progress under all message schedules (history properties); unsynchronised reads in Commit().",
		Assumptions: commonAssumptions})
	prop(&PropInfo{ID: "C12", Level: "other",
		Explanation: "Decides shape-level necessary conditions of the CRDT semilattice laws: (PURE-UNUSED) no update of a persistent map/list or clock computed in Merge/Write is discarded (a discarded Set in Merge loses the peer's state, so merge is not an upper bound); further MERGE-* rules are listed under 'rules'.",
		NotDecided:  "commutativity / associativity / idempotence of Merge on all reachable states and the declared read semantics (algebra over values).",
		Assumptions: commonAssumptions})
	prop(&PropInfo{ID: "C03", Level: "other",
		Explanation: "Decides necessary conditions of 'evaluates as TLA+ defines or fails loudly, never hangs' that are visible in the shape of package tla: (ITER-ADVANCE) every iterator loop advances the iterator it tests on every cycle (workspace-wide); further rules listed under 'rules'.",
		NotDecided:  "value-level correctness of every operator on every input; agreement with TLAExprInterpreter.scala beyond operator names and arity.",
		Assumptions: commonAssumptions})
}

func init() {
	prop(&PropInfo{ID: "C01", Level: "other",
		Explanation: "Decides the structural transaction protocol that makes critical sections atomic, for every ArchetypeResource implementation of the workspace (enumerated by types.Implements) and for the driver in distsys: who may call lifecycle methods (RES-OWNER), that every field written during a section is written by Abort and snapshot fields are maintained (RES-RESTORE), that wrappers and map resources forward and track dirty children (RES-FORWARD), that observable sinks are reachable only from Commit (RES-PUBLISH), the ordering obligations of Run/commit/abort and Read/Write on their control-flow graphs (CS-ORDER, CS-DIRTY), that the abort/done sentinels are never wrapped (ERR-SENTINEL) and that critical-section code never re-binds a live resource cell (RES-NOREBIND).",
		NotDecided:  "that each Abort restores the right value (only that it writes the field); socket-level delivery; timeouts; interaction of two contexts; the equality 'state after a failed attempt = state before' as a run-time fact.",
		Assumptions: commonAssumptions})
}

func init() {
	prop(&PropInfo{ID: "C04", Level: "other",
		Explanation: "Decides structural necessary conditions of PlusCal call/return semantics on the control-flow graphs of ArchetypeInterface.Call/Return/TailCall: live state-variable cells are never re-bound by section code (RES-NOREBIND: otherwise recursion saves zero values), the .stack cell is used as a sequence of frames (KIND-STACK), and the save/bind/push/preamble/goto and pop/restore orders hold on every path (CALL-ORDER).",
		NotDecided:  "value-correctness for all call graphs and argument values; by-reference aliasing through mapped resources; the generated call sites (their targets are checked by C02/JT-CLOSED).",
		Assumptions: commonAssumptions})
}

func init() {
	prop(&PropInfo{ID: "C07", Level: "other",
		Explanation: "Decides strict two-phase locking of the shared-variable resource as a typestate on the control-flow graphs of localShared and LocalSharedManager: the shared cell is touched only on the success successor of tryEnsureLock (LS-2PL), hasLock is set only after a successful timed acquisition, release happens only in Commit/Abort after the inner commit/abort, under hasLock, once, clearing hasLock; acquisition is a select with a timeout arm and returns true only from the send arm (LS-TIMED); the lock channel has constant capacity 1 (LS-CAP1); the cell and lock are private to the owning types (LS-OWNER).",
		NotDecided:  "serial equivalence of histories as such; fairness of lock acquisition; Persistent durability (recovery is unimplemented upstream).",
		Assumptions: commonAssumptions})
}

func init() {
	prop(&PropInfo{ID: "C06", Level: "other",
		Explanation: "Decides the structural clauses that make mailboxes and channel resources transactional FIFO links, on the control-flow graphs of every reader/writer type: the TCP receiver publishes a connection's buffer only on the commit tag after a successful ack, as one record, and resets it on begin and after publishing (MB-PUBLISH); Abort puts in-progress reads back in front of the backlog and both Abort and Commit clear them (MB-REDELIVER); ReadValue serves the backlog before the channel and records every returned message (MB-BACKLOGFIRST); the tag protocol is exhaustive and Begin/PreCommit/Commit are conditioned on the section flag (MB-TAGS); the resend buffer mirrors what was sent (MB-RESEND); OutputChan buffers until Commit and its asynchronous commit is joined (CH-DEFER, ASYNC-JOIN); the reported length counts pending messages only (MB-LEN); plus RES-RESTORE / RES-PUBLISH instances for these types.",
		NotDecided:  "order/loss/duplication over all interleavings as a history property; per-sender order across reconnects; duplication on lost commit acks (excluded by 'absent connection failure'); timing.",
		Assumptions: commonAssumptions})
}

func init() {
	prop(&PropInfo{ID: "C17", Level: "other",
		Explanation: "Decides the lifecycle protocol of MPCalContext on the control-flow graphs of Run, Stop and the nested-context adapter: the exit request is sent at most once (under the lock, flag tested and set on the same path, capacity 1) so Stop cannot block holding the lock Run's epilogue needs (STOP-ONCE); awaitExit is closed only under the lock and only once (CLOSE-ONCE: non-blocking-receive guard, or Run's epilogue, which is registered only for a context that never ran and was not stopped); every path of Stop waits for awaitExit outside the lock (STOP-WAITS); every loop iteration polls requestExit before BeginEvent/Body/commit (EXIT-POLL); cleanupResources closes every resource, exactly from the epilogue, errors merged (CLEANUP-ALL, RES-OWNER, RES-FORWARD for map elements); nested contexts report exactly once and are collected (NESTED-COUNT).",
		NotDecided:  "exactly-once Close when the same object is bound under two handles; duration bounds of cleanup; behaviour of a second Run after the first finished beyond the panic gate.",
		Assumptions: commonAssumptions})
}
