package rules

import (
	"go/ast"
	"go/types"

	"pgoverif/checker/an"
	"pgoverif/checker/core"
)

func init() {
	register(&core.Rule{ID: "FC-DELEGATE", Props: []string{"C10"}, Floor: 1,
		Doc: "every branching decision of generated code is drawn from the context's fairness counter: ArchetypeInterface.NextFairnessCounter returns, on every path, what the configured FairnessCounter answers for the same id and ceiling - no path answers from another source (a random draw, a constant), which would take that choice point out of the enumeration",
		Run: func(c *core.Ctx) {
			e := EnvOf(c.Prog)
			fn := mustMethod(c, e, an.PkgDistsys, "ArchetypeInterface", "NextFairnessCounter")
			ctxT := mustType(c, e, an.PkgDistsys, "MPCalContext")
			if fn == nil || ctxT == nil {
				return
			}
			fc := mustField(c, ctxT, "fairnessCounter")
			if fc == nil {
				return
			}
			info := fn.Pkg.Info
			var params []types.Object
			for _, fld := range fn.Type().Params.List {
				for _, nm := range fld.Names {
					params = append(params, info.Defs[nm])
				}
			}
			g := e.Graph(fn)
			delegates := func(ex ast.Expr) bool {
				call, ok := an.Unparen(ex).(*ast.CallExpr)
				if !ok || len(call.Args) != len(params) {
					return false
				}
				sel, ok := an.Unparen(call.Fun).(*ast.SelectorExpr)
				if !ok || sel.Sel.Name != "NextFairnessCounter" || an.SelectedField(info, sel.X) != fc {
					return false
				}
				for i, a := range call.Args {
					if an.ObjOf(info, a) != params[i] || params[i] == nil {
						return false
					}
				}
				return true
			}
			// parameters are not reassigned
			reassigned := false
			ast.Inspect(fn.Body(), func(n ast.Node) bool {
				switch x := n.(type) {
				case *ast.AssignStmt:
					for _, l := range x.Lhs {
						for _, p := range params {
							if o := an.ObjOf(info, l); o != nil && o == p {
								reassigned = true
							}
						}
					}
				case *ast.IncDecStmt:
					for _, p := range params {
						if o := an.ObjOf(info, x.X); o != nil && o == p {
							reassigned = true
						}
					}
				}
				return true
			})
			rets := g.FindAtoms(func(n ast.Node) bool { _, ok := n.(*ast.ReturnStmt); return ok })
			bad := ""
			if len(rets) == 0 {
				bad = "no return statement found"
			}
			for _, r := range rets {
				rs := r.(*ast.ReturnStmt)
				if len(rs.Results) != 1 {
					bad = "a return without the counter's answer"
					continue
				}
				res := rs.Results[0]
				// `v := counter.Next(...); return v`
				if id, ok := an.Unparen(res).(*ast.Ident); ok {
					if o := info.ObjectOf(id); o != nil {
						n := 0
						var def ast.Expr
						ast.Inspect(fn.Body(), func(m ast.Node) bool {
							if as, ok := m.(*ast.AssignStmt); ok && len(as.Lhs) == len(as.Rhs) {
								for i, l := range as.Lhs {
									if an.ObjOf(info, l) == o {
										n++
										def = as.Rhs[i]
									}
								}
							}
							return true
						})
						if n == 1 && def != nil {
							res = def
						}
					}
				}
				if !delegates(res) {
					bad = "a path returns " + types.ExprString(rs.Results[0]) + " instead of the fairness counter's answer for (id, ceiling)"
				}
			}
			if reassigned {
				bad = "id or ceiling is changed before the counter is asked"
			}
			pos := fn.Pos()
			if len(rets) > 0 {
				pos = rets[0].Pos()
			}
			c.Check(bad == "", "ArchetypeInterface.NextFairnessCounter:every-path-asks-the-counter", pos, "every path returns ctx.fairnessCounter.NextFairnessCounter(id, ceiling)", bad+": that choice point is no longer enumerated, so a branch (or set element) may never be tried however often the section is retried")
		}})
}
