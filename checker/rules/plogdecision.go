package rules

import (
	"go/ast"
	"go/token"
	"go/types"

	"pgoverif/checker/an"
	"pgoverif/checker/core"
)

func init() {
	register(&core.Rule{ID: "PLOG-DECISION", Props: []string{"C01", "C08"}, Floor: 10,
		Doc: "decision table of the Raft persistent log resource (systems/raftkvs, systems/raftres): a concat appends every entry to the in-memory log and queues a push at the index the entry lands on, a pop queues one delete per removed index and truncates the log by exactly cnt, Commit flushes the queued operations exactly when there are any and then forgets them, Index is 1-based and bounds-checked",
		Run: runPlogDecision})
}

func runPlogDecision(c *core.Ctx) {
	e := EnvOf(c.Prog)
	for _, pkg := range []string{an.ModPrefix + "systems/raftkvs", an.ModPrefix + "systems/raftres/raft"} {
		t := e.Ix.LookupType(pkg, "PersistentLog")
		if t == nil {
			c.Lost(an.ShortPkg(pkg)+".PersistentLog", "type not found")
			continue
		}
		listF, opsF := an.Field(t, "list"), an.Field(t, "ops")
		if listF == nil || opsF == nil {
			c.Lost(an.ShortPkg(pkg)+".PersistentLog fields", "list / ops not found")
			continue
		}
		storeCall := func(f *types.Var, method string) func(*types.Info, ast.Node) bool {
			return func(info *types.Info, n ast.Node) bool {
				rhs, ok := fieldIsAssigned(info, n, f)
				if !ok || rhs == nil {
					return false
				}
				call, isCall := an.Unparen(rhs).(*ast.CallExpr)
				if !isCall {
					return false
				}
				if method == "append" {
					return an.IsBuiltin(info, call, "append")
				}
				sel, isSel := an.Unparen(call.Fun).(*ast.SelectorExpr)
				return isSel && sel.Sel.Name == method
			}
		}
		kv := func(key string) func(*types.Info, ast.Node) bool {
			return func(info *types.Info, n ast.Node) bool {
				x, ok := n.(*ast.KeyValueExpr)
				if !ok {
					return false
				}
				id, ok := x.Key.(*ast.Ident)
				return ok && id.Name == key
			}
		}
		isConcat := "Equal(logConcat,value.ApplyFunction(tla.MakeString(\"cmd\")))"
		isPop := "Equal(logPop,value.ApplyFunction(tla.MakeString(\"cmd\")))"
		wb := []string{"vclock==nil", "$.hasOldList", isConcat, isPop, "it.Done()"}
		rows := []dtRow{
			{fn: "PersistentLog.WriteValue", key: "concat-appends", why: "every entry of a concat is appended to the in-memory log", find: storeCall(listF, "Append"), bools: wb,
				ref: func(a dtAtoms) bool { return a.B(isConcat) && !a.B("it.Done()") }},
			{fn: "PersistentLog.WriteValue", key: "concat-queues-push", why: "... and queued for the disk", find: func(info *types.Info, n ast.Node) bool {
				if !storeCall(opsF, "append")(info, n) {
					return false
				}
				found := false
				ast.Inspect(n, func(m ast.Node) bool {
					if id, ok := m.(*ast.Ident); ok && id.Name == "pushOp" {
						found = true
					}
					return true
				})
				return found
			}, bools: wb, ref: func(a dtAtoms) bool { return a.B(isConcat) && !a.B("it.Done()") }},
			{fn: "PersistentLog.WriteValue", key: "pop-truncates", why: "a pop truncates the in-memory log", find: storeCall(listF, "Slice"), bools: wb, ints: map[string]string{"i": "", "cnt": ""},
				ref: func(a dtAtoms) bool { return !a.B(isConcat) && a.B(isPop) && !(a.I("i") < a.I("cnt")) }},
			{fn: "PersistentLog.WriteValue", key: "pop-queues-delete-per-entry", why: "one delete per removed entry", find: func(info *types.Info, n ast.Node) bool {
				if !storeCall(opsF, "append")(info, n) {
					return false
				}
				found := false
				ast.Inspect(n, func(m ast.Node) bool {
					if id, ok := m.(*ast.Ident); ok && id.Name == "popOp" {
						found = true
					}
					return true
				})
				return found
			}, bools: wb, ints: map[string]string{"i": "", "cnt": ""}, ref: func(a dtAtoms) bool { return !a.B(isConcat) && a.B(isPop) && a.I("i") < a.I("cnt") }},
			{fn: "PersistentLog.Index", key: "bounds", why: "log indices are 1..Len", find: func(info *types.Info, n ast.Node) bool {
				call, ok := n.(*ast.CallExpr)
				return ok && an.IsBuiltin(info, call, "panic")
			}, ints: map[string]string{"listIndex": "", "$.list.Len()": ""}, ref: func(a dtAtoms) bool { return a.I("listIndex") < 0 || a.I("listIndex") >= a.I("$.list.Len()") }},
			{fn: "PersistentLog.Index", key: "one-based", why: "TLA+ sequence index i is list position i-1", find: func(info *types.Info, n ast.Node) bool {
				as, ok := n.(*ast.AssignStmt)
				return ok && as.Tok == token.DEFINE && len(as.Lhs) == 1 && an.ObjOf(info, as.Lhs[0]) != nil && an.ObjOf(info, as.Lhs[0]).Name() == "listIndex"
			}, valueOf: func(info *types.Info, n ast.Node) ast.Expr { return n.(*ast.AssignStmt).Rhs[0] },
				ints: map[string]string{"index.AsNumber()": ""}, refInt: func(a dtAtoms) int64 { return a.I("index.AsNumber()") - 1 }},
			{fn: "PersistentLog.Commit", key: "flushes-iff-queued", why: "queued operations reach the disk at commit", find: func(info *types.Info, n ast.Node) bool {
				call, ok := n.(*ast.CallExpr)
				if !ok {
					return false
				}
				f := an.CalleeFunc(info, call)
				return f != nil && f.Name() == "Flush"
			}, bools: []string{"$.hasOldList", "err==nil"}, ints: map[string]string{"len($.ops)": ""}, occ: false,
				ref: func(a dtAtoms) bool { return a.B("$.hasOldList") && a.I("len($.ops)") > 0 && a.B("err==nil") }},
			{fn: "PersistentLog.Commit", key: "forgets-queue", why: "flushed operations are not replayed by the next commit", find: func(info *types.Info, n ast.Node) bool {
				rhs, ok := fieldIsAssigned(info, n, opsF)
				return ok && rhs != nil && isNilIdent(info, rhs)
			}, bools: []string{"$.hasOldList", "err==nil"}, ints: map[string]string{"len($.ops)": ""},
				ref: func(a dtAtoms) bool { return a.B("$.hasOldList") && (!(a.I("len($.ops)") > 0) || a.B("err==nil")) }},
		}
		// positions of queued operations
		rows = append(rows,
			dtRow{fn: "PersistentLog.WriteValue", key: "push-index", why: "a pushed entry is stored under the index it has in the log", find: func(info *types.Info, n ast.Node) bool {
				if !kv("index")(info, n) {
					return false
				}
				// the push literal: its composite literal also has an `entry` key
				return true
			}, valueOf: func(info *types.Info, n ast.Node) ast.Expr { return n.(*ast.KeyValueExpr).Value }, optional: true,
				bools: wb, ints: map[string]string{"i": "", "cnt": "", "$.list.Len()": ""},
				refInt: func(a dtAtoms) int64 {
					if a.B(isConcat) {
						return a.I("$.list.Len()") - 1
					}
					return a.I("$.list.Len()") - a.I("i") - 1
				}})
		prefix := an.ShortPkg(pkg) + "/"
		// run with keys prefixed by the package (two copies of the resource exist)
		for i := range rows {
			rows[i].key = prefix + rows[i].key
		}
		runDecisionRows(c, e, pkg, "", rows)
	}
}
