// Package rules contains the repository-specific static rules. Each rule
// names the anchors it needs by (package path, type, method/field) and fails
// with an anchor-lost obligation when one no longer resolves.
package rules

import (
	"go/ast"
	"go/types"
	"sync"

	"golang.org/x/tools/go/cfg"

	"pgoverif/checker/an"
	"pgoverif/checker/core"
	"pgoverif/checker/load"
)

// Env caches per-program indices.
type Env struct {
	Prog *load.Program
	Ix   *an.Index
	Fx   *an.Effects
	mu   sync.Mutex
	gr   map[*ast.BlockStmt]*an.Graph
}

var envs sync.Map

func EnvOf(p *load.Program) *Env {
	if e, ok := envs.Load(p); ok {
		return e.(*Env)
	}
	ix := an.NewIndex(p)
	e := &Env{Prog: p, Ix: ix, Fx: an.NewEffects(ix), gr: map[*ast.BlockStmt]*an.Graph{}}
	envs.Store(p, e)
	return e
}

// Forget drops the cached environment of a (mutated) program.
func Forget(p *load.Program) { envs.Delete(p) }

// Graph returns (and caches) the CFG graph of a function.
func (e *Env) Graph(f *an.Func) *an.Graph {
	e.mu.Lock()
	defer e.mu.Unlock()
	if g, ok := e.gr[f.Body()]; ok {
		return g
	}
	g := an.NewGraph(f.Body(), f.Pkg.Info)
	e.gr[f.Body()] = g
	return g
}

// GraphOfLit builds the graph of a function literal inside package pk.
func (e *Env) GraphOfLit(pk *load.Package, lit *ast.FuncLit) *an.Graph {
	e.mu.Lock()
	defer e.mu.Unlock()
	if g, ok := e.gr[lit.Body]; ok {
		return g
	}
	g := an.NewGraph(lit.Body, pk.Info)
	e.gr[lit.Body] = g
	return g
}

var registry []*core.Rule

func register(r *core.Rule) { registry = append(registry, r) }

// extraProps: rules written for one property that also decide a necessary part of another (added after registration so
// that the rule files keep the property they were written for).
var extraProps = map[string][]string{
	// C09 (linearizable Raft store): the per-server state is one copy shared by the five archetypes, under 2PL
	"RAFT-WIRING": {"C09"}, "LS-2PL": {"C09", "C01"}, "LS-CAP1": {"C09"}, // C01: a shared cell is ended only by the handle that holds it
	// C02: the driver's part of a step (what a critical section's outcome leads to) belongs to "takes exactly the steps"
	"CS-ORDER": {"C02", "C18", "C17"},
	// C03: `=` is an operator too - equality of the value kinds is decided under "operators evaluate as TLA+ defines"
	"VAL-DECISION": {"C03"}, "DATA-ENCAPSULATED": {"C03"}, "EQ-NILSAFE": {"C03"}, "CS-DIRTY": {"C02"}, "ERR-PROPAGATE": {"C02"}, "RES-NOREBIND": {"C02"},
	// C16: the shared counter rests on the 2PC resource, the CRDT systems on the CRDT value types
	"TPC-ACCEPTOR": {"C16"}, "TPC-DECISION": {"C16"}, "TPC-VERSION": {"C16"}, "TPC-RELEASE": {"C16"}, "TPC-EXHAUST": {"C16"},
	"TPC-POISON": {"C16"}, "TPC-RETRY": {"C16"}, "TPC-COMMITTED-ONLY": {"C16"},
	"CRDT-DECISION": {"C16"}, "MERGE-COMPONENT": {"C16"}, "MERGE-MONO": {"C16"}, "OPERAND-TRAVERSED": {"C16"},
	"WRITE-UNCOND": {"C16"}, "WRITE-INFLATES": {"C16"}, "MERGE-PURE": {"C16"},
	// C06: the mailboxes of one node are elements of an IncMap, which commits / aborts the elements its key list names
	"MB-CONN-DROP": {"C17"}, // a connection closed after a failed exchange but still held is closed again by Close: Run's clean-up reports an error
	"HASHMAP-KEYS": {"C06", "C02", "C07"}, "HASHMAP-EQ": {"C06"}, // C07: shared variables in one IncMap are committed / released through the key list
	// C02: "the same variable updates" - the values a step assigns are computed by the operator library, so the rules that
	// decide what the built-in operators compute (C03) decide a necessary part of C02 as well
	"OVERRIDE-DIR": {"C02"}, "OP-DECISION": {"C02"}, "OP-RELATION": {"C02"}, "DIVMOD-FLOOR": {"C02"}, "SEQ-BOUNDS": {"C02"},
	"INDEX-BASE": {"C02"}, "FUNC-DECISION": {"C02"}, "SELECT-DECISION": {"C02"}, "ARITH-CHECKED": {"C02"},
	// C04: the procedure variables, .stack and .pc are local resources; Return + Call write them several times in one section
	"SNAPSHOT-ONCE": {"C04"}, "LOCAL-RES": {"C04"},
}

var extraApplied bool

// All returns every registered rule.
func All() []*core.Rule {
	if !extraApplied {
		extraApplied = true
		for _, r := range registry {
			for _, p := range extraProps[r.ID] {
				if !r.HasProp(p) {
					r.Props = append(r.Props, p)
				}
			}
			// the invariants of the generated systems are argued for specifications whose labelled blocks are atomic steps
			// and whose links are reliable FIFO exactly-once: the implementation inherits them only while the runtime's
			// critical sections are atomic (the rules of C01) and its mailboxes / channels behave as modelled (C06)
			if r.HasProp("C01") || r.HasProp("C06") {
				for _, p := range []string{"C08", "C09", "C14", "C15", "C16"} {
					if !r.HasProp(p) {
						r.Props = append(r.Props, p)
					}
				}
			}
		}
	}
	return registry
}

// mustFunc resolves a package-level function or reports the anchor as lost.
func mustFunc(c *core.Ctx, e *Env, pkg, name string) *an.Func {
	f := e.Ix.LookupFunc(pkg, name)
	if f == nil {
		c.Lost(core.ShortPath(pkg)+"."+name, "function %s.%s not found", pkg, name)
	}
	return f
}

// mustMethod resolves a method declared on pkg.typ or reports the anchor as lost.
func mustMethod(c *core.Ctx, e *Env, pkg, typ, name string) *an.Func {
	f := e.Ix.LookupMethod(pkg, typ, name)
	if f == nil {
		c.Lost(core.ShortPath(pkg)+"."+typ+"."+name, "method %s.%s.%s not found", pkg, typ, name)
	}
	return f
}

func mustType(c *core.Ctx, e *Env, pkg, name string) *types.Named {
	n := e.Ix.LookupType(pkg, name)
	if n == nil {
		c.Lost(core.ShortPath(pkg)+"."+name, "type %s.%s not found", pkg, name)
	}
	return n
}

func mustField(c *core.Ctx, n *types.Named, name string) *types.Var {
	if n == nil {
		return nil
	}
	f := an.Field(n, name)
	if f == nil {
		c.Lost(an.TypeKey(n)+"."+name, "field %s of %s not found", name, an.TypeKey(n))
	}
	return f
}

// tlaValue returns the named type tla.Value.
func tlaValue(e *Env) *types.Named { return e.Ix.LookupType(an.PkgTLA, "Value") }

// containsValue reports whether comparing/hashing a value of type t by Go
// identity would compare a tla.Value by identity.
func containsValue(t types.Type, val *types.Named, depth int) bool {
	if depth > 6 || t == nil || val == nil {
		return false
	}
	t = types.Unalias(t)
	if n, ok := t.(*types.Named); ok {
		if n.Origin() == val.Origin() || (n.Obj() == val.Obj()) {
			return true
		}
	}
	switch u := t.Underlying().(type) {
	case *types.Struct:
		for i := 0; i < u.NumFields(); i++ {
			if containsValue(u.Field(i).Type(), val, depth+1) {
				return true
			}
		}
	case *types.Array:
		return containsValue(u.Elem(), val, depth+1)
	}
	return false
}

// enclosingFuncName names the declaration enclosing pos in file f.
func enclosingFuncName(pk *load.Package, f *ast.File, n ast.Node) string {
	for _, d := range f.Decls {
		if d.Pos() <= n.Pos() && n.End() <= d.End() {
			if fd, ok := d.(*ast.FuncDecl); ok {
				if obj, ok := pk.Info.Defs[fd.Name].(*types.Func); ok {
					return an.FuncName(obj)
				}
				return fd.Name.Name
			}
			if gd, ok := d.(*ast.GenDecl); ok {
				for _, s := range gd.Specs {
					if s.Pos() <= n.Pos() && n.End() <= s.End() {
						switch sp := s.(type) {
						case *ast.TypeSpec:
							return core.ShortPath(pk.Path) + "." + sp.Name.Name
						case *ast.ValueSpec:
							if len(sp.Names) > 0 {
								return core.ShortPath(pk.Path) + "." + sp.Names[0].Name
							}
						}
					}
				}
			}
		}
	}
	return core.ShortPath(pk.Path)
}

type cfgBlock = cfg.Block
