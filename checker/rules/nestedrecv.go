package rules

import (
	"go/ast"
	"go/token"

	"pgoverif/checker/an"
	"pgoverif/checker/core"
)

func init() {
	register(&core.Rule{ID: "NESTED-COLLECT", Props: []string{"C17"}, Floor: 1,
		Doc: "the exit reports of the nested contexts are collected by Close alone: every nested Run sends exactly one value on ctxErrCh and Close waits for exactly one value per context, so a receive from ctxErrCh anywhere else takes a value Close will wait for in vain - the parent's clean-up, its Run and every Stop then hang",
		Run: func(c *core.Ctx) {
			e := EnvOf(c.Prog)
			t := mustType(c, e, an.PkgResources, "nestedArchetype")
			if t == nil {
				return
			}
			ch := mustField(c, t, "ctxErrCh")
			if ch == nil {
				return
			}
			inClose := 0
			for _, fn := range e.Ix.Funcs() {
				if fn.Pkg.Path != an.PkgResources || fn.Body() == nil {
					continue
				}
				info := fn.Pkg.Info
				isClose := an.IsMethodNamed(fn.Obj, an.PkgResources, "nestedArchetype", "Close")
				ast.Inspect(fn.Body(), func(m ast.Node) bool {
					recv := false
					switch x := m.(type) {
					case *ast.UnaryExpr:
						recv = x.Op == token.ARROW && an.SelectedField(info, x.X) == ch
					case *ast.RangeStmt:
						recv = an.SelectedField(info, x.X) == ch
					}
					if !recv {
						return true
					}
					if isClose {
						inClose++
					} else {
						c.Bad(fn.Name()+":receives-an-exit-report", m.Pos(), "%s receives from ctxErrCh: Close waits for one exit report per nested context, and a report taken here is one it waits for for ever", fn.Name())
					}
					return true
				})
			}
			if inClose == 0 {
				c.Lost("nestedArchetype.Close:collects-exit-reports", "no receive from ctxErrCh found in Close")
			} else {
				c.Ok("nestedArchetype.Close:collects-exit-reports", token.NoPos, "the exit reports are received in Close (%d site(s)) and nowhere else", inClose)
			}
		}})
}
