package rules

// Seed is a single-site breakage used to test a rule's sensitivity: the file
// content is edited in memory (Old must occur exactly once), the affected
// packages are re-type-checked, and the rule must then report a violation whose
// key contains Expect. Seeds never touch /repo and never influence the exit code
// of a check (a stale seed only means the sensitivity claim is unproven on this tree).
type Seed struct {
	Name   string
	Prop   string
	Rule   string
	File   string // path relative to the repository root
	Old    string
	New    string
	Expect string // substring of the violating construct key
}

var seeds []Seed

func seed(s Seed) { seeds = append(seeds, s) }

// Seeds returns all registered seeds.
func Seeds() []Seed { return seeds }
