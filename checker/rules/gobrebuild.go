package rules

import (
	"fmt"
	"go/ast"
	"go/types"

	"golang.org/x/tools/go/cfg"

	"pgoverif/checker/an"
	"pgoverif/checker/core"
)

func init() {
	register(&core.Rule{ID: "GOB-REBUILD", Props: []string{"C05", "C12", "C13"}, Floor: 12,
		Doc: "a hand-written GobDecode rebuilds the whole value: every iteration of a decode (or copy) loop that goes on to the next one has stored the element it decoded into the collection being built, and every successful return is preceded by the assignment of each collection-typed field of the receiver - a decoded value that silently lacks elements differs from the one that was sent",
		Run: runGobRebuild})
}

func runGobRebuild(c *core.Ctx) {
	e := EnvOf(c.Prog)
	n := 0
	for _, pk := range c.Prog.Sorted() {
		sc := pk.Types.Scope()
		for _, name := range sc.Names() {
			tn, ok := sc.Lookup(name).(*types.TypeName)
			if !ok || tn.IsAlias() {
				continue
			}
			nt, ok := tn.Type().(*types.Named)
			if !ok {
				continue
			}
			fn := e.Ix.MethodDecl(nt, "GobDecode")
			if fn == nil || fn.Body() == nil {
				continue
			}
			info := fn.Pkg.Info
			g := e.Graph(fn)
			key := an.TypeKey(nt)
			stores := func(a ast.Node) bool {
				switch x := a.(type) {
				case *ast.CallExpr:
					if sel, ok := an.Unparen(x.Fun).(*ast.SelectorExpr); ok && (sel.Sel.Name == "Set" || sel.Sel.Name == "Append") {
						return true
					}
				case *ast.AssignStmt:
					if len(x.Rhs) == 1 {
						if call, ok := an.Unparen(x.Rhs[0]).(*ast.CallExpr); ok {
							if an.IsBuiltin(info, call, "append") {
								return true
							}
							if sel, ok := an.Unparen(call.Fun).(*ast.SelectorExpr); ok && (sel.Sel.Name == "Set" || sel.Sel.Name == "Append") {
								return true
							}
						}
					}
				}
				return false
			}
			k := 0
			ast.Inspect(fn.Body(), func(m ast.Node) bool {
				var body *ast.BlockStmt
				var bb *cfg.Block
				switch x := m.(type) {
				case *ast.ForStmt:
					body, bb = x.Body, g.BlockOfStmt(x, cfg.KindForBody)
				case *ast.RangeStmt:
					body, bb = x.Body, g.BlockOfStmt(x, cfg.KindRangeBody)
				default:
					return true
				}
				// loops that build something
				builds := false
				ast.Inspect(body, func(y ast.Node) bool {
					if stores(y) {
						builds = true
					}
					if call, ok := y.(*ast.CallExpr); ok {
						if f := an.CalleeFunc(info, call); f != nil && f.Name() == "Decode" {
							builds = true
						}
					}
					return true
				})
				if !builds {
					return true
				}
				k++
				n++
				ok := bb != nil && g.PassesWithinUnlessExit(bb, body.Pos(), body.End(), stores)
				c.Check(ok, fmt.Sprintf("%s.GobDecode:loop#%d-keeps-every-element", key, k), m.Pos(), "every iteration that continues has stored its element",
					"an iteration of the decode loop can go on to the next element without storing the one it decoded: the decoded value lacks entries that were sent")
				return true
			})
			// every collection-typed field of the receiver is assigned before a successful return
			st, isStruct := nt.Underlying().(*types.Struct)
			if !isStruct {
				continue
			}
			for i := 0; i < st.NumFields(); i++ {
				f := st.Field(i)
				hasIter := false
				for _, t := range []types.Type{f.Type(), types.NewPointer(f.Type())} {
					ms := types.NewMethodSet(t)
					for j := 0; j < ms.Len(); j++ {
						if ms.At(j).Obj().Name() == "Iterator" {
							hasIter = true
						}
					}
				}
				if !hasIter {
					continue
				}
				n++
				assigns := func(a ast.Node) bool {
					as, ok := a.(*ast.AssignStmt)
					if !ok {
						return false
					}
					for _, l := range as.Lhs {
						if sf := an.SelectedField(info, l); sf != nil && (sf == f || sf.Origin() == f.Origin()) {
							return true
						}
					}
					return false
				}
				bad := false
				for _, r := range g.FindAtoms(func(a ast.Node) bool {
					rs, ok := a.(*ast.ReturnStmt)
					return ok && len(rs.Results) == 1 && isNilIdent(info, rs.Results[0])
				}) {
					if g.Search(an.Query{Target: func(y ast.Node) bool { return y == r }, Avoid: assigns}).Found {
						bad = true
					}
				}
				c.Check(!bad, fmt.Sprintf("%s.GobDecode:installs-%s", key, f.Name()), fn.Pos(), "the rebuilt component is assigned before every successful return",
					"GobDecode can return nil without assigning the field "+f.Name()+": the receiver keeps its previous (or empty) content although decoding 'succeeded'")
			}
		}
	}
	if n == 0 {
		c.Lost("GobDecode methods", "no hand-written GobDecode with a loop found")
	}
}
