package rules

import (
	"go/ast"
	"go/token"
	"go/types"

	"pgoverif/checker/an"
	"pgoverif/checker/core"
)

// VAL-DECISION: decision table of value equality and of the vector-clock algebra (package tla). Equality of two TLA+
// values must be decided from their kind, their size and their members in both directions; a merged clock takes the
// larger component. Same machinery as TPC-DECISION / OP-DECISION (guards only, nothing is executed).

func init() {
	register(&core.Rule{ID: "VAL-DECISION", Props: []string{"C05", "C18"}, Floor: 15,
		Doc: "decision table of tla.Value equality (nil handling, kind test, size test, member tests in both directions, element-wise comparison) and of tla.VClock (Merge keeps the larger component, Inc adds one, absent components read 0)",
		Run: runValDecision})
}

func runValDecision(c *core.Ctx) {
	e := EnvOf(c.Prog)
	// VClock.Merge: its parameter, and the variables that receive a looked-up component (first result of a `.Get(` call)
	var vclockMergeParam *types.Var
	vclockLookupVars := map[types.Object]bool{}
	if fn := e.Ix.LookupMethod(an.PkgTLA, "VClock", "Merge"); fn != nil && fn.Body() != nil {
		info := fn.Pkg.Info
		if ps := fn.Decl.Type.Params.List; len(ps) == 1 && len(ps[0].Names) == 1 {
			vclockMergeParam, _ = info.Defs[ps[0].Names[0]].(*types.Var)
		}
		ast.Inspect(fn.Body(), func(m ast.Node) bool {
			as, ok := m.(*ast.AssignStmt)
			if !ok || len(as.Lhs) != 2 || len(as.Rhs) != 1 {
				return true
			}
			if call, isCall := an.Unparen(as.Rhs[0]).(*ast.CallExpr); isCall {
				if sel, isSel := an.Unparen(call.Fun).(*ast.SelectorExpr); isSel && sel.Sel.Name == "Get" {
					if o := an.ObjOf(info, as.Lhs[0]); o != nil {
						vclockLookupVars[o] = true
					}
				}
			}
			return true
		})
	}
	retBool := func(v bool) func(*types.Info, ast.Node) bool {
		return func(info *types.Info, n ast.Node) bool {
			r, ok := n.(*ast.ReturnStmt)
			return ok && len(r.Results) == 1 && isBoolConst(info, r.Results[0], v)
		}
	}
	retCall := func(info *types.Info, n ast.Node) bool {
		r, ok := n.(*ast.ReturnStmt)
		if !ok || len(r.Results) != 1 {
			return false
		}
		_, isCall := an.Unparen(r.Results[0]).(*ast.CallExpr)
		return isCall
	}
	retExpr := func(info *types.Info, fn *an.Func) ast.Expr { return singleReturn(fn) }
	rows := []dtRow{
		{fn: "Value.Equal", key: "both-absent", why: "two absent values (defaultInitValue slots) are equal", find: retBool(true), bools: []string{"$.data==nil", "other.data==nil"},
			ref: func(a dtAtoms) bool { return a.B("$.data==nil") && a.B("other.data==nil") }},
		{fn: "Value.Equal", key: "one-absent", why: "an absent value equals no present value", find: retBool(false), bools: []string{"$.data==nil", "other.data==nil"},
			ref: func(a dtAtoms) bool { return a.B("$.data==nil") != a.B("other.data==nil") }},
		{fn: "Value.Equal", key: "delegates", why: "two present values are compared by their kind's Equal", find: retCall, bools: []string{"$.data==nil", "other.data==nil"},
			ref: func(a dtAtoms) bool { return !a.B("$.data==nil") && !a.B("other.data==nil") }},
		{fn: "valueBool.Equal", key: "same-kind-same-truth", why: "booleans are equal iff both are booleans with the same truth value", exprOf: retExpr,
			bools: []string{"other.IsBool()", "$.V", "other.AsBool()"}, ref: func(a dtAtoms) bool { return a.B("other.IsBool()") && a.B("$.V") == a.B("other.AsBool()") }},
		{fn: "valueNumber.Equal", key: "same-kind-same-number", why: "numbers are equal iff both are numbers with the same value", exprOf: retExpr,
			bools: []string{"other.IsNumber()"}, ints: map[string]string{"$.AsNumber()": "", "other.AsNumber()": ""},
			ref: func(a dtAtoms) bool { return a.B("other.IsNumber()") && a.I("$.AsNumber()") == a.I("other.AsNumber()") }},
		{fn: "valueString.Equal", key: "same-kind-same-text", why: "strings are equal iff both are strings with the same text", exprOf: retExpr,
			bools: []string{"other.IsString()", "$.AsString()==other.AsString()"}, ref: func(a dtAtoms) bool { return a.B("other.IsString()") && a.B("$.AsString()==other.AsString()") }},
		{fn: "valueSet.Equal", key: "unequal", occ: true, why: "sets differ iff the other is no set, the sizes differ, or a member of either is missing from the other", find: retBool(false),
			bools: []string{"other.IsSet()", "it.Done()#1", "it.Done()#2", "ok#1", "ok#2"}, ints: map[string]string{"c.Len()": "", "oC.Len()": ""},
			ref: func(a dtAtoms) bool {
				if !a.B("other.IsSet()") || a.I("c.Len()") != a.I("oC.Len()") {
					return true
				}
				if !a.B("it.Done()#1") {
					return !a.B("ok#1")
				}
				return !a.B("it.Done()#2") && !a.B("ok#2")
			}},
		{fn: "valueSet.Equal", key: "equal", occ: true, why: "... and are equal once both directions were exhausted", find: retBool(true),
			bools: []string{"other.IsSet()", "it.Done()#1", "it.Done()#2", "ok#1", "ok#2"}, ints: map[string]string{"c.Len()": "", "oC.Len()": ""},
			ref: func(a dtAtoms) bool {
				return a.B("other.IsSet()") && a.I("c.Len()") == a.I("oC.Len()") && a.B("it.Done()#1") && a.B("it.Done()#2")
			}},
		{fn: "valueTuple.Equal", key: "unequal", why: "tuples differ iff the other is no tuple, the lengths differ, or two elements at the same position differ", find: retBool(false),
			bools: []string{"other.IsTuple()", "it1.Done()", "it2.Done()", "Equal(elem1,elem2)"}, ints: map[string]string{"tuple.Len()": "", "otherTuple.Len()": ""},
			ref: func(a dtAtoms) bool {
				if !a.B("other.IsTuple()") || a.I("tuple.Len()") != a.I("otherTuple.Len()") {
					return true
				}
				return !a.B("it1.Done()") && !a.B("it2.Done()") && !a.B("Equal(elem1,elem2)")
			}},
		{fn: "valueFunction.Equal", key: "unequal", why: "functions differ iff the other is no function, the domains differ in size, a key is missing, or two values under the same key differ", find: retBool(false),
			bools: []string{"other.IsFunction()", "it.Done()", "ok", "Equal(otherValue,value)"}, ints: map[string]string{"function.Len()": "", "otherFunction.Len()": ""},
			ref: func(a dtAtoms) bool {
				if !a.B("other.IsFunction()") || a.I("function.Len()") != a.I("otherFunction.Len()") {
					return true
				}
				return !a.B("it.Done()") && (!a.B("ok") || !a.B("Equal(otherValue,value)"))
			}},
		{fn: ".MakeBool", key: "true-is-TRUE", why: "the Go truth value maps to the TLA+ constant of the same name", find: func(info *types.Info, n ast.Node) bool {
			r, ok := n.(*ast.ReturnStmt)
			if !ok || len(r.Results) != 1 {
				return false
			}
			o := an.ObjOf(info, r.Results[0])
			return o != nil && o.Name() == "ModuleTRUE"
		}, bools: []string{"v"}, ref: func(a dtAtoms) bool { return a.B("v") }},
		{fn: "Value.ApplyFunction", key: "tuple-index-range", why: "sequences are indexed 1..Len", exprOf: func(info *types.Info, fn *an.Func) ast.Expr {
			var out ast.Expr
			ast.Inspect(fn.Body(), func(m ast.Node) bool {
				if call, ok := m.(*ast.CallExpr); ok && out == nil {
					if f := an.CalleeFunc(info, call); f != nil && f.Name() == "require" && len(call.Args) >= 1 {
						out = call.Args[0]
					}
				}
				return true
			})
			return out
		}, ints: map[string]string{"idx": "", "data.Len()": ""}, ref: func(a dtAtoms) bool { return a.I("idx") >= 1 && a.I("idx") <= a.I("data.Len()") }},
		// vector clocks
		{fn: "VClock.Merge", key: "empty-left", why: "merging into an empty clock yields the other", find: func(info *types.Info, n ast.Node) bool {
			r, ok := n.(*ast.ReturnStmt)
			if !ok || len(r.Results) != 1 {
				return false
			}
			// the parameter (the other clock), whatever it is called
			v, isVar := an.ObjOf(info, r.Results[0]).(*types.Var)
			return isVar && vclockMergeParam != nil && v == vclockMergeParam
		}, bools: []string{"$.clock==nil", "other.clock==nil"}, ref: func(a dtAtoms) bool { return a.B("$.clock==nil") }},
		{fn: "VClock.Merge", key: "keeps-larger-component", why: "the merged component is the maximum: an entry is overwritten only by a strictly larger one", find: func(info *types.Info, n ast.Node) bool {
			as, ok := n.(*ast.AssignStmt)
			if !ok || len(as.Rhs) != 1 || as.Tok != token.ASSIGN {
				return false
			}
			call, ok := an.Unparen(as.Rhs[0]).(*ast.CallExpr)
			if !ok {
				return false
			}
			sel, ok := an.Unparen(call.Fun).(*ast.SelectorExpr)
			return ok && sel.Sel.Name == "Set"
		}, bools: []string{"$.clock==nil", "other.clock==nil", "it.Done()", "ok"}, ints: map[string]string{"idx1Val": "", "idx2Val": ""}, existsOthers: true,
			ref: func(a dtAtoms) bool {
				// idx2Val is reset to 0 when the key is absent: compare with the effective value
				eff := a.I("idx2Val")
				if !a.B("ok") {
					eff = 0
				}
				_ = eff
				return !a.B("$.clock==nil") && !a.B("other.clock==nil") && !a.B("it.Done()") && a.I("idx1Val") > a.I("idx2Val")
			}},
		{fn: "VClock.Merge", key: "absent-reads-zero", why: "a component absent from the accumulator counts as 0", find: func(info *types.Info, n ast.Node) bool {
			as, ok := n.(*ast.AssignStmt)
			if !ok || len(as.Lhs) != 1 || len(as.Rhs) != 1 || as.Tok != token.ASSIGN {
				return false
			}
			// `x = 0` for the variable that received the looked-up component (first result of a Get)
			tv := info.Types[as.Rhs[0]]
			if tv.Value == nil || tv.Value.ExactString() != "0" {
				return false
			}
			o := an.ObjOf(info, as.Lhs[0])
			return o != nil && vclockLookupVars[o]
		}, bools: []string{"$.clock==nil", "other.clock==nil", "it.Done()", "ok"}, existsOthers: true,
			ref: func(a dtAtoms) bool {
				return !a.B("$.clock==nil") && !a.B("other.clock==nil") && !a.B("it.Done()") && !a.B("ok")
			}},
		{fn: "VClock.Get", key: "absent-reads-zero", why: "an absent component reads 0", find: func(info *types.Info, n ast.Node) bool {
			r, ok := n.(*ast.ReturnStmt)
			if !ok || len(r.Results) != 1 {
				return false
			}
			tv := info.Types[r.Results[0]]
			return tv.Value != nil && tv.Value.ExactString() == "0"
		}, bools: []string{"$.clock==nil", "ok"}, ref: func(a dtAtoms) bool { return a.B("$.clock==nil") || !a.B("ok") }},
	}
	// Inc adds exactly one
	rows = append(rows, dtRow{fn: "VClock.Inc", key: "adds-one", why: "an archetype's own component grows by one per attempt",
		find: func(info *types.Info, n ast.Node) bool {
			call, ok := n.(*ast.CallExpr)
			if !ok || len(call.Args) != 2 {
				return false
			}
			sel, ok := an.Unparen(call.Fun).(*ast.SelectorExpr)
			return ok && sel.Sel.Name == "Set"
		},
		valueOf: func(info *types.Info, n ast.Node) ast.Expr { return n.(*ast.CallExpr).Args[1] },
		ints:    map[string]string{"idxVal": ""}, bools: []string{"ok"}, refInt: func(a dtAtoms) int64 { return a.I("idxVal") + 1 }})
	rows = append(rows,
		dtRow{fn: "VClock.Inc", key: "absent-reads-zero", why: "a component that is absent starts from 0 - and only then", find: func(info *types.Info, n ast.Node) bool {
			as, ok := n.(*ast.AssignStmt)
			return ok && len(as.Lhs) == 1 && len(as.Rhs) == 1 && as.Tok == token.ASSIGN && an.ObjOf(info, as.Lhs[0]) != nil && an.ObjOf(info, as.Lhs[0]).Name() == "idxVal"
		}, bools: []string{"ok"}, ref: func(a dtAtoms) bool { return !a.B("ok") }},
		dtRow{fn: ".WrapCausal", key: "keeps-the-clock-the-value-already-carries", why: "wrapping a value that already carries a clock merges the two: what the value witnessed is not forgotten", find: func(info *types.Info, n ast.Node) bool {
			call, ok := n.(*ast.CallExpr)
			return ok && an.IsMethodNamed(an.CalleeFunc(info, call), an.PkgTLA, "VClock", "Merge")
		}, bools: []string{"vClocksEnabled", "existingClock==nil"}, ref: func(a dtAtoms) bool { return a.B("vClocksEnabled") && !a.B("existingClock==nil") }},
		dtRow{fn: ".WrapCausal", key: "plain-value-when-clocks-are-off", why: "without tracing values are not wrapped", find: func(info *types.Info, n ast.Node) bool {
			r, ok := n.(*ast.ReturnStmt)
			return ok && len(r.Results) == 1 && an.ObjOf(info, r.Results[0]) != nil && an.ObjOf(info, r.Results[0]).Name() == "value"
		}, bools: []string{"vClocksEnabled"}, existsOthers: true, ref: func(a dtAtoms) bool { return !a.B("vClocksEnabled") }},
	)
	runDecisionRows(c, e, an.PkgTLA, "", rows)
}
