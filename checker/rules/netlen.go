package rules

import (
	"go/ast"
	"go/constant"
	"go/types"
	"strings"

	"pgoverif/checker/an"
	"pgoverif/checker/core"
)

func init() {
	register(&core.Rule{ID: "NETLEN-WIRING", Props: []string{"C09", "C14"}, Floor: 3,
		Doc: "bootstraps of the generated stores: the mailbox-length view bound to an archetype's `netLen` parameter observes the very mailboxes bound to its `net` parameter. The specifications use `netLen[self] = 0` to conclude that no response is in flight before a client retries or a primary gives up on a backup; a length view of some other mailbox set always reads 0, so requests are re-sent while their answers are on the way and backups are abandoned while their acknowledgements are queued",
		Run: runNetLenWiring})
}

func runNetLenWiring(c *core.Ctx) {
	e := EnvOf(c.Prog)
	for _, fn := range e.Ix.Funcs() {
		if fn.Body() == nil || !strings.HasPrefix(fn.Pkg.Path, an.ModPrefix+"systems/") {
			continue
		}
		info := fn.Pkg.Info
		// name -> bound expression, per function (one context per function in the bootstraps)
		bound := map[string]ast.Expr{}
		ast.Inspect(fn.Body(), func(m ast.Node) bool {
			call, ok := m.(*ast.CallExpr)
			if !ok || !an.IsFuncNamed(an.CalleeFunc(info, call), an.PkgDistsys, "EnsureArchetypeRefParam") || len(call.Args) != 2 {
				return true
			}
			if tv := info.Types[call.Args[0]]; tv.Value != nil && tv.Value.Kind() == constant.String {
				bound[constant.StringVal(tv.Value)] = call.Args[1]
			}
			return true
		})
		lenExpr, has := bound["netLen"]
		if !has {
			continue
		}
		lenCall, isCall := an.Unparen(an.ResolveLocal(info, fn.Body(), lenExpr)).(*ast.CallExpr)
		if !isCall || !an.IsFuncNamed(an.CalleeFunc(info, lenCall), an.PkgResources, "NewMailboxesLength") || len(lenCall.Args) != 1 {
			continue // not a length view of mailboxes (e.g. the constant 0 of the Raft servers)
		}
		key := fn.Name() + ":netLen-observes-net"
		netExpr, hasNet := bound["net"]
		if !hasNet {
			c.Bad(key, lenCall.Pos(), "the context has a length view but no `net` parameter to observe")
			continue
		}
		var a, b types.Object = an.ObjOf(info, lenCall.Args[0]), an.ObjOf(info, netExpr)
		c.Check(a != nil && a == b, key, lenCall.Pos(), "the length view is built from the mailboxes bound to `net`",
			"the length view bound to `netLen` is not built from the mailboxes bound to `net`: `netLen[self] = 0` no longer means that nothing is in flight for this node")
	}
}
