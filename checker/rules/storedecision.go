package rules

import (
	"go/ast"
	"go/token"
	"go/types"

	"pgoverif/checker/an"
	"pgoverif/checker/core"
)

func init() {
	register(&core.Rule{ID: "STORE-DECISION", Props: []string{"C01"}, Floor: 17,
		Doc: "decision table of the two resources that publish to storage at commit: a file element writes its file exactly when a write is pending, forgets the pending write after writing it and drops its read cache at every commit and write; a read serves the pending write, else the cache, else the file; the persistent wrapper stores the wrapped state exactly for a section that wrote, fails loudly when the store fails, and notes every write",
		Run: runStoreDecision})
}

func runStoreDecision(c *core.Ctx) {
	e := EnvOf(c.Prog)
	ft := mustType(c, e, an.PkgResources, "file")
	pt := mustType(c, e, an.PkgResources, "Persistent")
	if ft == nil || pt == nil {
		return
	}
	pending, cached := mustField(c, ft, "writePending"), mustField(c, ft, "cachedRead")
	hasNew := mustField(c, pt, "hasNewValue")
	if pending == nil || cached == nil || hasNew == nil {
		return
	}
	callNamed := func(names ...string) func(*types.Info, ast.Node) bool {
		return func(info *types.Info, n ast.Node) bool {
			call, ok := n.(*ast.CallExpr)
			if !ok {
				return false
			}
			f := an.CalleeFunc(info, call)
			if f == nil {
				return false
			}
			for _, nm := range names {
				if f.Name() == nm {
					return true
				}
			}
			return false
		}
	}
	setNil := func(f *types.Var) func(*types.Info, ast.Node) bool {
		return func(info *types.Info, n ast.Node) bool {
			rhs, ok := fieldIsAssigned(info, n, f)
			return ok && rhs != nil && isNilIdent(info, rhs)
		}
	}
	setAddr := func(f *types.Var) func(*types.Info, ast.Node) bool {
		return func(info *types.Info, n ast.Node) bool {
			rhs, ok := fieldIsAssigned(info, n, f)
			if !ok || rhs == nil {
				return false
			}
			u, isU := an.Unparen(rhs).(*ast.UnaryExpr)
			return isU && u.Op == token.AND
		}
	}
	setBool := func(f *types.Var, val bool) func(*types.Info, ast.Node) bool {
		return func(info *types.Info, n ast.Node) bool {
			rhs, ok := fieldIsAssigned(info, n, f)
			return ok && rhs != nil && isBoolConst(info, rhs, val)
		}
	}
	// a return whose first result dereferences field f
	returnsDeref := func(f *types.Var) func(*types.Info, ast.Node) bool {
		return func(info *types.Info, n ast.Node) bool {
			rs, ok := n.(*ast.ReturnStmt)
			if !ok || len(rs.Results) == 0 {
				return false
			}
			found := false
			ast.Inspect(rs.Results[0], func(m ast.Node) bool {
				if st, ok := m.(*ast.StarExpr); ok && an.SelectedField(info, st.X) == f {
					found = true
				}
				return true
			})
			return found
		}
	}
	pn, cn := "$.writePending==nil", "$.cachedRead==nil"
	always := func(a dtAtoms) bool { return true }
	rows := []dtRow{
		{fn: "file.Commit", key: "writes-iff-pending", why: "a committed write reaches the file; a section that did not write leaves the file alone", find: callNamed("WriteFile"),
			bools: []string{pn}, ref: func(a dtAtoms) bool { return !a.B(pn) }},
		{fn: "file.Commit", key: "forgets-pending-after-write", why: "the write is not repeated (or served to reads) by later sections", find: setNil(pending),
			bools: []string{pn, "err==nil"}, ref: func(a dtAtoms) bool { return !a.B(pn) && a.B("err==nil") }},
		{fn: "file.Commit", key: "failed-write-is-loud", why: "a file that could not be written must not look committed", find: func(info *types.Info, n ast.Node) bool {
			call, ok := n.(*ast.CallExpr)
			return ok && an.IsBuiltin(info, call, "panic")
		},
			bools: []string{pn, "err==nil"}, ref: func(a dtAtoms) bool { return !a.B(pn) && !a.B("err==nil") }},
		{fn: "file.Commit", key: "drops-read-cache", why: "the next section re-reads the file", find: setNil(cached), bools: []string{pn}, ref: always},
		{fn: "file.ReadValue", key: "serves-pending-write", why: "a section reads its own write", find: returnsDeref(pending),
			bools: []string{pn, cn}, ref: func(a dtAtoms) bool { return !a.B(pn) }},
		{fn: "file.ReadValue", key: "reads-file-when-nothing-cached", why: "the file is read exactly when neither a pending write nor a cached read exists", find: callNamed("ReadFile"),
			bools: []string{pn, cn}, ref: func(a dtAtoms) bool { return a.B(pn) && a.B(cn) }},
		{fn: "file.ReadValue", key: "caches-what-it-read", why: "repeated reads of one section agree", find: setAddr(cached),
			bools: []string{pn, cn, "err==nil"}, ref: func(a dtAtoms) bool { return a.B(pn) && a.B(cn) && a.B("err==nil") }},
		{fn: "file.WriteValue", key: "records-pending-write", why: "every write is pending until commit", find: setAddr(pending), ref: always},
		{fn: "file.WriteValue", key: "drops-read-cache", why: "a read after the write must not serve the old contents", find: setNil(cached), ref: always},
		{fn: "file.Abort", key: "drops-pending-write", why: "an aborted write never reaches the file", find: setNil(pending), ref: always},
		{fn: "file.Abort", key: "drops-read-cache", why: "the retry re-reads the file", find: setNil(cached), ref: always},

		{fn: "Persistent.Commit", key: "stores-iff-section-wrote", why: "the durable copy is updated exactly by sections that wrote", find: callNamed("Update"),
			bools: []string{"$.hasNewValue"}, ref: func(a dtAtoms) bool { return a.B("$.hasNewValue") }},
		{fn: "Persistent.Commit", key: "stores-the-wrapped-state", why: "what is stored is the wrapped resource's state, and only when it could be obtained", find: callNamed("Set"), existsOthers: true,
			bools: []string{"$.hasNewValue", "err==nil"}, ref: func(a dtAtoms) bool { return a.B("$.hasNewValue") && a.B("err==nil") }},
		{fn: "Persistent.Commit", key: "failed-store-is-loud", why: "a commit whose durable store failed must not complete", find: func(info *types.Info, n ast.Node) bool {
			call, ok := n.(*ast.CallExpr)
			return ok && an.IsBuiltin(info, call, "panic")
		},
			bools: []string{"$.hasNewValue", "err==nil"}, ref: func(a dtAtoms) bool { return a.B("$.hasNewValue") && !a.B("err==nil") }},
		{fn: "Persistent.Commit", key: "forgets-write-after-store", why: "the next section starts without a pending store", find: setBool(hasNew, false),
			bools: []string{"$.hasNewValue", "err==nil"}, ref: func(a dtAtoms) bool { return a.B("$.hasNewValue") && a.B("err==nil") }},
		{fn: "Persistent.WriteValue", key: "notes-every-write", why: "every write makes the section one that must store", find: setBool(hasNew, true), ref: always},
		{fn: "Persistent.Abort", key: "forgets-write", why: "an aborted section stores nothing later", find: setBool(hasNew, false), ref: always},
	}
	runDecisionRows(c, e, an.PkgResources, "", rows)
}
