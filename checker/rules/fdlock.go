package rules

import (
	"fmt"
	"go/ast"
	"go/token"
	"go/types"
	"sort"
	"strings"

	"pgoverif/checker/an"
	"pgoverif/checker/core"
)

func init() {
	register(&core.Rule{ID: "FD-LOCK-SHORT", Props: []string{"C19"}, Floor: 5,
		Doc: "the state locks of the failure detector and of the monitor are held across field accesses only: between Lock/RLock and the matching unlock (or the function's exits, when the unlock is deferred) no dial, RPC, sleep, wait, channel operation or call to unknown code is reachable - ReadValue takes the same lock, so anything slower would delay a read beyond the polling interval it promises",
		Run: runFDLockShort})
}

// blockingExt: external callees that can block for an unbounded / configured time.
func blockingExt(name string) bool {
	switch {
	case strings.HasPrefix(name, "net."), strings.HasPrefix(name, "net/rpc."), strings.HasPrefix(name, "net/http."):
		return true
	case name == "time.Sleep", name == "sync.WaitGroup.Wait", name == "sync.Cond.Wait":
		return true
	}
	return false
}

func runFDLockShort(c *core.Ctx) {
	e := EnvOf(c.Prog)
	n := 0
	for _, typ := range []string{"SingleFailureDetector", "Monitor"} {
		t := mustType(c, e, an.PkgResources, typ)
		if t == nil {
			continue
		}
		lock := mustField(c, t, "lock")
		if lock == nil {
			continue
		}
		lockCall := func(info *types.Info, a ast.Node, names ...string) bool {
			call, ok := a.(*ast.CallExpr)
			if !ok {
				return false
			}
			f := an.CalleeFunc(info, call)
			if f == nil || f.Pkg() == nil || f.Pkg().Path() != "sync" {
				return false
			}
			sel, ok := an.Unparen(call.Fun).(*ast.SelectorExpr)
			if !ok || an.SelectedField(info, sel.X) != lock {
				return false
			}
			for _, nm := range names {
				if f.Name() == nm {
					return true
				}
			}
			return false
		}
		perFn := map[string]int{}
		for _, fn := range e.Ix.Funcs() {
			if fn.Pkg.Path != an.PkgResources {
				continue
			}
			info := fn.Pkg.Info
			for _, b := range bodiesOf(fn) {
				g := graphOfBody(e, fn.Pkg, fn, b)
				for _, la := range g.FindAtoms(func(a ast.Node) bool { return lockCall(info, a, "Lock", "RLock") }) {
					if _, isDefer := g.Parent(la).(*ast.DeferStmt); isDefer {
						continue
					}
					n++
					var slow []string
					seen := map[ast.Node]bool{}
					note := func(a ast.Node, what string) {
						if !seen[a] {
							seen[a] = true
							slow = append(slow, fmt.Sprintf("%s (line %d)", what, c.Prog.Fset.Position(a.Pos()).Line))
						}
					}
					// every atom reachable from the acquisition without passing a release of the same lock
					isRelease := func(a ast.Node) bool {
						if !lockCall(info, a, "Unlock", "RUnlock") {
							return false
						}
						_, isDefer := g.Parent(a).(*ast.DeferStmt)
						return !isDefer
					}
					g.AllAtoms(func(a ast.Node) {
						if a == la || isRelease(a) {
							return
						}
						if !g.Search(an.Query{From: la, Target: func(y ast.Node) bool { return y == a }, Avoid: isRelease}).Found {
							return
						}
						switch x := a.(type) {
						case *ast.SendStmt:
							note(a, "channel send")
						case *ast.SelectStmt:
							note(a, "select")
						case *ast.UnaryExpr:
							if x.Op == token.ARROW {
								note(a, "channel receive")
							}
						case *ast.CallExpr:
							if lockCall(info, a, "Lock", "RLock", "Unlock", "RUnlock") {
								return
							}
							if _, isDefer := g.Parent(a).(*ast.DeferStmt); isDefer {
								return
							}
							f := an.CalleeFunc(info, x)
							if f == nil {
								if tv, ok := info.Types[x.Fun]; ok && tv.IsType() {
									return // conversion
								}
								if id, ok := an.Unparen(x.Fun).(*ast.Ident); ok {
									if _, isB := info.Uses[id].(*types.Builtin); isB {
										return
									}
								}
								note(a, "call of a function value")
								return
							}
							if target := e.Ix.FuncOf(f); target != nil {
								es := e.Fx.Of(target)
								var names []string
								for nm := range es.Ext {
									if blockingExt(nm) {
										names = append(names, nm)
									}
								}
								sort.Strings(names)
								if len(names) > 0 {
									note(a, f.Name()+" reaches "+strings.Join(names, ", "))
								}
								if len(es.ChanRecv)+len(es.ChanSend) > 0 {
									note(a, f.Name()+" performs channel operations")
								}
								for _, d := range es.Dynamic {
									if d.Method != nil && d.Method.Pkg() != nil && d.Method.Pkg().Path() == an.PkgTLA {
										continue // methods of value kinds: the value library never blocks (checked below)
									}
									note(a, f.Name()+" calls unknown code")
								}
								return
							}
							if sig, ok := f.Type().(*types.Signature); ok && sig.Recv() != nil {
								if _, isIface := sig.Recv().Type().Underlying().(*types.Interface); isIface {
									if f.Pkg() == nil || f.Pkg().Path() != an.PkgTLA {
										note(a, "interface call "+f.Name())
									}
									return
								}
							}
							name := ""
							if f.Pkg() != nil {
								name = f.Pkg().Path() + "." + f.Name()
								if rn := an.RecvNamed(f); rn != nil {
									name = f.Pkg().Path() + "." + rn.Obj().Name() + "." + f.Name()
								}
							}
							if blockingExt(name) {
								note(a, name)
							}
						}
					})
					sort.Strings(slow)
					perFn[fn.Name()]++
					key := fmt.Sprintf("%s:%s-held-briefly#%d", fn.Name(), lock.Name(), perFn[fn.Name()])
					c.Check(len(slow) == 0, key, la.Pos(), "only field accesses happen while the state lock is held",
						"the state lock is held across "+strings.Join(slow, "; ")+": a ReadValue (which takes the same lock) waits for it, so reading the detector can stall for a dial/RPC timeout instead of at most one polling interval, and the verdict it finally returns is older than the interval")
				}
			}
		}
	}
	// the value library (hashing / comparing keys while the lock is held) never blocks
	var blocking []string
	funcs := 0
	for _, fn := range e.Ix.Funcs() {
		if fn.Pkg.Path != an.PkgTLA && fn.Pkg.Path != an.PkgHashmap {
			continue
		}
		funcs++
		es := e.Fx.Of(fn)
		for nm := range es.Ext {
			if blockingExt(nm) {
				blocking = append(blocking, fn.Name()+" -> "+nm)
			}
		}
		if len(es.ChanRecv)+len(es.ChanSend) > 0 {
			blocking = append(blocking, fn.Name()+" performs channel operations")
		}
	}
	sort.Strings(blocking)
	if funcs > 0 {
		c.Check(len(blocking) == 0, "tla+hashmap:never-block", token.NoPos, fmt.Sprintf("none of the %d functions of the value and hashmap packages dials, sleeps, waits or touches a channel", funcs),
			"the value / hashmap library can block ("+strings.Join(blocking, "; ")+"): key comparisons made while the monitor's state lock is held are no longer short")
	} else {
		c.Lost("tla+hashmap:never-block", "no functions found in the value / hashmap packages")
	}
	if n == 0 {
		c.Lost("fd state lock acquisitions", "no Lock/RLock of the detector / monitor state lock found")
	}
}
