package rules

import (
	_ "embed"
	"fmt"
	"go/token"
	"os"
	"path/filepath"
	"sort"
	"strings"
	"sync"

	"pgoverif/checker/an"
	"pgoverif/checker/core"
	"pgoverif/checker/scalatab"
	"pgoverif/checker/specmatch"
)

// Protocol tables over the specifications of the generated systems. The *-FIDELITY rules tie the generated Go to its
// specification section by section; these rows tie the specification's safety-critical decisions to the protocol: a
// change that edits the specification and the Go consistently (so that fidelity still holds) but alters who is granted
// the lock, what counts as a quorum, which response is accepted ... is a row mismatch. A row names an effect inside a
// critical section and the condition under which the protocol prescribes it; the comparison is by truth table over the
// atoms of both conditions, so it does not depend on how the guard is spelled (see specmatch/speccond.go).

type specRow struct {
	rule  string // rule id the row belongs to
	pair  string // generated package, e.g. "locksvc"
	unit  string // archetype / procedure
	label string
	key   string
	why   string
	// effect: `lhs := rhs` (either side may be `_`), `goto L`, `assert`, `await`
	effect string
	// cond: the condition under which the effect is prescribed (TLA+ text over the names of the specification; a variable
	// that was assigned earlier in the section is written <name>__new). Empty = unconditionally, on every path.
	cond string
	// op / body: the row is about an operator definition instead
	op   string
	body string
	// expr: for `assert` / `await` effects, the asserted / awaited condition
	expr string
	// absent: the effect must not occur in the section at all
	absent bool
	// among: every statement matching the effect pattern assigns one of these right-hand sides
	among []string
	// labels: the row is about the unit's set of labels (its critical sections): exactly these
	labels []string
	// graph: label -> labels its section can hand over to (goto targets, Done included); implies the label set
	graph map[string][]string
}

func init() {
	const basis = " The invariants are argued (model-checked) for the specification with exactly these decisions; the rows compare conditions as boolean functions of their atoms, never text, and a deliberate protocol change has to change the table."
	register(&core.Rule{ID: "LOCK-DECISION", Props: []string{"C15"}, Floor: 8,
		Doc: "protocol table of the lock service specification: who is granted the lock and when, how the queue of waiting clients evolves, what a client may assume when it enters its critical section." + basis,
		Run: func(c *core.Ctx) { runSpecRows(c, "LOCK-DECISION") }})
	register(&core.Rule{ID: "SYS-DECISION", Props: []string{"C16"}, Floor: 20,
		Doc: "protocol tables of the specifications of the proxy, distributed queue, load balancer, shared counter and CRDT systems: which response the proxy accepts and when it gives up on a backend, request / response pairing, buffer bounds, merge on commit, the assertions written in the specifications." + basis,
		Run: func(c *core.Ctx) { runSpecRows(c, "SYS-DECISION") }})
	register(&core.Rule{ID: "PB-DECISION", Props: []string{"C14"}, Floor: 10,
		Doc: "protocol table of the primary-backup store specification: the primary answers only after every live backup acknowledged, a new primary synchronises before it serves, version numbers grow by one per Put, backups apply only newer versions." + basis,
		Run: func(c *core.Ctx) { runSpecRows(c, "PB-DECISION") }})
	register(&core.Rule{ID: "RAFT-DECISION", Props: []string{"C08", "C09"}, Floor: 20,
		Doc: "protocol table of the Raft store specification: quorum, vote granting (term, up-to-date log, votedFor), term adoption, the log-consistency check and truncate-append of AppendEntries, commit of current-term entries replicated on a quorum, responses only for applied entries, the client's filtering of responses by request index." + basis,
		Run: func(c *core.Ctx) { runSpecRows(c, "RAFT-DECISION") }})
}

var specRows []specRow

func specTable(rows ...specRow) { specRows = append(specRows, rows...) }

//go:embed spec_context.txt
var specContextText string

// specContext: per table row, the atoms of the pinned specification's path conditions that the row's condition does not
// mention - the context the row was written in (frozen; regenerate with PGO_GEN_SPECCTX=<file> pgocheck -rule <table>).
var specContext = func() map[string]map[string]bool {
	m := map[string]map[string]bool{}
	for _, l := range strings.Split(specContextText, "\n") {
		parts := strings.SplitN(l, "\t", 2)
		if len(parts) != 2 {
			continue
		}
		if m[parts[0]] == nil {
			m[parts[0]] = map[string]bool{}
		}
		if parts[1] != "" {
			m[parts[0]][parts[1]] = true
		}
	}
	return m
}()

var specCtxOut = os.Getenv("PGO_GEN_SPECCTX")
var specCtxMu sync.Mutex

func recordSpecCtx(key string, atoms []string) {
	specCtxMu.Lock()
	defer specCtxMu.Unlock()
	f, err := os.OpenFile(specCtxOut, os.O_APPEND|os.O_CREATE|os.O_WRONLY, 0o644)
	if err != nil {
		return
	}
	defer f.Close()
	fmt.Fprintf(f, "%s\t\n", key)
	for _, a := range atoms {
		fmt.Fprintf(f, "%s\t%s\n", key, a)
	}
}

func runSpecRows(c *core.Ctx, rule string) {
	tabs, err := scalatab.Load(c.Prog.Root)
	if err != nil {
		c.Lost("scala-tables", "%v", err)
		return
	}
	pairs, pkgs := specPairs(c.Prog)
	views := map[string]*specmatch.SpecView{}
	pos := map[string]token.Pos{}
	for i, pr := range pairs {
		name := an.ShortPkg(pr[0])
		if pr[1] == "" || !strings.HasPrefix(pr[0], an.ModPrefix+"systems/") {
			continue
		}
		need := false
		for _, r := range specRows {
			if r.rule == rule && r.pair == name {
				need = true
			}
		}
		if !need {
			continue
		}
		v, err := specmatch.LoadSpecView(pr[1], tabs, c.Prog.ReadFile)
		if err != nil {
			c.Undecided(name+"/spec", pkgs[i].Files[0].Pos(), "the MPCal front end cannot parse %s: %v", filepath.Base(pr[1]), err)
			continue
		}
		views[name] = v
		pos[name] = pkgs[i].Files[0].Pos()
	}
	for _, r := range specRows {
		if r.rule != rule {
			continue
		}
		key := r.pair + "/"
		if r.op != "" {
			key += "operator " + r.op
		} else if r.graph != nil {
			key += r.unit + ":label-graph"
		} else if len(r.labels) > 0 {
			key += r.unit + ":labels"
		} else {
			key += r.unit + "." + r.label + ":" + r.key
		}
		v := views[r.pair]
		if v == nil {
			c.Lost(key, "specification of %s not found", r.pair)
			continue
		}
		p := pos[r.pair]
		if r.op != "" {
			d := v.OpDef(r.op)
			if d == nil {
				c.Lost(key, "operator %s is not defined in the specification of %s", r.op, r.pair)
				continue
			}
			ok, detail, err := v.EquivalentExpr(v.Render(d.Body, nil), r.body)
			switch {
			case err != nil:
				c.Undecided(key, p, "%v", err)
			case ok:
				c.Ok(key, p, "%s == %s", r.op, r.body)
			default:
				c.Bad(key, p, "%s (line %d of the specification): %s — %s", r.op, d.Line, r.why, detail)
			}
			continue
		}
		if r.graph != nil {
			got, err := v.LabelGraph(r.unit)
			if err != nil {
				c.Lost(key, "%v", err)
				continue
			}
			render := func(g map[string][]string) string {
				var ls []string
				for l := range g {
					ls = append(ls, l)
				}
				sort.Strings(ls)
				var parts []string
				for _, l := range ls {
					ts := append([]string(nil), g[l]...)
					sort.Strings(ts)
					parts = append(parts, l+"->"+strings.Join(ts, ","))
				}
				return strings.Join(parts, " ")
			}
			a, b := render(got), render(r.graph)
			detail := ""
			if a != b {
				for l, ts := range r.graph {
					g2, has := got[l]
					sort.Strings(ts)
					sort.Strings(g2)
					if !has {
						detail += " label " + l + " is missing;"
					} else if strings.Join(ts, ",") != strings.Join(g2, ",") {
						detail += " " + l + " hands over to [" + strings.Join(g2, ",") + "], the table [" + strings.Join(ts, ",") + "];"
					}
				}
				for l := range got {
					if _, has := r.graph[l]; !has {
						detail += " label " + l + " is not in the table (a statement that moved to a label of its own is no longer atomic with its neighbours);"
					}
				}
			}
			c.Check(a == b, key, p, "labels and hand-overs of "+r.unit+" are as tabled", fmt.Sprintf("%s — %s of %s:%s", r.why, r.unit, r.pair, detail))
			continue
		}
		if len(r.labels) > 0 {
			got, err := v.Labels(r.unit)
			if err != nil {
				c.Lost(key, "%v", err)
				continue
			}
			want := append([]string(nil), r.labels...)
			sort.Strings(want)
			sort.Strings(got)
			c.Check(strings.Join(got, " ") == strings.Join(want, " "), key, p, "the critical sections of "+r.unit+" are "+strings.Join(want, ", "),
				fmt.Sprintf("%s — %s of %s has the labels [%s], the table [%s]: a statement that moved to a label of its own is no longer atomic with its neighbours (and two labels merged hide an interleaving the protocol was checked with)", r.why, r.unit, r.pair, strings.Join(got, " "), strings.Join(want, " ")))
			continue
		}
		sec, err := v.Section(r.unit, r.label)
		if err != nil {
			c.Lost(key, "%v", err)
			continue
		}
		match, merr := effectMatcher(v, r)
		if merr != nil {
			c.Lost(key, "table row: %v", merr)
			continue
		}
		occs := v.Effects(sec, match)
		if r.absent {
			c.Check(len(occs) == 0, key, p, "absent: "+r.effect, fmt.Sprintf("%s — the section %s.%s of %s contains `%s`", r.why, r.unit, r.label, r.pair, r.effect))
			continue
		}
		if len(r.among) > 0 {
			var allowed []string
			for _, a := range r.among {
				t, err := v.ParseText(a)
				if err != nil {
					c.Lost(key, "table row: %v", err)
				}
				allowed = append(allowed, strings.Join(t, " "))
			}
			bad := ""
			for _, o := range occs {
				as := o.Stmt.(*specmatch.Assign)
				got := strings.Join(v.Render(as.Pairs[0].R, o.Assigned), " ")
				found := false
				for _, a := range allowed {
					if a == got {
						found = true
					}
				}
				if !found {
					bad = fmt.Sprintf("line %d assigns %s", as.LineNo(), got)
				}
			}
			c.Check(bad == "" && len(occs) > 0, key, p, fmt.Sprintf("every `%s` assigns one of %v", r.effect, r.among), fmt.Sprintf("%s — %s", r.why, bad))
			continue
		}
		if len(occs) == 0 {
			c.Bad(key, p, "%s — the effect `%s` does not occur in %s.%s (line %d of the specification)", r.why, r.effect, r.unit, r.label, sec.Line)
			continue
		}
		cond := r.cond
		if cond == "" {
			cond = "TRUE"
		}
		var rec *[]string
		if specCtxOut != "" {
			rec = &[]string{}
		}
		ok, detail, err := v.EquivalentCtx(occs, cond, specContext[rule+"|"+key], rec)
		if rec != nil {
			recordSpecCtx(rule+"|"+key, *rec)
		}
		switch {
		case err != nil:
			c.Undecided(key, p, "%v", err)
		case ok:
			c.Ok(key, p, "`%s` exactly when %s", r.effect, cond)
		default:
			c.Bad(key, p, "%s — `%s` in %s.%s (line %d of the specification) must happen exactly when %s; %s", r.why, r.effect, r.unit, r.label, occs[0].Stmt.(interface{ LineNo() int }).LineNo(), cond, detail)
		}
	}
}

// effectMatcher builds the statement predicate of a row.
func effectMatcher(v *specmatch.SpecView, r specRow) (func(s specmatch.Stmt, assigned map[string]bool) bool, error) {
	eff := strings.TrimSpace(r.effect)
	join := func(ts []string) string { return strings.Join(ts, " ") }
	switch {
	case strings.HasPrefix(eff, "goto "):
		target := strings.TrimSpace(strings.TrimPrefix(eff, "goto "))
		return func(s specmatch.Stmt, _ map[string]bool) bool {
			g, ok := s.(*specmatch.Goto)
			return ok && g.Target == target
		}, nil
	case strings.HasPrefix(eff, "with "):
		name := strings.TrimSpace(strings.TrimPrefix(eff, "with "))
		return func(s specmatch.Stmt, assigned map[string]bool) bool {
			w, ok := s.(*specmatch.With)
			if !ok {
				return false
			}
			for _, d := range w.Decls {
				if d.IsSet || v.Canon.Ident(d.Name) != v.Canon.Ident(name) {
					continue
				}
				if ok, _, err := v.EquivalentExpr(v.Render(d.Val, assigned), r.expr); err == nil && ok {
					return true
				}
			}
			return false
		}, nil
	case eff == "assert" || eff == "await":
		want, err := v.ParseText(r.expr)
		if err != nil {
			return nil, err
		}
		wantN := specmatch.ParseCanon(want)
		return func(s specmatch.Stmt, assigned map[string]bool) bool {
			var cond specmatch.Expr
			switch x := s.(type) {
			case *specmatch.Assert:
				if eff != "assert" {
					return false
				}
				cond = x.Cond
			case *specmatch.Await:
				if eff != "await" {
					return false
				}
				cond = x.Cond
			default:
				return false
			}
			ok, _, err := v.EquivalentExpr(v.Render(cond, assigned), r.expr)
			_ = wantN
			return err == nil && ok
		}, nil
	}
	parts := strings.SplitN(eff, ":=", 2)
	if len(parts) != 2 {
		return nil, fmt.Errorf("effect %q is not `lhs := rhs`, `goto L`, `assert` or `await`", eff)
	}
	lhsText, rhsText := strings.TrimSpace(parts[0]), strings.TrimSpace(parts[1])
	var wantL, wantR string
	if lhsText != "_" {
		t, err := v.ParseText(lhsText)
		if err != nil {
			return nil, err
		}
		wantL = join(t)
	}
	if rhsText != "_" {
		t, err := v.ParseText(rhsText)
		if err != nil {
			return nil, err
		}
		wantR = join(t)
	}
	// `name[_]`: any index
	anyIndex := ""
	if strings.HasSuffix(lhsText, "[_]") {
		anyIndex = strings.TrimSuffix(lhsText, "[_]")
		wantL = ""
	}
	return func(s specmatch.Stmt, assigned map[string]bool) bool {
		as, ok := s.(*specmatch.Assign)
		if !ok || len(as.Pairs) != 1 {
			return false
		}
		p := as.Pairs[0]
		if anyIndex != "" {
			if v.Canon.Ident(p.L.Name) != v.Canon.Ident(anyIndex) || len(p.L.Projs) == 0 {
				return false
			}
		} else if lhsText != "_" {
			l := []string{v.Canon.Ident(p.L.Name)}
			for _, pr := range p.L.Projs {
				l = append(l, "[")
				l = append(l, v.Render(specmatch.StripTuple(pr), assigned)...)
				l = append(l, "]")
			}
			if join(l) != wantL {
				return false
			}
		}
		if rhsText != "_" && join(v.Render(p.R, assigned)) != wantR && commJoin(v.Render(p.R, assigned)) != commJoin(strings.Fields(wantR)) {
			return false
		}
		return true
	}, nil
}

// commJoin renders an expression with the operands of commutative operators in lexical order (`1 + idx` is `idx + 1`).
func commJoin(toks []string) string {
	wrapped := append(append([]string{"("}, toks...), ")")
	return strings.Join(specmatch.CommutativeNorm(wrapped), " ")
}
