package rules

import (
	"fmt"
	"go/ast"
	"go/token"
	"go/types"
	"golang.org/x/tools/go/cfg"

	"pgoverif/checker/an"
	"pgoverif/checker/core"
)

func init() {
	register(&core.Rule{ID: "MB-PUBLISH", Props: []string{"C06", "C01"}, Floor: 6,
		Doc: "TCP mailbox receiver: the message channel is sent to only by handleConn, only on the commit tag, only after the commit ack was encoded successfully, with the whole per-connection buffer as one record; the buffer is reset on begin and after publishing; values are appended only on the value tag",
		Run: runMBPublish})
	register(&core.Rule{ID: "MB-REDELIVER", Props: []string{"C06", "C01"}, Floor: 10,
		Doc: "reader resources: Abort puts the reads in progress back in front of the backlog (append(inProgress..., backlog...)) and clears the in-progress list; Commit clears it",
		Run: runMBRedeliver})
	register(&core.Rule{ID: "MB-BACKLOGFIRST", Props: []string{"C06"}, Floor: 10,
		Doc: "reader resources: ReadValue serves the backlog before receiving from the channel, and every value it returns was recorded as in progress on that path",
		Run: runMBBacklogFirst})
	register(&core.Rule{ID: "MB-TAGS", Props: []string{"C06"}, Floor: 6,
		Doc: "TCP mailbox protocol: the receiver's switch covers every tag of the const block; the sender emits Begin exactly when not yet in a critical section and then records it; PreCommit/Commit are no-ops exactly when nothing was sent; Commit clears the flag only after the ack was decoded",
		Run: runMBTags})
	register(&core.Rule{ID: "MB-RESEND", Props: []string{"C06"}, Floor: 3,
		Doc: "TCP mailbox sender: every value successfully encoded in WriteValue is appended, in order and with the same operand, to the resend buffer used when Commit must replay the section on a new connection",
		Run: runMBResend})
	register(&core.Rule{ID: "CH-DEFER", Props: []string{"C06", "C01"}, Floor: 3,
		Doc: "OutputChan: WriteValue only buffers; Commit sends the buffer in index order; Abort drops it",
		Run: runCHDefer})
	register(&core.Rule{ID: "MB-LEN", Props: []string{"C06"}, Floor: 2,
		Doc: "mailbox length: the reported length is len(backlog) only (never counting reads in progress), after moving at most one record from the channel",
		Run: runMBLen})
}

type readerSpec struct {
	pkg, typ         string
	backlog, inProg  string // field names: pending-to-deliver list, reads-in-progress list
	channel          string
	timeoutIsDefault bool // on timeout a constant default is returned instead of aborting
}

func readerSpecs() []readerSpec {
	return []readerSpec{
		{an.PkgResources, "tcpMailboxesLocal", "readBacklog", "readsInProgress", "msgChannel", false},
		{an.PkgResources, "relaxedMailboxesLocal", "readBacklog", "readsInProgress", "msgChannel", false},
		{an.PkgResources, "InputChan", "buffer", "backlogBuffer", "channel", false},
		{an.ModPrefix + "systems/raftkvs", "CustomInChan", "buffer", "backlogBuffer", "channel", true},
		{an.ModPrefix + "systems/raftres/raft", "CustomInChan", "buffer", "backlogBuffer", "channel", true},
	}
}

func runMBPublish(c *core.Ctx) {
	e := EnvOf(c.Prog)
	t := mustType(c, e, an.PkgResources, "tcpMailboxesLocal")
	fn := mustMethod(c, e, an.PkgResources, "tcpMailboxesLocal", "handleConn")
	if t == nil || fn == nil {
		return
	}
	msgCh := mustField(c, t, "msgChannel")
	if msgCh == nil {
		return
	}
	// who sends on msgChannel
	for _, f := range e.Ix.Funcs() {
		if f == fn {
			continue
		}
		info := f.Pkg.Info
		ast.Inspect(f.Body(), func(n ast.Node) bool {
			if s, ok := n.(*ast.SendStmt); ok && an.SelectedField(info, s.Chan) == msgCh {
				c.Bad(f.Name()+":send(msgChannel)", s.Pos(), "the mailbox's delivery channel is written outside handleConn: messages bypass the begin/commit batching")
			}
			return true
		})
	}
	g := e.Graph(fn)
	info := fn.Pkg.Info
	tags := map[string]types.Object{}
	for _, name := range []string{"tcpNetworkBegin", "tcpNetworkValue", "tcpNetworkPreCommit", "tcpNetworkCommit"} {
		o := c.Prog.Pkg(an.PkgResources).Types.Scope().Lookup(name)
		if o == nil {
			c.Lost("resources."+name, "protocol tag not found")
			return
		}
		tags[name] = o
	}
	clauseOf := func(n ast.Node) *ast.CaseClause {
		cc, _ := g.Enclosing(n, func(m ast.Node) bool { _, ok := m.(*ast.CaseClause); return ok }).(*ast.CaseClause)
		return cc
	}
	clauseHasTag := func(cc *ast.CaseClause, tag types.Object) bool {
		if cc == nil {
			return false
		}
		for _, ex := range cc.List {
			if selectedOrIdentObj(info, ex) == tag {
				return true
			}
		}
		return false
	}
	sends := g.FindAtoms(func(a ast.Node) bool {
		s, ok := a.(*ast.SendStmt)
		return ok && an.SelectedField(info, s.Chan) == msgCh
	})
	if len(sends) == 0 {
		c.Bad("handleConn:publishes", fn.Pos(), "handleConn never delivers a received batch to the mailbox channel")
		return
	}
	var bufObj types.Object
	for i, s := range sends {
		ss := s.(*ast.SendStmt)
		key := fmt.Sprintf("handleConn:publish#%d", i+1)
		c.Check(clauseHasTag(clauseOf(s), tags["tcpNetworkCommit"]), key+"-on-commit-tag", s.Pos(), "published on the commit tag",
			"a batch is delivered to readers on a tag other than tcpNetworkCommit: messages of a section that may still abort become visible")
		// ack encoded successfully first
		encs := g.FindAtoms(func(a ast.Node) bool {
			call, ok := a.(*ast.CallExpr)
			if !ok {
				return false
			}
			f := an.CalleeFunc(info, call)
			return f != nil && f.Name() == "Encode" && f.Pkg() != nil && f.Pkg().Path() == "encoding/gob" && clauseOf(a) == clauseOf(s)
		})
		okAck := false
		for _, en := range encs {
			as, isAs := g.Parent(en).(*ast.AssignStmt)
			if !isAs || len(as.Lhs) != 1 {
				continue
			}
			errObj := an.ObjOf(info, as.Lhs[0])
			for _, cd := range g.CondAtoms(func(ex ast.Expr) bool { return isNeqNil(info, ex, errObj) }) {
				if g.Dominates(en, cd) && g.GuardedBy(s, cd, false) {
					okAck = true
				}
			}
		}
		c.Check(okAck, key+"-after-ack", s.Pos(), "the commit acknowledgement was encoded without error before the batch is published",
			"the batch is published without a successfully encoded commit acknowledgement: the sender may resend the whole section on a new connection and the batch would be delivered twice")
		// whole buffer as one record
		whole := false
		if cl, ok := an.Unparen(ss.Value).(*ast.CompositeLit); ok {
			for _, el := range cl.Elts {
				if kv, ok := el.(*ast.KeyValueExpr); ok {
					if o := an.ObjOf(info, kv.Value); o != nil {
						if _, isSlice := o.Type().Underlying().(*types.Slice); isSlice {
							whole = true
							bufObj = o
						}
					}
				}
			}
		}
		c.Check(whole, key+"-whole-batch", s.Pos(), "the whole per-connection buffer is sent as one record", "the published record is not the whole per-connection buffer: the messages of one section would not arrive together")
	}
	if bufObj == nil {
		return
	}
	// buffer discipline
	resets := g.FindAtoms(func(a ast.Node) bool {
		as, ok := a.(*ast.AssignStmt)
		if !ok || len(as.Lhs) != 1 || len(as.Rhs) != 1 {
			return false
		}
		return an.ObjOf(info, as.Lhs[0]) == bufObj && isNilIdent(info, as.Rhs[0])
	})
	beginReset, commitReset := false, false
	for _, r := range resets {
		if clauseHasTag(clauseOf(r), tags["tcpNetworkBegin"]) {
			beginReset = true
		}
		if clauseHasTag(clauseOf(r), tags["tcpNetworkCommit"]) {
			for _, s := range sends {
				if g.Dominates(s, r) || clauseOf(s) == clauseOf(r) {
					commitReset = true
				}
			}
		}
	}
	for _, r := range resets {
		cc := clauseOf(r)
		if !clauseHasTag(cc, tags["tcpNetworkBegin"]) {
			continue
		}
		if bb := g.BlockOfStmt(cc, cfg.KindSwitchCaseBody); bb != nil {
			always := g.PassesWithin(bb, cc.Pos(), cc.End(), func(a ast.Node) bool {
				as, ok := a.(*ast.AssignStmt)
				return ok && len(as.Lhs) == 1 && len(as.Rhs) == 1 && an.ObjOf(info, as.Lhs[0]) == bufObj && isNilIdent(info, as.Rhs[0])
			})
			c.Check(always, "handleConn:buffer-reset-on-every-begin", r.Pos(), "every path through the begin arm discards the unfinished batch",
				"the begin arm can be left without resetting the per-connection buffer: the sender's Abort sends nothing and relies on the next Begin to discard the aborted attempt's values, which would be delivered with the retry")
		} else {
			c.Lost("handleConn:begin-arm-block", "CFG block of the begin arm not found")
		}
		break
	}
	c.Check(beginReset, "handleConn:buffer-reset-on-begin", fn.Pos(), "Begin discards any unfinished batch", "the begin tag does not reset the per-connection buffer: values of an aborted attempt would be delivered with the retry")
	c.Check(commitReset, "handleConn:buffer-reset-after-publish", fn.Pos(), "the buffer is emptied after publishing", "the per-connection buffer is not emptied after a commit: the next section on this connection would re-deliver the previous messages")
	appends := 0
	ast.Inspect(fn.Body(), func(n ast.Node) bool {
		as, ok := n.(*ast.AssignStmt)
		if !ok || len(as.Lhs) != 1 || an.ObjOf(info, as.Lhs[0]) != bufObj {
			return true
		}
		call, ok := an.Unparen(as.Rhs[0]).(*ast.CallExpr)
		if !ok || !an.IsBuiltin(info, call, "append") {
			return true
		}
		appends++
		// the clause of the enclosing statement (possibly inside a closure)
		cc := (*ast.CaseClause)(nil)
		for _, st := range collectClauses(fn.Body()) {
			if st.Pos() <= as.Pos() && as.End() <= st.End() {
				cc = st
			}
		}
		c.Check(clauseHasTag(cc, tags["tcpNetworkValue"]), fmt.Sprintf("handleConn:append#%d-on-value-tag", appends), as.Pos(), "values are buffered on the value tag",
			"the per-connection buffer is appended to on a tag other than tcpNetworkValue")
		return true
	})
	if appends == 0 {
		c.Bad("handleConn:buffers-values", fn.Pos(), "received values are never appended to the per-connection buffer")
	}
}

// oldValueOf: e denotes the value field fld has when the function is entered: the field itself, or a single-definition
// local initialised from it, read before any statement of the function assigns the field.
func oldValueOf(info *types.Info, body ast.Node, e ast.Expr, fld *types.Var) bool {
	r := an.ResolveLocal(info, body, e)
	if fld == nil || an.SelectedField(info, r) != fld {
		return false
	}
	ok := true
	ast.Inspect(body, func(n ast.Node) bool {
		if as, isAs := n.(*ast.AssignStmt); isAs && as.End() <= r.Pos() {
			for _, l := range as.Lhs {
				if an.SelectedField(info, l) == fld {
					ok = false
				}
			}
		}
		return ok
	})
	return ok
}

func collectClauses(body ast.Node) []*ast.CaseClause {
	var out []*ast.CaseClause
	ast.Inspect(body, func(n ast.Node) bool {
		if cc, ok := n.(*ast.CaseClause); ok {
			out = append(out, cc)
		}
		return true
	})
	return out
}

// derivesFromField: expression e is field fld, or a local variable that is only
// appended to inside a range loop over fld (a per-element transformed copy, in order).
func derivesFromField(info *types.Info, body ast.Node, e ast.Expr, fld *types.Var) bool {
	if oldValueOf(info, body, e, fld) {
		return true
	}
	obj := an.ObjOf(info, e)
	if obj == nil {
		return false
	}
	ok := false
	ast.Inspect(body, func(n ast.Node) bool {
		st, isStmt := n.(ast.Stmt)
		if !isStmt {
			return true
		}
		loopBody, _, isLoop := perElementLoop(info, st, func(x ast.Expr) bool { return oldValueOf(info, body, x, fld) })
		if !isLoop || !loopIsForward(st) {
			return true
		}
		ast.Inspect(loopBody, func(m ast.Node) bool {
			if as, isAs := m.(*ast.AssignStmt); isAs && len(as.Lhs) == 1 && an.ObjOf(info, as.Lhs[0]) == obj {
				if call, isCall := an.Unparen(as.Rhs[0]).(*ast.CallExpr); isCall && an.IsBuiltin(info, call, "append") && len(call.Args) >= 1 && an.ObjOf(info, call.Args[0]) == obj {
					ok = true
				}
			}
			return true
		})
		return true
	})
	return ok
}

// readsField: x denotes what field fld holds when x is evaluated: a selection of the field, or a single-definition
// local initialised from the field with no assignment to the field between the definition and x.
func readsField(info *types.Info, body ast.Node, x ast.Expr, fld *types.Var) bool {
	x = an.Unparen(x)
	if fld == nil {
		return false
	}
	if an.SelectedField(info, x) == fld {
		return true
	}
	id, isId := x.(*ast.Ident)
	if !isId {
		return false
	}
	def := an.SingleDef(info, body, info.ObjectOf(id))
	if def == nil || an.SelectedField(info, def) != fld {
		return false
	}
	ok := true
	ast.Inspect(body, func(n ast.Node) bool {
		if as, isAs := n.(*ast.AssignStmt); isAs && as.Pos() > def.End() && as.End() <= x.Pos() {
			for _, l := range as.Lhs {
				if an.SelectedField(info, l) == fld {
					ok = false
				}
			}
		}
		return ok
	})
	return ok
}

func runMBRedeliver(c *core.Ctx) {
	e := EnvOf(c.Prog)
	for _, sp := range readerSpecs() {
		t := mustType(c, e, sp.pkg, sp.typ)
		if t == nil {
			continue
		}
		tk := an.TypeKey(t)
		backlog, inProg := mustField(c, t, sp.backlog), mustField(c, t, sp.inProg)
		abort, commit := mustMethod(c, e, sp.pkg, sp.typ, "Abort"), mustMethod(c, e, sp.pkg, sp.typ, "Commit")
		if backlog == nil || inProg == nil || abort == nil || commit == nil {
			continue
		}
		info := abort.Pkg.Info
		ordered, cleared := false, false
		wrongOrder := false
		ast.Inspect(abort.Body(), func(n ast.Node) bool {
			as, ok := n.(*ast.AssignStmt)
			if !ok || len(as.Lhs) != 1 || len(as.Rhs) != 1 {
				return true
			}
			if an.SelectedField(info, as.Lhs[0]) == backlog {
				if call, ok := an.Unparen(an.ResolveLocal(info, abort.Body(), as.Rhs[0])).(*ast.CallExpr); ok && an.IsBuiltin(info, call, "append") && len(call.Args) == 2 && call.Ellipsis.IsValid() {
					if derivesFromField(info, abort.Body(), call.Args[0], inProg) && oldValueOf(info, abort.Body(), call.Args[1], backlog) {
						ordered = true
					}
					if oldValueOf(info, abort.Body(), call.Args[0], backlog) && derivesFromField(info, abort.Body(), call.Args[1], inProg) {
						wrongOrder = true
					}
				}
			}
			if an.SelectedField(info, as.Lhs[0]) == inProg && isNilIdent(info, as.Rhs[0]) {
				cleared = true
			}
			return true
		})
		switch {
		case ordered:
			c.Ok(tk+".Abort:redelivers-first", abort.Pos(), "backlog = append(inProgress..., backlog...)")
		case wrongOrder:
			c.Bad(tk+".Abort:redelivers-first", abort.Pos(), "Abort appends the reads in progress after the backlog: messages consumed by the failed attempt are redelivered after later ones (reordering)")
		default:
			c.Bad(tk+".Abort:redelivers-first", abort.Pos(), "Abort does not put the reads in progress back in front of the backlog: inputs consumed by a failed attempt are lost or reordered")
		}
		c.Check(cleared, tk+".Abort:clears-in-progress", abort.Pos(), "the in-progress list is cleared", "Abort does not clear the in-progress list: the same messages would be redelivered again by the next abort (duplication)")
		ci := commit.Pkg.Info
		ccleared := false
		ast.Inspect(commit.Body(), func(n ast.Node) bool {
			if as, ok := n.(*ast.AssignStmt); ok && len(as.Lhs) == 1 && len(as.Rhs) == 1 && an.SelectedField(ci, as.Lhs[0]) == inProg && isNilIdent(ci, as.Rhs[0]) {
				ccleared = true
			}
			return true
		})
		c.Check(ccleared, tk+".Commit:clears-in-progress", commit.Pos(), "Commit forgets the reads of the committed section", "Commit does not clear the in-progress list: a later abort would redeliver messages that a committed section already consumed (duplication)")
	}
}

func runMBBacklogFirst(c *core.Ctx) {
	e := EnvOf(c.Prog)
	for _, sp := range readerSpecs() {
		t := mustType(c, e, sp.pkg, sp.typ)
		fn := mustMethod(c, e, sp.pkg, sp.typ, "ReadValue")
		if t == nil || fn == nil {
			continue
		}
		tk := an.TypeKey(t)
		backlog, inProg, ch := mustField(c, t, sp.backlog), mustField(c, t, sp.inProg), mustField(c, t, sp.channel)
		if backlog == nil || inProg == nil || ch == nil {
			continue
		}
		g := e.Graph(fn)
		info := fn.Pkg.Info
		recvs := g.FindAtoms(func(a ast.Node) bool {
			u, ok := a.(*ast.UnaryExpr)
			return ok && u.Op == token.ARROW && an.SelectedField(info, u.X) == ch
		})
		isBacklog := func(x ast.Expr) bool { return readsField(info, fn.Body(), x, backlog) }
		if len(recvs) == 0 {
			c.Lost(tk+".ReadValue:receive", "no receive from the channel field found")
			continue
		}
		for i, r := range recvs {
			ok := guardedByLeaf(g, r, func(leaf ast.Expr) (bool, bool) {
				isLen, nonEmptyWhenTrue := lenTest(info, leaf, isBacklog)
				return isLen, !nonEmptyWhenTrue
			})
			c.Check(ok, fmt.Sprintf("%s.ReadValue:receive#%d-after-backlog", tk, i+1), r.Pos(), "the channel is read only when the backlog is empty",
				"ReadValue can receive a new message from the channel while redelivered/pending messages are still in the backlog: messages are reordered")
		}
		// every successful return of a message value is preceded by recording it as in progress
		records := g.FindAtoms(func(a ast.Node) bool {
			as, ok := a.(*ast.AssignStmt)
			if !ok || len(as.Lhs) != 1 || an.SelectedField(info, as.Lhs[0]) != inProg {
				return false
			}
			call, ok := an.Unparen(as.Rhs[0]).(*ast.CallExpr)
			return ok && an.IsBuiltin(info, call, "append") && len(call.Args) >= 2 && an.SelectedField(info, call.Args[0]) == inProg
		})
		rets := g.FindAtoms(func(a ast.Node) bool {
			r, ok := a.(*ast.ReturnStmt)
			if !ok || len(r.Results) != 2 || !isNilIdent(info, r.Results[1]) {
				return false
			}
			// a local variable (a message), not a package-level default
			if o := an.ObjOf(info, r.Results[0]); o != nil {
				if v, ok := o.(*types.Var); ok && v.Parent() != v.Pkg().Scope() {
					return true
				}
			}
			return false
		})
		if len(rets) == 0 {
			c.Lost(tk+".ReadValue:returns", "no successful return of a message found")
		}
		for i, r := range rets {
			rs := r.(*ast.ReturnStmt)
			val := an.ObjOf(info, rs.Results[0])
			ok := false
			for _, rec := range records {
				call := an.Unparen(rec.(*ast.AssignStmt).Rhs[0]).(*ast.CallExpr)
				if an.ObjOf(info, call.Args[1]) == val && g.Dominates(rec, r) {
					ok = true
				}
			}
			c.Check(ok, fmt.Sprintf("%s.ReadValue:return#%d-recorded", tk, i+1), r.Pos(), "the returned message was appended to the in-progress list on this path",
				"ReadValue returns a message without recording it as in progress: if the section aborts the message is lost instead of being redelivered")
		}
		// batch conservation: a record taken off the channel carries a slice of messages; all of them must end up in the
		// backlog / in-progress lists (whole slice, or head + tail), in every method of the type that receives from the channel
		if st, ok := chanElemStruct(ch); ok {
			for _, m := range e.Ix.MethodsOf(t) {
				mg := e.Graph(m)
				mi := m.Pkg.Info
				for j, r := range mg.FindAtoms(func(a ast.Node) bool {
					u, ok := a.(*ast.UnaryExpr)
					return ok && u.Op == token.ARROW && an.SelectedField(mi, u.X) == ch
				}) {
					key := fmt.Sprintf("%s.%s:receive#%d-batch-conserved", tk, m.Obj.Name(), j+1)
					whole, head, tail := batchPieces(mg, mi, r, st, backlog, inProg)
					c.Check(whole || (head && tail), key, r.Pos(), "every message of the received batch is kept (whole slice, or first element and the rest)",
						"a batch of messages is taken off the delivery channel but not all of its messages are stored in the backlog / in-progress lists on every path: the remaining messages of that critical section are lost")
				}
			}
		}
		// backlog branch pops from the front
		pops := g.FindAtoms(func(a ast.Node) bool {
			as, ok := a.(*ast.AssignStmt)
			if !ok || len(as.Lhs) != 1 || an.SelectedField(info, as.Lhs[0]) != backlog {
				return false
			}
			sl, ok := an.Unparen(as.Rhs[0]).(*ast.SliceExpr)
			return ok && isBacklog(sl.X) && sl.High == nil && sl.Low != nil
		})
		front := false
		ast.Inspect(fn.Body(), func(n ast.Node) bool {
			if ix, ok := n.(*ast.IndexExpr); ok && isBacklog(ix.X) {
				if tv := info.Types[ix.Index]; tv.Value != nil && tv.Value.ExactString() == "0" {
					front = true
				}
			}
			return true
		})
		c.Check(len(pops) > 0 && front, tk+".ReadValue:pops-front", fn.Pos(), "the backlog is consumed from its front", "the backlog is not consumed from its front (FIFO order of redelivered messages)")
	}
}

func runMBTags(c *core.Ctx) {
	e := EnvOf(c.Prog)
	pk := c.Prog.Pkg(an.PkgResources)
	recvFn := mustMethod(c, e, an.PkgResources, "tcpMailboxesLocal", "handleConn")
	rt := mustType(c, e, an.PkgResources, "tcpMailboxesRemote")
	if pk == nil || recvFn == nil || rt == nil {
		return
	}
	// the const block containing tcpNetworkBegin
	var tagObjs []types.Object
	for _, f := range pk.Files {
		for _, d := range f.Decls {
			gd, ok := d.(*ast.GenDecl)
			if !ok || gd.Tok != token.CONST {
				continue
			}
			has := false
			var objs []types.Object
			for _, s := range gd.Specs {
				for _, nm := range s.(*ast.ValueSpec).Names {
					objs = append(objs, pk.Info.Defs[nm])
					if nm.Name == "tcpNetworkBegin" {
						has = true
					}
				}
			}
			if has {
				tagObjs = objs
			}
		}
	}
	if len(tagObjs) < 4 {
		c.Lost("tcpNetwork* tags", "const block with the protocol tags not found")
		return
	}
	info := recvFn.Pkg.Info
	covered := map[types.Object]bool{}
	ast.Inspect(recvFn.Body(), func(n ast.Node) bool {
		if cc, ok := n.(*ast.CaseClause); ok {
			for _, ex := range cc.List {
				if o := selectedOrIdentObj(info, ex); o != nil {
					covered[o] = true
				}
			}
		}
		return true
	})
	for _, o := range tagObjs {
		c.Check(covered[o], "handleConn:handles("+o.Name()+")", recvFn.Pos(), "the receiver has an arm for this tag", "the receiver's switch has no arm for protocol tag "+o.Name()+": the sender would wait for an acknowledgement that never comes")
	}
	inCS := mustField(c, rt, "inCriticalSection")
	begin := pk.Types.Scope().Lookup("tcpNetworkBegin")
	commitTag := pk.Types.Scope().Lookup("tcpNetworkCommit")
	preTag := pk.Types.Scope().Lookup("tcpNetworkPreCommit")
	if inCS == nil {
		return
	}
	encodesTag := func(info *types.Info, a ast.Node, tag types.Object) bool {
		call, ok := a.(*ast.CallExpr)
		if !ok || len(call.Args) != 1 {
			return false
		}
		f := an.CalleeFunc(info, call)
		return f != nil && f.Name() == "Encode" && an.ObjOf(info, call.Args[0]) == tag
	}
	if fn := mustMethod(c, e, an.PkgResources, "tcpMailboxesRemote", "WriteValue"); fn != nil {
		g := e.Graph(fn)
		info := fn.Pkg.Info
		begins := g.FindAtoms(func(a ast.Node) bool { return encodesTag(info, a, begin) })
		notIn := g.CondAtoms(func(ex ast.Expr) bool {
			u, ok := an.Unparen(ex).(*ast.UnaryExpr)
			return ok && u.Op == token.NOT && an.SelectedField(info, u.X) == inCS
		})
		sets := g.FindAtoms(func(a ast.Node) bool {
			rhs, ok := fieldIsAssigned(info, a, inCS)
			return ok && isBoolConst(info, rhs, true)
		})
		okBegin := len(begins) > 0
		for _, b := range begins {
			guarded := false
			for _, cd := range notIn {
				if g.GuardedBy(b, cd, true) {
					guarded = true
				}
			}
			okBegin = okBegin && guarded
		}
		c.Check(okBegin, "tcpMailboxesRemote.WriteValue:begin-iff-first-write", fn.Pos(), "Begin is sent exactly when the section has not written yet",
			"the begin tag is not sent exactly on the first write of a section: a retry after an abort would extend the receiver's stale batch (messages of the failed attempt are delivered)")
		okSet := false
		for _, s := range sets {
			for _, cd := range notIn {
				if g.GuardedBy(s, cd, true) {
					okSet = true
				}
			}
		}
		c.Check(okSet, "tcpMailboxesRemote.WriteValue:records-section", fn.Pos(), "inCriticalSection is set with the first write", "inCriticalSection is not set on the first write: PreCommit/Commit would skip the handshake and the messages would never be published")
		// every value write goes through the value tag
		valueTag := pk.Types.Scope().Lookup("tcpNetworkValue")
		vt := g.FindAtoms(func(a ast.Node) bool { return encodesTag(info, a, valueTag) })
		c.Check(len(vt) > 0, "tcpMailboxesRemote.WriteValue:value-tag", fn.Pos(), "each value is preceded by the value tag", "values are sent without the value tag")
	}
	for _, m := range []struct {
		name string
		tag  types.Object
	}{{"PreCommit", preTag}, {"Commit", commitTag}} {
		fn := mustMethod(c, e, an.PkgResources, "tcpMailboxesRemote", m.name)
		if fn == nil {
			continue
		}
		g := e.Graph(fn)
		info := fn.Pkg.Info
		// early `return nil` guarded by !inCriticalSection
		notIn := g.CondAtoms(func(ex ast.Expr) bool {
			u, ok := an.Unparen(ex).(*ast.UnaryExpr)
			return ok && u.Op == token.NOT && an.SelectedField(info, u.X) == inCS
		})
		c.Check(len(notIn) > 0, "tcpMailboxesRemote."+m.name+":noop-iff-nothing-sent", fn.Pos(), "the handshake is skipped only when nothing was sent", "the "+m.name+" handshake is not conditioned on inCriticalSection")
		sent := false
		ast.Inspect(fn.Body(), func(n ast.Node) bool {
			if encodesTag(info, n, m.tag) {
				sent = true
			}
			return true
		})
		c.Check(sent, "tcpMailboxesRemote."+m.name+":sends-tag", fn.Pos(), "the "+m.name+" tag is sent", "the "+m.name+" tag is never sent: the receiver never publishes / acknowledges")
	}
	// Commit clears inCriticalSection only after the ack was decoded without error (inside the goroutine literal)
	if fn := mustMethod(c, e, an.PkgResources, "tcpMailboxesRemote", "Commit"); fn != nil {
		info := fn.Pkg.Info
		okAll, n := true, 0
		ast.Inspect(fn.Body(), func(m ast.Node) bool {
			lit, ok := m.(*ast.FuncLit)
			if !ok {
				return true
			}
			g := e.GraphOfLit(fn.Pkg, lit)
			clears := g.FindAtoms(func(a ast.Node) bool {
				rhs, ok := fieldIsAssigned(info, a, inCS)
				return ok && isBoolConst(info, rhs, false)
			})
			decs := g.FindAtoms(func(a ast.Node) bool {
				call, ok := a.(*ast.CallExpr)
				if !ok {
					return false
				}
				f := an.CalleeFunc(info, call)
				return f != nil && f.Name() == "Decode"
			})
			for _, cl := range clears {
				n++
				ok := false
				for _, d := range decs {
					as, isAs := g.Parent(d).(*ast.AssignStmt)
					if !isAs {
						continue
					}
					errObj := an.ObjOf(info, as.Lhs[0])
					// the error may travel through copies before it is tested (`ret = err ... err2 = ret; if err2 != nil`)
					copies := errCopies(info, lit.Body, errObj)
					for _, blk := range g.CFG.Blocks {
						cd, _ := g.Cond(blk)
						if cd == nil {
							continue
						}
						isT, nonNil := nilTestOn(g, info, cd, func(x ast.Expr) bool { return copies[an.ObjOf(info, x)] })
						if !isT {
							continue
						}
						after := g.Search(an.Query{From: d, Target: func(y ast.Node) bool { return y == ast.Node(cd) }}).Found
						if after && g.GuardedBy(cl, cd, !nonNil) {
							ok = true
						}
					}
				}
				okAll = okAll && ok
			}
			return true
		})
		c.Check(n > 0 && okAll, "tcpMailboxesRemote.Commit:done-only-after-ack", fn.Pos(), "the section is marked finished only after the commit ack was decoded",
			"Commit marks the section finished (inCriticalSection=false) without a successfully decoded acknowledgement: a lost commit would never be retried and the section's messages would be dropped")
	}
}

func runMBResend(c *core.Ctx) {
	e := EnvOf(c.Prog)
	rt := mustType(c, e, an.PkgResources, "tcpMailboxesRemote")
	fn := mustMethod(c, e, an.PkgResources, "tcpMailboxesRemote", "WriteValue")
	if rt == nil || fn == nil {
		return
	}
	resend := mustField(c, rt, "resendBuffer")
	if resend == nil {
		return
	}
	g := e.Graph(fn)
	info := fn.Pkg.Info
	encs := g.FindAtoms(func(a ast.Node) bool {
		call, ok := a.(*ast.CallExpr)
		if !ok || len(call.Args) != 1 {
			return false
		}
		f := an.CalleeFunc(info, call)
		return f != nil && f.Name() == "Encode" && f.Pkg() != nil && f.Pkg().Path() == "encoding/gob"
	})
	appendsOf := func(arg ast.Expr) []ast.Node {
		want := an.ExprString(arg)
		return g.FindAtoms(func(a ast.Node) bool {
			as, ok := a.(*ast.AssignStmt)
			if !ok || len(as.Lhs) != 1 || an.SelectedField(info, as.Lhs[0]) != resend {
				return false
			}
			call, ok := an.Unparen(as.Rhs[0]).(*ast.CallExpr)
			return ok && an.IsBuiltin(info, call, "append") && len(call.Args) == 2 && an.SelectedField(info, call.Args[0]) == resend && an.ExprString(call.Args[1]) == want
		})
	}
	if len(encs) < 3 {
		c.Lost("tcpMailboxesRemote.WriteValue:encodes", "expected >= 3 Encode calls, found %d", len(encs))
	}
	for i, en := range encs {
		arg := en.(*ast.CallExpr).Args[0]
		key := fmt.Sprintf("tcpMailboxesRemote.WriteValue:encode#%d(%s)", i+1, an.ExprString(arg))
		aps := appendsOf(arg)
		// some append of the same operand that is dominated by the encode, and that every path from the
		// encode's success to the next encode / the exit crosses
		ok := false
		for _, ap := range aps {
			if !g.Dominates(en, ap) {
				continue
			}
			// from the encode, following only success (err == nil) edges is not needed: the error edge returns.
			bypass := g.Search(an.Query{From: en, ToExit: false, Feasible: true, Target: func(a ast.Node) bool {
				for _, other := range encs {
					if a == other && other != en {
						return true
					}
				}
				return false
			}, Avoid: func(a ast.Node) bool { return a == ap }})
			exitBypass := g.Search(an.Query{From: en, ToExit: true, Feasible: true, Avoid: func(a ast.Node) bool {
				if a == ap {
					return true
				}
				// an error return (returning a non-nil error) is not a success path
				if r, isRet := a.(*ast.ReturnStmt); isRet && len(r.Results) == 1 && !isNilIdent(info, r.Results[0]) {
					return true
				}
				return false
			}})
			if !bypass.Found && !exitBypass.Found {
				ok = true
			}
		}
		c.Check(ok, key, en.Pos(), "recorded in the resend buffer, in order, before anything else is sent",
			"a successfully encoded item is not appended (same operand, same order) to resendBuffer: if the connection breaks during Commit the replayed section is incomplete or reordered")
	}
}

func runCHDefer(c *core.Ctx) {
	e := EnvOf(c.Prog)
	t := mustType(c, e, an.PkgResources, "OutputChan")
	if t == nil {
		return
	}
	buf, ch := mustField(c, t, "buffer"), mustField(c, t, "channel")
	wr, cm, ab := mustMethod(c, e, an.PkgResources, "OutputChan", "WriteValue"), mustMethod(c, e, an.PkgResources, "OutputChan", "Commit"), mustMethod(c, e, an.PkgResources, "OutputChan", "Abort")
	if buf == nil || ch == nil || wr == nil || cm == nil || ab == nil {
		return
	}
	// WriteValue: appends value parameter to buffer
	{
		info := wr.Pkg.Info
		appended := false
		ast.Inspect(wr.Body(), func(n ast.Node) bool {
			if as, ok := n.(*ast.AssignStmt); ok && len(as.Lhs) == 1 && an.SelectedField(info, as.Lhs[0]) == buf {
				if call, ok := an.Unparen(as.Rhs[0]).(*ast.CallExpr); ok && an.IsBuiltin(info, call, "append") && len(call.Args) == 2 && an.SelectedField(info, call.Args[0]) == buf {
					appended = true
				}
			}
			return true
		})
		c.Check(appended, "OutputChan.WriteValue:buffers", wr.Pos(), "buffer = append(buffer, value)", "WriteValue does not append the value to the buffer: the write is lost at commit (or was sent early)")
	}
	// Commit: ranges over buffer with value variable, sends each on channel
	{
		info := cm.Pkg.Info
		inOrder := false
		ast.Inspect(cm.Body(), func(n ast.Node) bool {
			st, isStmt := n.(ast.Stmt)
			if !isStmt {
				return true
			}
			loopBody, loopX, isLoop := perElementLoop(info, st, func(x ast.Expr) bool { return readsField(info, cm.Body(), x, buf) })
			if !isLoop || !loopIsForward(st) {
				return true
			}
			ast.Inspect(loopBody, func(m ast.Node) bool {
				if s, ok := m.(*ast.SendStmt); ok && an.SelectedField(info, s.Chan) == ch {
					uses := false
					for _, part := range withLocalDefs(info, loopBody, s.Value) {
						ast.Inspect(part, func(k ast.Node) bool {
							if ex, ok := k.(ast.Expr); ok && isLoopElement(info, st, loopX, ex) {
								uses = true
							}
							return true
						})
					}
					if uses {
						inOrder = true
					}
				}
				return true
			})
			return true
		})
		c.Check(inOrder, "OutputChan.Commit:sends-buffer-in-order", cm.Pos(), "for _, v := range buffer { channel <- v }", "Commit does not send every buffered value in index order")
		// ... and forgets them: the body that sends (Commit itself or the goroutine it starts) empties the buffer on every path
		emptied := false
		for _, b := range bodiesOf(cm) {
			sends := false
			ast.Inspect(b.body, func(m ast.Node) bool {
				if lit, isLit := m.(*ast.FuncLit); isLit && b.lit != lit {
					return false
				}
				if s, ok := m.(*ast.SendStmt); ok && an.SelectedField(info, s.Chan) == ch {
					sends = true
				}
				return true
			})
			if !sends {
				continue
			}
			g := graphOfBody(e, cm.Pkg, cm, b)
			ok, _ := g.MustPass(nil, func(a ast.Node) bool {
				rhs, isSet := fieldIsAssigned(info, a, buf)
				if !isSet || rhs == nil {
					return false
				}
				if isNilIdent(info, rhs) {
					return true
				}
				if sl, isSl := an.Unparen(rhs).(*ast.SliceExpr); isSl && sl.High != nil {
					if tv := info.Types[sl.High]; tv.Value != nil && tv.Value.ExactString() == "0" {
						return true
					}
				}
				return false
			}, nil)
			emptied = ok
		}
		c.Check(emptied, "OutputChan.Commit:forgets-sent-values", cm.Pos(), "the buffer is emptied on every path of the sending body",
			"Commit keeps the buffered values after sending them: the next section's commit sends them again (every message is duplicated once per later commit)")
	}
	{
		info := ab.Pkg.Info
		dropped := false
		ast.Inspect(ab.Body(), func(n ast.Node) bool {
			if as, ok := n.(*ast.AssignStmt); ok && len(as.Lhs) == 1 && len(as.Rhs) == 1 && an.SelectedField(info, as.Lhs[0]) == buf && isNilIdent(info, as.Rhs[0]) {
				dropped = true
			}
			return true
		})
		c.Check(dropped, "OutputChan.Abort:drops-buffer", ab.Pos(), "buffer = nil", "Abort does not drop the buffered writes: they would be sent by the next commit")
	}
}

func runMBLen(c *core.Ctx) {
	e := EnvOf(c.Prog)
	// the length view asks the mailbox every time it is read: what it returns is the result of a length() call made by
	// this very read, never a value remembered from an earlier read of the section (the section may have consumed since)
	if fn := mustMethod(c, e, an.PkgResources, "mailboxesLocalLength", "ReadValue"); fn != nil {
		info := fn.Pkg.Info
		bad := ""
		n := 0
		ast.Inspect(fn.Body(), func(m ast.Node) bool {
			if _, isLit := m.(*ast.FuncLit); isLit {
				return false
			}
			r, ok := m.(*ast.ReturnStmt)
			if !ok || len(r.Results) != 2 {
				return true
			}
			if !isNilIdent(info, r.Results[1]) {
				return true // an error return carries no length
			}
			n++
			call, isCall := an.Unparen(an.ResolveLocal(info, fn.Body(), r.Results[0])).(*ast.CallExpr)
			fresh := false
			if isCall {
				if sel, isSel := an.Unparen(call.Fun).(*ast.SelectorExpr); isSel && sel.Sel.Name == "length" {
					if f := an.SelectedField(info, sel.X); f != nil && f.Name() == "mailbox" {
						fresh = true
					}
				}
			}
			if !fresh {
				bad = an.ExprString(r.Results[0])
			}
			return true
		})
		if n == 0 {
			c.Lost("mailboxesLocalLength.ReadValue:asks-the-mailbox", "no successful return found")
		} else {
			c.Check(bad == "", "mailboxesLocalLength.ReadValue:asks-the-mailbox", fn.Pos(), "every read returns mailbox.length() as computed by this read",
				"the length view returns "+bad+" instead of a length computed by this read: after the section consumed a message the reported length is stale and exceeds what is pending")
		}
	}
	for _, typ := range []string{"tcpMailboxesLocal", "relaxedMailboxesLocal"} {
		t := mustType(c, e, an.PkgResources, typ)
		fn := mustMethod(c, e, an.PkgResources, typ, "length")
		if t == nil || fn == nil {
			continue
		}
		backlog, inProg, ch := mustField(c, t, "readBacklog"), mustField(c, t, "readsInProgress"), mustField(c, t, "msgChannel")
		if backlog == nil || inProg == nil || ch == nil {
			continue
		}
		info := fn.Pkg.Info
		g := e.Graph(fn)
		usesInProg, lenOfBacklog, recvs, loops := false, false, 0, 0
		ast.Inspect(fn.Body(), func(n ast.Node) bool {
			switch x := n.(type) {
			case *ast.SelectorExpr:
				if an.SelectedField(info, x) == inProg {
					usesInProg = true
				}
			case *ast.UnaryExpr:
				if x.Op == token.ARROW && an.SelectedField(info, x.X) == ch {
					recvs++
					if g.Enclosing(x, func(m ast.Node) bool {
						switch m.(type) {
						case *ast.ForStmt, *ast.RangeStmt:
							return true
						}
						return false
					}) != nil {
						loops++
					}
				}
			case *ast.ReturnStmt:
				for _, res := range x.Results {
					for _, part := range withLocalDefs(info, fn.Body(), res) {
						at := g.AtomOf(x)
						if part != res {
							at = g.AtomOf(part)
						}
						ast.Inspect(part, func(m ast.Node) bool {
							if call, ok := m.(*ast.CallExpr); ok && an.IsBuiltin(info, call, "len") && len(call.Args) == 1 {
								// the field, or a local copy of it that is not older than the last store to the field
								if isF, fresh := currentView(g, info, fn.Body(), call.Args[0], at, backlog); isF && fresh {
									stale := false
									if part != res {
										// a count taken into a local: no store to the field may follow it
										for _, st := range g.FindAtoms(func(a ast.Node) bool { _, is := fieldIsAssigned(info, a, backlog); return is }) {
											if g.Search(an.Query{From: at, Target: func(y ast.Node) bool { return y == st }}).Found {
												stale = true
											}
										}
									}
									if !stale {
										lenOfBacklog = true
									}
								}
							}
							return true
						})
					}
				}
			}
			return true
		})
		tk := an.TypeKey(t)
		c.Check(lenOfBacklog && !usesInProg, tk+".length:counts-pending-only", fn.Pos(), "returns len(readBacklog) and never looks at reads in progress",
			"the reported length is not len(readBacklog) alone: it would count messages already consumed by the section in flight (more than are pending)")
		c.Check(recvs <= 1 && loops == 0, tk+".length:moves-at-most-one-record", fn.Pos(), "at most one record is moved from the channel", "length() drains the channel in a loop / more than once")
		// the receive is guarded by an empty backlog
		if recvs == 1 {
			var recv ast.Node
			for _, a := range g.FindAtoms(func(a ast.Node) bool {
				u, ok := a.(*ast.UnaryExpr)
				return ok && u.Op == token.ARROW && an.SelectedField(info, u.X) == ch
			}) {
				recv = a
			}
			okG := false
			if recv != nil {
				isBacklog := func(x ast.Expr) bool { return readsField(info, fn.Body(), x, backlog) }
				okG = guardedByLeaf(g, recv, func(leaf ast.Expr) (bool, bool) {
					ok, nonEmptyWhenTrue := lenTest(info, leaf, isBacklog)
					return ok, !nonEmptyWhenTrue
				})
			}
			c.Check(okG, tk+".length:receive-only-if-backlog-empty", fn.Pos(), "a record is pulled only when the backlog is empty", "length() pulls a record from the channel although the backlog is not empty: appended behind? order of pending messages could change")
		}
	}
}

// chanElemStruct: the channel field carries structs with exactly one slice field (a batch record).
func chanElemStruct(ch *types.Var) (*types.Var, bool) {
	ct, ok := ch.Type().Underlying().(*types.Chan)
	if !ok {
		return nil, false
	}
	st, ok := ct.Elem().Underlying().(*types.Struct)
	if !ok {
		return nil, false
	}
	var sl *types.Var
	for i := 0; i < st.NumFields(); i++ {
		if _, ok := st.Field(i).Type().Underlying().(*types.Slice); ok {
			if sl != nil {
				return nil, false
			}
			sl = st.Field(i)
		}
	}
	return sl, sl != nil
}

// batchPieces classifies which parts of the batch received at atom r are appended to the backlog / in-progress fields
// on every path from the receive to the function's normal exits.
func batchPieces(g *an.Graph, info *types.Info, r ast.Node, sliceFld, backlog, inProg *types.Var) (whole, head, tail bool) {
	// the record variable, if the receive is bound to one
	var rec types.Object
	switch p := g.Parent(r).(type) {
	case *ast.AssignStmt:
		if len(p.Lhs) == 1 {
			rec = an.ObjOf(info, p.Lhs[0])
		}
	}
	isBatch := func(x ast.Expr) bool {
		sel, ok := an.Unparen(x).(*ast.SelectorExpr)
		if !ok || an.SelectedField(info, sel) != sliceFld {
			return false
		}
		base := an.Unparen(sel.X)
		if rec != nil && an.ObjOf(info, base) == rec {
			return true
		}
		return base == r.(ast.Expr) || an.Unparen(base) == r.(ast.Expr)
	}
	heads := map[types.Object]bool{}
	g.AllAtoms(func(a ast.Node) {
		as, ok := a.(*ast.AssignStmt)
		if !ok || len(as.Lhs) != 1 || len(as.Rhs) != 1 {
			return
		}
		if ix, ok := an.Unparen(as.Rhs[0]).(*ast.IndexExpr); ok && isBatch(ix.X) {
			if tv := info.Types[ix.Index]; tv.Value != nil && tv.Value.ExactString() == "0" {
				if o := an.ObjOf(info, as.Lhs[0]); o != nil {
					heads[o] = true
				}
			}
		}
	})
	body := g.Enclosing(r, func(ast.Node) bool { return false }) // unused; resolution below works on the whole function body
	_ = body
	var root ast.Node = r
	for p := g.Parent(root); p != nil; p = g.Parent(p) {
		root = p
	}
	classify := func(a ast.Node) (w, h, t bool) {
		as, ok := a.(*ast.AssignStmt)
		if !ok || len(as.Lhs) != 1 || len(as.Rhs) != 1 {
			return
		}
		f := an.SelectedField(info, as.Lhs[0])
		if f != backlog && f != inProg {
			return
		}
		call, ok := an.Unparen(as.Rhs[0]).(*ast.CallExpr)
		if !ok || !an.IsBuiltin(info, call, "append") || len(call.Args) < 2 || an.SelectedField(info, call.Args[0]) != f {
			return
		}
		for _, arg := range call.Args[1:] {
			arg = an.ResolveLocal(info, root, arg)
			switch x := an.Unparen(arg).(type) {
			case *ast.SliceExpr:
				if isBatch(x.X) && x.High == nil && x.Low != nil && call.Ellipsis.IsValid() {
					if tv := info.Types[x.Low]; tv.Value != nil && tv.Value.ExactString() == "1" {
						t = true
					}
				}
			case *ast.IndexExpr:
				if isBatch(x.X) {
					if tv := info.Types[x.Index]; tv.Value != nil && tv.Value.ExactString() == "0" {
						h = true
					}
				}
			default:
				if isBatch(arg) && call.Ellipsis.IsValid() {
					w = true
				}
				if o := an.ObjOf(info, arg); o != nil && heads[o] {
					h = true
				}
			}
		}
		return
	}
	must := func(sel func(w, h, t bool) bool) bool {
		ok, _ := g.MustPass(r, func(a ast.Node) bool { return sel(classify(a)) }, nil)
		return ok
	}
	// the receive may be nested inside the appending statement itself (append(backlog, (<-ch).values...))
	if at := g.Parent(r); at != nil {
		for n := ast.Node(r); n != nil; n = g.Parent(n) {
			if w, h, t := classify(n); w || h || t {
				return w, h, t
			}
			if _, isStmt := n.(ast.Stmt); isStmt {
				break
			}
		}
	}
	return must(func(w, _, _ bool) bool { return w }), must(func(_, h, _ bool) bool { return h }), must(func(_, _, t bool) bool { return t })
}
