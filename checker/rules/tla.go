package rules

import (
	"fmt"
	"go/ast"
	"go/token"
	"go/types"
	"sort"
	"strings"

	"pgoverif/checker/an"
	"pgoverif/checker/core"
	"pgoverif/checker/load"
	"pgoverif/checker/scalatab"
)

func init() {
	register(&core.Rule{ID: "OPTABLE", Props: []string{"C03"}, Floor: 43,
		Doc: "every operator the Scala back end can emit (BuiltinModules.scala minus unsupportedOperators) exists in package tla as Module<Name> with the declared arity",
		Run: runOpTable})
	register(&core.Rule{ID: "DIVMOD-FLOOR", Props: []string{"C03"}, Floor: 2,
		Doc: "a Go / or % on signed integers in package tla does not reach MakeNumber unadjusted (TLA+ \\div and % floor, Go truncates)",
		Run: runDivModFloor})
	register(&core.Rule{ID: "ARITH-CHECKED", Props: []string{"C03"}, Floor: 5,
		Doc: "int32 + - * unary- ++ whose result reaches MakeNumber is computed in a wider type and range-checked (overflow must fail loudly)",
		Run: runArithChecked})
	register(&core.Rule{ID: "PANIC-TYPED", Props: []string{"C03"}, Floor: 12,
		Doc: "every explicit panic in package tla wraps ErrTLAType (or follows a require(false))",
		Run: runPanicTyped})
	register(&core.Rule{ID: "CARD-BOUND", Props: []string{"C03"}, Floor: 1,
		Doc: "SUBSET: alarms when the number of result insertions is provably linear in |S| (a power set has 2^|S| elements)",
		Run: runCardBound})
	register(&core.Rule{ID: "PARAM-USED", Props: []string{"C03"}, Floor: 40,
		Doc: "every parameter of every tla.Module* operator and built-in helper is used (an unused operand makes the result independent of it)",
		Run: runParamUsed})
	register(&core.Rule{ID: "SEQ-BOUNDS", Props: []string{"C03"}, Floor: 4,
		Doc: "every Get/Set/Slice on an immutable.List in package tla is preceded by a require / Len check (an out-of-range access must be a TLA+ type error, not a raw panic)",
		Run: runSeqBounds})
	register(&core.Rule{ID: "EQ-NILSAFE", Props: []string{"C05"}, Floor: 15,
		Doc: "in package tla the unexported data of a Value is dereferenced only after a nil check of that same Value (defaultInitValue has nil data)",
		Run: runEqNilSafe})
	register(&core.Rule{ID: "HASH-COMMUT", Props: []string{"C05", "C03"}, Floor: 2,
		Doc: "Hash of the unordered kinds (set, function) combines element hashes with a commutative operator only",
		Run: runHashCommut})
	register(&core.Rule{ID: "GOB-PAIR", Props: []string{"C05", "C12"}, Floor: 9,
		Doc: "GobEncode and GobDecode of one type encode/decode the same sequence of static types with the same loop structure; neither exists without the other",
		Run: runGobPair})
	register(&core.Rule{ID: "GOB-REG", Props: []string{"C05", "C12"}, Floor: 9,
		Doc: "every concrete value kind (tla.impl) and CRDT value type is registered with gob.Register in an init of its package",
		Run: runGobReg})
}

func tlaPkg(c *core.Ctx) *load.Package {
	pk := c.Prog.Pkg(an.PkgTLA)
	if pk == nil {
		c.Lost("package tla", "package %s not loaded", an.PkgTLA)
	}
	return pk
}

func isValueType(t types.Type, val *types.Named) bool {
	n, ok := types.Unalias(t).(*types.Named)
	return ok && val != nil && n.Obj() == val.Obj()
}

// ---------------------------------------------------------------- OPTABLE

func runOpTable(c *core.Ctx) {
	e := EnvOf(c.Prog)
	pk := tlaPkg(c)
	if pk == nil {
		return
	}
	tabs, err := scalatab.Load(c.Prog.Root)
	if err != nil {
		c.Lost("scala-tables", "%v", err)
		return
	}
	val := tlaValue(e)
	// operators the compiler special-cases as short-circuit Go operators
	special := map[string]string{
		"LogicalAndSymbol": "emitted as && (short-circuit), never as a call",
		"LogicalOrSymbol":  "emitted as || (short-circuit), never as a call",
		"ImpliesSymbol":    "emitted as !a || b (short-circuit), never as a call",
	}
	ops := tabs.Emittable()
	c.Count("operators declared in BuiltinModules.scala", len(tabs.Ops))
	c.Count("unsupportedOperators entries", len(tabs.Unsupported))
	for _, op := range ops {
		key := "tla.Module" + op.Name
		if why, ok := special[op.Name]; ok {
			c.Ok(key, pk.Files[0].Pos(), "exception: %s", why)
			continue
		}
		obj := pk.Types.Scope().Lookup("Module" + op.Name)
		if obj == nil {
			c.Bad(key, pk.Files[0].Pos(), "the compiler emits tla.Module%s (arity %d, TLA+ %s) but package tla does not define it: generated code would not build", op.Name, op.Arity, op.Repr)
			continue
		}
		switch o := obj.(type) {
		case *types.Var:
			if op.Arity != 0 {
				c.Bad(key, o.Pos(), "declared with arity %d in BuiltinModules.scala but tla.Module%s is a variable", op.Arity, op.Name)
			} else if !isValueType(o.Type(), val) {
				c.Bad(key, o.Pos(), "arity-0 operator must be a tla.Value variable, is %s", o.Type())
			} else {
				c.Ok(key, o.Pos(), "arity 0 variable")
			}
		case *types.Func:
			sig := o.Type().(*types.Signature)
			okSig := sig.Params().Len() == op.Arity && sig.Results().Len() == 1 && isValueType(sig.Results().At(0).Type(), val) && !sig.Variadic()
			for i := 0; okSig && i < sig.Params().Len(); i++ {
				okSig = isValueType(sig.Params().At(i).Type(), val)
			}
			if op.Arity == 0 {
				c.Bad(key, o.Pos(), "arity-0 operator is read as a variable by generated code but tla.Module%s is a function", op.Name)
			} else if !okSig {
				c.Bad(key, o.Pos(), "BuiltinModules.scala declares arity %d (TLA+ %s); Go signature is %s", op.Arity, op.Repr, sig)
			} else {
				c.Ok(key, o.Pos(), "arity %d", op.Arity)
			}
		default:
			c.Bad(key, obj.Pos(), "tla.Module%s is neither a function nor a variable", op.Name)
		}
	}
}

// ---------------------------------------------------------------- value flow helpers (AST level, package tla)

// reachesMakeNumber reports whether expr e (inside fn) flows into an argument
// of tla.MakeNumber either directly (through parens / conversions) or through
// one local variable. It returns the variable if the flow is through one.
func flowsToMakeNumber(info *types.Info, body ast.Node, e ast.Expr) (bool, *types.Var) {
	parents := map[ast.Node]ast.Node{}
	var stack []ast.Node
	ast.Inspect(body, func(n ast.Node) bool {
		if n == nil {
			stack = stack[:len(stack)-1]
			return true
		}
		if len(stack) > 0 {
			parents[n] = stack[len(stack)-1]
		}
		stack = append(stack, n)
		return true
	})
	isMakeNumber := func(call *ast.CallExpr) bool {
		fn := an.CalleeFunc(info, call)
		return fn != nil && fn.Pkg() != nil && fn.Pkg().Path() == an.PkgTLA && fn.Name() == "MakeNumber"
	}
	// climb through parens and conversions
	var climb func(n ast.Node) (bool, *types.Var)
	climb = func(n ast.Node) (bool, *types.Var) {
		p := parents[n]
		switch x := p.(type) {
		case *ast.ParenExpr:
			return climb(x)
		case *ast.CallExpr:
			if isMakeNumber(x) {
				return true, nil
			}
			if tv, ok := info.Types[x.Fun]; ok && tv.IsType() { // conversion
				return climb(x)
			}
		case *ast.AssignStmt:
			for i, r := range x.Rhs {
				if r == n && i < len(x.Lhs) {
					if id, ok := x.Lhs[i].(*ast.Ident); ok {
						if v, ok := info.ObjectOf(id).(*types.Var); ok {
							return false, v
						}
					}
				}
			}
		case *ast.ValueSpec:
			for i, r := range x.Values {
				if r == n && i < len(x.Names) {
					if v, ok := info.ObjectOf(x.Names[i]).(*types.Var); ok {
						return false, v
					}
				}
			}
		}
		return false, nil
	}
	direct, v := climb(e)
	if direct {
		return true, nil
	}
	if v == nil {
		return false, nil
	}
	// does v reach MakeNumber?
	reaches := false
	ast.Inspect(body, func(n ast.Node) bool {
		id, ok := n.(*ast.Ident)
		if !ok || info.Uses[id] != v {
			return true
		}
		if d, _ := climb(id); d {
			reaches = true
		}
		return true
	})
	return reaches, v
}

func isSignedInt(t types.Type) bool {
	b, ok := t.Underlying().(*types.Basic)
	return ok && b.Info()&types.IsInteger != 0 && b.Info()&types.IsUnsigned == 0
}

func isInt32(t types.Type) bool {
	b, ok := t.Underlying().(*types.Basic)
	return ok && b.Kind() == types.Int32
}

// otherDefs counts assignments / inc-dec of v in body besides its defining one.
func defsOf(info *types.Info, body ast.Node, v *types.Var) int {
	n := 0
	ast.Inspect(body, func(m ast.Node) bool {
		switch x := m.(type) {
		case *ast.AssignStmt:
			for _, l := range x.Lhs {
				if id, ok := l.(*ast.Ident); ok && info.ObjectOf(id) == v {
					n++
				}
			}
		case *ast.IncDecStmt:
			if id, ok := x.X.(*ast.Ident); ok && info.ObjectOf(id) == v {
				n++
			}
		case *ast.ValueSpec:
			for _, id := range x.Names {
				if info.ObjectOf(id) == v && len(x.Values) > 0 {
					n++
				}
			}
		}
		return true
	})
	return n
}

func tlaFuncs(e *Env) []*an.Func {
	var out []*an.Func
	for _, f := range e.Ix.Funcs() {
		if f.Pkg.Path == an.PkgTLA {
			out = append(out, f)
		}
	}
	return out
}

// ---------------------------------------------------------------- DIVMOD-FLOOR

func runDivModFloor(c *core.Ctx) {
	e := EnvOf(c.Prog)
	if tlaPkg(c) == nil {
		return
	}
	for _, fn := range tlaFuncs(e) {
		info := fn.Pkg.Info
		idx := 0
		ast.Inspect(fn.Body(), func(n ast.Node) bool {
			be, ok := n.(*ast.BinaryExpr)
			if !ok || (be.Op != token.QUO && be.Op != token.REM) {
				return true
			}
			t := info.TypeOf(be)
			if t == nil || !isSignedInt(t) {
				return true
			}
			reaches, v := flowsToMakeNumber(info, fn.Body(), be)
			if !reaches {
				return true
			}
			idx++
			key := fmt.Sprintf("%s:%s", fn.Name(), be.Op)
			if idx > 1 {
				key = fmt.Sprintf("%s:%s#%d", fn.Name(), be.Op, idx)
			}
			if v == nil {
				c.Bad(key, be.Pos(), "the truncating Go result of %s is returned through MakeNumber unadjusted: TLA+ rounds toward negative infinity (-7 \\div 2 = -4, -7 %% 2 = 1)", an.ExprString(be))
				return true
			}
			if defsOf(info, fn.Body(), v) >= 2 {
				c.Ok(key, be.Pos(), "result %s is adjusted after the truncating operation before reaching MakeNumber", v.Name())
			} else {
				c.Bad(key, be.Pos(), "the truncating Go result of %s reaches MakeNumber through %s without any adjustment", an.ExprString(be), v.Name())
			}
			return true
		})
	}
}

// ---------------------------------------------------------------- ARITH-CHECKED

func mentionsInt32Range(info *types.Info, body ast.Node) bool {
	found := false
	ast.Inspect(body, func(n ast.Node) bool {
		call, ok := n.(*ast.CallExpr)
		if !ok {
			return true
		}
		fn := an.CalleeFunc(info, call)
		if fn == nil || fn.Name() != "require" {
			return true
		}
		ast.Inspect(call, func(m ast.Node) bool {
			if sel, ok := m.(*ast.SelectorExpr); ok {
				if sel.Sel.Name == "MaxInt32" || sel.Sel.Name == "MinInt32" {
					found = true
				}
			}
			return true
		})
		return true
	})
	return found
}

func runArithChecked(c *core.Ctx) {
	e := EnvOf(c.Prog)
	if tlaPkg(c) == nil {
		return
	}
	for _, fn := range tlaFuncs(e) {
		info := fn.Pkg.Info
		body := fn.Body()
		seq := map[string]int{}
		mk := func(op string) string {
			seq[op]++
			if seq[op] > 1 {
				return fmt.Sprintf("%s:%s#%d", fn.Name(), op, seq[op])
			}
			return fmt.Sprintf("%s:%s", fn.Name(), op)
		}
		ast.Inspect(body, func(n ast.Node) bool {
			switch x := n.(type) {
			case *ast.BinaryExpr:
				if x.Op != token.ADD && x.Op != token.SUB && x.Op != token.MUL {
					return true
				}
				t := info.TypeOf(x)
				if t == nil || !isInt32(t) {
					return true
				}
				if tv := info.Types[x]; tv.Value != nil {
					return true // constant expression
				}
				if reaches, _ := flowsToMakeNumber(info, body, x); reaches {
					c.Bad(mk("int32"+x.Op.String()), x.Pos(), "%s is evaluated in int32 and reaches MakeNumber: overflow wraps silently where TLC reports an error", an.ExprString(x))
				}
			case *ast.UnaryExpr:
				if x.Op != token.SUB {
					return true
				}
				t := info.TypeOf(x)
				if t == nil || !isInt32(t) || info.Types[x].Value != nil {
					return true
				}
				if reaches, _ := flowsToMakeNumber(info, body, x); reaches {
					c.Bad(mk("int32neg"), x.Pos(), "%s is evaluated in int32 and reaches MakeNumber: -(-2^31) wraps silently", an.ExprString(x))
				}
			case *ast.IncDecStmt:
				id, ok := x.X.(*ast.Ident)
				if !ok {
					return true
				}
				v, ok := info.ObjectOf(id).(*types.Var)
				if !ok || !isInt32(v.Type()) {
					return true
				}
				// does v reach MakeNumber?
				reaches := false
				ast.Inspect(body, func(m ast.Node) bool {
					if u, ok := m.(*ast.Ident); ok && info.Uses[u] == v {
						if d, _ := flowsToMakeNumber(info, body, u); d {
							reaches = true
						}
					}
					return true
				})
				if reaches {
					c.Bad(mk("int32"+x.Tok.String()), x.Pos(), "int32 counter %s%s reaches MakeNumber: at MaxInt32 it wraps and a loop bounded by <= never ends", v.Name(), x.Tok)
				}
			case *ast.CallExpr:
				// narrowing conversion int32(wide) reaching MakeNumber
				tv, ok := info.Types[x.Fun]
				if !ok || !tv.IsType() || !isInt32(tv.Type) || len(x.Args) != 1 {
					return true
				}
				at := info.TypeOf(x.Args[0])
				if at == nil || isInt32(at) {
					return true
				}
				if info.Types[x.Args[0]].Value != nil {
					return true
				}
				if reaches, _ := flowsToMakeNumber(info, body, x); !reaches {
					return true
				}
				key := mk("narrow")
				arg := an.Unparen(x.Args[0])
				// accepted idiom 1: size of a collection
				if call, ok := arg.(*ast.CallExpr); ok {
					if an.IsBuiltin(info, call, "len") {
						c.Ok(key, x.Pos(), "int32(len(..)): collection size")
						return true
					}
					if f := an.CalleeFunc(info, call); f != nil && f.Name() == "Len" {
						c.Ok(key, x.Pos(), "int32(%s): collection size", an.ExprString(arg))
						return true
					}
				}
				// accepted idiom 2: explicit range check through require mentioning MaxInt32/MinInt32
				if mentionsInt32Range(info, body) {
					c.Ok(key, x.Pos(), "narrowing of %s is range-checked through require(.. MaxInt32/MinInt32 ..)", an.ExprString(arg))
					return true
				}
				// accepted idiom 3: loop counter bounded by int64(int32) bounds
				if id, ok := arg.(*ast.Ident); ok {
					if v, ok := info.ObjectOf(id).(*types.Var); ok && boundedLoopCounter(info, body, v) {
						c.Ok(key, x.Pos(), "narrowing of loop counter %s whose bounds are widened int32 values", v.Name())
						return true
					}
				}
				c.Bad(key, x.Pos(), "narrowing conversion %s reaches MakeNumber without a range check: out-of-range results wrap silently", an.ExprString(x))
			}
			return true
		})
		// every operator function that calls MakeNumber on arithmetic contributes an ok obligation when clean
	}
	// coverage obligations: arithmetic operators by name must exist and be clean
	for _, name := range []string{"ModulePlusSymbol", "ModuleMinusSymbol", "ModuleAsteriskSymbol", "ModuleNegationSymbol", "ModuleDotDotSymbol", "ModuleSuperscriptSymbol"} {
		f := e.Ix.LookupFunc(an.PkgTLA, name)
		if f == nil {
			c.Lost("tla."+name, "arithmetic operator not found")
			continue
		}
		bad := false
		for _, o := range c.Obs {
			if o.Verdict == core.Violation && strings.HasPrefix(o.Construct, f.Name()+":") {
				bad = true
			}
		}
		if !bad {
			c.Ok(f.Name(), f.Pos(), "no unchecked int32 arithmetic reaches MakeNumber")
		}
	}
}

// boundedLoopCounter: v is the counter of `for v := A; v <= B; v++` where A and B
// are (variables initialised from) int64(<int32 expression>) conversions.
func boundedLoopCounter(info *types.Info, body ast.Node, v *types.Var) bool {
	widened := func(e ast.Expr) bool {
		var isWide func(e ast.Expr, depth int) bool
		isWide = func(e ast.Expr, depth int) bool {
			e = an.Unparen(e)
			if call, ok := e.(*ast.CallExpr); ok && len(call.Args) == 1 {
				if tv, ok := info.Types[call.Fun]; ok && tv.IsType() {
					if at := info.TypeOf(call.Args[0]); at != nil && isInt32(at) {
						return true
					}
				}
			}
			if id, ok := e.(*ast.Ident); ok && depth < 2 {
				obj := info.ObjectOf(id)
				okAll, any := true, false
				ast.Inspect(body, func(n ast.Node) bool {
					if as, ok := n.(*ast.AssignStmt); ok {
						for i, l := range as.Lhs {
							if lid, ok := l.(*ast.Ident); ok && info.ObjectOf(lid) == obj {
								any = true
								if len(as.Rhs) == len(as.Lhs) {
									if !isWide(as.Rhs[i], depth+1) {
										okAll = false
									}
								} else {
									okAll = false
								}
							}
						}
					}
					return true
				})
				return any && okAll
			}
			return false
		}
		return isWide(e, 0)
	}
	found := false
	ast.Inspect(body, func(n ast.Node) bool {
		fs, ok := n.(*ast.ForStmt)
		if !ok || fs.Init == nil || fs.Cond == nil || fs.Post == nil {
			return true
		}
		as, ok := fs.Init.(*ast.AssignStmt)
		if !ok || len(as.Lhs) != 1 || len(as.Rhs) != 1 {
			return true
		}
		id, ok := as.Lhs[0].(*ast.Ident)
		if !ok || info.ObjectOf(id) != v {
			return true
		}
		cond, ok := fs.Cond.(*ast.BinaryExpr)
		if !ok || (cond.Op != token.LEQ && cond.Op != token.LSS) {
			return true
		}
		cid, ok := an.Unparen(cond.X).(*ast.Ident)
		if !ok || info.ObjectOf(cid) != v {
			return true
		}
		if widened(as.Rhs[0]) && widened(cond.Y) {
			found = true
		}
		return true
	})
	return found
}

// ---------------------------------------------------------------- PANIC-TYPED

func runPanicTyped(c *core.Ctx) {
	e := EnvOf(c.Prog)
	if tlaPkg(c) == nil {
		return
	}
	errTLA := e.Ix.LookupVar(an.PkgTLA, "ErrTLAType")
	if errTLA == nil {
		c.Lost("tla.ErrTLAType", "sentinel not found")
		return
	}
	// exception table: one symbol, one reason
	except := map[string]string{
		"tla.ModuleSelectSeq":   "stub: the compiler lists SelectSeq in unsupportedOperators and never emits a call (cross-checked by OPTABLE)",
		"tla.Event.MarshalJSON": "not in package tla",
	}
	for _, fn := range tlaFuncs(e) {
		info := fn.Pkg.Info
		seq := 0
		var g *an.Graph
		ast.Inspect(fn.Body(), func(n ast.Node) bool {
			call, ok := n.(*ast.CallExpr)
			if !ok || !an.IsBuiltin(info, call, "panic") || len(call.Args) != 1 {
				return true
			}
			seq++
			key := fn.Name() + ":panic"
			if seq > 1 {
				key = fmt.Sprintf("%s:panic#%d", fn.Name(), seq)
			}
			if why, ok := except[fn.Name()]; ok {
				c.Ok(key, call.Pos(), "exception: %s", why)
				return true
			}
			arg := an.Unparen(call.Args[0])
			// accepted: fmt.Errorf("%w...", ErrTLAType, ...)
			if inner, ok := arg.(*ast.CallExpr); ok {
				if f := an.CalleeFunc(info, inner); f != nil && f.Pkg() != nil && f.Pkg().Path() == "fmt" && f.Name() == "Errorf" && len(inner.Args) >= 2 {
					if tv := info.Types[inner.Args[0]]; tv.Value != nil && strings.HasPrefix(strings.Trim(tv.Value.ExactString(), `"`), "%w") {
						if id, ok := an.Unparen(inner.Args[1]).(*ast.Ident); ok && info.ObjectOf(id) == errTLA {
							c.Ok(key, call.Pos(), "wraps ErrTLAType")
							return true
						}
					}
				}
			}
			// accepted: the panic directly follows require(false, ...) (unreachable)
			if g == nil {
				g = e.Graph(fn)
			}
			if lit := g.Enclosing(call, func(m ast.Node) bool { _, ok := m.(*ast.FuncLit); return ok }); lit == nil {
				if blk, ok := g.Enclosing(call, func(m ast.Node) bool { _, ok := m.(*ast.BlockStmt); return ok }).(*ast.BlockStmt); ok {
					for i, st := range blk.List {
						es, ok := st.(*ast.ExprStmt)
						if !ok || es.X != ast.Expr(call) || i == 0 {
							continue
						}
						if prev, ok := blk.List[i-1].(*ast.ExprStmt); ok {
							if pc, ok := prev.X.(*ast.CallExpr); ok {
								if f := an.CalleeFunc(info, pc); f != nil && f.Name() == "require" && len(pc.Args) > 0 {
									if tv := info.Types[pc.Args[0]]; tv.Value != nil && tv.Value.ExactString() == "false" {
										c.Ok(key, call.Pos(), "unreachable: follows require(false, ..) which panics with ErrTLAType")
										return true
									}
								}
							}
						}
					}
				}
			}
			c.Bad(key, call.Pos(), "panic(%s) does not wrap ErrTLAType: a TLA+ type error must fail loudly as such (callers match with errors.Is)", an.ExprString(arg))
			return true
		})
	}
}

// ---------------------------------------------------------------- CARD-BOUND

func runCardBound(c *core.Ctx) {
	e := EnvOf(c.Prog)
	if tlaPkg(c) == nil {
		return
	}
	fn := e.Ix.LookupFunc(an.PkgTLA, "ModulePrefixSubsetSymbol")
	if fn == nil {
		c.Lost("tla.ModulePrefixSubsetSymbol", "function not found")
		return
	}
	info := fn.Pkg.Info
	// provable linear bound: no recursion, no closures, every loop is a non-nested iterator loop,
	// and every insertion into a builder happens at loop depth <= 1.
	linear := true
	reason := ""
	hasInsert := false
	var walk func(n ast.Node, depth int)
	walk = func(n ast.Node, depth int) {
		ast.Inspect(n, func(m ast.Node) bool {
			if m == n {
				return true
			}
			switch x := m.(type) {
			case *ast.FuncLit:
				linear, reason = false, "contains a closure (possible recursion)"
				return false
			case *ast.ForStmt:
				if depth >= 1 {
					linear, reason = false, "nested loops"
				}
				if x.Cond == nil || len(iteratorDoneCalls(info, x.Cond)) == 0 {
					linear, reason = false, "a loop that is not a plain iterator loop"
				}
				walk(x.Body, depth+1)
				return false
			case *ast.RangeStmt:
				linear, reason = false, "range loop"
			case *ast.CallExpr:
				f := an.CalleeFunc(info, x)
				if f == nil {
					if _, ok := an.Callee(info, x).(*types.Var); ok {
						linear, reason = false, "call through a function value"
					}
					return true
				}
				if f == fn.Obj {
					linear, reason = false, "recursion"
				}
				if rn := an.RecvNamed(f); rn != nil && rn.Obj().Pkg() != nil && rn.Obj().Pkg().Path() == an.PkgImmutable &&
					strings.HasSuffix(rn.Obj().Name(), "Builder") && (f.Name() == "Set" || f.Name() == "Append") {
					hasInsert = true
				}
				if f.Pkg() != nil && f.Pkg().Path() == an.PkgTLA && e.Ix.FuncOf(f) != nil && f != fn.Obj {
					// helper in the same package: only constructors are allowed in the linear shape
					switch f.Name() {
					case "MakeSetFromMap", "MakeSet", "AsSet", "checkNil":
					default:
						if an.RecvNamed(f) == nil {
							linear, reason = false, "calls helper "+f.Name()
						}
					}
				}
			}
			return true
		})
	}
	walk(fn.Body(), 0)
	switch {
	case !hasInsert:
		c.Undecided("tla.ModulePrefixSubsetSymbol", fn.Pos(), "no builder insertion recognised")
	case linear:
		c.Bad("tla.ModulePrefixSubsetSymbol", fn.Pos(), "every insertion into the result sits in a single non-nested iterator loop (plus straight-line code): the result has at most |S|+1 elements, but SUBSET S has 2^|S| (e.g. SUBSET {1,2} must have 4)")
	default:
		c.Ok("tla.ModulePrefixSubsetSymbol", fn.Pos(), "no linear size bound is provable (%s)", reason)
	}
}

// ---------------------------------------------------------------- PARAM-USED

func runParamUsed(c *core.Ctx) {
	e := EnvOf(c.Prog)
	pk := tlaPkg(c)
	if pk == nil {
		return
	}
	except := map[string]string{
		"tla.ModuleSelectSeq": "stub, never emitted (unsupportedOperators)",
	}
	helpers := map[string]bool{"QuantifiedUniversal": true, "QuantifiedExistential": true, "SetRefinement": true, "SetComprehension": true,
		"CrossProduct": true, "FunctionSubstitution": true, "Choose": true, "MakeFunction": true, "MakeRecord": true, "MakeRecordSet": true,
		"MakeFunctionSet": true, "MakeSet": true, "MakeTuple": true}
	for _, fn := range tlaFuncs(e) {
		if fn.Obj == nil || fn.Decl.Recv != nil {
			continue
		}
		if !strings.HasPrefix(fn.Obj.Name(), "Module") && !helpers[fn.Obj.Name()] {
			continue
		}
		if why, ok := except[fn.Name()]; ok {
			c.Ok(fn.Name(), fn.Pos(), "exception: %s", why)
			continue
		}
		info := fn.Pkg.Info
		var unused []string
		for _, fl := range fn.Decl.Type.Params.List {
			for _, nm := range fl.Names {
				obj := info.Defs[nm]
				if obj == nil || nm.Name == "_" {
					unused = append(unused, nm.Name)
					continue
				}
				used := false
				ast.Inspect(fn.Body(), func(n ast.Node) bool {
					if id, ok := n.(*ast.Ident); ok && info.Uses[id] == obj {
						// `_ = x` does not count as a use of the value
						used = true
					}
					return !used
				})
				if !used {
					unused = append(unused, nm.Name)
				}
			}
		}
		if len(unused) > 0 {
			c.Bad(fn.Name(), fn.Pos(), "parameter(s) %s never used: the result cannot depend on that operand", strings.Join(unused, ", "))
		} else {
			c.Ok(fn.Name(), fn.Pos(), "all parameters used")
		}
	}
}

// ---------------------------------------------------------------- SEQ-BOUNDS

func runSeqBounds(c *core.Ctx) {
	e := EnvOf(c.Prog)
	if tlaPkg(c) == nil {
		return
	}
	for _, fn := range tlaFuncs(e) {
		info := fn.Pkg.Info
		var g *an.Graph
		seq := map[string]int{}
		check := func(body *ast.BlockStmt, gr *an.Graph) {
			an.Inspect(body, func(n ast.Node) bool {
				call, ok := n.(*ast.CallExpr)
				if !ok {
					return true
				}
				f := an.CalleeFunc(info, call)
				if f == nil {
					return true
				}
				rn := an.RecvNamed(f)
				if rn == nil || rn.Obj().Pkg() == nil || rn.Obj().Pkg().Path() != an.PkgImmutable || rn.Obj().Name() != "List" {
					return true
				}
				if f.Name() != "Get" && f.Name() != "Set" && f.Name() != "Slice" {
					return true
				}
				seq[f.Name()]++
				key := fmt.Sprintf("%s:List.%s", fn.Name(), f.Name())
				if seq[f.Name()] > 1 {
					key = fmt.Sprintf("%s#%d", key, seq[f.Name()])
				}
				// a dominating require(...) or comparison mentioning Len()
				guards := gr.FindAtoms(func(a ast.Node) bool {
					switch x := a.(type) {
					case *ast.CallExpr:
						if rf := an.CalleeFunc(info, x); rf != nil && rf.Name() == "require" && mentionsLen(info, x) {
							return true
						}
					case ast.Expr:
						if _, isCall := x.(*ast.CallExpr); !isCall {
							if cond, _ := gr.Cond(blockOf(gr, x)); cond == x && mentionsLen(info, x) {
								return true
							}
						}
					}
					return false
				})
				ok2 := false
				for _, gd := range guards {
					if gr.Dominates(gd, call) {
						ok2 = true
					}
				}
				if ok2 {
					c.Ok(key, call.Pos(), "index is checked against Len() before the access")
				} else {
					c.Bad(key, call.Pos(), "immutable.List.%s without a preceding bounds check: an out-of-range index panics with a raw library error, not a TLA+ type error", f.Name())
				}
				return true
			})
		}
		hasList := false
		ast.Inspect(fn.Body(), func(n ast.Node) bool {
			if call, ok := n.(*ast.CallExpr); ok {
				if f := an.CalleeFunc(info, call); f != nil {
					if rn := an.RecvNamed(f); rn != nil && rn.Obj().Pkg() != nil && rn.Obj().Pkg().Path() == an.PkgImmutable && rn.Obj().Name() == "List" {
						hasList = true
					}
				}
			}
			return true
		})
		if !hasList {
			continue
		}
		g = e.Graph(fn)
		check(fn.Body(), g)
		ast.Inspect(fn.Body(), func(n ast.Node) bool {
			if lit, ok := n.(*ast.FuncLit); ok {
				check(lit.Body, e.GraphOfLit(fn.Pkg, lit))
			}
			return true
		})
	}
}

func blockOf(g *an.Graph, n ast.Node) *cfgBlock {
	p, ok := g.PointOf(n)
	if !ok {
		return g.CFG.Blocks[0]
	}
	return g.CFG.Blocks[p.Block]
}

func mentionsLen(info *types.Info, n ast.Node) bool {
	found := false
	ast.Inspect(n, func(m ast.Node) bool {
		if call, ok := m.(*ast.CallExpr); ok {
			if f := an.CalleeFunc(info, call); f != nil && f.Name() == "Len" {
				found = true
			}
		}
		return !found
	})
	return found
}

// ---------------------------------------------------------------- EQ-NILSAFE

func runEqNilSafe(c *core.Ctx) {
	e := EnvOf(c.Prog)
	if tlaPkg(c) == nil {
		return
	}
	val := tlaValue(e)
	dataField := mustField(c, val, "data")
	if dataField == nil {
		return
	}
	for _, fn := range tlaFuncs(e) {
		info := fn.Pkg.Info
		seq := 0
		// collect: method calls / type switches on X.data
		type use struct {
			node ast.Node
			base ast.Expr
		}
		var uses []use
		ast.Inspect(fn.Body(), func(n ast.Node) bool {
			call, ok := n.(*ast.CallExpr)
			if !ok {
				return true
			}
			sel, ok := an.Unparen(call.Fun).(*ast.SelectorExpr)
			if !ok {
				return true
			}
			if an.SelectedField(info, sel.X) != dataField {
				return true
			}
			inner := an.Unparen(sel.X).(*ast.SelectorExpr)
			uses = append(uses, use{call, inner.X})
			return true
		})
		if len(uses) == 0 {
			continue
		}
		g := e.Graph(fn)
		for _, u := range uses {
			seq++
			key := fmt.Sprintf("%s:%s.data", fn.Name(), an.ExprString(u.base))
			if seq > 1 {
				key = fmt.Sprintf("%s#%d", key, seq)
			}
			baseObj := an.ObjOf(info, u.base)
			// a nil test of the same X.data, or X.checkNil(), must dominate the use
			guard := g.FindAtoms(func(a ast.Node) bool {
				switch x := a.(type) {
				case *ast.CallExpr:
					if f := an.CalleeFunc(info, x); f != nil && f.Name() == "checkNil" {
						if s, ok := an.Unparen(x.Fun).(*ast.SelectorExpr); ok && baseObj != nil && an.ObjOf(info, s.X) == baseObj {
							return true
						}
					}
				case *ast.BinaryExpr:
					ok := false
					ast.Inspect(x, func(m ast.Node) bool {
						if be, isBin := m.(*ast.BinaryExpr); isBin && (be.Op == token.EQL || be.Op == token.NEQ) {
							for _, side := range []ast.Expr{be.X, be.Y} {
								if an.SelectedField(info, side) == dataField {
									if s := an.Unparen(side).(*ast.SelectorExpr); baseObj != nil && an.ObjOf(info, s.X) == baseObj {
										ok = true
									}
								}
							}
						}
						return true
					})
					return ok
				}
				return false
			})
			dominated := false
			for _, gd := range guard {
				if g.Dominates(gd, u.node) {
					dominated = true
				}
			}
			if dominated {
				c.Ok(key, u.node.Pos(), "nil-checked before the dereference")
			} else {
				c.Bad(key, u.node.Pos(), "method call on %s.data without a preceding nil check of it: a Value with nil data (defaultInitValue) makes this a nil-pointer panic instead of a comparison", an.ExprString(u.base))
			}
		}
	}
}

// ---------------------------------------------------------------- HASH-COMMUT

func runHashCommut(c *core.Ctx) {
	e := EnvOf(c.Prog)
	pk := tlaPkg(c)
	if pk == nil {
		return
	}
	implT := e.Ix.LookupType(an.PkgTLA, "impl")
	if implT == nil {
		c.Lost("tla.impl", "interface not found")
		return
	}
	for _, n := range e.Ix.Implementations(an.InterfaceOf(implT)) {
		st, ok := n.Underlying().(*types.Struct)
		if !ok {
			continue
		}
		unordered := false
		for i := 0; i < st.NumFields(); i++ {
			if fn := an.NamedOf(st.Field(i).Type()); fn != nil && fn.Obj().Pkg() != nil && fn.Obj().Pkg().Path() == an.PkgImmutable && fn.Obj().Name() == "Map" {
				unordered = true
			}
		}
		if !unordered {
			continue
		}
		h := e.Ix.MethodDecl(n, "Hash")
		key := an.TypeKey(n) + ".Hash"
		if h == nil {
			c.Lost(key, "Hash method not found on unordered kind")
			continue
		}
		info := h.Pkg.Info
		bad := ""
		updates := 0
		ast.Inspect(h.Body(), func(m ast.Node) bool {
			fs, ok := m.(*ast.ForStmt)
			if !ok || fs.Cond == nil || len(iteratorDoneCalls(info, fs.Cond)) == 0 {
				return true
			}
			ast.Inspect(fs.Body, func(k ast.Node) bool {
				as, ok := k.(*ast.AssignStmt)
				if !ok || len(as.Lhs) != 1 {
					return true
				}
				id, ok := as.Lhs[0].(*ast.Ident)
				if !ok {
					return true
				}
				obj := info.ObjectOf(id)
				if obj == nil || obj.Parent() == nil {
					return true
				}
				// accumulator: declared outside the loop
				if obj.Pos() >= fs.Pos() && obj.Pos() <= fs.End() {
					return true
				}
				updates++
				switch as.Tok {
				case token.XOR_ASSIGN, token.ADD_ASSIGN, token.OR_ASSIGN, token.AND_ASSIGN:
					// operand must not mention the accumulator
					ast.Inspect(as.Rhs[0], func(q ast.Node) bool {
						if u, ok := q.(*ast.Ident); ok && info.Uses[u] == obj {
							bad = "the operand of " + as.Tok.String() + " depends on the accumulator"
						}
						return true
					})
				default:
					bad = fmt.Sprintf("accumulator %s is updated with %q (%s): the result depends on iteration order, which for colliding keys depends on insertion order", id.Name, as.Tok.String(), an.ExprString(as.Rhs[0]))
				}
				return true
			})
			return true
		})
		switch {
		case bad != "":
			c.Bad(key, h.Pos(), "%s; equal sets/functions built in different orders could hash differently", bad)
		case updates == 0:
			c.Undecided(key, h.Pos(), "no accumulator update recognised in an iterator loop")
		default:
			c.Ok(key, h.Pos(), "element hashes are combined with a commutative, accumulator-independent operator (%d update site)", updates)
		}
	}
}

// ---------------------------------------------------------------- GOB-PAIR / GOB-REG

type gobStep struct {
	typ  string
	loop string // "", "cond", "forever"
}

func gobSteps(fn *an.Func, method string) []gobStep {
	info := fn.Pkg.Info
	var out []gobStep
	var walk func(n ast.Node, loop string)
	walk = func(n ast.Node, loop string) {
		ast.Inspect(n, func(m ast.Node) bool {
			if m == n {
				return true
			}
			switch x := m.(type) {
			case *ast.ForStmt:
				kind := "loop"
				walk(x.Body, kind)
				return false
			case *ast.RangeStmt:
				walk(x.Body, "loop")
				return false
			case *ast.CallExpr:
				f := an.CalleeFunc(info, x)
				if f != nil && f.Name() == method && f.Pkg() != nil && f.Pkg().Path() == "encoding/gob" && len(x.Args) == 1 {
					t := info.TypeOf(x.Args[0])
					if p, ok := t.(*types.Pointer); ok {
						t = p.Elem()
					}
					out = append(out, gobStep{typ: types.TypeString(t, func(p *types.Package) string { return p.Name() }), loop: loop})
				}
			}
			return true
		})
	}
	walk(fn.Body(), "")
	return out
}

func runGobPair(c *core.Ctx) {
	e := EnvOf(c.Prog)
	for _, pk := range c.Prog.Sorted() {
		sc := pk.Types.Scope()
		for _, name := range sc.Names() {
			tn, ok := sc.Lookup(name).(*types.TypeName)
			if !ok || tn.IsAlias() {
				continue
			}
			n, ok := tn.Type().(*types.Named)
			if !ok {
				continue
			}
			enc := e.Ix.MethodDecl(n, "GobEncode")
			dec := e.Ix.MethodDecl(n, "GobDecode")
			if enc == nil && dec == nil {
				continue
			}
			key := an.TypeKey(n)
			if enc == nil || dec == nil {
				pos := token.NoPos
				if enc != nil {
					pos = enc.Pos()
				} else {
					pos = dec.Pos()
				}
				c.Bad(key, pos, "type has only one of GobEncode / GobDecode: the other direction falls back to gob's field-wise default, which cannot see unexported fields")
				continue
			}
			es, ds := gobSteps(enc, "Encode"), gobSteps(dec, "Decode")
			same := len(es) == len(ds)
			for i := 0; same && i < len(es); i++ {
				same = es[i] == ds[i]
			}
			render := func(s []gobStep) string {
				var parts []string
				for _, x := range s {
					if x.loop != "" {
						parts = append(parts, "loop{"+x.typ+"}")
					} else {
						parts = append(parts, x.typ)
					}
				}
				return strings.Join(parts, ", ")
			}
			if len(es) == 0 {
				c.Undecided(key, enc.Pos(), "no gob Encode call recognised")
			} else if same {
				c.Ok(key, enc.Pos(), "encode and decode agree: [%s]", render(es))
			} else {
				c.Bad(key, enc.Pos(), "GobEncode writes [%s] but GobDecode reads [%s]: the decoded value differs from the one sent", render(es), render(ds))
			}
		}
	}
}

func runGobReg(c *core.Ctx) {
	e := EnvOf(c.Prog)
	implT := e.Ix.LookupType(an.PkgTLA, "impl")
	crdtT := e.Ix.LookupType(an.PkgResources, "CRDTValue")
	if implT == nil {
		c.Lost("tla.impl", "interface not found")
	}
	if crdtT == nil {
		c.Lost("resources.CRDTValue", "interface not found")
	}
	// collect registered types per package (gob.Register calls inside func init)
	registered := map[*types.TypeName]bool{}
	for _, fn := range e.Ix.Funcs() {
		if fn.Obj.Name() != "init" || fn.Decl.Recv != nil {
			continue
		}
		ast.Inspect(fn.Body(), func(n ast.Node) bool {
			call, ok := n.(*ast.CallExpr)
			if !ok || len(call.Args) != 1 {
				return true
			}
			f := an.CalleeFunc(fn.Pkg.Info, call)
			if f == nil || f.Pkg() == nil || f.Pkg().Path() != "encoding/gob" || f.Name() != "Register" {
				return true
			}
			if nt := an.NamedOf(fn.Pkg.Info.TypeOf(call.Args[0])); nt != nil {
				registered[nt.Obj()] = true
			}
			return true
		})
	}
	var list []*types.Named
	if implT != nil {
		list = append(list, e.Ix.Implementations(an.InterfaceOf(implT))...)
	}
	if crdtT != nil {
		list = append(list, e.Ix.Implementations(an.InterfaceOf(crdtT))...)
	}
	sort.Slice(list, func(i, j int) bool { return an.TypeKey(list[i]) < an.TypeKey(list[j]) })
	seen := map[*types.TypeName]bool{}
	for _, n := range list {
		if seen[n.Obj()] {
			continue
		}
		seen[n.Obj()] = true
		key := an.TypeKey(n)
		if carriesInterface(n, implT) || carriesInterface(n, crdtT) {
			// the wrapper struct that holds the interface value (tla.Value) is encoded by its own GobEncode, never inside the interface
			continue
		}
		if registered[n.Obj()] {
			c.Ok(key, n.Obj().Pos(), "registered with gob in init")
		} else {
			c.Bad(key, n.Obj().Pos(), "concrete type travels inside an interface-typed gob field but is never passed to gob.Register in an init: encoding fails at run time with 'type not registered'")
		}
	}
}

// carriesInterface reports whether struct type n has a field whose type is the named interface it.
func carriesInterface(n, it *types.Named) bool {
	if n == nil || it == nil {
		return false
	}
	st, ok := n.Underlying().(*types.Struct)
	if !ok {
		return false
	}
	for i := 0; i < st.NumFields(); i++ {
		if fn, ok := types.Unalias(st.Field(i).Type()).(*types.Named); ok && fn.Obj() == it.Obj() {
			return true
		}
	}
	return false
}
