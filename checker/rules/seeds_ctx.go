package rules

func init() {
	const tcp = "distsys/resources/tcpmailboxes.go"
	const ar = "distsys/archetyperesource.go"
	const ai = "distsys/archetypeinterface.go"
	const ctx = "distsys/mpcalctx.go"
	for _, p := range []string{"C01"} {
		seed(Seed{Name: "tcp-abort-keeps-reads-in-progress", Prop: p, Rule: "RES-RESTORE", File: tcp,
			Old: "res.readBacklog = append(clockedReadsInProgress, res.readBacklog...)\n\tres.readsInProgress = nil",
			New: "res.readBacklog = append(clockedReadsInProgress, res.readBacklog...)", Expect: "tcpMailboxesLocal.readsInProgress"})
		seed(Seed{Name: "local-commit-forgets-snapshot", Prop: p, Rule: "RES-RESTORE", File: ar,
			Old: "\tres.oldValue = res.value\n\t// the clock a later reader", New: "\t// the clock a later reader", Expect: "snapshot"})
		seed(Seed{Name: "file-abort-keeps-cache", Prop: p, Rule: "RES-RESTORE", File: "distsys/resources/filesystem.go",
			Old: "\tres.writePending = nil\n\tres.cachedRead = nil\n\treturn nil", New: "\tres.writePending = nil\n\treturn nil", Expect: "file.cachedRead"})
		seed(Seed{Name: "persistent-abort-commits-inner", Prop: p, Rule: "RES-OWNER", File: "distsys/resources/persistent.go",
			Old: "return res.wrappedRes.Abort(iface)", New: "return res.wrappedRes.Commit(iface)", Expect: "Persistent.Abort"})
		seed(Seed{Name: "persistent-abort-not-forwarded", Prop: p, Rule: "RES-FORWARD", File: "distsys/resources/persistent.go",
			Old: "return res.wrappedRes.Abort(iface)", New: "return nil", Expect: "Persistent.Abort"})
		seed(Seed{Name: "incmap-cache-hit-not-dirty", Prop: p, Rule: "RES-FORWARD", File: "distsys/resources/incmap.go",
			Old: "\t\tres.dirtyElems.Set(index, subRes)\n\t\treturn subRes, nil", New: "\t\treturn subRes, nil", Expect: "IncMap.Index"})
		seed(Seed{Name: "hashmap-abort-skips-children", Prop: p, Rule: "RES-FORWARD", File: "distsys/resources/hashmap.go",
			Old: "\t\tch := r.Abort(iface)\n", New: "\t\tvar ch chan struct{}\n\t\t_ = r\n", Expect: "HashMap.Abort"})
		seed(Seed{Name: "outputchan-sends-on-write", Prop: p, Rule: "RES-PUBLISH", File: "distsys/resources/channels.go",
			Old: "\tres.buffer = append(res.buffer, value)\n\treturn nil", New: "\tres.channel <- value\n\treturn nil", Expect: "OutputChan.WriteValue"})
		seed(Seed{Name: "file-writes-on-writevalue", Prop: p, Rule: "RES-PUBLISH", File: "distsys/resources/filesystem.go",
			Old: "\tres.writePending = &strToWrite\n\treturn nil", New: "\tres.writePending = &strToWrite\n\t_ = ioutil.WriteFile(path.Join(res.workingDirectory, res.subPath), []byte(strToWrite), 0777)\n\treturn nil", Expect: "file.WriteValue"})
		seed(Seed{Name: "commit-without-error-test", Prop: p, Rule: "CS-ORDER", File: ctx,
			Old: "\tif err != nil {\n\t\treturn\n\t}\n\n\t// same as above, run all the commit processes async", New: "\t// same as above, run all the commit processes async", Expect: "after-error-test"})
		seed(Seed{Name: "commit-last-precommit-wins", Prop: p, Rule: "CS-ORDER", File: ctx,
			Old: "\t\tif localErr != nil {\n\t\t\terr = localErr\n\t\t}", New: "\t\terr = localErr", Expect: "err-accumulation"})
		seed(Seed{Name: "run-drops-commit-error", Prop: p, Rule: "CS-ORDER", File: ctx,
			Old: "\t\terr = ctx.commit()", New: "\t\tctx.commit()", Expect: "error-kept"})
		seed(Seed{Name: "run-commits-after-failed-body", Prop: p, Rule: "CS-ORDER", File: ctx,
			Old: "\t\terr = criticalSection.Body(ctx.iface)\n\t\tif err != nil {\n\t\t\tcontinue\n\t\t}\n", New: "\t\terr = criticalSection.Body(ctx.iface)\n", Expect: "only-after-nil-Body-error"})
		seed(Seed{Name: "abort-keeps-dirty-set", Prop: p, Rule: "CS-ORDER", File: ctx,
			Old: "\tctx.eventState.CommitEvent(ctx.vclockSink.GetVClock(), true)\n\n\t// the go compiler optimizes this to a map clear operation\n\tfor resHandle := range ctx.dirtyResourceHandles {\n\t\tdelete(ctx.dirtyResourceHandles, resHandle)\n\t}\n",
			New: "\tctx.eventState.CommitEvent(ctx.vclockSink.GetVClock(), true)\n", Expect: "abort:clears-dirty-set"})
		seed(Seed{Name: "write-marks-dirty-after-index", Prop: p, Rule: "CS-DIRTY", File: ai,
			Old: "\tiface.ensureCriticalSectionWith(handle)\n\tres := iface.ctx.getResourceByHandle(handle)\n\tfor _, index := range indices {\n\t\tres, err = res.Index(iface, index)\n\t\tif err != nil {\n\t\t\treturn\n\t\t}\n\t}\n\n\t// Here we set",
			New: "\tres := iface.ctx.getResourceByHandle(handle)\n\tfor _, index := range indices {\n\t\tres, err = res.Index(iface, index)\n\t\tif err != nil {\n\t\t\treturn\n\t\t}\n\t}\n\tiface.ensureCriticalSectionWith(handle)\n\n\t// Here we set", Expect: "Write:Index"})
		seed(Seed{Name: "wrapped-abort-sentinel", Prop: p, Rule: "ERR-SENTINEL", File: "distsys/resources/channels.go",
			Old: "case <-time.After(res.timeout):\n\t\treturn tla.Value{}, distsys.ErrCriticalSectionAborted", New: "case <-time.After(res.timeout):\n\t\treturn tla.Value{}, fmt.Errorf(\"timeout: %w\", distsys.ErrCriticalSectionAborted)", Expect: "InputChan.ReadValue"})
	}
	for _, p := range []string{"C01", "C04"} {
		seed(Seed{Name: "call-rebinds-live-cells", Prop: p, Rule: "RES-NOREBIND", File: ai,
			Old: "\tif _, ok := iface.ctx.resources[handle]; !ok {\n\t\treturn iface.ctx.ensureArchetypeResource(name, NewLocalArchetypeResource(tla.Value{}))\n\t}\n\treturn handle",
			New: "\t_ = handle\n\treturn iface.ctx.ensureArchetypeResource(name, NewLocalArchetypeResource(tla.Value{}))", Expect: "ArchetypeInterface.Call"})
	}
	seed(Seed{Name: "tailcall-stack-as-function", Prop: "C04", Rule: "KIND-STACK", File: ai,
		Old: "tla.ModuleHead(stackVal).AsFunction().Get(tla.MakeString(\".pc\"))", New: "stackVal.AsFunction().Get(tla.MakeString(\".pc\"))", Expect: "TailCall"})
	seed(Seed{Name: "return-does-not-pop", Prop: "C04", Rule: "CALL-ORDER", File: ai,
		Old: "err = iface.Write(stack, nil, tla.ModuleTail(stackVal))", New: "err = iface.Write(stack, nil, stackVal)", Expect: "Return:pops-with-Tail"})
	seed(Seed{Name: "call-pushes-at-tail", Prop: "C04", Rule: "CALL-ORDER", File: ai,
		Old: "tla.ModuleOSymbol(tla.MakeTuple(newStackRecord), stackVal)", New: "tla.ModuleOSymbol(stackVal, tla.MakeTuple(newStackRecord))", Expect: "Call:push-at-head"})
	seed(Seed{Name: "call-binds-before-saving", Prop: "C04", Rule: "CALL-ORDER", File: ai,
		Old: "\t\t// save original argument value\n\t\targVal, err := iface.Read(argHandle, nil)\n\t\tif err != nil {\n\t\t\treturn err\n\t\t}\n\t\tbuilder.Set(tla.MakeString(argVarName), argVal)\n\n\t\t// write the argument value into callee state (if we are still dealing with args; extra state vars are not args)\n\t\tif argIdx < len(argVals) {\n\t\t\terr = iface.Write(argHandle, nil, argVals[argIdx])\n\t\t\tif err != nil {\n\t\t\t\treturn err\n\t\t\t}\n\t\t}\n",
		New: "\t\tif argIdx < len(argVals) {\n\t\t\terr = iface.Write(argHandle, nil, argVals[argIdx])\n\t\t\tif err != nil {\n\t\t\t\treturn err\n\t\t\t}\n\t\t}\n\t\targVal, err := iface.Read(argHandle, nil)\n\t\tif err != nil {\n\t\t\treturn err\n\t\t}\n\t\tbuilder.Set(tla.MakeString(argVarName), argVal)\n", Expect: "Call:save-before-bind"})
	seed(Seed{Name: "call-preamble-before-push", Prop: "C04", Rule: "CALL-ORDER", File: ai,
		Old: "\tnewStackRecord := tla.MakeRecordFromMap(builder.Map())\n", New: "\tnewStackRecord := tla.MakeRecordFromMap(builder.Map())\n\tif err := proc.PreAmble(iface); err != nil {\n\t\treturn err\n\t}\n", Expect: "Call:"})
	seed(Seed{Name: "run-returns-before-dispatch", Prop: "C01", Rule: "CS-ORDER", File: "distsys/mpcalctx.go",
		Old: "\tfor {\n\t\t// all error control flow lives here, reached by \"continue\" from below\n\t\tswitch err {",
		New: "\tfor {\n\t\tselect {\n\t\tcase <-ctx.requestExit:\n\t\t\treturn nil\n\t\tdefault:\n\t\t}\n\t\tswitch err {", Expect: "no-exit-before-outcome-examined"})
}
