package rules

import (
	"fmt"
	"go/ast"
	"go/token"
	"go/types"
	"sort"
	"strings"

	"pgoverif/checker/an"
	"pgoverif/checker/core"
)

func init() {
	register(&core.Rule{ID: "NESTED-DECISION", Props: []string{"C01", "C17"}, Floor: 18,
		Doc: "the nested-archetype resource speaks its request/ack protocol exactly: each operation sends its own request tag and accepts exactly its own ack tag(s); only the operations that may still abort the section (read, write, pre-commit) use the timed request and may be answered 'aborted', which they map to ErrCriticalSectionAborted - Commit and Abort use the untimed request and accept no 'aborted'; a response's value is returned only after both the request and the tag check succeeded; Abort tolerates exactly one stale ack",
		Run: runNestedDecision})
}

func runNestedDecision(c *core.Ctx) {
	e := EnvOf(c.Prog)
	t := mustType(c, e, an.PkgResources, "nestedArchetype")
	if t == nil {
		return
	}
	// ---- protocol table: operation -> (request helper, request tag, [allowAborted, ack tags] per check)
	type chk struct {
		allow bool
		tags  []string
	}
	type op struct {
		helper string // "" for Abort, which sends inline
		req    string
		checks []chk
	}
	table := map[string]op{
		"ReadValue":  {"performRequestOrAbort", "nestedArchetypeReadReq", []chk{{true, []string{"nestedArchetypeReadAck"}}}},
		"WriteValue": {"performRequestOrAbort", "nestedArchetypeWriteReq", []chk{{true, []string{"nestedArchetypeWriteAck"}}}},
		"PreCommit":  {"performRequestOrAbort", "nestedArchetypePreCommitReq", []chk{{true, []string{"nestedArchetypePreCommitAck"}}}},
		"Commit":     {"performRequest", "nestedArchetypeCommitReq", []chk{{false, []string{"nestedArchetypeCommitAck"}}}},
		"Abort": {"", "nestedArchetypeAbortReq", []chk{{false, []string{"nestedArchetypeReadAck", "nestedArchetypeWriteAck", "nestedArchetypePreCommitAck"}},
			{false, []string{"nestedArchetypeAbortAck"}}}},
	}
	names := make([]string, 0, len(table))
	for k := range table {
		names = append(names, k)
	}
	sort.Strings(names)
	for _, name := range names {
		want := table[name]
		fn := mustMethod(c, e, an.PkgResources, "nestedArchetype", name)
		if fn == nil {
			continue
		}
		info := fn.Pkg.Info
		var reqs []string
		var helpers []string
		var got []chk
		ast.Inspect(fn.Body(), func(m ast.Node) bool {
			call, ok := m.(*ast.CallExpr)
			if !ok {
				return true
			}
			f := an.CalleeFunc(info, call)
			if f == nil {
				return true
			}
			switch {
			case an.IsMethodNamed(f, an.PkgResources, "nestedArchetype", "performRequest"), an.IsMethodNamed(f, an.PkgResources, "nestedArchetype", "performRequestOrAbort"):
				helpers = append(helpers, f.Name())
				if len(call.Args) > 0 {
					if o := an.ObjOf(info, call.Args[0]); o != nil {
						reqs = append(reqs, o.Name())
					}
				}
			case an.IsMethodNamed(f, an.PkgResources, "nestedArchetype", "handleResponseValue") && len(call.Args) >= 2:
				k := chk{}
				if tv := info.Types[call.Args[1]]; tv.Value != nil {
					k.allow = tv.Value.ExactString() == "true"
				} else {
					k.allow = true // not a constant: treat as permissive so that it mismatches a strict row
				}
				for _, a := range call.Args[2:] {
					if o := an.ObjOf(info, a); o != nil {
						k.tags = append(k.tags, o.Name())
					}
				}
				got = append(got, k)
			}
			return true
		})
		if want.helper == "" {
			// inline send of the request record: the tag constant appears in a composite literal that is sent
			ast.Inspect(fn.Body(), func(m ast.Node) bool {
				if s, ok := m.(*ast.SendStmt); ok {
					ast.Inspect(s.Value, func(k ast.Node) bool {
						if id, ok := k.(*ast.Ident); ok && strings.HasSuffix(id.Name, "Req") && strings.HasPrefix(id.Name, "nestedArchetype") {
							reqs = append(reqs, id.Name)
						}
						return true
					})
				}
				return true
			})
		}
		okReq := len(reqs) == 1 && reqs[0] == want.req && (want.helper == "" && len(helpers) == 0 || len(helpers) == 1 && helpers[0] == want.helper)
		c.Check(okReq, "nestedArchetype."+name+":request", fn.Pos(), fmt.Sprintf("sends %s through %s", want.req, orInline(want.helper)),
			fmt.Sprintf("%s sends %v through %v, the protocol prescribes %s through %s: the timed request aborts the section on a timeout, which is only allowed before the commit point (a Commit or Abort that gives up leaves the nested system half-committed); the wrong tag asks the nested system for another operation", name, reqs, helpers, want.req, orInline(want.helper)))
		same := len(got) == len(want.checks)
		for i := 0; same && i < len(got); i++ {
			same = got[i].allow == want.checks[i].allow && strings.Join(got[i].tags, ",") == strings.Join(want.checks[i].tags, ",")
		}
		c.Check(same, "nestedArchetype."+name+":accepted-responses", fn.Pos(), "accepts exactly its ack tag(s); 'aborted' only before the commit point",
			fmt.Sprintf("%s accepts %v, the protocol prescribes %v: an 'aborted' answer accepted by Commit/Abort (or refused by read/write/pre-commit) turns a refusal into a success or a crash, and a foreign ack tag hides a protocol error", name, got, want.checks))
	}
	// ---- decision rows
	retWith := func(second string) func(*types.Info, ast.Node) bool {
		return func(info *types.Info, n ast.Node) bool {
			rs, ok := n.(*ast.ReturnStmt)
			if !ok || len(rs.Results) == 0 {
				return false
			}
			last := an.Unparen(rs.Results[len(rs.Results)-1])
			switch second {
			case "nil":
				return isNilIdent(info, last)
			case "aborted":
				o := selectedOrIdentObj(info, last)
				return o != nil && o.Name() == "ErrCriticalSectionAborted"
			}
			return false
		}
	}
	callTo := func(name string) func(*types.Info, ast.Node) bool {
		return func(info *types.Info, n ast.Node) bool {
			call, ok := n.(*ast.CallExpr)
			if !ok {
				return false
			}
			f := an.CalleeFunc(info, call)
			return f != nil && f.Name() == name
		}
	}
	isPanic := func(info *types.Info, n ast.Node) bool {
		call, ok := n.(*ast.CallExpr)
		return ok && an.IsBuiltin(info, call, "panic")
	}
	sendOnField := func(field string) func(*types.Info, ast.Node) bool {
		return func(info *types.Info, n ast.Node) bool {
			s, ok := n.(*ast.SendStmt)
			if !ok {
				return false
			}
			f := an.SelectedField(info, s.Chan)
			return f != nil && f.Name() == field
		}
	}
	abortedTag := "Equal(nestedArchetypeAborted,tpe)"
	rows := []dtRow{
		{fn: "nestedArchetype.handleResponseValue", key: "aborted-answer-aborts-the-section", why: "a refusal of the nested system aborts the outer section, where that is allowed", find: retWith("aborted"),
			bools: []string{"allowAborted", abortedTag}, existsOthers: true, ref: func(a dtAtoms) bool { return a.B("allowAborted") && a.B(abortedTag) }},
		{fn: "nestedArchetype.handleResponseValue", key: "expected-tag-accepted", why: "an answer is accepted exactly when it carries one of the expected tags (and is not a permitted refusal)", find: retWith("nil"),
			bools: []string{"allowAborted", abortedTag, "Equal(expectedTpe,tpe)"}, ref: func(a dtAtoms) bool {
				return !(a.B("allowAborted") && a.B(abortedTag)) && a.B("Equal(expectedTpe,tpe)")
			}},
		{fn: "nestedArchetype.ReadValue", key: "value-only-after-both-checks", occ: true, why: "a value is returned only when the request went through and the answer carried the read ack", find: retWith("nil"),
			bools: []string{"err==nil#1", "err==nil#2"}, ref: func(a dtAtoms) bool { return a.B("err==nil#1") && a.B("err==nil#2") }},
		{fn: "nestedArchetype.WriteValue", key: "answer-checked-iff-request-went-through", why: "the write succeeds only with the write ack", find: callTo("handleResponseValue"),
			bools: []string{"err==nil"}, ref: func(a dtAtoms) bool { return a.B("err==nil") }},
		{fn: "nestedArchetype.PreCommit", key: "answer-checked-iff-request-went-through", why: "the pre-commit verdict is the nested system's answer", find: callTo("handleResponseValue"),
			bools: []string{"err==nil"}, ref: func(a dtAtoms) bool { return a.B("err==nil") }},
		{fn: "nestedArchetype.PreCommit", key: "always-answers", why: "the driver waits for exactly one verdict", find: sendOnField("apiErrCh"), bools: []string{"err==nil"}, ref: func(a dtAtoms) bool { return true }},
		{fn: "nestedArchetype.Commit", key: "done-only-after-both-checks", occ: true, why: "commit completes only with the commit ack", find: sendOnField("apiStructCh"),
			bools: []string{"err==nil#1", "err==nil#2"}, ref: func(a dtAtoms) bool { return a.B("err==nil#1") && a.B("err==nil#2") }},
		{fn: "nestedArchetype.Commit", key: "failure-is-loud", occ: true, why: "a commit that cannot complete must not look completed", find: isPanic,
			bools: []string{"err==nil#1", "err==nil#2"}, ref: func(a dtAtoms) bool { return !a.B("err==nil#1") || !a.B("err==nil#2") }},
	}
	runDecisionRows(c, e, an.PkgResources, "", rows)
	_ = token.NoPos
}

func orInline(s string) string {
	if s == "" {
		return "an inline send"
	}
	return s
}
