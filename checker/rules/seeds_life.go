package rules

func init() {
	const ctx = "distsys/mpcalctx.go"
	seed(Seed{Name: "stop-resends-exit-request", Prop: "C17", Rule: "STOP-ONCE", File: ctx,
		Old: "\t\t\t\tctx.exitRequested = true\n\t\t\t\tctx.requestExit <- struct{}{}", New: "\t\t\t\tctx.requestExit <- struct{}{}", Expect: "send(requestExit)"})
	seed(Seed{Name: "unbuffered-exit-request", Prop: "C17", Rule: "STOP-ONCE", File: ctx,
		Old: "ctx.requestExit = make(chan struct{}, 1)", New: "ctx.requestExit = make(chan struct{})", Expect: "requestExit-capacity"})
	seed(Seed{Name: "run-starts-after-stop", Prop: "C17", Rule: "CLOSE-ONCE", File: ctx,
		Old: "\t\tif ctx.exitRequested {\n\t\t\treturn true\n\t\t}\n", New: "", Expect: "never-starts-after-Stop"})
	seed(Seed{Name: "second-run-allowed", Prop: "C17", Rule: "CLOSE-ONCE", File: ctx,
		Old: "\t\tif ctx.requestExit != nil {\n\t\t\tpanic(fmt.Errorf(\"this context has already been run; you cannot run a context twice\"))\n\t\t}\n", New: "", Expect: "at-most-once"})
	seed(Seed{Name: "stop-closes-unconditionally", Prop: "C17", Rule: "CLOSE-ONCE", File: ctx,
		Old: "\t\t\t\tselect {\n\t\t\t\tcase <-ctx.awaitExit: // do nothing; the archetype has already run and stopped, so this channel is already closed\n\t\t\t\tdefault:\n\t\t\t\t\t// the archetype has not started yet, so preemptively close the waiting channel, as it will now never start.\n\t\t\t\t\tclose(ctx.awaitExit)\n\t\t\t\t}",
		New: "\t\t\t\tclose(ctx.awaitExit)", Expect: "close(awaitExit)"})
	seed(Seed{Name: "stop-does-not-wait", Prop: "C17", Rule: "STOP-WAITS", File: ctx,
		Old: "\t}()\n\t<-ctx.awaitExit\n}", New: "\t}()\n}", Expect: "Stop:waits-for-exit"})
	seed(Seed{Name: "run-never-polls-exit", Prop: "C17", Rule: "EXIT-POLL", File: ctx,
		Old: "\t\tselect {\n\t\tcase <-ctx.requestExit:\n\t\t\treturn nil\n\t\tdefault: // pass\n\t\t}\n", New: "", Expect: "polls-requestExit"})
	seed(Seed{Name: "poll-after-body", Prop: "C17", Rule: "EXIT-POLL", File: ctx,
		Old: "\t\tselect {\n\t\tcase <-ctx.requestExit:\n\t\t\treturn nil\n\t\tdefault: // pass\n\t\t}\n\n\t\tctx.eventState.BeginEvent()",
		New: "\t\tctx.eventState.BeginEvent()", Expect: "Run:"})
	seed(Seed{Name: "cleanup-error-dropped", Prop: "C17", Rule: "CLEANUP-ALL", File: ctx,
		Old: "err = multierr.Append(err, ctx.cleanupResources())", New: "_ = ctx.cleanupResources()", Expect: "calls-cleanupResources"})
	seed(Seed{Name: "cleanup-skips-close", Prop: "C17", Rule: "CLEANUP-ALL", File: ctx,
		Old: "\t\tcerr := res.Close()\n", New: "\t\tvar cerr error\n\t\t_ = res\n", Expect: "closes-every-resource"})
	seed(Seed{Name: "nested-no-exit-report", Prop: "C17", Rule: "NESTED-COUNT", File: "distsys/resources/nestedarch.go",
		Old: "\t\t\tdefer func() {\n\t\t\t\tres.ctxErrCh <- err\n\t\t\t}()\n", New: "", Expect: "reports-exactly-once"})
	seed(Seed{Name: "incmap-close-dirty-only", Prop: "C17", Rule: "RES-FORWARD", File: "distsys/resources/incmap.go",
		Old: "\tfor _, idx := range res.realizedMap.Keys() {\n\t\tr, _ := res.realizedMap.Get(idx)\n\t\tcerr := r.Close()", New: "\tfor _, idx := range res.dirtyElems.Keys() {\n\t\tr, _ := res.dirtyElems.Get(idx)\n\t\tcerr := r.Close()", Expect: "IncMap.Close"})
	seed(Seed{Name: "poll-before-error-dispatch", Prop: "C17", Rule: "EXIT-POLL", File: ctx,
		Old: "\tfor {\n\t\t// all error control flow lives here, reached by \"continue\" from below\n\t\tswitch err {",
		New: "\tfor {\n\t\tselect {\n\t\tcase <-ctx.requestExit:\n\t\t\treturn nil\n\t\tdefault:\n\t\t}\n\t\tswitch err {", Expect: "poll-after-outcome-dispatch"})
	seed(Seed{Name: "nested-close-stops-conditionally", Prop: "C17", Rule: "NESTED-COUNT", File: "distsys/resources/nestedarch.go",
		Old: "\tfor _, nestedCtx := range res.nestedCtxs {\n\t\tgo nestedCtx.Stop()\n\t}\n\n\t// because every goroutine",
		New: "\tselect {\n\tcase <-res.ctxHasStopped:\n\tdefault:\n\t\tfor _, nestedCtx := range res.nestedCtxs {\n\t\t\tgo nestedCtx.Stop()\n\t\t}\n\t}\n\n\t// because every goroutine", Expect: "stops-unconditionally"})
	seed(Seed{Name: "nested-close-collects-first", Prop: "C17", Rule: "NESTED-COUNT", File: "distsys/resources/nestedarch.go",
		Old: "\tfor _, nestedCtx := range res.nestedCtxs {\n\t\tgo nestedCtx.Stop()\n\t}\n\n",
		New: "\tdefer func() {\n\t\tfor _, nestedCtx := range res.nestedCtxs {\n\t\t\tgo nestedCtx.Stop()\n\t\t}\n\t}()\n\n", Expect: "nestedArchetype.Close"})
}
