package rules

import (
	"fmt"
	"go/ast"
	"go/constant"
	"go/token"
	"go/types"
	"sort"

	"pgoverif/checker/an"
	"pgoverif/checker/core"
)

func init() {
	register(&core.Rule{ID: "TPC-VERSION", Props: []string{"C11"}, Floor: 2,
		Doc: "every store to the 2PC version is +1 of its previous value or is preceded by the assertion that the new version is greater: versions only grow",
		Run: runTPCVersion})
	register(&core.Rule{ID: "TPC-RELEASE", Props: []string{"C11"}, Floor: 2,
		Doc: "a proposer that fails after broadcasting its pre-commit rolls it back: in doPreCommit every abort return after the broadcast passes rollback(); Abort rolls back when the section had pre-committed",
		Run: runTPCRelease})
	register(&core.Rule{ID: "TPC-EXHAUST", Props: []string{"C11"}, Floor: 4,
		Doc: "the acceptor handles every TwoPCRequestType (switch arm or earlier test) and every arm assigns the reply",
		Run: runTPCExhaust})
	register(&core.Rule{ID: "RAFT-WIRING", Props: []string{"C08", "C07"}, Floor: 12,
		Doc: "raftkvs bootstrap: each per-server state variable is bound, in all five archetype contexts of a server, to MakeLocalShared() of one LocalSharedManager created outside the per-context closure (optionally wrapped by MakePersistent): the five archetypes of a server act on one copy of the Raft state",
		Run: runRaftWiring})
}

func runTPCVersion(c *core.Ctx) {
	e := EnvOf(c.Prog)
	t := mustType(c, e, an.PkgResources, "TwoPCArchetypeResource")
	if t == nil {
		return
	}
	ver := mustField(c, t, "version")
	if ver == nil {
		return
	}
	n := 0
	for _, fn := range e.Ix.Funcs() {
		if fn.Pkg.Path != an.PkgResources {
			continue
		}
		info := fn.Pkg.Info
		for _, b := range bodiesOf(fn) {
			g := graphOfBody(e, fn.Pkg, fn, b)
			for _, a := range g.FindAtoms(func(a ast.Node) bool {
				switch x := a.(type) {
				case *ast.AssignStmt:
					_, ok := fieldIsAssigned(info, x, ver)
					return ok
				case *ast.IncDecStmt:
					return an.SelectedField(info, x.X) == ver
				}
				return false
			}) {
				n++
				key := fmt.Sprintf("%s:version-store#%d", fn.Name(), n)
				switch x := a.(type) {
				case *ast.IncDecStmt:
					c.Check(x.Tok == token.INC, key, a.Pos(), "version++", "the version is decremented")
					continue
				case *ast.AssignStmt:
					if x.Tok == token.ADD_ASSIGN && len(x.Rhs) == 1 {
						if tv := info.Types[x.Rhs[0]]; tv.Value != nil && tv.Value.ExactString() == "1" {
							c.Ok(key, a.Pos(), "version += 1")
							continue
						}
					}
					rhs, _ := fieldIsAssigned(info, x, ver)
					src := an.ObjOf(info, rhs)
					// preceded by assert(src > res.version, ...)
					okAssert := false
					for _, as := range g.FindAtoms(func(k ast.Node) bool {
						call, ok := k.(*ast.CallExpr)
						if !ok || len(call.Args) == 0 {
							return false
						}
						f := an.CalleeFunc(info, call)
						if f == nil || f.Name() != "assert" {
							return false
						}
						be, ok := an.Unparen(call.Args[0]).(*ast.BinaryExpr)
						return ok && be.Op == token.GTR && src != nil && an.ObjOf(info, be.X) == src && an.SelectedField(info, be.Y) == ver
					}) {
						if g.Dominates(as, a) {
							okAssert = true
						}
					}
					c.Check(okAssert, key, a.Pos(), "the new version was asserted to be greater than the current one",
						"the version is overwritten without asserting that it grows: a replica could install an older version, so two replicas can hold different values for one version")
				}
			}
		}
	}
	if n == 0 {
		c.Lost("version stores", "no store to TwoPCArchetypeResource.version found")
	}
}

func runTPCRelease(c *core.Ctx) {
	e := EnvOf(c.Prog)
	t := mustType(c, e, an.PkgResources, "TwoPCArchetypeResource")
	do := mustMethod(c, e, an.PkgResources, "TwoPCArchetypeResource", "doPreCommit")
	ab := mustMethod(c, e, an.PkgResources, "TwoPCArchetypeResource", "Abort")
	rb := mustMethod(c, e, an.PkgResources, "TwoPCArchetypeResource", "rollback")
	if t == nil || do == nil || ab == nil || rb == nil {
		return
	}
	aborted := e.Ix.LookupVar(an.PkgDistsys, "ErrCriticalSectionAborted")
	{
		g := e.Graph(do)
		info := do.Pkg.Info
		bcs := g.FindAtoms(func(a ast.Node) bool {
			return callsMethodOf(info, a, an.PkgResources, "TwoPCArchetypeResource", "broadcast")
		})
		if len(bcs) != 1 {
			c.Lost("doPreCommit:broadcast", "expected one broadcast call, found %d", len(bcs))
		} else {
			p := g.Search(an.Query{From: bcs[0],
				Target: func(a ast.Node) bool {
					r, ok := a.(*ast.ReturnStmt)
					return ok && len(r.Results) == 1 && selectedOrIdentObj(info, r.Results[0]) == aborted
				},
				Avoid: func(a ast.Node) bool {
					call, ok := a.(*ast.CallExpr)
					return ok && an.CalleeFunc(info, call) == rb.Obj
				}})
			c.Check(!p.Found, "doPreCommit:failed-precommit-rolls-back", do.Pos(), "every abort return after the broadcast passes rollback()",
				"doPreCommit can report failure after broadcasting its pre-commit without calling rollback(): the replicas that accepted it are never released and every later proposer is rejected (livelock)")
		}
	}
	{
		info := ab.Pkg.Info
		csState := mustField(c, t, "criticalSectionState")
		hasPre := c.Prog.Pkg(an.PkgResources).Types.Scope().Lookup("hasPreCommitted")
		ok := false
		// inside the closure passed to inMutex: if state == hasPreCommitted { ... rollback ... }
		for _, b := range bodiesOf(ab) {
			g := graphOfBody(e, ab.Pkg, ab, b)
			conds := g.CondAtoms(func(ex ast.Expr) bool {
				be, isBin := an.Unparen(ex).(*ast.BinaryExpr)
				return isBin && be.Op == token.EQL && an.SelectedField(info, be.X) == csState && an.ObjOf(info, be.Y) == hasPre
			})
			for _, cd := range conds {
				for _, a := range g.FindAtoms(func(a ast.Node) bool {
					found := false
					ast.Inspect(a, func(k ast.Node) bool {
						if sel, isSel := k.(*ast.SelectorExpr); isSel && info.ObjectOf(sel.Sel) == types.Object(rb.Obj) {
							found = true
						}
						return true
					})
					return found
				}) {
					if g.GuardedBy(a, cd, true) {
						ok = true
					}
				}
			}
		}
		c.Check(ok, "Abort:rolls-back-precommitted-section", ab.Pos(), "Abort in state hasPreCommitted rolls the replicas back",
			"Abort does not roll back a section that had already pre-committed: the accepted pre-commit is never released")
	}
}

func runTPCExhaust(c *core.Ctx) {
	e := EnvOf(c.Prog)
	fn := mustMethod(c, e, an.PkgResources, "TwoPCArchetypeResource", "receiveInternal")
	rt := mustType(c, e, an.PkgResources, "TwoPCRequestType")
	if fn == nil || rt == nil {
		return
	}
	info := fn.Pkg.Info
	pk := c.Prog.Pkg(an.PkgResources)
	var consts []types.Object
	for _, name := range pk.Types.Scope().Names() {
		if k, ok := pk.Types.Scope().Lookup(name).(*types.Const); ok && types.Identical(k.Type(), rt) {
			consts = append(consts, k)
		}
	}
	sort.Slice(consts, func(i, j int) bool { return consts[i].Name() < consts[j].Name() })
	handled := map[types.Object]*ast.CaseClause{}
	tested := map[types.Object]bool{}
	ast.Inspect(fn.Body(), func(n ast.Node) bool {
		switch x := n.(type) {
		case *ast.CaseClause:
			for _, ex := range x.List {
				if o := selectedOrIdentObj(info, ex); o != nil {
					handled[o] = x
				}
			}
		case *ast.BinaryExpr:
			if x.Op == token.EQL {
				if o := selectedOrIdentObj(info, x.Y); o != nil {
					tested[o] = true
				}
			}
		}
		return true
	})
	if len(consts) < 4 {
		c.Lost("TwoPCRequestType constants", "expected >= 4 request types, found %d", len(consts))
	}
	for _, k := range consts {
		key := "receiveInternal:handles(" + k.Name() + ")"
		cc := handled[k]
		switch {
		case cc != nil:
			assigns := false
			ast.Inspect(cc, func(n ast.Node) bool {
				if as, ok := n.(*ast.AssignStmt); ok {
					for _, l := range as.Lhs {
						if st, ok := an.Unparen(l).(*ast.StarExpr); ok {
							if id, ok := st.X.(*ast.Ident); ok && id.Name == "reply" {
								assigns = true
							}
						}
					}
				}
				return true
			})
			c.Check(assigns, key, cc.Pos(), "handled and answered", "the arm for "+k.Name()+" does not assign *reply: the proposer reads a zero-valued (rejecting) answer")
		case tested[k]:
			c.Ok(key, fn.Pos(), "handled before the switch")
		default:
			c.Bad(key, fn.Pos(), "request type %s is not handled by the acceptor: the message is silently ignored and its sender waits or misreads the zero reply", k.Name())
		}
	}
}

// ------------------------------------------------------------------ RAFT-WIRING

var raftShared = []string{"state", "currentTerm", "log", "commitIndex", "nextIndex", "matchIndex", "votedFor", "votesResponded", "votesGranted", "leader", "sm", "smDomain"}

func runRaftWiring(c *core.Ctx) {
	e := EnvOf(c.Prog)
	pkgPath := an.ModPrefix + "systems/raftkvs/bootstrap"
	fn := mustFunc(c, e, pkgPath, "newServerCtxs")
	if fn == nil {
		return
	}
	info := fn.Pkg.Info
	// the per-context closure
	var gen *ast.FuncLit
	ast.Inspect(fn.Body(), func(n ast.Node) bool {
		as, ok := n.(*ast.AssignStmt)
		if !ok || len(as.Lhs) != 1 || len(as.Rhs) != 1 {
			return true
		}
		if id, ok := as.Lhs[0].(*ast.Ident); ok && id.Name == "genResources" {
			gen, _ = an.Unparen(as.Rhs[0]).(*ast.FuncLit)
		}
		return true
	})
	if gen == nil {
		c.Lost("newServerCtxs:genResources", "per-context resource closure not found")
		return
	}
	// local closures of newServerCtxs (wrappers a refactoring may introduce), by variable
	localLits := map[types.Object]*ast.FuncLit{}
	ast.Inspect(fn.Body(), func(n ast.Node) bool {
		if as, ok := n.(*ast.AssignStmt); ok && len(as.Lhs) == 1 && len(as.Rhs) == 1 {
			if lit, ok := an.Unparen(as.Rhs[0]).(*ast.FuncLit); ok {
				if o := an.ObjOf(info, as.Lhs[0]); o != nil {
					localLits[o] = lit
				}
			}
		}
		return true
	})
	// a call that creates a fresh manager: NewLocalSharedManager itself, or a local closure whose body is `return <such a call>`
	var makesManager func(call *ast.CallExpr, depth int) bool
	makesManager = func(call *ast.CallExpr, depth int) bool {
		if an.IsFuncNamed(an.CalleeFunc(info, call), an.PkgResources, "NewLocalSharedManager") {
			return true
		}
		if depth > 2 {
			return false
		}
		if id, ok := an.Unparen(call.Fun).(*ast.Ident); ok {
			if lit := localLits[info.ObjectOf(id)]; lit != nil && lit != gen && len(lit.Body.List) == 1 {
				if rs, ok := lit.Body.List[0].(*ast.ReturnStmt); ok && len(rs.Results) == 1 {
					if inner, ok := an.Unparen(rs.Results[0]).(*ast.CallExpr); ok {
						return makesManager(inner, depth+1)
					}
				}
			}
		}
		return false
	}
	// no manager is created inside the closure
	created := false
	ast.Inspect(gen, func(n ast.Node) bool {
		if call, ok := n.(*ast.CallExpr); ok && (an.IsFuncNamed(an.CalleeFunc(info, call), an.PkgResources, "NewLocalSharedManager") || makesManager(call, 0)) {
			created = true
		}
		return true
	})
	c.Check(!created, "genResources:no-manager-per-context", gen.Pos(), "no LocalSharedManager is created per context", "a LocalSharedManager is created inside the per-context closure: each of a server's five archetypes would get its own copy of that state variable")
	// managers created outside
	managers := map[types.Object]bool{}
	ast.Inspect(fn.Body(), func(n ast.Node) bool {
		if n == ast.Node(gen) {
			return false
		}
		if as, ok := n.(*ast.AssignStmt); ok && len(as.Lhs) == 1 && len(as.Rhs) == 1 {
			if call, ok := an.Unparen(as.Rhs[0]).(*ast.CallExpr); ok && makesManager(call, 0) {
				if o := an.ObjOf(info, as.Lhs[0]); o != nil {
					managers[o] = true
				}
			}
		}
		return true
	})
	// definitions of locals inside gen: var -> set of managers it derives from (nil entry = derives from something else)
	var derive func(ex ast.Expr, depth int) (mgr types.Object, ok bool)
	var deriveBound func(ex ast.Expr, bind map[types.Object]ast.Expr, depth int) (types.Object, bool)
	defs := map[types.Object][]ast.Expr{}
	ast.Inspect(gen, func(n ast.Node) bool {
		switch x := n.(type) {
		case *ast.AssignStmt:
			if len(x.Lhs) == len(x.Rhs) {
				for i, l := range x.Lhs {
					if o := an.ObjOf(info, l); o != nil {
						defs[o] = append(defs[o], x.Rhs[i])
					}
				}
			}
		case *ast.ValueSpec:
			for i, nm := range x.Names {
				if i < len(x.Values) {
					defs[info.Defs[nm]] = append(defs[info.Defs[nm]], x.Values[i])
				}
			}
		}
		return true
	})
	deriveBound = func(ex ast.Expr, bind map[types.Object]ast.Expr, depth int) (types.Object, bool) {
		if depth > 6 {
			return nil, false
		}
		ex = an.Unparen(ex)
		switch x := ex.(type) {
		case *ast.Ident:
			if b, ok := bind[info.ObjectOf(x)]; ok {
				return derive(b, depth+1)
			}
		case *ast.CallExpr:
			f := an.CalleeFunc(info, x)
			if an.IsMethodNamed(f, an.PkgResources, "LocalSharedManager", "MakeLocalShared") {
				sel := an.Unparen(x.Fun).(*ast.SelectorExpr)
				if id, ok := an.Unparen(sel.X).(*ast.Ident); ok {
					if b, ok := bind[info.ObjectOf(id)]; ok {
						if o := an.ObjOf(info, b); managers[o] {
							return o, true
						}
						return nil, false
					}
				}
			}
			if an.IsFuncNamed(f, an.PkgResources, "MakePersistent") && len(x.Args) == 3 {
				return deriveBound(x.Args[2], bind, depth+1)
			}
		}
		return derive(ex, depth+1)
	}
	derive = func(ex ast.Expr, depth int) (types.Object, bool) {
		if depth > 5 {
			return nil, false
		}
		ex = an.Unparen(ex)
		switch x := ex.(type) {
		case *ast.CallExpr:
			f := an.CalleeFunc(info, x)
			if an.IsMethodNamed(f, an.PkgResources, "LocalSharedManager", "MakeLocalShared") {
				sel := an.Unparen(x.Fun).(*ast.SelectorExpr)
				if o := an.ObjOf(info, sel.X); managers[o] {
					return o, true
				}
				return nil, false
			}
			if an.IsFuncNamed(f, an.PkgResources, "MakePersistent") && len(x.Args) == 3 {
				return derive(x.Args[2], depth+1)
			}
			// local wrapper closures: toMap(res), persistIfEnabled(name, maker) - every return of the closure must derive
			// from the same manager once its parameters are replaced by the arguments
			if id, ok := an.Unparen(x.Fun).(*ast.Ident); ok {
				if lit := localLits[info.ObjectOf(id)]; lit != nil && lit != gen {
					bind := map[types.Object]ast.Expr{}
					ai := 0
					for _, fld := range lit.Type.Params.List {
						for _, nm := range fld.Names {
							if ai < len(x.Args) {
								bind[info.Defs[nm]] = x.Args[ai]
							}
							ai++
						}
					}
					var m types.Object
					okAll, nret := true, 0
					ast.Inspect(lit.Body, func(k ast.Node) bool {
						if inner, isLit := k.(*ast.FuncLit); isLit && inner != lit {
							return false
						}
						rs, isRet := k.(*ast.ReturnStmt)
						if !isRet || len(rs.Results) != 1 {
							return true
						}
						nret++
						dm, ok := deriveBound(rs.Results[0], bind, depth+1)
						if !ok || dm == nil || (m != nil && dm != m) {
							okAll = false
						}
						m = dm
						return true
					})
					if okAll && nret > 0 && m != nil {
						return m, true
					}
					// the incMap-style wrapper: a closure returning a resource that hands out its argument
					if len(x.Args) == 1 {
						return derive(x.Args[0], depth+1)
					}
					return nil, false
				}
				if _, isVar := info.ObjectOf(id).(*types.Var); isVar && len(x.Args) == 1 {
					return derive(x.Args[0], depth+1)
				}
			}
		case *ast.Ident:
			o := info.ObjectOf(x)
			var m types.Object
			if len(defs[o]) == 0 {
				return nil, false
			}
			for _, d := range defs[o] {
				dm, ok := derive(d, depth+1)
				if !ok || (m != nil && dm != m) {
					return nil, false
				}
				m = dm
			}
			return m, true
		}
		return nil, false
	}
	bound := map[string]types.Object{}
	ast.Inspect(gen, func(n ast.Node) bool {
		call, ok := n.(*ast.CallExpr)
		if !ok || !an.IsFuncNamed(an.CalleeFunc(info, call), an.PkgDistsys, "EnsureArchetypeRefParam") || len(call.Args) != 2 {
			return true
		}
		name, ok := constString(info, call.Args[0])
		if !ok {
			return true
		}
		want := false
		for _, s := range raftShared {
			if s == name {
				want = true
			}
		}
		if !want {
			return true
		}
		m, ok := derive(call.Args[1], 0)
		key := "genResources:" + name
		if !ok || m == nil {
			c.Bad(key, call.Pos(), "the server state variable %s is not bound to MakeLocalShared() of a manager created once per server: the five archetypes of one server (AServer, RequestVote, AppendEntries, AdvanceCommitIndex, BecomeLeader) would not share it - e.g. a per-archetype votedFor lets a server vote for itself and for another candidate in the same term", name)
			return true
		}
		if prev, dup := bound[name]; dup && prev != m {
			c.Bad(key, call.Pos(), "%s is bound twice to different managers", name)
			return true
		}
		// a manager must not serve two different variables
		for other, om := range bound {
			if om == m && other != name {
				c.Bad(key, call.Pos(), "%s and %s are bound to the same LocalSharedManager: two distinct state variables would alias one cell", name, other)
				return true
			}
		}
		bound[name] = m
		c.Ok(key, call.Pos(), "shared through manager %s", m.Name())
		return true
	})
	for _, s := range raftShared {
		if _, ok := bound[s]; !ok {
			found := false
			for _, o := range c.Obs {
				if o.Construct == "genResources:"+s {
					found = true
				}
			}
			if !found {
				c.Bad("genResources:"+s, gen.Pos(), "state variable %s is not bound by the per-context closure at all", s)
			}
		}
	}
	// the closure is what configures all five contexts
	ctxs := 0
	ast.Inspect(fn.Body(), func(n ast.Node) bool {
		if call, ok := n.(*ast.CallExpr); ok && an.IsFuncNamed(an.CalleeFunc(info, call), an.PkgDistsys, "NewMPCalContext") {
			uses := false
			ast.Inspect(call, func(k ast.Node) bool {
				if id, ok := k.(*ast.Ident); ok && id.Name == "genResources" {
					uses = true
				}
				return true
			})
			if uses {
				ctxs++
			}
		}
		return true
	})
	// the five contexts of a server have the ids the spec gives its five process sets: srvId + k*NumServers, k = 0..4
	// (ServerSet, ServerRequestVoteSet, ... are disjoint ranges of width NumServers): monitors, mailboxes and traces key by id
	wantK := map[string]int64{"AServer": 0, "AServerRequestVote": 1, "AServerAppendEntries": 2, "AServerAdvanceCommitIndex": 3, "AServerBecomeLeader": 4}
	var srvParam types.Object
	if sig, ok := fn.Obj.Type().(*types.Signature); ok {
		for i := 0; i < sig.Params().Len(); i++ {
			if sig.Params().At(i).Name() == "srvId" {
				srvParam = sig.Params().At(i)
			}
		}
	}
	isSrvNum := func(ex ast.Expr) bool { // srvId.AsNumber(), possibly through a local
		ex = an.ResolveLocal(info, fn.Body(), ex)
		call, ok := an.Unparen(ex).(*ast.CallExpr)
		if !ok || !an.IsMethodNamed(an.CalleeFunc(info, call), an.PkgTLA, "Value", "AsNumber") {
			return false
		}
		return an.ObjOf(info, an.Unparen(call.Fun).(*ast.SelectorExpr).X) == srvParam
	}
	isNumServers := func(ex ast.Expr) bool { // iface.GetConstant("NumServers")().AsNumber() or c.NumServers, possibly through a local
		ex = an.ResolveLocal(info, fn.Body(), ex)
		found := false
		ast.Inspect(ex, func(k ast.Node) bool {
			if bl, ok := k.(*ast.BasicLit); ok && bl.Value == `"NumServers"` {
				found = true
			}
			if sel, ok := k.(*ast.SelectorExpr); ok && sel.Sel.Name == "NumServers" {
				found = true
			}
			return true
		})
		return found
	}
	paramConst := map[types.Object]constant.Value{}
	var selfK func(ex ast.Expr) (int64, bool)
	selfK = func(ex ast.Expr) (int64, bool) {
		ex = an.ResolveLocal(info, fn.Body(), ex)
		if srvParam != nil && an.ObjOf(info, ex) == srvParam {
			return 0, true
		}
		// a local closure that computes the id from a constant factor: helperSelf(k)
		if cl, isCall := an.Unparen(ex).(*ast.CallExpr); isCall {
			if lit, isLit := an.Unparen(an.ResolveLocal(info, fn.Body(), cl.Fun)).(*ast.FuncLit); isLit && len(lit.Body.List) == 1 {
				if rs, isRet := lit.Body.List[0].(*ast.ReturnStmt); isRet && len(rs.Results) == 1 {
					var ps []types.Object
					for _, fl := range lit.Type.Params.List {
						for _, nm := range fl.Names {
							ps = append(ps, info.Defs[nm])
						}
					}
					if len(ps) == len(cl.Args) {
						for i, p := range ps {
							if tv := info.Types[cl.Args[i]]; tv.Value != nil {
								paramConst[p] = tv.Value
							}
						}
						k, ok := selfK(rs.Results[0])
						for _, p := range ps {
							delete(paramConst, p)
						}
						return k, ok
					}
				}
			}
		}
		call, ok := an.Unparen(ex).(*ast.CallExpr)
		if !ok || !an.IsFuncNamed(an.CalleeFunc(info, call), an.PkgTLA, "MakeNumber") || len(call.Args) != 1 {
			return 0, false
		}
		be, ok := an.Unparen(call.Args[0]).(*ast.BinaryExpr)
		if !ok || be.Op != token.ADD {
			return 0, false
		}
		a, b := be.X, be.Y
		if !isSrvNum(a) {
			a, b = b, a
		}
		if !isSrvNum(a) {
			return 0, false
		}
		if isNumServers(b) {
			return 1, true
		}
		mul, ok := an.Unparen(b).(*ast.BinaryExpr)
		if !ok || mul.Op != token.MUL {
			return 0, false
		}
		kx, nx := mul.X, mul.Y
		if !isNumServers(nx) {
			kx, nx = nx, kx
		}
		if !isNumServers(nx) {
			return 0, false
		}
		tv := info.Types[kx]
		val := tv.Value
		if val == nil {
			if pv, has := paramConst[an.ObjOf(info, kx)]; has {
				val = pv
			}
		}
		if val == nil {
			return 0, false
		}
		v, exact := constant.Int64Val(constant.ToInt(val))
		return v, exact
	}
	ast.Inspect(fn.Body(), func(n ast.Node) bool {
		call, ok := n.(*ast.CallExpr)
		if !ok || !an.IsFuncNamed(an.CalleeFunc(info, call), an.PkgDistsys, "NewMPCalContext") || len(call.Args) < 2 {
			return true
		}
		arch := ""
		if sel, ok := an.Unparen(call.Args[1]).(*ast.SelectorExpr); ok {
			arch = sel.Sel.Name
		}
		want, known := wantK[arch]
		if !known {
			return true
		}
		k, ok := selfK(call.Args[0])
		c.Check(ok && k == want, "newServerCtxs:self-id("+arch+")", call.Pos(), fmt.Sprintf("self = srvId + %d*NumServers, as the spec's process set prescribes", want),
			fmt.Sprintf("the context running %s does not get the id srvId + %d*NumServers the specification gives that process (sets ServerSet, ServerRequestVoteSet, ... are disjoint ranges of width NumServers): two archetypes of one server - or of two servers - share an id, so the monitor, the mailboxes and the trace confuse them", arch, want))
		return true
	})
	c.Check(ctxs >= 5, "newServerCtxs:all-contexts-use-shared-resources", fn.Pos(), fmt.Sprintf("%d contexts are configured through genResources", ctxs), fmt.Sprintf("only %d of the five server contexts are configured through the shared-resource closure", ctxs))
}
