package rules

import (
	"fmt"
	"go/ast"
	"go/constant"
	"go/token"
	"go/types"
	"sort"

	"pgoverif/checker/an"
	"pgoverif/checker/core"
)

func init() {
	register(&core.Rule{ID: "FC-RANGE", Props: []string{"C10"}, Floor: 2,
		Doc: "NextFairnessCounter returns only a value that passed the `>= ceiling -> panic` test, and a new digit is initialised modulo its ceiling",
		Run: runFCRange})
	register(&core.Rule{ID: "FC-BEGIN", Props: []string{"C10"}, Floor: 2,
		Doc: "Run calls BeginCriticalSection(pc) exactly once per attempt, after the .pc read and before Body",
		Run: runFCBegin})
	register(&core.Rule{ID: "FC-CARRY", Props: []string{"C10"}, Floor: 5,
		Doc: "the odometer increment of BeginCriticalSection starts at the deepest digit, visits every digit down to index 0 without early exit, stores each digit back modulo its own ceiling and propagates the carry; a different pc resets the stack; NextFairnessCounter truncates on id/ceiling change",
		Run: runFCCarry})
	register(&core.Rule{ID: "FC-IDS", Props: []string{"C10"}, Floor: 50,
		Doc: "generated code: within one critical section all choice ids are distinct literals; an either-switch over a counter with bound n has exactly the cases 0..n-1; a with-selection uses Len of the same set as bound and is preceded by the empty-set abort",
		Run: runFCIds})
}

func runFCRange(c *core.Ctx) {
	e := EnvOf(c.Prog)
	fn := mustMethod(c, e, an.PkgDistsys, "roundRobinFairnessCounter", "NextFairnessCounter")
	if fn == nil {
		return
	}
	g := e.Graph(fn)
	info := fn.Pkg.Info
	var ceiling types.Object
	if ps := fn.Decl.Type.Params.List; len(ps) >= 2 && len(ps[1].Names) > 0 {
		ceiling = info.Defs[ps[1].Names[0]]
	}
	rets := g.FindAtoms(func(a ast.Node) bool { r, ok := a.(*ast.ReturnStmt); return ok && len(r.Results) == 1 })
	if len(rets) == 0 || ceiling == nil {
		c.Lost("NextFairnessCounter:returns", "no return / ceiling parameter found")
		return
	}
	for i, r := range rets {
		v := an.ObjOf(info, r.(*ast.ReturnStmt).Results[0])
		ok := false
		// the return is reached only on a branch of a condition whose outcome implies count < ceiling, however the
		// comparison is spelled (`count >= ceiling` false, `!(count < ceiling)` false, `ceiling > count` true, ...)
		below := func(ex ast.Expr, val bool) bool {
			be, isBin := an.Unparen(ex).(*ast.BinaryExpr)
			if !isBin || v == nil {
				return false
			}
			x, y, op := an.ObjOf(info, be.X), an.ObjOf(info, be.Y), be.Op
			if x == ceiling && y == v {
				x, y = y, x
				switch op {
				case token.LSS:
					op = token.GTR
				case token.GTR:
					op = token.LSS
				case token.LEQ:
					op = token.GEQ
				case token.GEQ:
					op = token.LEQ
				}
			}
			if x != v || y != ceiling {
				return false
			}
			return (op == token.LSS && val) || (op == token.GEQ && !val)
		}
		for _, cd := range g.CondAtoms(func(ex ast.Expr) bool { return true }) {
			ex, isEx := cd.(ast.Expr)
			if !isEx {
				continue
			}
			for _, outcome := range []bool{true, false} {
				if an.Implies(ex, outcome, below) && g.GuardedBy(r, cd, outcome) {
					ok = true
				}
			}
		}
		c.Check(v != nil && ok, fmt.Sprintf("NextFairnessCounter:return#%d-in-range", i+1), r.Pos(), "the returned count passed `count >= ceiling -> panic`",
			"NextFairnessCounter can return a count that was not checked against the ceiling: an either-switch would take no arm / SelectElement would panic or pick a wrong element")
	}
	// initialiser
	okInit, n := true, 0
	ast.Inspect(fn.Body(), func(m ast.Node) bool {
		kv, ok := m.(*ast.KeyValueExpr)
		if !ok {
			return true
		}
		id, ok := kv.Key.(*ast.Ident)
		if !ok || id.Name != "count" {
			return true
		}
		n++
		be, ok := an.Unparen(an.ResolveLocal(info, fn.Body(), kv.Value)).(*ast.BinaryExpr)
		if !ok || be.Op != token.REM || an.ObjOf(info, be.Y) != ceiling {
			okInit = false
		}
		return true
	})
	c.Check(n > 0 && okInit, "NextFairnessCounter:digit-initialised-modulo-ceiling", fn.Pos(), "a fresh digit starts at <random> % ceiling", "a fresh digit is not initialised modulo its ceiling")
}

func runFCBegin(c *core.Ctx) {
	e := EnvOf(c.Prog)
	fn := mustMethod(c, e, an.PkgDistsys, "MPCalContext", "Run")
	if fn == nil {
		return
	}
	g := e.Graph(fn)
	info := fn.Pkg.Info
	bcs := g.FindAtoms(func(a ast.Node) bool {
		call, ok := a.(*ast.CallExpr)
		if !ok {
			return false
		}
		f := an.CalleeFunc(info, call)
		return f != nil && f.Name() == "BeginCriticalSection"
	})
	reads := g.FindAtoms(func(a ast.Node) bool { return isCallNamed(info, a, an.PkgDistsys, "ArchetypeInterface", "Read") })
	csT := e.Ix.LookupType(an.PkgDistsys, "MPCalCriticalSection")
	bodyFld := an.Field(csT, "Body")
	bodies := g.FindAtoms(func(a ast.Node) bool {
		call, ok := a.(*ast.CallExpr)
		return ok && bodyFld != nil && an.SelectedField(info, call.Fun) == bodyFld
	})
	if len(bcs) != 1 || len(reads) == 0 || len(bodies) != 1 {
		c.Lost("Run:BeginCriticalSection", "expected one BeginCriticalSection, a .pc read and one Body (%d/%d/%d)", len(bcs), len(reads), len(bodies))
		return
	}
	b := bcs[0]
	c.Check(g.Dominates(reads[0], b) && g.Dominates(b, bodies[0]), "Run:oracle-advanced-between-pc-read-and-body", b.Pos(), "after the .pc read, before Body",
		"BeginCriticalSection is not called between the .pc read and Body: the oracle would be advanced for the wrong label or not at all")
	cyc := g.Search(an.Query{From: bodies[0], Target: func(a ast.Node) bool { return a == bodies[0] }, Avoid: func(a ast.Node) bool { return a == b }})
	twice := g.Search(an.Query{From: b, Target: func(a ast.Node) bool { return a == b }, Avoid: func(a ast.Node) bool { return a == bodies[0] }})
	c.Check(!cyc.Found && !twice.Found, "Run:oracle-advanced-once-per-attempt", b.Pos(), "exactly once per attempt", "an attempt can run without (or with two) oracle increments: a combination of choices is repeated or skipped, so an enabled alternative can starve")
	// the argument is the label just read
	call := b.(*ast.CallExpr)
	okArg := false
	if len(call.Args) == 1 {
		obj := an.ObjOf(info, call.Args[0])
		ast.Inspect(fn.Body(), func(m ast.Node) bool {
			if as, ok := m.(*ast.AssignStmt); ok && len(as.Lhs) == 1 && an.ObjOf(info, as.Lhs[0]) == obj && obj != nil {
				if cc, ok := an.Unparen(as.Rhs[0]).(*ast.CallExpr); ok && an.IsMethodNamed(an.CalleeFunc(info, cc), an.PkgTLA, "Value", "AsString") {
					okArg = true
				}
			}
			return true
		})
	}
	c.Check(okArg, "Run:oracle-keyed-by-current-label", b.Pos(), "BeginCriticalSection receives the label read from .pc", "BeginCriticalSection is not given the label read from .pc: counters of different labels would be mixed")
}

func runFCCarry(c *core.Ctx) {
	e := EnvOf(c.Prog)
	t := mustType(c, e, an.PkgDistsys, "roundRobinFairnessCounter")
	fn := mustMethod(c, e, an.PkgDistsys, "roundRobinFairnessCounter", "BeginCriticalSection")
	next := mustMethod(c, e, an.PkgDistsys, "roundRobinFairnessCounter", "NextFairnessCounter")
	if t == nil || fn == nil || next == nil {
		return
	}
	stack, idxF, pcF := mustField(c, t, "counterStack"), mustField(c, t, "counterIdx"), mustField(c, t, "pc")
	if stack == nil || idxF == nil || pcF == nil {
		return
	}
	info := fn.Pkg.Info
	var loop *ast.ForStmt
	ast.Inspect(fn.Body(), func(m ast.Node) bool {
		if fs, ok := m.(*ast.ForStmt); ok && loop == nil {
			loop = fs
		}
		return true
	})
	if loop == nil {
		c.Bad("BeginCriticalSection:increment-loop", fn.Pos(), "no increment loop found")
		return
	}
	// shape of the loop header
	okInit, okCond, okPost := false, false, false
	var idx types.Object
	if as, ok := loop.Init.(*ast.AssignStmt); ok && len(as.Lhs) == 1 && len(as.Rhs) == 1 {
		idx = an.ObjOf(info, as.Lhs[0])
		if be, ok := an.Unparen(as.Rhs[0]).(*ast.BinaryExpr); ok && be.Op == token.SUB {
			if call, ok := an.Unparen(be.X).(*ast.CallExpr); ok && an.IsBuiltin(info, call, "len") {
				if tv := info.Types[be.Y]; tv.Value != nil && tv.Value.ExactString() == "1" {
					okInit = true
				}
			}
		}
	}
	if be, ok := an.Unparen(loop.Cond).(*ast.BinaryExpr); ok && be.Op == token.GEQ && an.ObjOf(info, be.X) == idx {
		if tv := info.Types[be.Y]; tv.Value != nil && tv.Value.ExactString() == "0" {
			okCond = true
		}
	}
	if id, ok := loop.Post.(*ast.IncDecStmt); ok && id.Tok == token.DEC && an.ObjOf(info, id.X) == idx {
		okPost = true
	}
	c.Check(okInit, "BeginCriticalSection:starts-at-deepest-digit", loop.Pos(), "idx := len(stack) - 1", "the increment does not start at the deepest digit: earlier choice points would cycle first and deeper ones could be skipped (the code comment explains why this order matters)")
	c.Check(okCond && okPost, "BeginCriticalSection:visits-every-digit", loop.Pos(), "idx runs down to 0 by steps of 1", "the increment loop does not visit every digit down to index 0: a carry would be lost and some combinations never tried")
	early := false
	ast.Inspect(loop.Body, func(m ast.Node) bool {
		switch x := m.(type) {
		case *ast.BranchStmt:
			if x.Tok == token.BREAK || x.Tok == token.GOTO {
				early = true
			}
		case *ast.ReturnStmt:
			early = true
		}
		return true
	})
	c.Check(!early, "BeginCriticalSection:no-early-exit", loop.Pos(), "the loop body has no break/return", "the increment loop can exit early: a pending carry would be dropped")
	// digit stored back, modulo its own ceiling, carry = count / ceiling
	stored, mod, carryDiv, carryInit, carryAdd, carryReset := false, false, false, false, false, false
	var carry types.Object
	ast.Inspect(fn.Body(), func(m ast.Node) bool {
		switch x := m.(type) {
		case *ast.ValueSpec:
			for i, nm := range x.Names {
				if i < len(x.Values) {
					if tv := info.Types[x.Values[i]]; tv.Value != nil && tv.Value.ExactString() == "1" {
						carry = info.Defs[nm]
						carryInit = true
					}
				}
			}
		case *ast.AssignStmt:
			if len(x.Lhs) != 1 || len(x.Rhs) != 1 {
				return true
			}
			if sel, ok := an.Unparen(x.Lhs[0]).(*ast.SelectorExpr); ok && sel.Sel.Name == "count" {
				loc := an.Unparen(sel.X)
				// `rec := &stack[idx]; rec.count = ...` stores into stack[idx] as well
				if id, isId := loc.(*ast.Ident); isId {
					if d := an.SingleDef(info, fn.Body(), info.ObjectOf(id)); d != nil {
						if u, isAddr := an.Unparen(d).(*ast.UnaryExpr); isAddr && u.Op == token.AND {
							loc = an.Unparen(u.X)
						}
					}
				}
				if ix, ok := loc.(*ast.IndexExpr); ok && an.ObjOf(info, ix.Index) == idx {
					stored = true
				}
			}
			if x.Tok == token.REM_ASSIGN {
				mod = true
			}
			if x.Tok == token.QUO_ASSIGN && carry != nil && an.ObjOf(info, x.Lhs[0]) == carry {
				carryDiv = true
			}
			if be, ok := an.Unparen(x.Rhs[0]).(*ast.BinaryExpr); ok {
				if be.Op == token.REM {
					mod = true
				}
				if be.Op == token.QUO && carry != nil && an.ObjOf(info, x.Lhs[0]) == carry {
					carryDiv = true
				}
				// `count := digit + carry`
				if be.Op == token.ADD && carry != nil && (an.ObjOf(info, be.X) == carry || an.ObjOf(info, be.Y) == carry) {
					carryAdd = true
				}
			}
			if x.Tok == token.ADD_ASSIGN && carry != nil && an.ObjOf(info, x.Rhs[0]) == carry {
				carryAdd = true
			}
			if carry != nil && an.ObjOf(info, x.Lhs[0]) == carry {
				if tv := info.Types[x.Rhs[0]]; tv.Value != nil && tv.Value.ExactString() == "0" {
					carryReset = true
				}
			}
		}
		return true
	})
	c.Check(stored && mod, "BeginCriticalSection:digit-stored-modulo-ceiling", loop.Pos(), "stack[idx].count = count (reduced modulo its ceiling)", "the incremented digit is not stored back modulo its own ceiling")
	c.Check(carryInit && carryAdd && carryDiv && carryReset, "BeginCriticalSection:carry-propagates", loop.Pos(), "carry starts at 1, is added to each digit, reset, and recomputed as count / ceiling on overflow", "the carry is not propagated correctly (initial 1, add, reset, count/ceiling): the odometer would skip or repeat combinations")
	// pc change resets
	g := e.Graph(fn)
	resetOK := false
	for _, cd := range g.CondAtoms(func(ex ast.Expr) bool {
		be, ok := an.Unparen(ex).(*ast.BinaryExpr)
		return ok && be.Op == token.NEQ && (an.SelectedField(info, be.Y) == pcF || an.SelectedField(info, be.X) == pcF)
	}) {
		for _, a := range g.FindAtoms(func(a ast.Node) bool { _, ok := fieldIsAssigned(info, a, stack); return ok }) {
			if g.GuardedBy(a, cd, true) {
				resetOK = true
			}
		}
	}
	c.Check(resetOK, "BeginCriticalSection:new-label-resets", fn.Pos(), "a different pc empties the digit stack", "the digit stack is not reset when the label changes: bounds of another label's choice points would be reused")
	idxReset := false
	ast.Inspect(fn.Body(), func(m ast.Node) bool {
		if rhs, ok := fieldIsAssigned(info, m, idxF); ok && rhs != nil {
			if tv := info.Types[rhs]; tv.Value != nil && tv.Value.ExactString() == "0" {
				idxReset = true
			}
		}
		return true
	})
	c.Check(idxReset, "BeginCriticalSection:rewinds-cursor", fn.Pos(), "counterIdx = 0 at the start of each attempt", "the digit cursor is not rewound at the start of an attempt")
	// NextFairnessCounter truncates on id / ceiling mismatch
	ni := next.Pkg.Info
	ng := e.Graph(next)
	trunc := false
	for _, cd := range ng.CondAtoms(func(ex ast.Expr) bool {
		hasID, hasCeil := false, false
		ast.Inspect(ex, func(m ast.Node) bool {
			if sel, ok := m.(*ast.SelectorExpr); ok {
				switch sel.Sel.Name {
				case "id":
					hasID = true
				case "ceiling":
					hasCeil = true
				}
			}
			return true
		})
		return hasID && hasCeil
	}) {
		for _, a := range ng.FindAtoms(func(a ast.Node) bool {
			rhs, ok := fieldIsAssigned(ni, a, stack)
			if !ok || rhs == nil {
				return false
			}
			_, isSlice := an.Unparen(rhs).(*ast.SliceExpr)
			return isSlice
		}) {
			if ng.GuardedBy(a, cd, true) {
				trunc = true
			}
		}
	}
	c.Check(trunc, "NextFairnessCounter:truncates-on-id-or-bound-change", next.Pos(), "a digit whose id or ceiling changed is dropped together with all deeper digits", "a stored digit is reused although its id or ceiling changed: the count may exceed the new bound or belong to another choice point")
}

func runFCIds(c *core.Ctx) {
	e := EnvOf(c.Prog)
	csT := e.Ix.LookupType(an.PkgDistsys, "MPCalCriticalSection")
	bodyFld := an.Field(csT, "Body")
	if bodyFld == nil {
		c.Lost("MPCalCriticalSection.Body", "field not found")
		return
	}
	sections, points := 0, 0
	for _, pk := range c.Prog.Sorted() {
		info := pk.Info
		for _, f := range pk.Files {
			ast.Inspect(f, func(n ast.Node) bool {
				cl, ok := n.(*ast.CompositeLit)
				if !ok {
					return true
				}
				if nt := an.NamedOf(info.TypeOf(cl)); nt == nil || csT == nil || nt.Obj() != csT.Obj() {
					return true
				}
				var name string
				var body *ast.FuncLit
				for _, el := range cl.Elts {
					kv, ok := el.(*ast.KeyValueExpr)
					if !ok {
						continue
					}
					id, _ := kv.Key.(*ast.Ident)
					if id == nil {
						continue
					}
					switch id.Name {
					case "Name":
						name, _ = constString(info, kv.Value)
					case "Body":
						body, _ = an.Unparen(kv.Value).(*ast.FuncLit)
					}
				}
				if body == nil {
					return true
				}
				sections++
				g := e.GraphOfLit(pk, body)
				ids := map[string]int{}
				var order []string
				ast.Inspect(body, func(m ast.Node) bool {
					call, ok := m.(*ast.CallExpr)
					if !ok || !an.IsMethodNamed(an.CalleeFunc(info, call), an.PkgDistsys, "ArchetypeInterface", "NextFairnessCounter") || len(call.Args) != 2 {
						return true
					}
					points++
					key := fmt.Sprintf("%s/%s", an.ShortPkg(pk.Path), name)
					id, isConst := constString(info, call.Args[0])
					if !isConst {
						c.Bad(key+":non-literal-id", call.Pos(), "the choice id is not a string literal")
						return true
					}
					ids[id]++
					order = append(order, id)
					parent := g.Parent(call)
					switch p := parent.(type) {
					case *ast.SwitchStmt:
						// either: constant bound n, cases exactly 0..n-1
						bound := int64(-1)
						if tv := info.Types[call.Args[1]]; tv.Value != nil {
							bound, _ = constant.Int64Val(constant.ToInt(tv.Value))
						}
						var cases []int64
						hasDefault := false
						for _, st := range p.Body.List {
							cc := st.(*ast.CaseClause)
							if cc.List == nil {
								hasDefault = true
							}
							for _, ex := range cc.List {
								if tv := info.Types[ex]; tv.Value != nil {
									v, _ := constant.Int64Val(constant.ToInt(tv.Value))
									cases = append(cases, v)
								}
							}
						}
						sort.Slice(cases, func(i, j int) bool { return cases[i] < cases[j] })
						ok := bound >= 1 && int64(len(cases)) == bound
						for i, v := range cases {
							if v != int64(i) {
								ok = false
							}
						}
						// a default arm is only acceptable if it panics (generated code has `default: panic(...)`)
						_ = hasDefault
						c.Check(ok, key+":either("+id+")", call.Pos(), fmt.Sprintf("bound %d, cases 0..%d", bound, bound-1),
							fmt.Sprintf("either with bound %d has cases %v: an arm can never be chosen, or a returned choice has no arm", bound, cases))
					default:
						// with: X.SelectElement(counter(id, uint(X.AsSet().Len()))) guarded by the empty-set abort
						outer, isCall := parent.(*ast.CallExpr)
						okSel := false
						var setObj types.Object
						if isCall && an.IsMethodNamed(an.CalleeFunc(info, outer), an.PkgTLA, "Value", "SelectElement") {
							if sel, ok := an.Unparen(outer.Fun).(*ast.SelectorExpr); ok {
								setObj = an.ObjOf(info, sel.X)
							}
							// bound: uint(S.AsSet().Len()) with the same S
							same := false
							ast.Inspect(call.Args[1], func(k ast.Node) bool {
								if cc, ok := k.(*ast.CallExpr); ok && an.IsMethodNamed(an.CalleeFunc(info, cc), an.PkgTLA, "Value", "AsSet") {
									if s2, ok := an.Unparen(cc.Fun).(*ast.SelectorExpr); ok && setObj != nil && an.ObjOf(info, s2.X) == setObj {
										same = true
									}
								}
								return true
							})
							hasLen := false
							ast.Inspect(call.Args[1], func(k ast.Node) bool {
								if cc, ok := k.(*ast.CallExpr); ok {
									if f := an.CalleeFunc(info, cc); f != nil && f.Name() == "Len" {
										hasLen = true
									}
								}
								return true
							})
							okSel = same && hasLen
						}
						if !okSel {
							c.Bad(key+":with("+id+")", call.Pos(), "a with-selection does not use Len() of the very set it selects from as its bound: elements would be unreachable or the selection would panic")
							return true
						}
						// empty-set abort dominates
						guarded := false
						for _, cd := range g.CondAtoms(func(ex ast.Expr) bool {
							be, ok := an.Unparen(ex).(*ast.BinaryExpr)
							if !ok || be.Op != token.EQL {
								return false
							}
							if tv := info.Types[be.Y]; tv.Value == nil || tv.Value.ExactString() != "0" {
								return false
							}
							found := false
							ast.Inspect(be.X, func(k ast.Node) bool {
								if id, ok := k.(*ast.Ident); ok && info.Uses[id] == setObj {
									found = true
								}
								return true
							})
							return found
						}) {
							if g.GuardedBy(call, cd, false) {
								guarded = true
							}
						}
						c.Check(guarded, key+":with("+id+")", call.Pos(), "bound = Len of the same set, after the empty-set abort",
							"a with-selection is not preceded by the empty-set abort: with x \\in {} must disable the step (abort and retry), not panic on a zero ceiling")
					}
					return true
				})
				// every non-deterministic choice of the section asks the oracle: a selection from a set takes its index
				// from NextFairnessCounter, and a tagged switch (the generator emits those only for either) switches on it
				nSel, nSw := 0, 0
				ast.Inspect(body, func(m ast.Node) bool {
					key := fmt.Sprintf("%s/%s", an.ShortPkg(pk.Path), name)
					isOracle := func(ex ast.Expr) bool {
						cc, ok := an.Unparen(ex).(*ast.CallExpr)
						return ok && an.IsMethodNamed(an.CalleeFunc(info, cc), an.PkgDistsys, "ArchetypeInterface", "NextFairnessCounter")
					}
					switch x := m.(type) {
					case *ast.CallExpr:
						if an.IsMethodNamed(an.CalleeFunc(info, x), an.PkgTLA, "Value", "SelectElement") && len(x.Args) == 1 {
							nSel++
							if !isOracle(x.Args[0]) {
								c.Bad(fmt.Sprintf("%s:selection#%d-asks-the-oracle", key, nSel), x.Pos(), "a with-selection picks its element without consulting NextFairnessCounter: the same member is chosen on every retry, so the other (enabled) members are never tried when the section aborts for that one")
							}
						}
					case *ast.SwitchStmt:
						if x.Tag != nil {
							nSw++
							if !isOracle(x.Tag) {
								c.Bad(fmt.Sprintf("%s:either#%d-asks-the-oracle", key, nSw), x.Pos(), "an either is resolved without consulting NextFairnessCounter: the same arm is taken on every retry, so an enabled alternative is starved")
							}
						}
					}
					return true
				})
				for id, n := range ids {
					if n > 1 {
						c.Bad(fmt.Sprintf("%s/%s:duplicate-id(%s)", an.ShortPkg(pk.Path), name, id), body.Pos(), "choice id %q is used %d times in one critical section: the oracle treats them as one digit when their positions coincide, so combinations are skipped", id, n)
					}
				}
				return false
			})
		}
	}
	c.Count("critical sections", sections)
	c.Count("choice points", points)
	if sections < 200 {
		c.Lost("critical-sections", "only %d MPCalCriticalSection literals found (expected >= 200)", sections)
	}
}
