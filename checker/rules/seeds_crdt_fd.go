package rules

func init() {
	const crdt = "distsys/resources/crdt.go"
	const fd = "distsys/resources/fd.go"
	seed(Seed{Name: "merger-skips-snapshot", Prop: "C13", Rule: "CRDT-SNAPSHOT", File: crdt,
		Old: "\t\t\t\tif res.hasOldValue {\n\t\t\t\t\tres.oldValue = res.oldValue.Merge(mergeVal)\n\t\t\t\t}\n", New: "", Expect: "merger"})
	seed(Seed{Name: "armed-at-write-only", Prop: "C13", Rule: "CRDT-ARM", File: crdt,
		Old: "\t\tres.needBroadcastCount = len(res.peerIds)\n", New: "", Expect: "crdt.Commit"})
	seed(Seed{Name: "broadcast-sends-live-value", Prop: "C13", Rule: "CRDT-STABLE", File: crdt,
		Old: "args := ReceiveValueArgs{Value: res.getStableValue()}", New: "args := ReceiveValueArgs{Value: res.value}", Expect: "ReceiveValueArgs"})
	seed(Seed{Name: "stable-value-ignores-section", Prop: "C13", Rule: "CRDT-STABLE", File: crdt,
		Old: "\tif res.hasOldValue {\n\t\treturn res.oldValue\n\t}\n\treturn res.value", New: "\treturn res.value", Expect: "getStableValue"})
	seed(Seed{Name: "reply-not-merged", Prop: "C13", Rule: "CRDT-ENQUEUE", File: crdt,
		Old: "\t\t\t\tres.prepMerge(call.Reply.(*ReceiveValueResp).Value)\n", New: "", Expect: "broadcast:enqueues-reply"})
	seed(Seed{Name: "received-state-dropped", Prop: "C13", Rule: "CRDT-ENQUEUE", File: crdt,
		Old: "\tif args.Value != nil {\n\t\tres.prepMerge(args.Value)\n\t}\n", New: "", Expect: "ReceiveValue"})
	seed(Seed{Name: "crdt-abort-keeps-value", Prop: "C13", Rule: "RES-RESTORE", File: crdt,
		Old: "\t\tres.value = res.oldValue\n\t\tres.hasOldValue = false\n", New: "\t\tres.hasOldValue = false\n", Expect: "crdt.value"})

	seed(Seed{Name: "panic-not-marked-failed", Prop: "C19", Rule: "FD-EXITSTATE", File: fd,
		Old: "\t\t\tm.setState(archetypeID, failed)\n\t\t\terr = fmt.Errorf(", New: "\t\t\terr = fmt.Errorf(", Expect: "panic-marks-failed"})
	seed(Seed{Name: "error-exit-reported-finished", Prop: "C19", Rule: "FD-EXITSTATE", File: fd,
		Old: "\tif err == nil {\n\t\tm.setState(archetypeID, finished)\n\t} else {\n\t\tm.setState(archetypeID, failed)\n\t}", New: "\tm.setState(archetypeID, finished)", Expect: "finished-iff-nil-error"})
	seed(Seed{Name: "alive-set-after-run", Prop: "C19", Rule: "FD-EXITSTATE", File: fd,
		Old: "\tm.setState(archetypeID, alive)\n\terr = ctx.Run()", New: "\terr = ctx.Run()", Expect: "alive-before-Run"})
	seed(Seed{Name: "timeout-keeps-old-state", Prop: "C19", Rule: "FD-FAILBRANCH", File: fd,
		Old: "\t\t} else if timeout {\n\t\t\tres.setState(failed)\n", New: "\t\t} else if timeout {\n", Expect: "mainLoop:"})
	seed(Seed{Name: "dial-error-keeps-old-state", Prop: "C19", Rule: "FD-FAILBRANCH", File: fd,
		Old: "\t\tif err != nil {\n\t\t\tres.setState(failed)\n\t\t\tif oldState != failed {\n\t\t\t\tlog.Printf(\"fd change state: archetype = %v, old state = %v, \"+\n\t\t\t\t\t\"new state = %v. Due to dial error: %v\", res.archetypeID, oldState, failed, err)\n\t\t\t}\n\t\t\tcontinue",
		New: "\t\tif err != nil {\n\t\t\tcontinue", Expect: "mainLoop:"})
	seed(Seed{Name: "no-redial-after-shutdown", Prop: "C19", Rule: "FD-FAILBRANCH", File: fd,
		Old: "\t\t\tif err == rpc.ErrShutdown {\n\t\t\t\tres.reDial = true\n\t\t\t}\n", New: "", Expect: "shutdown-forces-redial"})
	seed(Seed{Name: "finished-reported-alive", Prop: "C19", Rule: "FD-READ", File: fd,
		Old: "\t} else if state == alive {\n\t\treturn tla.ModuleFALSE, nil", New: "\t} else if state == alive || state == finished {\n\t\treturn tla.ModuleFALSE, nil", Expect: "ReadValue:"})
	seed(Seed{Name: "read-waits-for-first-poll", Prop: "C19", Rule: "FD-READ", File: fd,
		Old: "\tif state == uninitialized {\n\t\ttime.Sleep(res.pullInterval)\n", New: "\tif state == uninitialized {\n\t\tfor res.getState() == uninitialized {\n\t\t\ttime.Sleep(res.pullInterval)\n\t\t}\n", Expect: "bounded-delay"})
	seed(Seed{Name: "read-caches-state", Prop: "C19", Rule: "FD-READ", File: fd,
		Old: "\tstate := res.getState()\n\tif state == uninitialized {", New: "\tstate := res.getState()\n\tres.state = state\n\tif state == uninitialized {", Expect: "ReadValue:pure"})
}
