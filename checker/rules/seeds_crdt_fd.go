package rules

func init() {
	const crdt = "distsys/resources/crdt.go"
	const fd = "distsys/resources/fd.go"
	seed(Seed{Name: "merger-skips-snapshot", Prop: "C13", Rule: "CRDT-SNAPSHOT", File: crdt,
		Old: "\t\t\t\tif res.hasOldValue {\n\t\t\t\t\tres.oldValue = res.oldValue.Merge(mergeVal)\n\t\t\t\t}\n", New: "", Expect: "merger"})
	seed(Seed{Name: "armed-at-write-only", Prop: "C13", Rule: "CRDT-ARM", File: crdt,
		Old: "\t\tres.needBroadcastCount = len(res.peerIds)\n", New: "", Expect: "crdt.Commit"})
	seed(Seed{Name: "broadcast-sends-live-value", Prop: "C13", Rule: "CRDT-STABLE", File: crdt,
		Old: "args := ReceiveValueArgs{Value: res.getStableValue()}", New: "args := ReceiveValueArgs{Value: res.value}", Expect: "ReceiveValueArgs"})
	seed(Seed{Name: "stable-value-ignores-section", Prop: "C13", Rule: "CRDT-STABLE", File: crdt,
		Old: "\tif res.hasOldValue {\n\t\treturn res.oldValue\n\t}\n\treturn res.value", New: "\treturn res.value", Expect: "getStableValue"})
	seed(Seed{Name: "reply-not-merged", Prop: "C13", Rule: "CRDT-ENQUEUE", File: crdt,
		Old: "\t\t\t\tres.prepMerge(call.Reply.(*ReceiveValueResp).Value)\n", New: "", Expect: "broadcast:enqueues-reply"})
	seed(Seed{Name: "received-state-dropped", Prop: "C13", Rule: "CRDT-ENQUEUE", File: crdt,
		Old: "\tif args.Value != nil {\n\t\tres.prepMerge(args.Value)\n\t}\n", New: "", Expect: "ReceiveValue"})
	seed(Seed{Name: "crdt-abort-keeps-value", Prop: "C13", Rule: "RES-RESTORE", File: crdt,
		Old: "\t\tres.value = res.oldValue\n\t\tres.hasOldValue = false\n", New: "\t\tres.hasOldValue = false\n", Expect: "crdt.value"})

	seed(Seed{Name: "panic-not-marked-failed", Prop: "C19", Rule: "FD-EXITSTATE", File: fd,
		Old: "\t\t\tm.setState(archetypeID, failed)\n\t\t\terr = fmt.Errorf(", New: "\t\t\terr = fmt.Errorf(", Expect: "panic-marks-failed"})
	seed(Seed{Name: "error-exit-reported-finished", Prop: "C19", Rule: "FD-EXITSTATE", File: fd,
		Old: "\tif err == nil {\n\t\tm.setState(archetypeID, finished)\n\t} else {\n\t\tm.setState(archetypeID, failed)\n\t}", New: "\tm.setState(archetypeID, finished)", Expect: "finished-iff-nil-error"})
	seed(Seed{Name: "alive-set-after-run", Prop: "C19", Rule: "FD-EXITSTATE", File: fd,
		Old: "\tm.setState(archetypeID, alive)\n\terr = ctx.Run()", New: "\terr = ctx.Run()", Expect: "alive-before-Run"})
	seed(Seed{Name: "timeout-keeps-old-state", Prop: "C19", Rule: "FD-FAILBRANCH", File: fd,
		Old: "\t\t} else if timeout {\n\t\t\tres.setState(failed)\n", New: "\t\t} else if timeout {\n", Expect: "mainLoop:"})
	seed(Seed{Name: "dial-error-keeps-old-state", Prop: "C19", Rule: "FD-FAILBRANCH", File: fd,
		Old: "\t\tif err != nil {\n\t\t\tres.setState(failed)\n\t\t\tif oldState != failed {\n\t\t\t\tlog.Printf(\"fd change state: archetype = %v, old state = %v, \"+\n\t\t\t\t\t\"new state = %v. Due to dial error: %v\", res.archetypeID, oldState, failed, err)\n\t\t\t}\n\t\t\tcontinue",
		New: "\t\tif err != nil {\n\t\t\tcontinue", Expect: "mainLoop:"})
	seed(Seed{Name: "no-redial-after-shutdown", Prop: "C19", Rule: "FD-FAILBRANCH", File: fd,
		Old: "\t\t\tif err == rpc.ErrShutdown {\n\t\t\t\tres.reDial = true\n\t\t\t}\n", New: "", Expect: "shutdown-forces-redial"})
	seed(Seed{Name: "finished-reported-alive", Prop: "C19", Rule: "FD-READ", File: fd,
		Old: "\t} else if state == alive {\n\t\treturn tla.ModuleFALSE, nil", New: "\t} else if state == alive || state == finished {\n\t\treturn tla.ModuleFALSE, nil", Expect: "ReadValue:"})
	seed(Seed{Name: "read-waits-for-first-poll", Prop: "C19", Rule: "FD-READ", File: fd,
		Old: "\tif state == uninitialized {\n\t\ttime.Sleep(res.pullInterval)\n", New: "\tif state == uninitialized {\n\t\tfor res.getState() == uninitialized {\n\t\t\ttime.Sleep(res.pullInterval)\n\t\t}\n", Expect: "bounded-delay"})
	seed(Seed{Name: "read-caches-state", Prop: "C19", Rule: "FD-READ", File: fd,
		Old: "\tstate := res.getState()\n\tif state == uninitialized {", New: "\tstate := res.getState()\n\tres.state = state\n\tif state == uninitialized {", Expect: "ReadValue:pure"})
}

func init() {
	seed(Seed{Name: "abort-cancels-owed-broadcast", Prop: "C13", Rule: "CRDT-ARM", File: "distsys/resources/crdt.go",
		Old: "\t\tres.value = res.oldValue\n\t\tres.hasOldValue = false\n", New: "\t\tres.value = res.oldValue\n\t\tres.hasOldValue = false\n\t\tres.needBroadcastCount = 0\n", Expect: "lowers-broadcast-budget"})
	seed(Seed{Name: "lww-remove-needs-add", Prop: "C12", Rule: "MERGE-COMPONENT", File: "distsys/resources/lww.go",
		Old: "\t\t\tselfVal, ok := s.remSet.Get(idTLA)\n", New: "\t\t\tif _, known := s.addSet.Get(idTLA); !known {\n\t\t\t\tcontinue\n\t\t\t}\n\t\t\tselfVal, ok := s.remSet.Get(idTLA)\n", Expect: "component(remSet)"})
	seed(Seed{Name: "gcounter-merge-overwrites", Prop: "C12", Rule: "MERGE-MONO", File: "distsys/resources/gcounter.go",
		Old: "if v, ok := c.Get(id); !ok || v < val {", New: "if v, ok := c.Get(id); !ok || v != val {", Expect: "GCounter.Merge"})
	seed(Seed{Name: "vclock-merge-takes-min", Prop: "C12", Rule: "MERGE-MONO", File: "distsys/tla/vclock.go",
		Old: "if idx1Val > idx2Val {", New: "if idx1Val < idx2Val {", Expect: "VClock.Merge"})
	seed(Seed{Name: "aworset-readd-fresh-clock", Prop: "C12", Rule: "WRITE-INFLATES", File: "distsys/resources/aworset.go",
		Old: "\t\t} else if remVC, remOk := s.remMap.Get(elem); remOk {\n\t\t\ts.addMap = s.addMap.Set(elem, remVC.inc(id))\n\t\t\ts.remMap = s.remMap.Delete(elem)\n\t\t} else {\n\t\t\ts.addMap = s.addMap.Set(elem, MakeVClock().inc(id))\n\t\t}",
		New: "\t\t} else {\n\t\t\ts.addMap = s.addMap.Set(elem, MakeVClock().inc(id))\n\t\t\ts.remMap = s.remMap.Delete(elem)\n\t\t}", Expect: "fresh-clock"})
	seed(Seed{Name: "lww-merge-uses-wall-clock", Prop: "C12", Rule: "MERGE-PURE", File: "distsys/resources/lww.go",
		Old: "\t\t\t\ts.addSet = s.addSet.Set(id, otherTimeStamp)\n\t\t\t\tcontinue", New: "\t\t\t\ts.addSet = s.addSet.Set(id, time.Now())\n\t\t\t\tcontinue", Expect: "LWWSet.Merge"})
	for _, p := range []string{"C01", "C04"} {
		seed(Seed{Name: "return-restores-behind-resource", Prop: p, Rule: "RES-FIELDOWNER", File: "distsys/archetypeinterface.go",
			Old: "\t\thandle := iface.RequireArchetypeResource(name.AsString())\n\t\terr = iface.Write(handle, nil, value)",
			New: "\t\thandle := iface.RequireArchetypeResource(name.AsString())\n\t\tif local, ok := iface.ctx.getResourceByHandle(handle).(*LocalArchetypeResource); ok {\n\t\t\tlocal.value = value\n\t\t\tcontinue\n\t\t}\n\t\terr = iface.Write(handle, nil, value)", Expect: "Return:writes"})
	}
}

func init() {
	const tp = "distsys/resources/twopc.go"
	seed(Seed{Name: "2pc-version-unchecked", Prop: "C11", Rule: "TPC-VERSION", File: tp,
		Old: "\tassert(version > res.version, \"New version is not greater than current version\")\n", New: "", Expect: "acceptNewValue"})
	seed(Seed{Name: "2pc-failed-precommit-not-rolled-back", Prop: "C11", Rule: "TPC-RELEASE", File: tp,
		Old: "\t\tres.leaveMutex(\"PreCommitComplete\", write)\n\t\tres.rollback()\n", New: "\t\tres.leaveMutex(\"PreCommitComplete\", write)\n", Expect: "doPreCommit"})
	seed(Seed{Name: "2pc-abort-keeps-precommit", Prop: "C11", Rule: "TPC-RELEASE", File: tp,
		Old: "\t\t\tres.escapeMutex(\"abort\", write, res.rollback)\n", New: "", Expect: "Abort:rolls-back"})
	seed(Seed{Name: "2pc-abort-unhandled", Prop: "C11", Rule: "TPC-EXHAUST", File: tp,
		Old: "\tcase Abort:\n\t\t*reply = makeAccept()\n\t\tif !arg.Sender.Equal", New: "\tcase Abort + 100:\n\t\t*reply = makeAccept()\n\t\tif !arg.Sender.Equal", Expect: "handles(Abort)"})
	const bs = "systems/raftkvs/bootstrap/server.go"
	seed(Seed{Name: "votedfor-per-archetype", Prop: "C08", Rule: "RAFT-WIRING", File: bs,
		Old: "\t\t\tvotedFor = votedForMaker.MakeLocalShared()\n", New: "\t\t\tvotedFor = resources.NewLocalSharedManager(raftkvs.Nil(iface)).MakeLocalShared()\n", Expect: "genResources"})
	seed(Seed{Name: "log-not-shared", Prop: "C08", Rule: "RAFT-WIRING", File: bs,
		Old: "\t\tlog := logMaker.MakeLocalShared()\n", New: "\t\t_ = logMaker\n\t\tlog := distsys.NewLocalArchetypeResource(tla.MakeTuple())\n", Expect: "genResources:log"})
	seed(Seed{Name: "commitindex-aliases-matchindex", Prop: "C08", Rule: "RAFT-WIRING", File: bs,
		Old: "\t\tcommitIndex := commitIndexMaker.MakeLocalShared()\n", New: "\t\t_ = commitIndexMaker\n\t\tcommitIndex := matchIndexMaker.MakeLocalShared()\n", Expect: "genResources:"})
	seed(Seed{Name: "raft-lock-capacity", Prop: "C08", Rule: "LS-CAP1", File: "distsys/resources/localshared.go",
		Old: "make(chan struct{}, 1)", New: "make(chan struct{}, 5)", Expect: "lockCh-init"})
}

func init() {
	const tp = "distsys/resources/twopc.go"
	seed(Seed{Name: "2pc-any-abort-releases", Prop: "C11", Rule: "TPC-ACCEPTOR", File: tp,
		Old: "if !arg.Sender.Equal(twopc.acceptedPreCommit.Sender) {", New: "if arg.Version < twopc.acceptedPreCommit.Version {", Expect: "abort#1-only-from-owner"})
	seed(Seed{Name: "2pc-catchup-keeps-precommit", Prop: "C11", Rule: "TPC-ACCEPTOR", File: tp,
		Old: "\tif res.twoPCState == acceptedPreCommit && res.acceptedPreCommit.Version <= version {\n\t\tres.setTwoPCState(initial)\n\t}\n", New: "", Expect: "releases-decided-precommit"})
	seed(Seed{Name: "2pc-accept-while-precommitting", Prop: "C11", Rule: "TPC-ACCEPTOR", File: tp,
		Old: "} else if twopc.criticalSectionState.canAcceptPreCommit() && (twopc.twoPCState == initial ||", New: "} else if (twopc.twoPCState == initial ||", Expect: "respects-local-section"})
	seed(Seed{Name: "2pc-new-value-does-not-poison", Prop: "C11", Rule: "TPC-ACCEPTOR", File: tp,
		Old: "\tif res.inCriticalSection() {\n\t\tres.criticalSectionState = acceptedNewValueInCriticalSection\n\t}\n", New: "", Expect: "poisons-section"})
	seed(Seed{Name: "hashmap-get-trusts-hash", Prop: "C05", Rule: "HASHMAP-EQ", File: "distsys/hashmap/hashmap.go",
		Old: "\tfor _, e := range entries {\n\t\tif e.Key.Equal(k) {\n\t\t\treturn e.Value, true\n\t\t}\n\t}", New: "\tfor _, e := range entries {\n\t\treturn e.Value, true\n\t}", Expect: "HashMap.Get"})
	seed(Seed{Name: "hashmap-set-overwrites-collision", Prop: "C05", Rule: "HASHMAP-EQ", File: "distsys/hashmap/hashmap.go",
		Old: "\t\t\tif h.m[hash][i].Key.Equal(k) {\n\t\t\t\th.m[hash][i].Value = v\n\t\t\t\treturn\n\t\t\t}", New: "\t\t\th.m[hash][i].Value = v\n\t\t\treturn", Expect: "HashMap.Set"})
	seed(Seed{Name: "number-equal-type-assertion", Prop: "C05", Rule: "DATA-ENCAPSULATED", File: "distsys/tla/value.go",
		Old: "return other.IsNumber() && v.AsNumber() == other.AsNumber()", New: "o, ok := other.data.(*valueNumber)\n\treturn ok && v.V == o.V", Expect: "valueNumber"})
}
