package rules

import (
	"fmt"
	"go/ast"
	"go/token"
	"go/types"

	"pgoverif/checker/an"
	"pgoverif/checker/core"
)

// ERR-PROPAGATE: in the runtime (package distsys, package resources, and every method of a type
// implementing ArchetypeResource) the error result of a section-time operation — a resource's
// Index/ReadValue/WriteValue, an ArchetypeInterface operation, commit(), a critical-section Body —
// is (1) never dropped: every path from the call to a normal exit or to a reassignment of the
// variable tests it against nil or returns it; (2) on the non-nil branch of that test nothing but a
// return of that error (in Run: the loop-head switch on err) follows — no further section-time
// operation. An abort signal (ErrCriticalSectionAborted) that is swallowed lets a section continue
// after a resource refused, which is exactly the partial effect C01 forbids.

func init() {
	register(&core.Rule{
		ID:    "ERR-PROPAGATE",
		Props: []string{"C01", "C04"},
		Floor: 20,
		Doc:   "runtime: the error of every section-time operation (resource Index/ReadValue/WriteValue, ArchetypeInterface ops, commit, Body) is tested or returned on every path, and its non-nil branch only returns it (no further operation)",
		Run:   runErrPropagate,
	})
}

// errPropExceptions: call sites (function:callee) whose error is legitimately handled otherwise.
var errPropExceptions = map[string]string{}

func runErrPropagate(c *core.Ctx) {
	e := EnvOf(c.Prog)
	iface := resourceIface(c, e)
	aiT := mustType(c, e, an.PkgDistsys, "ArchetypeInterface")
	csT := e.Ix.LookupType(an.PkgDistsys, "MPCalCriticalSection")
	if iface == nil || aiT == nil || csT == nil {
		return
	}
	bodyFld := an.Field(csT, "Body")
	var preFld *types.Var
	if procT := e.Ix.LookupType(an.PkgDistsys, "MPCalProc"); procT != nil {
		preFld = an.Field(procT, "PreAmble")
	}
	errT := types.Universe.Lookup("error").Type()
	lastIsError := func(sig *types.Signature) bool {
		r := sig.Results()
		return r.Len() > 0 && types.Identical(r.At(r.Len()-1).Type(), errT)
	}
	counts := map[string]int{}
	for _, fn := range e.Ix.Funcs() {
		inScope := fn.Pkg.Path == an.PkgDistsys || fn.Pkg.Path == an.PkgResources
		if !inScope {
			if r := an.RecvNamed(fn.Obj); r != nil && (implementsRes(r, iface) || implementsRes(types.NewPointer(r), iface)) {
				inScope = true
			}
		}
		if !inScope {
			continue
		}
		info := fn.Pkg.Info
		for _, b := range bodiesOf(fn) {
			g := graphOfBody(e, fn.Pkg, fn, b)
			// result objects of this body (named results)
			var ftype *ast.FuncType
			if b.lit != nil {
				ftype = b.lit.Type
			} else {
				ftype = fn.Decl.Type
			}
			named := map[types.Object]bool{}
			if ftype.Results != nil {
				for _, fl := range ftype.Results.List {
					for _, nm := range fl.Names {
						if o := info.Defs[nm]; o != nil {
							named[o] = true
						}
					}
				}
			}
			sources := g.FindAtoms(func(a ast.Node) bool {
				call, ok := a.(*ast.CallExpr)
				if !ok {
					return false
				}
				if name, _, ok := lifecycleCall(info, call, iface); ok {
					return name == "Index" || name == "ReadValue" || name == "WriteValue"
				}
				if f := an.SelectedField(info, call.Fun); f != nil && (f == bodyFld || (preFld != nil && f == preFld)) {
					return true
				}
				f := an.CalleeFunc(info, call)
				if f == nil {
					return false
				}
				sig, _ := f.Type().(*types.Signature)
				if sig == nil || !lastIsError(sig) {
					return false
				}
				if r := an.RecvNamed(f); r != nil && r.Obj() == aiT.Obj() {
					return true
				}
				return an.IsMethodNamed(f, an.PkgDistsys, "MPCalContext", "commit")
			})
			for _, src := range sources {
				call := src.(*ast.CallExpr)
				callee := "Body"
				if f := an.CalleeFunc(info, call); f != nil {
					callee = f.Name()
				} else if f := an.SelectedField(info, call.Fun); f != nil {
					callee = f.Name()
				}
				base := fn.Name()
				if b.lit != nil {
					base += ".func"
				}
				counts[base+":"+callee]++
				key := fmt.Sprintf("%s:%s#%d", base, callee, counts[base+":"+callee])
				if why, ok := errPropExceptions[base+":"+callee]; ok {
					c.Ok(key, call.Pos(), "exception: "+why)
					continue
				}
				// where does the error go?
				var ev types.Object
				switch p := g.Parent(call).(type) {
				case *ast.ReturnStmt:
					c.Ok(key, call.Pos(), "the result is returned directly")
					continue
				case *ast.AssignStmt:
					if len(p.Rhs) == 1 && p.Rhs[0] == ast.Expr(call) && len(p.Lhs) > 0 {
						if id, ok := p.Lhs[len(p.Lhs)-1].(*ast.Ident); ok && id.Name != "_" {
							ev = an.ObjOf(info, id)
						}
					}
				}
				if ev == nil {
					c.Bad(key, call.Pos(), "the error result of %s is discarded: a refusal (ErrCriticalSectionAborted) or failure of the operation would go unnoticed and the section would continue", callee)
					continue
				}
				// nilTest: a is a block-ending condition `e != nil` / `e == nil`, possibly under parentheses and negations;
				// nonNil tells which outcome of the whole condition means "e is non-nil"
				nilTest := func(a ast.Node) (isTest, nonNil bool) {
					ex, ok := a.(ast.Expr)
					if !ok || !g.IsCondAtom(a) {
						return false, false
					}
					neg := false
					for {
						ex = an.Unparen(ex)
						u, ok := ex.(*ast.UnaryExpr)
						if !ok || u.Op != token.NOT {
							break
						}
						neg = !neg
						ex = u.X
					}
					be, ok := ex.(*ast.BinaryExpr)
					if !ok || (be.Op != token.NEQ && be.Op != token.EQL) {
						return false, false
					}
					if !((an.ObjOf(info, be.X) == ev && isNilIdent(info, be.Y)) || (an.ObjOf(info, be.Y) == ev && isNilIdent(info, be.X))) {
						return false, false
					}
					return true, (be.Op == token.NEQ) != neg
				}
				isCondOnE := func(a ast.Node) bool { t, _ := nilTest(a); return t }
				// a compound condition mentioning e (e != nil && ...) is not decided
				// a comparison of e with a sentinel (e == ErrDone) is a dispatch on the error, like a switch on it
				sentinelCmp := func(a ast.Node) bool {
					ex, ok := a.(ast.Expr)
					if !ok || !g.IsCondAtom(a) {
						return false
					}
					be, ok := an.Unparen(ex).(*ast.BinaryExpr)
					if !ok || (be.Op != token.EQL && be.Op != token.NEQ) {
						return false
					}
					return (an.ObjOf(info, be.X) == ev && !isNilIdent(info, be.Y)) || (an.ObjOf(info, be.Y) == ev && !isNilIdent(info, be.X))
				}
				compound := false
				for _, b2 := range g.CFG.Blocks {
					if cd, _ := g.Cond(b2); cd != nil && !isCondOnE(cd) && !sentinelCmp(cd) {
						ast.Inspect(cd, func(m ast.Node) bool {
							if id, ok := m.(*ast.Ident); ok && info.Uses[id] == ev {
								compound = true
							}
							return true
						})
					}
				}
				if compound {
					c.Undecided(key, call.Pos(), "the error is tested inside a compound condition; shape not recognised")
					continue
				}
				returnsE := func(a ast.Node) bool {
					rs, ok := a.(*ast.ReturnStmt)
					if !ok {
						return false
					}
					if len(rs.Results) == 0 {
						return named[ev]
					}
					for _, r := range rs.Results {
						if an.ObjOf(info, r) == ev {
							return true
						}
						// wrapped / merged: the error is an argument of the returned expression
						found := false
						ast.Inspect(r, func(m ast.Node) bool {
							if id, ok := m.(*ast.Ident); ok && info.Uses[id] == ev {
								found = true
							}
							return true
						})
						if found {
							return true
						}
					}
					return false
				}
				switchOnE := func(a ast.Node) bool {
					ex, ok := a.(ast.Expr)
					if !ok || an.ObjOf(info, ex) != ev {
						return false
					}
					sw, ok := g.Parent(a).(*ast.SwitchStmt)
					return ok && sw.Tag == ex
				}
				reassignsE := func(a ast.Node) bool {
					as, ok := a.(*ast.AssignStmt)
					if !ok || as == g.Parent(call) {
						return false
					}
					for _, l := range as.Lhs {
						if an.ObjOf(info, l) == ev {
							return true
						}
					}
					return false
				}
				dispatchOnE := func(a ast.Node) bool { return switchOnE(a) || sentinelCmp(a) }
				settles := func(a ast.Node) bool { return isCondOnE(a) || returnsE(a) || dispatchOnE(a) }
				// (1) never dropped
				p := g.Search(an.Query{From: call, ToExit: true, Target: reassignsE, Avoid: settles})
				if p.Found {
					what := "Run/the function can return"
					if p.Target != nil {
						what = "the variable is overwritten at " + c.Prog.Rel(p.Target.Pos())
					}
					c.Bad(key, call.Pos(), "the error of %s is not examined on every path: %s without testing or returning it", callee, what)
					continue
				}
				// (2) the non-nil branch of each first test only returns it
				bad := ""
				for _, cd := range g.FindAtoms(isCondOnE) {
					// is cd a first test after the call?
					first := g.Search(an.Query{From: call, Target: func(a ast.Node) bool { return a == cd }, Avoid: func(a ast.Node) bool {
						return a != cd && (settles(a) || reassignsE(a))
					}})
					if !first.Found {
						continue
					}
					_, nonNil := nilTest(cd)
					q := g.Search(an.Query{From: cd, Edges: g.Branch(cd, nonNil), ToExit: true,
						Target: func(a ast.Node) bool {
							for _, s2 := range sources {
								if a == s2 {
									return true
								}
							}
							return false
						},
						Avoid: func(a ast.Node) bool { return returnsE(a) || dispatchOnE(a) || a == cd }})
					if q.Found {
						if q.Target != nil {
							bad = "on the non-nil branch of the test at " + c.Prog.Rel(cd.Pos()) + " another operation is reachable (" + c.Prog.Rel(q.Target.Pos()) + ") without returning the error"
						} else {
							bad = "on the non-nil branch of the test at " + c.Prog.Rel(cd.Pos()) + " the function can end without returning the error"
						}
					}
				}
				if bad != "" {
					c.Bad(key, call.Pos(), "the error of %s does not stop the operation: %s", callee, bad)
				} else {
					c.Ok(key, call.Pos(), "tested or returned on every path; the non-nil branch only returns it")
				}
			}
		}
	}
}
