package rules

import (
	"fmt"
	"go/ast"
	"go/token"
	"go/types"

	"golang.org/x/tools/go/cfg"

	"pgoverif/checker/an"
	"pgoverif/checker/core"
)

func init() {
	register(&core.Rule{ID: "FD-EXITSTATE", Props: []string{"C19"}, Floor: 4,
		Doc: "Monitor.RunArchetype marks the archetype alive before Run, finished/failed on every normal exit according to Run's error, and failed on every path of the deferred recover() != nil branch",
		Run: runFDExitState})
	register(&core.Rule{ID: "FD-FAILBRANCH", Props: []string{"C19"}, Floor: 6,
		Doc: "SingleFailureDetector.mainLoop: every poll iteration stores a state; dial error, RPC error and timeout store the constant failed; a reply is stored only without error and timeout; ErrShutdown forces a re-dial; the reply variable and completion channel of a poll are per-iteration",
		Run: runFDFailBranch})
	register(&core.Rule{ID: "FD-READ", Props: []string{"C19"}, Floor: 4,
		Doc: "SingleFailureDetector.ReadValue writes no state, has no loop or channel operation, sleeps at most once for pullInterval, and maps uninitialized->abort, alive->FALSE, every other state->TRUE",
		Run: runFDRead})
}

func runFDExitState(c *core.Ctx) {
	e := EnvOf(c.Prog)
	fn := mustMethod(c, e, an.PkgResources, "Monitor", "RunArchetype")
	if fn == nil {
		return
	}
	pk := fn.Pkg
	info := pk.Info
	g := e.Graph(fn)
	state := func(name string) types.Object { return pk.Types.Scope().Lookup(name) }
	alive, failed, finished := state("alive"), state("failed"), state("finished")
	if alive == nil || failed == nil || finished == nil {
		c.Lost("resources.ArchetypeState constants", "alive/failed/finished not found")
		return
	}
	setStateWith := func(gr *an.Graph, st types.Object) []ast.Node {
		return gr.FindAtoms(func(a ast.Node) bool {
			call, ok := a.(*ast.CallExpr)
			return ok && an.IsMethodNamed(an.CalleeFunc(info, call), an.PkgResources, "Monitor", "setState") && len(call.Args) == 2 && an.ObjOf(info, call.Args[1]) == st
		})
	}
	// a state argument may also be computed by a helper of the package whose every return is a state constant
	// (e.g. exitState(err)): helperReturns lists (constant, the return is reached only when the parameter bound to
	// errVar is nil) for each of its returns
	type helperRet struct {
		st      types.Object
		nilOnly bool
	}
	var errVarObj types.Object
	helperReturns := func(arg ast.Expr) ([]helperRet, bool) {
		call, ok := an.Unparen(arg).(*ast.CallExpr)
		if !ok {
			return nil, false
		}
		h := e.Ix.FuncOf(an.CalleeFunc(info, call))
		if h == nil || h.Pkg != pk || h.Body() == nil {
			return nil, false
		}
		var param types.Object
		if sig, ok := h.Obj.Type().(*types.Signature); ok {
			for i := 0; i < sig.Params().Len() && i < len(call.Args); i++ {
				if errVarObj != nil && an.ObjOf(info, call.Args[i]) == errVarObj {
					param = sig.Params().At(i)
				}
			}
		}
		hg := e.Graph(h)
		var out []helperRet
		for _, r := range hg.FindAtoms(func(a ast.Node) bool { _, is := a.(*ast.ReturnStmt); return is }) {
			rs := r.(*ast.ReturnStmt)
			if len(rs.Results) != 1 {
				return nil, false
			}
			k, isConst := an.ObjOf(info, rs.Results[0]).(*types.Const)
			if !isConst {
				return nil, false
			}
			nilOnly := false
			if param != nil {
				for _, cd := range hg.CondAtoms(func(ex ast.Expr) bool {
					be, ok := an.Unparen(ex).(*ast.BinaryExpr)
					return ok && (be.Op == token.EQL || be.Op == token.NEQ) && an.ObjOf(info, be.X) == param && isNilIdent(info, be.Y)
				}) {
					be := an.Unparen(cd.(ast.Expr)).(*ast.BinaryExpr)
					if hg.GuardedBy(r, cd, be.Op == token.EQL) {
						nilOnly = true
					}
				}
			}
			out = append(out, helperRet{k, nilOnly})
		}
		return out, len(out) > 0
	}
	// localStates: the state constants assigned to a local variable, with the assigning atoms
	type localState struct {
		st types.Object
		at ast.Node
	}
	localStates := func(o types.Object) ([]localState, bool) {
		v, isVar := o.(*types.Var)
		if !isVar || v.IsField() || v.Pkg() != pk.Types || !(fn.Decl.Pos() <= v.Pos() && v.Pos() < fn.Decl.End()) {
			return nil, false
		}
		var out []localState
		okAll := true
		ast.Inspect(fn.Body(), func(m ast.Node) bool {
			switch x := m.(type) {
			case *ast.AssignStmt:
				for i, l := range x.Lhs {
					if an.ObjOf(info, l) != o {
						continue
					}
					if len(x.Rhs) != len(x.Lhs) {
						okAll = false
						continue
					}
					k, isConst := an.ObjOf(info, x.Rhs[i]).(*types.Const)
					if !isConst {
						okAll = false
						continue
					}
					out = append(out, localState{k, x})
				}
			case *ast.ValueSpec:
				for i, nm := range x.Names {
					if info.Defs[nm] != o {
						continue
					}
					if i >= len(x.Values) {
						okAll = false
						continue
					}
					k, isConst := an.ObjOf(info, x.Values[i]).(*types.Const)
					if !isConst {
						okAll = false
						continue
					}
					out = append(out, localState{k, x})
				}
			}
			return true
		})
		return out, okAll && len(out) > 0
	}
	runs := g.FindAtoms(func(a ast.Node) bool { return callsMethodOf(info, a, an.PkgDistsys, "MPCalContext", "Run") })
	if len(runs) != 1 {
		c.Lost("RunArchetype:Run", "expected one ctx.Run() call, found %d", len(runs))
		return
	}
	run := runs[0]
	okAlive := false
	for _, s := range setStateWith(g, alive) {
		if g.Dominates(s, run) {
			okAlive = true
		}
	}
	c.Check(okAlive, "RunArchetype:alive-before-Run", run.Pos(), "setState(alive) precedes ctx.Run()", "the archetype is not marked alive before it runs: detectors would keep aborting (uninitialized) or report it failed while it runs")
	errVar := namedResult(fn, 0)
	errVarObj = errVar
	// names of Run's error: the named result, the variable Run's result is stored in, and plain copies between them
	errNames := map[types.Object]bool{}
	if errVar != nil {
		errNames[errVar] = true
	}
	if as, ok := g.Parent(run).(*ast.AssignStmt); ok && len(as.Lhs) == 1 {
		if o := an.ObjOf(info, as.Lhs[0]); o != nil {
			errNames[o] = true
		}
	}
	for changed := true; changed; {
		changed = false
		ast.Inspect(fn.Body(), func(m ast.Node) bool {
			if as, ok := m.(*ast.AssignStmt); ok && len(as.Lhs) == 1 && len(as.Rhs) == 1 {
				l, r := an.ObjOf(info, as.Lhs[0]), an.ObjOf(info, as.Rhs[0])
				if l != nil && r != nil && errNames[r] && !errNames[l] {
					if _, isLit := m.(*ast.FuncLit); !isLit {
						errNames[l] = true
						changed = true
					}
				}
			}
			return true
		})
	}
	isErrName := func(x ast.Expr) bool { o := an.ObjOf(info, x); return o != nil && errNames[o] }
	// normal exits
	isFinal := func(a ast.Node) bool {
		call, ok := a.(*ast.CallExpr)
		if !ok || !an.IsMethodNamed(an.CalleeFunc(info, call), an.PkgResources, "Monitor", "setState") || len(call.Args) != 2 {
			return false
		}
		o := an.ObjOf(info, call.Args[1])
		if o == failed || o == finished {
			return true
		}
		// a local that only ever holds final states (`end := failed; if err == nil { end = finished }; setState(id, end)`)
		if vals, ok := localStates(o); ok {
			for _, v := range vals {
				if v.st != failed && v.st != finished {
					return false
				}
			}
			return true
		}
		if rets, ok := helperReturns(call.Args[1]); ok {
			for _, r := range rets {
				if r.st != failed && r.st != finished {
					return false
				}
			}
			return true
		}
		return false
	}
	okExit, _ := g.MustPass(run, isFinal, nil)
	if !okExit {
		// accepted idiom: the error side is handled by a deferred `if err != nil { setState(failed) }`
		// registered before Run; then only the nil-error side must store a final state in the body
		deferredFailed := false
		for _, a := range g.FindAtoms(func(a ast.Node) bool { _, ok := a.(*ast.DeferStmt); return ok }) {
			lit, ok := an.Unparen(a.(*ast.DeferStmt).Call.Fun).(*ast.FuncLit)
			if !ok || !g.Dominates(a, run) {
				continue
			}
			lg := e.GraphOfLit(pk, lit)
			for _, cd := range lg.CondAtoms(func(ex ast.Expr) bool { return isNeqNil(info, ex, errVar) }) {
				for _, s := range setStateWith(lg, failed) {
					if lg.GuardedBy(s, cd, true) {
						// and no path of the true branch avoids it
						deferredFailed = true
					}
				}
			}
		}
		if deferredFailed {
			nilSide := g.Search(an.Query{From: run, ToExit: true, Avoid: isFinal, Edges: func(from *cfg.Block, i int) bool {
				cond, _ := g.Cond(from)
				if cond == nil {
					return true
				}
				if isNeqNil(info, cond, errVar) {
					return i == 1
				}
				if be, ok := an.Unparen(cond).(*ast.BinaryExpr); ok && be.Op == token.EQL && an.ObjOf(info, be.X) == errVar && isNilIdent(info, be.Y) {
					return i == 0
				}
				return true
			}})
			okExit = !nilSide.Found
		}
	}
	c.Check(okExit, "RunArchetype:final-state-on-every-exit", fn.Pos(), "every normal exit after Run stores finished or failed",
		"RunArchetype can return after ctx.Run() without storing finished/failed: the monitor keeps answering 'alive' for an archetype that has ended")
	// finished only if err == nil
	okFin := len(setStateWith(g, finished)) > 0
	for _, s := range setStateWith(g, finished) {
		guarded := false
		for _, cd := range g.CondAtoms(func(ex ast.Expr) bool {
			be, ok := an.Unparen(ex).(*ast.BinaryExpr)
			return ok && (be.Op == token.EQL || be.Op == token.NEQ) && isErrName(be.X) && isNilIdent(info, be.Y)
		}) {
			be := an.Unparen(cd.(ast.Expr)).(*ast.BinaryExpr)
			if g.GuardedBy(s, cd, be.Op == token.EQL) {
				guarded = true
			}
		}
		okFin = okFin && guarded
	}
	// setState(id, local): every assignment of `finished` to the local is under err == nil
	for _, a := range g.FindAtoms(func(a ast.Node) bool {
		call, ok := a.(*ast.CallExpr)
		return ok && an.IsMethodNamed(an.CalleeFunc(info, call), an.PkgResources, "Monitor", "setState") && len(call.Args) == 2
	}) {
		vals, ok := localStates(an.ObjOf(info, a.(*ast.CallExpr).Args[1]))
		if !ok {
			continue
		}
		for _, v := range vals {
			if v.st != finished {
				continue
			}
			at := g.AtomOf(v.at)
			guarded := false
			for _, blk := range g.CFG.Blocks {
				cd, _ := g.Cond(blk)
				if cd == nil || at == nil {
					continue
				}
				if isT, nonNil := nilTestOn(g, info, cd, isErrName); isT && g.GuardedBy(at, cd, !nonNil) {
					guarded = true
				}
			}
			if len(setStateWith(g, finished)) == 0 {
				okFin = true
			}
			okFin = okFin && guarded
		}
	}
	// setState(helper(err)): every `return finished` of the helper is under err == nil (or the call itself is)
	for _, a := range g.FindAtoms(func(a ast.Node) bool {
		call, ok := a.(*ast.CallExpr)
		return ok && an.IsMethodNamed(an.CalleeFunc(info, call), an.PkgResources, "Monitor", "setState") && len(call.Args) == 2
	}) {
		rets, ok := helperReturns(a.(*ast.CallExpr).Args[1])
		if !ok {
			continue
		}
		callGuarded := false
		for _, cd := range g.CondAtoms(func(ex ast.Expr) bool {
			be, ok := an.Unparen(ex).(*ast.BinaryExpr)
			return ok && (be.Op == token.EQL || be.Op == token.NEQ) && isErrName(be.X) && isNilIdent(info, be.Y)
		}) {
			be := an.Unparen(cd.(ast.Expr)).(*ast.BinaryExpr)
			if g.GuardedBy(a, cd, be.Op == token.EQL) {
				callGuarded = true
			}
		}
		for _, r := range rets {
			if r.st == finished {
				if len(setStateWith(g, finished)) == 0 {
					okFin = true
				}
				okFin = okFin && (r.nilOnly || callGuarded)
			}
		}
	}
	c.Check(okFin, "RunArchetype:finished-iff-nil-error", fn.Pos(), "finished is stored only when Run returned nil", "finished is stored although Run returned an error (or never): an archetype that crashed with an error is reported as a normal termination")
	// deferred recover
	var deferLit *ast.FuncLit
	var deferAtom ast.Node
	for _, a := range g.FindAtoms(func(a ast.Node) bool { _, ok := a.(*ast.DeferStmt); return ok }) {
		if lit, ok := an.Unparen(a.(*ast.DeferStmt).Call.Fun).(*ast.FuncLit); ok {
			hasRecover := false
			ast.Inspect(lit, func(m ast.Node) bool {
				if call, ok := m.(*ast.CallExpr); ok && an.IsBuiltin(info, call, "recover") {
					hasRecover = true
				}
				return true
			})
			if hasRecover {
				deferLit, deferAtom = lit, a
			}
		}
	}
	if deferLit == nil || !g.Dominates(deferAtom, run) {
		c.Bad("RunArchetype:recovers-panics", fn.Pos(), "no deferred recover() is registered before ctx.Run(): a panicking archetype takes the process down or stays 'alive'")
		return
	}
	lg := e.GraphOfLit(pk, deferLit)
	conds := lg.CondAtoms(func(ex ast.Expr) bool {
		be, ok := an.Unparen(ex).(*ast.BinaryExpr)
		if !ok || be.Op != token.NEQ || !isNilIdent(info, be.Y) {
			return false
		}
		obj := an.ObjOf(info, be.X)
		if obj == nil {
			return false
		}
		fromRecover := false
		ast.Inspect(deferLit, func(m ast.Node) bool {
			if as, ok := m.(*ast.AssignStmt); ok && len(as.Lhs) == 1 && len(as.Rhs) == 1 && an.ObjOf(info, as.Lhs[0]) == obj {
				if call, ok := an.Unparen(as.Rhs[0]).(*ast.CallExpr); ok && an.IsBuiltin(info, call, "recover") {
					fromRecover = true
				}
			}
			return true
		})
		return fromRecover
	})
	if len(conds) == 0 {
		c.Bad("RunArchetype:panic-marks-failed", deferLit.Pos(), "the deferred function does not test recover() != nil")
		return
	}
	okPanic := true
	for _, cd := range conds {
		p, _ := lg.PointOf(cd)
		bypass := lg.Search(an.Query{From: cd, ToExit: true,
			Avoid: func(a ast.Node) bool {
				call, ok := a.(*ast.CallExpr)
				return ok && an.IsMethodNamed(an.CalleeFunc(info, call), an.PkgResources, "Monitor", "setState") && len(call.Args) == 2 && an.ObjOf(info, call.Args[1]) == failed
			},
			Edges: func(from *cfg.Block, i int) bool {
				if int(from.Index) == p.Block {
					return i == 0
				}
				return true
			}})
		if bypass.Found {
			okPanic = false
		}
	}
	c.Check(okPanic, "RunArchetype:panic-marks-failed", deferLit.Pos(), "every path of the recover() != nil branch stores failed",
		"after a recovered panic there is a path that does not store failed: the monitor keeps answering 'alive' for an archetype that died by panic, so no detector ever reports it")
}

func runFDFailBranch(c *core.Ctx) {
	e := EnvOf(c.Prog)
	t := mustType(c, e, an.PkgResources, "SingleFailureDetector")
	fn := mustMethod(c, e, an.PkgResources, "SingleFailureDetector", "mainLoop")
	if t == nil || fn == nil {
		return
	}
	pk := fn.Pkg
	info := pk.Info
	g := e.Graph(fn)
	failed := pk.Types.Scope().Lookup("failed")
	reDial := mustField(c, t, "reDial")
	if failed == nil || reDial == nil {
		c.Lost("failed/reDial", "anchors not found")
		return
	}
	isSet := func(a ast.Node) bool {
		call, ok := a.(*ast.CallExpr)
		return ok && an.IsMethodNamed(an.CalleeFunc(info, call), an.PkgResources, "SingleFailureDetector", "setState")
	}
	dial := g.FindAtoms(func(a ast.Node) bool {
		return callsMethodOf(info, a, an.PkgResources, "SingleFailureDetector", "ensureClient")
	})
	if len(dial) != 1 {
		c.Lost("mainLoop:ensureClient", "expected one ensureClient call, found %d", len(dial))
		return
	}
	cyc := g.Search(an.Query{From: dial[0], Target: func(a ast.Node) bool { return a == dial[0] }, Avoid: isSet})
	c.Check(!cyc.Found, "mainLoop:every-poll-stores-a-state", dial[0].Pos(), "every iteration calls setState", "a poll iteration can complete without storing a state: the detector keeps a stale answer (e.g. alive) although the poll failed")
	// classify setState calls
	var errObjs []types.Object
	ast.Inspect(fn.Body(), func(m ast.Node) bool {
		if as, ok := m.(*ast.AssignStmt); ok {
			for _, l := range as.Lhs {
				if o := an.ObjOf(info, l); o != nil {
					if n, ok := o.Type().(*types.Named); ok && n.Obj().Name() == "error" {
						errObjs = append(errObjs, o)
					}
				}
			}
		}
		return true
	})
	errConds := g.CondAtoms(func(ex ast.Expr) bool {
		for _, o := range errObjs {
			if isNeqNil(info, ex, o) {
				return true
			}
		}
		return false
	})
	var timeoutObj types.Object
	ast.Inspect(fn.Body(), func(m ast.Node) bool {
		if as, ok := m.(*ast.AssignStmt); ok && len(as.Lhs) == 1 && len(as.Rhs) == 1 && isBoolConst(info, as.Rhs[0], true) {
			if o := an.ObjOf(info, as.Lhs[0]); o != nil {
				// assigned true inside a select arm receiving from time.After
				timeoutObj = o
			}
		}
		return true
	})
	timeoutConds := g.CondAtoms(func(ex ast.Expr) bool { return timeoutObj != nil && an.ObjOf(info, ex) == timeoutObj })
	sets := g.FindAtoms(isSet)
	nFailed := 0
	for i, s := range sets {
		call := s.(*ast.CallExpr)
		key := fmt.Sprintf("mainLoop:setState#%d(%s)", i+1, an.ExprString(call.Args[0]))
		if an.ObjOf(info, call.Args[0]) == failed {
			nFailed++
			c.Ok(key, s.Pos(), "stores the constant failed")
			continue
		}
		// a non-constant state: only without error and without timeout
		noErr, noTimeout := false, false
		for _, cd := range errConds {
			if g.GuardedBy(s, cd, false) {
				noErr = true
			}
		}
		for _, cd := range timeoutConds {
			if g.GuardedBy(s, cd, false) {
				noTimeout = true
			}
		}
		if !noTimeout {
			// no flag: the timeout arm of the select (a receive from time.After) leaves the iteration itself - the store
			// is not reachable from inside that arm before the next poll
			ast.Inspect(fn.Body(), func(m ast.Node) bool {
				cc, ok := m.(*ast.CommClause)
				if !ok || cc.Comm == nil {
					return true
				}
				isTimer := false
				ast.Inspect(cc.Comm, func(k ast.Node) bool {
					if call, ok := k.(*ast.CallExpr); ok {
						if f := an.CalleeFunc(info, call); f != nil && f.Pkg() != nil && f.Pkg().Path() == "time" && f.Name() == "After" {
							isTimer = true
						}
					}
					return true
				})
				if !isTimer || len(cc.Body) == 0 || (s.Pos() >= cc.Pos() && s.End() <= cc.End()) {
					return true
				}
				var first ast.Node
				g.AllAtoms(func(a ast.Node) {
					if a.Pos() >= cc.Colon && a.End() <= cc.End() && (first == nil || a.Pos() < first.Pos()) {
						first = a
					}
				})
				if first == nil {
					return true
				}
				p := g.Search(an.Query{From: first, Target: func(a ast.Node) bool { return a == s }, Avoid: func(a ast.Node) bool { return a == dial[0] }})
				if !p.Found {
					noTimeout = true
				}
				return true
			})
		}
		c.Check(noErr && noTimeout, key, s.Pos(), "a reply is stored only when the RPC neither failed nor timed out",
			"a (possibly zero-valued / stale) reply is stored although the RPC failed or timed out: the detector can report a crashed or unreachable archetype as alive, or fall back to uninitialized")
	}
	// each failure successor stores failed: err != nil true edges and the timeout true edge reach a setState(failed) before the next poll
	for i, cd := range append(append([]ast.Node{}, errConds...), timeoutConds...) {
		p, _ := g.PointOf(cd)
		bypass := g.Search(an.Query{From: cd, Target: func(a ast.Node) bool { return a == dial[0] }, ToExit: true,
			Avoid: func(a ast.Node) bool {
				return isSet(a) && an.ObjOf(info, a.(*ast.CallExpr).Args[0]) == failed
			},
			Edges: func(from *cfg.Block, j int) bool {
				if int(from.Index) == p.Block {
					return j == 0
				}
				return true
			}})
		c.Check(!bypass.Found, fmt.Sprintf("mainLoop:failure#%d-stores-failed(%s)", i+1, an.ExprString(cd.(ast.Expr))), cd.Pos(), "this failure branch stores failed",
			"a dial error / RPC error / timeout branch does not store failed: an unreachable or dead monitor is never reported")
	}
	if nFailed < 3 {
		c.Bad("mainLoop:three-failure-kinds", fn.Pos(), "expected the dial-error, RPC-error and timeout branches to store failed (found %d such stores)", nFailed)
	}
	// ErrShutdown -> reDial
	redial := false
	for _, a := range g.FindAtoms(func(a ast.Node) bool {
		rhs, ok := fieldIsAssigned(info, a, reDial)
		return ok && isBoolConst(info, rhs, true)
	}) {
		for _, cd := range g.CondAtoms(func(ex ast.Expr) bool {
			be, ok := an.Unparen(ex).(*ast.BinaryExpr)
			if !ok || be.Op != token.EQL {
				return false
			}
			o := selectedOrIdentObj(info, be.Y)
			return o != nil && o.Name() == "ErrShutdown"
		}) {
			if g.GuardedBy(a, cd, true) {
				redial = true
			}
		}
	}
	// ... and that test is made for every RPC error, whatever the detector believed before: from the error side of the
	// RPC-error test no path reaches the next poll without evaluating it
	for _, cdS := range g.CondAtoms(func(ex ast.Expr) bool {
		be, ok := an.Unparen(ex).(*ast.BinaryExpr)
		if !ok || be.Op != token.EQL {
			return false
		}
		o := selectedOrIdentObj(info, be.Y)
		return o != nil && o.Name() == "ErrShutdown"
	}) {
		errO := an.ObjOf(info, an.Unparen(cdS.(ast.Expr)).(*ast.BinaryExpr).X)
		if errO == nil {
			continue
		}
		for _, blk := range g.CFG.Blocks {
			cdE, _ := g.Cond(blk)
			if cdE == nil {
				continue
			}
			isT, nonNil := nilTestOn(g, info, cdE, func(x ast.Expr) bool { return an.ObjOf(info, x) == errO })
			if !isT || !g.GuardedBy(cdS, cdE, nonNil) {
				continue
			}
			skip := g.Search(an.Query{From: cdE, Edges: g.Branch(cdE, nonNil), Avoid: func(y ast.Node) bool { return y == cdS },
				Target: func(y ast.Node) bool {
					call, ok := y.(*ast.CallExpr)
					return ok && an.IsMethodNamed(an.CalleeFunc(info, call), an.PkgResources, "SingleFailureDetector", "ensureClient")
				}})
			if skip.Found {
				redial = false
				c.Bad("mainLoop:shutdown-tested-for-every-rpc-error", cdS.Pos(), "an RPC error can lead to the next poll without the rpc.ErrShutdown test (it sits under another condition): when the connection is shut down while the detector already believes 'failed', it never re-dials, and a monitor that comes back is reported failed for ever")
			} else {
				c.Ok("mainLoop:shutdown-tested-for-every-rpc-error", cdS.Pos(), "every RPC error is compared with rpc.ErrShutdown")
			}
		}
	}
	c.Check(redial, "mainLoop:shutdown-forces-redial", fn.Pos(), "rpc.ErrShutdown makes the next poll dial again", "after rpc.ErrShutdown the detector never re-dials: a monitor that restarts is reported failed forever")
	// per-iteration reply and completion channel
	var loop *ast.RangeStmt
	ast.Inspect(fn.Body(), func(m ast.Node) bool {
		if rs, ok := m.(*ast.RangeStmt); ok && loop == nil {
			loop = rs
		}
		return true
	})
	if loop != nil {
		ast.Inspect(loop.Body, func(m ast.Node) bool {
			call, ok := m.(*ast.CallExpr)
			if !ok {
				return true
			}
			f := an.CalleeFunc(info, call)
			if f == nil || f.Name() != "Go" || f.Pkg() == nil || f.Pkg().Path() != "net/rpc" || len(call.Args) != 4 {
				return true
			}
			inLoop := func(ex ast.Expr) bool {
				if isNilIdent(info, ex) {
					return true
				}
				var root types.Object
				ast.Inspect(ex, func(k ast.Node) bool {
					if id, ok := k.(*ast.Ident); ok && root == nil {
						if v, ok := info.Uses[id].(*types.Var); ok && !v.IsField() {
							root = v
						}
					}
					return true
				})
				return root != nil && root.Pos() >= loop.Body.Pos() && root.Pos() <= loop.Body.End()
			}
			c.Check(inLoop(call.Args[2]), "mainLoop:reply-per-poll", call.Pos(), "each poll decodes into its own reply variable", "polls share one reply variable: a late reply of an earlier poll can be read as the answer of the current one")
			// every boolean / error local the poll's verdict depends on is the poll's own: a flag declared outside the loop and
			// only ever set (e.g. timeout = true) stays set for all later polls
			stale := ""
			for _, blk := range e.Graph(fn).CFG.Blocks {
				cd, _ := e.Graph(fn).Cond(blk)
				if cd == nil || cd.Pos() < loop.Body.Pos() || cd.Pos() > loop.Body.End() {
					continue
				}
				ast.Inspect(cd, func(k ast.Node) bool {
					id, ok := k.(*ast.Ident)
					if !ok {
						return true
					}
					v, ok := info.Uses[id].(*types.Var)
					if !ok || v.IsField() || v.Pkg() == nil {
						return true
					}
					if v.Parent() == v.Pkg().Scope() {
						return true // package-level (constants of the state enumeration etc.)
					}
					b, isBasic := v.Type().Underlying().(*types.Basic)
					isFlag := isBasic && b.Kind() == types.Bool
					isErr := types.Identical(v.Type(), types.Universe.Lookup("error").Type())
					if !(isFlag || isErr) {
						return true
					}
					if v.Pos() < loop.Body.Pos() || v.Pos() > loop.Body.End() {
						stale = v.Name()
					}
					return true
				})
			}
			c.Check(stale == "", "mainLoop:verdict-inputs-per-poll", call.Pos(), "the flags and errors the verdict tests are declared inside the poll loop",
				"the poll's verdict tests `"+stale+"`, which is declared outside the loop: once set by one poll (a single late reply, a single error) it decides every later poll as well, so the detector never returns to alive")
			c.Check(inLoop(call.Args[3]), "mainLoop:completion-per-poll", call.Pos(), "each poll has its own completion channel (nil => allocated per call)", "polls share one completion channel: a reply arriving after its timeout is taken for the completion of the next poll, whose zero-valued reply is then stored")
			return true
		})
	}
}

func runFDRead(c *core.Ctx) {
	e := EnvOf(c.Prog)
	t := mustType(c, e, an.PkgResources, "SingleFailureDetector")
	fn := mustMethod(c, e, an.PkgResources, "SingleFailureDetector", "ReadValue")
	if t == nil || fn == nil {
		return
	}
	pk := fn.Pkg
	info := pk.Info
	g := e.Graph(fn)
	es := e.Fx.Of(fn)
	var written []string
	for f := range es.Writes {
		if f.IsField() {
			written = append(written, e.Ix.FieldKey(f))
		}
	}
	c.Check(len(written) == 0, "ReadValue:pure", fn.Pos(), "ReadValue and its callees write no field", fmt.Sprintf("ReadValue writes %v: reading the detector changes what it reports", written))
	loops, chans, sleeps, badSleep := 0, 0, 0, false
	pull := an.Field(t, "pullInterval")
	ast.Inspect(fn.Body(), func(m ast.Node) bool {
		switch x := m.(type) {
		case *ast.ForStmt, *ast.RangeStmt:
			loops++
		case *ast.SendStmt, *ast.SelectStmt:
			chans++
		case *ast.UnaryExpr:
			if x.Op == token.ARROW {
				chans++
			}
		case *ast.CallExpr:
			if f := an.CalleeFunc(info, x); f != nil && f.Pkg() != nil && f.Pkg().Path() == "time" && f.Name() == "Sleep" {
				sleeps++
				if len(x.Args) != 1 || an.SelectedField(info, x.Args[0]) != pull {
					badSleep = true
				}
			}
		}
		return true
	})
	c.Check(loops == 0 && chans == 0 && sleeps <= 1 && !badSleep, "ReadValue:bounded-delay", fn.Pos(), "no loop, no channel operation, at most one Sleep(pullInterval)",
		"ReadValue can delay a critical section by more than one polling interval (loop / channel wait / extra or longer sleep)")
	// enumeration
	sc := pk.Types.Scope()
	uninit, alive := sc.Lookup("uninitialized"), sc.Lookup("alive")
	aborted := e.Ix.LookupVar(an.PkgDistsys, "ErrCriticalSectionAborted")
	mTrue, mFalse := e.Ix.LookupVar(an.PkgTLA, "ModuleTRUE"), e.Ix.LookupVar(an.PkgTLA, "ModuleFALSE")
	if uninit == nil || alive == nil || aborted == nil || mTrue == nil || mFalse == nil {
		c.Lost("ReadValue:anchors", "state constants / sentinels not found")
		return
	}
	condOn := func(st types.Object) []ast.Node {
		out := g.CondAtoms(func(ex ast.Expr) bool {
			be, ok := an.Unparen(ex).(*ast.BinaryExpr)
			return ok && be.Op == token.EQL && (an.ObjOf(info, be.Y) == st || an.ObjOf(info, be.X) == st)
		})
		// `switch state { case st: ... }`: the case test is the comparison
		for _, blk := range g.CFG.Blocks {
			if cd, tag := g.Cond(blk); cd != nil && tag != nil && an.ObjOf(info, cd) == st {
				out = append(out, cd)
			}
		}
		return out
	}
	rets := g.FindAtoms(func(a ast.Node) bool { _, ok := a.(*ast.ReturnStmt); return ok })
	okAbort, okFalse, okTrue, other := false, false, false, false
	for _, r := range rets {
		rs := r.(*ast.ReturnStmt)
		if len(rs.Results) != 2 {
			other = true
			continue
		}
		switch {
		case selectedOrIdentObj(info, rs.Results[1]) == aborted:
			for _, cd := range condOn(uninit) {
				if g.GuardedBy(r, cd, true) {
					okAbort = true
				}
			}
		case selectedOrIdentObj(info, rs.Results[0]) == mFalse && isNilIdent(info, rs.Results[1]):
			for _, cd := range condOn(alive) {
				if g.GuardedBy(r, cd, true) {
					okFalse = true
				}
			}
			if !okFalse {
				other = true
			}
		case selectedOrIdentObj(info, rs.Results[0]) == mTrue && isNilIdent(info, rs.Results[1]):
			a1, a2 := false, false
			for _, cd := range condOn(uninit) {
				if g.GuardedBy(r, cd, false) {
					a1 = true
				}
			}
			for _, cd := range condOn(alive) {
				if g.GuardedBy(r, cd, false) {
					a2 = true
				}
			}
			if a1 && a2 {
				okTrue = true
			} else {
				other = true
			}
		default:
			other = true
		}
	}
	c.Check(okAbort, "ReadValue:uninitialized-aborts", fn.Pos(), "uninitialized -> ErrCriticalSectionAborted", "ReadValue does not abort while the detector is uninitialized: it would report alive/failed before the first poll")
	c.Check(okFalse, "ReadValue:alive-is-FALSE", fn.Pos(), "alive -> FALSE", "ReadValue does not report FALSE exactly for state alive")
	c.Check(okTrue && !other, "ReadValue:everything-else-is-TRUE", fn.Pos(), "every other state (failed, finished, unknown, future ones) -> TRUE", "some state other than uninitialized/alive is not reported as failed (TRUE), or FALSE/TRUE is returned on an unexpected branch: completeness is lost for that state")
}
